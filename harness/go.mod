module github.com/sergeii/swat4master/verifharness

go 1.23.0

require github.com/sergeii/swat4master v0.0.0

require (
	github.com/beorn7/perks v1.0.1 // indirect
	github.com/cespare/xxhash/v2 v2.3.0 // indirect
	github.com/gabriel-vasile/mimetype v1.4.8 // indirect
	github.com/go-playground/locales v0.14.1 // indirect
	github.com/go-playground/universal-translator v0.18.1 // indirect
	github.com/go-playground/validator/v10 v10.26.0 // indirect
	github.com/jonboulle/clockwork v0.5.0 // indirect
	github.com/leodido/go-urn v1.4.0 // indirect
	github.com/mattn/go-colorable v0.1.13 // indirect
	github.com/mattn/go-isatty v0.0.20 // indirect
	github.com/munnerz/goautoneg v0.0.0-20191010083416-a7dc8b61c822 // indirect
	github.com/prometheus/client_golang v1.22.0 // indirect
	github.com/prometheus/client_model v0.6.2 // indirect
	github.com/prometheus/common v0.63.0 // indirect
	github.com/prometheus/procfs v0.15.1 // indirect
	github.com/rs/zerolog v1.34.0 // indirect
	golang.org/x/crypto v0.35.0 // indirect
	golang.org/x/net v0.36.0 // indirect
	golang.org/x/sys v0.30.0 // indirect
	golang.org/x/text v0.24.0 // indirect
	google.golang.org/protobuf v1.36.6 // indirect
)

replace github.com/sergeii/swat4master => /repo
