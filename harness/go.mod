module github.com/sergeii/swat4master/verifharness

go 1.23.0

require (
	github.com/alicebob/miniredis/v2 v2.34.0
	github.com/gin-gonic/gin v1.10.0
	github.com/go-playground/validator/v10 v10.26.0
	github.com/jonboulle/clockwork v0.5.0
	github.com/prometheus/client_golang v1.22.0
	github.com/redis/go-redis/v9 v9.7.3
	github.com/rs/zerolog v1.34.0
	github.com/sergeii/swat4master v0.0.0
	go.uber.org/fx v1.23.0
)

require (
	github.com/KyleBanks/depth v1.2.1 // indirect
	github.com/alecthomas/kong v1.8.1 // indirect
	github.com/alicebob/gopher-json v0.0.0-20230218143504-906a9b012302 // indirect
	github.com/beorn7/perks v1.0.1 // indirect
	github.com/cespare/xxhash/v2 v2.3.0 // indirect
	github.com/dgryski/go-rendezvous v0.0.0-20200823014737-9f7001d12a5f // indirect
	github.com/gabriel-vasile/mimetype v1.4.8 // indirect
	github.com/gin-contrib/sse v0.1.0 // indirect
	github.com/go-openapi/jsonpointer v0.21.0 // indirect
	github.com/go-openapi/jsonreference v0.21.0 // indirect
	github.com/go-openapi/spec v0.21.0 // indirect
	github.com/go-openapi/swag v0.23.0 // indirect
	github.com/go-playground/locales v0.14.1 // indirect
	github.com/go-playground/universal-translator v0.18.1 // indirect
	github.com/google/uuid v1.6.0 // indirect
	github.com/gosimple/slug v1.15.0 // indirect
	github.com/gosimple/unidecode v1.0.1 // indirect
	github.com/josharian/intern v1.0.0 // indirect
	github.com/kylelemons/godebug v1.1.0 // indirect
	github.com/leodido/go-urn v1.4.0 // indirect
	github.com/mailru/easyjson v0.7.7 // indirect
	github.com/mattn/go-colorable v0.1.13 // indirect
	github.com/mattn/go-isatty v0.0.20 // indirect
	github.com/munnerz/goautoneg v0.0.0-20191010083416-a7dc8b61c822 // indirect
	github.com/pelletier/go-toml/v2 v2.2.2 // indirect
	github.com/prometheus/client_model v0.6.2 // indirect
	github.com/prometheus/common v0.63.0 // indirect
	github.com/prometheus/procfs v0.15.1 // indirect
	github.com/swaggo/files v1.0.1 // indirect
	github.com/swaggo/gin-swagger v1.6.0 // indirect
	github.com/swaggo/swag v1.16.4 // indirect
	github.com/ugorji/go/codec v1.2.12 // indirect
	github.com/yuin/gopher-lua v1.1.1 // indirect
	go.uber.org/dig v1.18.0 // indirect
	go.uber.org/multierr v1.11.0 // indirect
	go.uber.org/zap v1.27.0 // indirect
	golang.org/x/crypto v0.35.0 // indirect
	golang.org/x/net v0.36.0 // indirect
	golang.org/x/sys v0.30.0 // indirect
	golang.org/x/text v0.24.0 // indirect
	golang.org/x/tools v0.23.0 // indirect
	google.golang.org/protobuf v1.36.6 // indirect
	gopkg.in/yaml.v3 v3.0.1 // indirect
)

replace github.com/sergeii/swat4master => /repo
