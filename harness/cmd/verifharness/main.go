// verifharness: the Go side of the correspondence check.  See internal/core.
package main

import (
	"bufio"
	"flag"
	"fmt"
	"hash/fnv"
	"math/rand"
	"os"
	"strings"

	"github.com/sergeii/swat4master/verifharness/internal/core"
	"github.com/sergeii/swat4master/verifharness/internal/facts"
)

func seedFor(seed int64, id string) int64 {
	h := fnv.New64a()
	h.Write([]byte(id))
	return seed*1000003 + int64(h.Sum64()&0x7fffffff)
}

func main() {
	if len(os.Args) < 2 {
		fmt.Fprintln(os.Stderr, "usage: verifharness gen <prop> [-seed N] [-tier quick|thorough] | exec | list")
		os.Exit(2)
	}
	switch os.Args[1] {
	case "facts":
		fs := flag.NewFlagSet("facts", flag.ExitOnError)
		repo := fs.String("repo", "/repo", "repository root")
		_ = fs.Parse(os.Args[2:])
		w := bufio.NewWriter(os.Stdout)
		if err := facts.Print(w, *repo); err != nil {
			fmt.Fprintln(os.Stderr, err)
			os.Exit(1)
		}
		w.Flush()
	case "list":
		fmt.Println(strings.Join(core.IDs(), " "))
	case "gen":
		fs := flag.NewFlagSet("gen", flag.ExitOnError)
		seed := fs.Int64("seed", 1, "seed")
		tier := fs.String("tier", "quick", "quick|thorough")
		if len(os.Args) < 3 {
			os.Exit(2)
		}
		id := os.Args[2]
		_ = fs.Parse(os.Args[3:])
		p := core.Lookup(id)
		if p == nil || p.Gen == nil {
			fmt.Fprintln(os.Stderr, "unknown property", id)
			os.Exit(2)
		}
		t := core.Quick
		if *tier == "thorough" {
			t = core.Thorough
		}
		w := bufio.NewWriterSize(os.Stdout, 1<<20)
		defer w.Flush()
		rng := rand.New(rand.NewSource(seedFor(*seed, id)))
		p.Gen(rng, t, func(op string, args ...string) {
			fmt.Fprintln(w, id, op, strings.Join(args, " "))
		})
	case "exec":
		sc := bufio.NewScanner(os.Stdin)
		sc.Buffer(make([]byte, 1<<20), 1<<28)
		w := bufio.NewWriterSize(os.Stdout, 1<<20)
		defer w.Flush()
		for sc.Scan() {
			line := strings.TrimSpace(sc.Text())
			if line == "" || strings.HasPrefix(line, "#") {
				continue
			}
			toks := strings.Fields(line)
			if i := indexOf(toks, "=>"); i >= 0 { // tolerate full case lines: re-run the input part
				toks = toks[:i]
			}
			p := core.Lookup(toks[0])
			if p == nil || len(toks) < 2 {
				fmt.Fprintln(w, strings.Join(toks, " "), "=> bad-prop")
				continue
			}
			out := p.Exec(toks[1], toks[2:])
			fmt.Fprintln(w, strings.Join(toks, " "), "=>", strings.Join(out, " "))
			w.Flush()
		}
	default:
		os.Exit(2)
	}
}

func indexOf(xs []string, x string) int {
	for i, v := range xs {
		if v == x {
			return i
		}
	}
	return -1
}
