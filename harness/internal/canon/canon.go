// Package canon renders domain values and the raw Redis keyspace in a canonical, order-defined
// text form that the Lean driver reproduces from the model state.
//
// Value rendering (reflect-based, used for details.Info / Details / Player / Objective):
//
//	string  -> lower-case hex of its bytes, "-" when empty
//	intN    -> decimal
//	bool    -> 0 | 1
//	time    -> UnixNano decimal, "z" for the zero time
//	struct  -> fields in declaration order joined by ":"  (nested struct in "(" … ")")
//	slice   -> "[" elements joined by "/" "]"
package canon

import (
	"encoding/hex"
	"fmt"
	"reflect"
	"strconv"
	"strings"
	"time"
)

func Hex(b []byte) string {
	if len(b) == 0 {
		return "-"
	}
	return hex.EncodeToString(b)
}

func Time(t time.Time) string {
	if t.IsZero() {
		return "z"
	}
	return strconv.FormatInt(t.UnixNano(), 10)
}

var timeType = reflect.TypeOf(time.Time{})

func Value(v reflect.Value) string {
	switch v.Kind() {
	case reflect.String:
		return Hex([]byte(v.String()))
	case reflect.Int, reflect.Int8, reflect.Int16, reflect.Int32, reflect.Int64:
		return strconv.FormatInt(v.Int(), 10)
	case reflect.Uint, reflect.Uint8, reflect.Uint16, reflect.Uint32, reflect.Uint64:
		return strconv.FormatUint(v.Uint(), 10)
	case reflect.Bool:
		if v.Bool() {
			return "1"
		}
		return "0"
	case reflect.Struct:
		if v.Type() == timeType {
			return Time(v.Interface().(time.Time))
		}
		parts := make([]string, 0, v.NumField())
		for i := 0; i < v.NumField(); i++ {
			f := v.Field(i)
			if f.Kind() == reflect.Struct && f.Type() != timeType {
				parts = append(parts, "("+Value(f)+")")
			} else {
				parts = append(parts, Value(f))
			}
		}
		return strings.Join(parts, ":")
	case reflect.Slice, reflect.Array:
		parts := make([]string, v.Len())
		for i := range parts {
			parts[i] = Value(v.Index(i))
		}
		return "[" + strings.Join(parts, "/") + "]"
	case reflect.Ptr, reflect.Interface:
		if v.IsNil() {
			return "nil"
		}
		return Value(v.Elem())
	}
	return fmt.Sprintf("?%s", v.Kind())
}

func Of(x any) string { return Value(reflect.ValueOf(x)) }
