package c14

import (
	"context"
	"errors"
	"fmt"
	"net"
	"strconv"
	"strings"
	"sync/atomic"
	"time"

	"github.com/jonboulle/clockwork"
	"github.com/redis/go-redis/v9"
	"github.com/rs/zerolog"
	"go.uber.org/fx"

	cleanerc "github.com/sergeii/swat4master/cmd/swat4master/components/cleaner"
	"github.com/sergeii/swat4master/internal/core/repositories"
	"github.com/sergeii/swat4master/internal/metrics"
	"github.com/sergeii/swat4master/verifharness/internal/ucops"
	"github.com/sergeii/swat4master/verifharness/internal/world"
)

var errInjected = errors.New("verif: injected storage fault")

// scanFault fails, while armed, the next storage command (or pipeline) that reads the servers' update-time index —
// the first command of the server cleaner's scan.
type scanFault struct{ armed atomic.Int32 }

func touches(cmd redis.Cmder, key string) bool {
	for _, a := range cmd.Args() {
		if s, ok := a.(string); ok && s == key {
			return true
		}
	}
	return false
}

func (h *scanFault) DialHook(next redis.DialHook) redis.DialHook {
	return func(ctx context.Context, network, addr string) (net.Conn, error) { return next(ctx, network, addr) }
}

func (h *scanFault) ProcessHook(next redis.ProcessHook) redis.ProcessHook {
	return func(ctx context.Context, cmd redis.Cmder) error {
		if touches(cmd, "servers:updated") && h.armed.CompareAndSwap(1, 0) {
			cmd.SetErr(errInjected)
			return errInjected
		}
		return next(ctx, cmd)
	}
}

func (h *scanFault) ProcessPipelineHook(next redis.ProcessPipelineHook) redis.ProcessPipelineHook {
	return func(ctx context.Context, cmds []redis.Cmder) error {
		for _, c := range cmds {
			if touches(c, "servers:updated") && !strings.EqualFold(cmds[0].Name(), "multi") && h.armed.CompareAndSwap(1, 0) {
				for _, c2 := range cmds {
					c2.SetErr(errInjected)
				}
				return errInjected
			}
		}
		return next(ctx, cmds)
	}
}

// runCleaner <retention ns> <interval ns> <init> <script>: the REAL cleaner component (cmd/swat4master/components/cleaner:
// its fx module turns the configuration into the two cleaners' options, registers them with the manager and runs the
// ticker loop on the clock) over a planted registry.  script: "tick" / "faulttick" joined by "+": the fake clock
// advances by the interval (the component's ticker fires, the manager starts both cleaners); on a faulttick the server
// cleaner's scan hits one storage error.  The same component instance runs every pass of a case.
func runCleaner(args []string) []string {
	if len(args) != 4 {
		return []string{"bad-op"}
	}
	ret, err1 := strconv.ParseInt(args[0], 10, 64)
	iv, err2 := strconv.ParseInt(args[1], 10, 64)
	if err1 != nil || err2 != nil || iv <= 0 {
		return []string{"bad-op"}
	}
	w := world.New(world.DefaultOptions())
	defer w.Close()
	fault := &scanFault{}
	p := w.NewProcOpts(world.ProcOpts{Hooks: []redis.Hook{fault}})
	if args[2] != "-" {
		for _, it := range strings.Split(args[2], ",") {
			if strings.HasPrefix(it, "adv") {
				ns, _ := strconv.ParseInt(it[3:], 10, 64)
				w.Advance(time.Duration(ns))
				continue
			}
			if r := ucops.Client(it)(p); r == "bad-spec" {
				return []string{"bad-init:" + it}
			}
		}
	}
	app := fx.New(
		fx.NopLogger,
		fx.Supply(cleanerc.Config{CleanRetention: time.Duration(ret), CleanInterval: time.Duration(iv)}),
		fx.Provide(
			func() *zerolog.Logger { return p.Logger },
			func() *metrics.Collector { return p.Metrics },
			func() clockwork.Clock { return w.Clock },
			func() repositories.ServerRepository { return p.Repos.Servers },
			func() repositories.InstanceRepository { return p.Repos.Instances },
		),
		cleanerc.Module,
		fx.Invoke(func(*cleanerc.Component) {}),
	)
	if err := app.Err(); err != nil {
		return []string{"wiring-error:" + strings.ReplaceAll(err.Error(), " ", "_")}
	}
	ctx, cancel := context.WithTimeout(context.Background(), 10*time.Second)
	startErr := app.Start(ctx)
	cancel() // the start context ends when the start is over, as under fx.App.Run: nothing may go on living off it
	if err := startErr; err != nil {
		return []string{"start-error:" + strings.ReplaceAll(err.Error(), " ", "_")}
	}
	defer func() { _ = app.Stop(context.Background()) }()
	wctx, wcancel := context.WithTimeout(context.Background(), 10*time.Second)
	defer wcancel()
	if err := w.Clock.BlockUntilContext(wctx, 1); err != nil { // the component's ticker is registered
		return []string{"infra:ticker"}
	}
	settle := func() string {
		last, since := "", time.Now()
		deadline := time.Now().Add(5 * time.Second)
		for time.Now().Before(deadline) {
			time.Sleep(5 * time.Millisecond)
			d := strings.Join(w.Dump(), ";")
			if d != last {
				last, since = d, time.Now()
				continue
			}
			if time.Since(since) > 120*time.Millisecond && fault.armed.Load() == 0 {
				break
			}
		}
		return last
	}
	var counts []string
	final := ""
	for _, step := range strings.Split(args[3], "+") {
		switch step {
		case "faulttick":
			fault.armed.Store(1)
		case "tick":
		default:
			return []string{"bad-op"}
		}
		w.Advance(time.Duration(iv))
		final = settle()
		n := 0
		for _, l := range strings.Split(final, ";") {
			if strings.HasPrefix(l, "SV,") {
				n++
			}
		}
		counts = append(counts, strconv.Itoa(n))
	}
	if final == "" {
		final = "-"
	}
	return []string{"dump=" + final, "servers=" + strings.Join(counts, ","), fmt.Sprintf("fault-left=%d", fault.armed.Load())}
}
