// Package c14: liveness by the clock and the cleaners.  (seq) histories of report / keepalive / probe /
// clock advance / list / clean executed one after the other through the real use cases and cleaners;
// (race) one cleanup pass interleaved at repository-call granularity with one heartbeat or keepalive.
package c14

import (
	"fmt"
	"math/rand"
	"strings"

	"github.com/sergeii/swat4master/verifharness/internal/core"
	"github.com/sergeii/swat4master/verifharness/internal/ucops"
	"github.com/sergeii/swat4master/verifharness/internal/world"
)

func init() {
	core.Register(&core.Prop{ID: "C14", Gen: gen, Exec: exec})
}

// seq|race <init> <clients> <events>   (see ucops.RunUC; clients prefixed "@" start lazily)
func exec(op string, args []string) []string {
	if op == "cleaner" {
		var out []string
		if txt, ok := core.Guard(func() { out = runCleaner(args) }); !ok {
			return []string{"panic:" + txt}
		}
		return out
	}
	if (op != "seq" && op != "race" && op != "fault") || len(args) != 3 {
		return []string{"bad-op"}
	}
	var out []string
	txt, ok := core.Guard(func() { out = ucops.RunUC(world.DefaultOptions(), args[0], args[1], args[2]) })
	if !ok {
		return []string{"panic:" + txt}
	}
	return out
}

type srv struct {
	addr, ip, id string
}

var servers = []srv{
	{"1.1.1.1:10480", "1.1.1.1", "00000001"}, {"1.1.1.1:10580", "1.1.1.1", "00000002"},
	{"2.2.2.2:10480", "2.2.2.2", "00000003"}, {"3.3.3.3:10480", "3.3.3.3", "00000004"},
}

const sec = int64(1000000000)

func hexs(s string) string { return fmt.Sprintf("%x", s) }

func gen(rng *rand.Rand, tier core.Tier, emit core.Emit) {
	n := 500
	if tier == core.Thorough {
		n = 3000
	}
	// the last two: about 2.5 s and 90.5 s — not whole seconds; multiples of 2^20 ns so that halves and quarters stay exact in float64 scores
	durs := []int64{1 * sec, 10 * sec, 60 * sec, 180 * sec, 600 * sec, 3600 * sec, 7200 * sec, 2384 << 20, 86309 << 20}
	// the real cleaner component over several passes of ONE instance: retention shorter / equal / longer than the interval,
	// servers and instances written at various ages, a pass whose scan hits a storage error followed by healthy ones
	nc := 12
	if tier == core.Thorough {
		nc = 300
	}
	for c := 0; c < nc; c++ {
		ret := durs[rng.Intn(len(durs))]
		iv := durs[rng.Intn(len(durs))]
		var init []string
		for i := 0; i < 1+rng.Intn(4); i++ {
			init = append(init, fmt.Sprintf("report|%s|10481|%s|%s|%d", servers[i].addr, servers[i].id, hexs("s"), i))
			if rng.Intn(2) == 0 {
				init = append(init, fmt.Sprintf("adv%d", []int64{ret / 2, ret, ret + 256, iv, iv / 2, 256}[rng.Intn(6)]))
			}
		}
		var script []string
		for i := 0; i < 1+rng.Intn(3); i++ {
			script = append(script, []string{"tick", "tick", "faulttick"}[rng.Intn(3)])
		}
		if c%2 == 0 {
			script = append([]string{"faulttick"}, append(script, "tick")...) // a faulted pass first, a healthy one last
		}
		emit("cleaner", fmt.Sprint(ret), fmt.Sprint(iv), strings.Join(init, ","), strings.Join(script, "+"))
	}
	// a storage fault during one removal of the pass must not spare the other outdated servers
	for ns := 2; ns <= 4; ns++ {
		var init []string
		for i := 0; i < ns; i++ {
			init = append(init, fmt.Sprintf("report|%s|10481|%s|%s|%d", servers[i].addr, servers[i].id, hexs("old"), i))
		}
		init = append(init, fmt.Sprintf("adv%d", 3601*sec))
		for victim := 0; victim < ns; victim++ {
			for _, k := range []int{0, 1, 3, 4} {
				for _, ev := range []string{"yb", "ya"} {
					pre := "c0," // the scan
					for i := 0; i < victim; i++ {
						pre += "c0,"
					}
					emit("fault", strings.Join(init, ","), fmt.Sprintf("clean|%d", 3600*sec), fmt.Sprintf("%s%s0:%d,e", pre, ev, k))
				}
			}
		}
	}
	for c := 0; c < n; c++ {
		liveness := durs[rng.Intn(len(durs))]
		retention := durs[rng.Intn(len(durs))]
		if rng.Intn(2) == 0 {
			var clients, events []string
			reported := map[int]bool{}
			lastTick := int64(0)
			ln := 3 + rng.Intn(18)
			for i := 0; i < ln; i++ {
				k := rng.Intn(len(servers))
				s := servers[k]
				var cl string
				switch r := rng.Intn(12); {
				case r < 3:
					cl = fmt.Sprintf("report|%s|10481|%s|%s|%d", s.addr, s.id, hexs("srv"), rng.Intn(16))
					reported[k] = true
				case r < 5:
					cl = fmt.Sprintf("renew|%s|%s", s.id, s.ip)
				case r < 6:
					cl = fmt.Sprintf("probe|%s|10481|%d|0|1|%s", s.addr, rng.Intn(2), []string{"fail", "ok:10481:" + hexs("p") + ":3"}[rng.Intn(2)])
				case r < 8:
					cl = fmt.Sprintf("list|%d|2", liveness)
				case r < 9:
					cl = fmt.Sprintf("clean|%d", retention)
				case r < 10:
					cl = fmt.Sprintf("cleanins|%d", retention)
				default:
					// a clock step landing before / at / after a boundary relative to the last step
					base := []int64{liveness, retention}[rng.Intn(2)]
					d := base - lastTick + int64(rng.Intn(3)-1)*256
					if rng.Intn(3) == 0 || d <= 0 {
						d = int64(1+rng.Intn(5000)) * sec / 10
					}
					lastTick = 0
					events = append(events, fmt.Sprintf("t%d", d))
					continue
				}
				events = append(events, fmt.Sprintf("r%d", len(clients)))
				clients = append(clients, "@"+cl)
			}
			// always end with a list and a clean after a boundary-aligned step
			events = append(events, fmt.Sprintf("t%d", liveness+int64(rng.Intn(3)-1)*256), fmt.Sprintf("r%d", len(clients)))
			clients = append(clients, fmt.Sprintf("@list|%d|2", liveness))
			events = append(events, fmt.Sprintf("r%d", len(clients)))
			clients = append(clients, fmt.Sprintf("@clean|%d", retention))
			events = append(events, fmt.Sprintf("r%d", len(clients)))
			clients = append(clients, fmt.Sprintf("@list|%d|2", 7200*sec))
			emit("seq", "-", strings.Join(clients, ","), strings.Join(events, ","))
		} else {
			// race: servers reported long ago (stale by update time), a cleanup pass, one refresh of a stale server
			var init []string
			ns := 1 + rng.Intn(4)
			for i := 0; i < ns; i++ {
				s := servers[i]
				init = append(init, fmt.Sprintf("report|%s|10481|%s|%s|%d", s.addr, s.id, hexs("old"), i))
			}
			past := int64(rng.Intn(3))*256 + int64(rng.Intn(2))*sec
			init = append(init, fmt.Sprintf("adv%d", retention+past))
			victim := servers[rng.Intn(ns)]
			refresher := fmt.Sprintf("report|%s|10481|%s|%s|9", victim.addr, victim.id, hexs("fresh"))
			switch rng.Intn(5) {
			case 0, 1:
				refresher = fmt.Sprintf("renew|%s|%s", victim.id, victim.ip)
			case 2:
				// the refresh of a node whose clock lags (or of an operation that was long in flight): it stores a refresh time a
				// few hundred nanoseconds after the cutoff of the pass (cutoff = start + past): after is after, by whatever margin
				margin := []int64{256, 512, 768, 399872, 999936, -256, 0}[rng.Intn(7)]
				refresher = fmt.Sprintf("call|update!%s/10481/6/9/%d!over", victim.addr, world.Epoch.UnixNano()+past+margin)
			}
			// place the whole refresh after the pass's k-th repository call (filter, remove, remove, …)
			var ev []string
			if rng.Intn(3) == 0 {
				// storage-command placement inside the scan: after the index read, before the record fetch
				ev = append(ev, "s0")
			} else {
				for i := 0; i < rng.Intn(ns+2); i++ {
					ev = append(ev, "c0")
				}
			}
			if rng.Intn(3) == 0 {
				ev = append(ev, fmt.Sprintf("t%d", 256*(1+rng.Intn(4))))
			}
			ev = append(ev, "r1", "r0")
			emit("race", strings.Join(init, ","), fmt.Sprintf("clean|%d,@%s", retention, refresher), strings.Join(ev, ","))
		}
	}
}
