// Package ucops: use-case level clients for the scheduler-driven harnesses (C12–C16): specs of use
// case executions (report, keepalive, removal, probe with a scripted outcome, refresh, revive, REST
// submission, cleaners, prober-runner pop), repository decorators that mark call boundaries in the
// scheduler's trace, and rendering of results.
package ucops

import (
	"github.com/prometheus/client_golang/prometheus/testutil"
	"sync/atomic"
	"bytes"
	"context"
	"encoding/hex"
	"encoding/json"
	"errors"
	"fmt"
	"net"
	"sort"
	"strconv"
	"strings"
	"time"

	"github.com/rs/zerolog"

	"github.com/sergeii/swat4master/cmd/swat4master/components/refresher"
	"github.com/sergeii/swat4master/cmd/swat4master/components/reviver"
	"github.com/sergeii/swat4master/internal/cleanup"
	"github.com/sergeii/swat4master/internal/cleanup/cleaners/instancecleaner"
	"github.com/sergeii/swat4master/internal/cleanup/cleaners/servercleaner"
	"github.com/sergeii/swat4master/internal/core/entities/addr"
	"github.com/sergeii/swat4master/internal/core/entities/details"
	ds "github.com/sergeii/swat4master/internal/core/entities/discovery/status"
	"github.com/sergeii/swat4master/internal/core/entities/filterset"
	"github.com/sergeii/swat4master/internal/core/entities/instance"
	"github.com/sergeii/swat4master/internal/core/entities/probe"
	"github.com/sergeii/swat4master/internal/core/entities/server"
	"github.com/sergeii/swat4master/internal/core/repositories"
	"github.com/sergeii/swat4master/internal/core/usecases/addserver"
	"github.com/sergeii/swat4master/internal/core/usecases/listservers"
	"github.com/sergeii/swat4master/internal/core/usecases/probeserver"
	"github.com/sergeii/swat4master/internal/core/usecases/removeserver"
	"github.com/sergeii/swat4master/internal/core/usecases/renewserver"
	"github.com/sergeii/swat4master/internal/core/usecases/reportserver"
	"github.com/sergeii/swat4master/internal/prober/probers"
	"github.com/sergeii/swat4master/internal/prober/probers/detailsprober"
	"github.com/sergeii/swat4master/internal/prober/probers/portprober"
	"github.com/sergeii/swat4master/pkg/gamespy/browsing/query"
	"github.com/sergeii/swat4master/verifharness/internal/sched"
	"github.com/sergeii/swat4master/verifharness/internal/storeops"
	"github.com/sergeii/swat4master/verifharness/internal/world"
)

// ---------------------------------------------------------------------------- repository decorators

type srvRepo struct {
	world.Repos
	sc *sched.Sched
	id int
}

func (r srvRepo) call(name string) { r.sc.Mark(r.id, "call:"+name) }
func (r srvRepo) ret(name string, err error) {
	if err != nil {
		r.sc.Mark(r.id, "ret:"+name+":err")
	} else {
		r.sc.Mark(r.id, "ret:"+name+":ok")
	}
}

type serversW struct{ srvRepo }
type instancesW struct{ srvRepo }
type probesW struct{ srvRepo }

func (r serversW) Get(ctx context.Context, a addr.Addr) (out server.Server, err error) {
	r.call("get")
	out, err = r.Repos.Servers.Get(ctx, a)
	// "not found" is a regular reply, not a failed call
	if errors.Is(err, repositories.ErrServerNotFound) {
		r.ret("get", nil)
	} else {
		r.ret("get", err)
	}
	return
}
func (r serversW) Add(ctx context.Context, s server.Server, f func(*server.Server) bool) (out server.Server, err error) {
	r.call("add")
	out, err = r.Repos.Servers.Add(ctx, s, f)
	if errors.Is(err, repositories.ErrServerExists) {
		r.ret("add", nil)
	} else {
		r.ret("add", err)
	}
	return
}
func (r serversW) Update(ctx context.Context, s server.Server, f func(*server.Server) bool) (out server.Server, err error) {
	r.call("update")
	out, err = r.Repos.Servers.Update(ctx, s, f)
	if errors.Is(err, repositories.ErrServerNotFound) {
		r.ret("update", nil)
	} else {
		r.ret("update", err)
	}
	return
}
func (r serversW) Remove(ctx context.Context, s server.Server, f func(*server.Server) bool) (err error) {
	r.call("remove")
	err = r.Repos.Servers.Remove(ctx, s, f)
	r.ret("remove", err)
	return
}
func (r serversW) Filter(ctx context.Context, fs filterset.ServerFilterSet) (out []server.Server, err error) {
	r.call("filter")
	out, err = r.Repos.Servers.Filter(ctx, fs)
	// the repository returns the selection in Go-map order; fix it so that the calls that follow are deterministic
	sortServers(out)
	r.ret("filter", err)
	return
}
func (r serversW) Count(ctx context.Context) (int, error) { return r.Repos.Servers.Count(ctx) }
func (r serversW) CountByStatus(ctx context.Context) (map[ds.DiscoveryStatus]int, error) {
	return r.Repos.Servers.CountByStatus(ctx)
}

func (r instancesW) Add(ctx context.Context, i instance.Instance) (err error) {
	r.call("insadd")
	err = r.Repos.Instances.Add(ctx, i)
	r.ret("insadd", err)
	return
}
func (r instancesW) Get(ctx context.Context, id instance.Identifier) (out instance.Instance, err error) {
	r.call("insget")
	out, err = r.Repos.Instances.Get(ctx, id)
	if errors.Is(err, repositories.ErrInstanceNotFound) {
		r.ret("insget", nil)
	} else {
		r.ret("insget", err)
	}
	return
}
func (r instancesW) Remove(ctx context.Context, id instance.Identifier) (err error) {
	r.call("insrm")
	err = r.Repos.Instances.Remove(ctx, id)
	r.ret("insrm", err)
	return
}
func (r instancesW) Clear(ctx context.Context, fs filterset.InstanceFilterSet) (n int, err error) {
	r.call("insclear")
	n, err = r.Repos.Instances.Clear(ctx, fs)
	r.ret("insclear", err)
	return
}
func (r instancesW) Count(ctx context.Context) (int, error) { return r.Repos.Instances.Count(ctx) }

func (r probesW) Add(ctx context.Context, p probe.Probe) (err error) {
	r.call("enqueue")
	err = r.Repos.Probes.Add(ctx, p)
	r.ret("enqueue", err)
	return
}
func (r probesW) AddBetween(ctx context.Context, p probe.Probe, after, before time.Time) (err error) {
	r.call("enqueue")
	err = r.Repos.Probes.AddBetween(ctx, p, after, before)
	r.ret("enqueue", err)
	return
}
func (r probesW) Pop(ctx context.Context) (out probe.Probe, err error) {
	r.call("pop")
	out, err = r.Repos.Probes.Pop(ctx)
	r.ret("pop", err)
	return
}
func (r probesW) Peek(ctx context.Context) (probe.Probe, error) { return r.Repos.Probes.Peek(ctx) }
func (r probesW) PopMany(ctx context.Context, n int) (out []probe.Probe, expired int, err error) {
	r.call("popmany")
	out, expired, err = r.Repos.Probes.PopMany(ctx, n)
	// probes with equal ready times come back in UUID order; fix the order in which the runner works through
	// the batch so that the calls that follow are deterministic (C12 checks the repository's own ordering)
	sort.SliceStable(out, func(i, j int) bool {
		a, _ := world.AddrKey(out[i].Addr.String())
		b, _ := world.AddrKey(out[j].Addr.String())
		if a != b {
			return a < b
		}
		if out[i].Port != out[j].Port {
			return out[i].Port < out[j].Port
		}
		if out[i].Goal != out[j].Goal {
			return out[i].Goal < out[j].Goal
		}
		return out[i].Retries < out[j].Retries
	})
	r.ret("popmany", err)
	return
}
func (r probesW) Count(ctx context.Context) (int, error) { return r.Repos.Probes.Count(ctx) }

// Wrap decorates the repositories so that every call is bracketed by "<id>:call:<name>" / "<id>:ret:<name>".
func Wrap(sc *sched.Sched, id int, r world.Repos) world.Repos {
	base := srvRepo{Repos: r, sc: sc, id: id}
	return world.Repos{Servers: serversW{base}, Instances: instancesW{base}, Probes: probesW{base}}
}

func sortServers(xs []server.Server) {
	for i := 1; i < len(xs); i++ {
		for j := i; j > 0; j-- {
			a, _ := world.AddrKey(xs[j-1].Addr.String())
			b, _ := world.AddrKey(xs[j].Addr.String())
			if a <= b {
				break
			}
			xs[j-1], xs[j] = xs[j], xs[j-1]
		}
	}
}

// ---------------------------------------------------------------------------- scripted probers

// scripted wraps a real prober: the Handle* methods are the real code, Probe returns the scripted outcome.
type scripted struct {
	probers.Prober
	result any
	err    error
}

func (s scripted) Probe(context.Context, addr.Addr, int, time.Duration) (any, error) {
	return s.result, s.err
}

// Outcome spec: "fail" | "ok:<queryport>:<hostnamehex>:<numplayers>"
var failKind atomic.Int64

func proberFor(p *world.Proc, goal probe.Goal, outcome string) (probers.Prober, error) {
	var real probers.Prober
	if goal == probe.GoalPort {
		real = portprober.New(portprober.Opts{Offsets: []int{1}}, p.Validate, p.W.Clock, p.Metrics, p.Logger)
	} else {
		real = detailsprober.New(p.Validate, p.W.Clock, p.Metrics, p.Logger)
	}
	if outcome == "fail" {
		// a failed probe is a failed probe, whatever went wrong: an unusable answer (validation, parsing), a timeout, a
		// refused connection — the kinds take turns; with retries left each of them is retried
		var errs []error
		if goal == probe.GoalPort {
			errs = []error{errors.New("scripted probe failure"), fmt.Errorf("%w: scripted", portprober.ErrValidationFailed),
				fmt.Errorf("%w: scripted", portprober.ErrParseFailed), portprober.ErrPortDiscoveryFailed, context.DeadlineExceeded}
		} else {
			errs = []error{errors.New("scripted probe failure"), fmt.Errorf("%w: scripted", detailsprober.ErrValidationFailed),
				fmt.Errorf("%w: scripted", detailsprober.ErrParseFailed), fmt.Errorf("query: %w", context.DeadlineExceeded),
				&net.OpError{Op: "read", Net: "udp", Err: errors.New("connection refused")}}
		}
		return scripted{Prober: real, err: errs[int(failKind.Add(1))%len(errs)]}, nil
	}
	parts := strings.Split(outcome, ":")
	if len(parts) != 4 || parts[0] != "ok" {
		return nil, fmt.Errorf("bad outcome %q", outcome)
	}
	qp, _ := strconv.Atoi(parts[1])
	hn, _ := hex.DecodeString(parts[2])
	np, _ := strconv.Atoi(parts[3])
	det := DetailsFor(string(hn), np)
	if goal == probe.GoalPort {
		return scripted{Prober: real, result: portprober.Result{Details: det, Port: qp}}, nil
	}
	return scripted{Prober: real, result: det}, nil
}

// InfoFor is the details.Info every scripted report/probe carries, apart from hostname and player count.
func InfoFor(hostname string, hostport, numplayers int) details.Info {
	return details.Info{Hostname: hostname, HostPort: hostport, GameVariant: "SWAT 4", GameVersion: "1.1", GameType: "VIP Escort",
		NumPlayers: numplayers, MaxPlayers: 16, MapName: "A-Bomb Nightclub"}
}

// DetailsFor: the probed details.  An odd player count comes with one player (whose two VIP-escape counters differ) and one
// objective: what a success stores is exactly what was probed, members of slices included, however often the outcome is
// applied on the way (to the prober's own copy, again to the latest record in a conflict callback).
func DetailsFor(hostname string, numplayers int) details.Details {
	d := details.Details{Info: InfoFor(hostname, 10480, numplayers)}
	if numplayers%2 != 0 {
		d.Players = []details.Player{{Name: "vip", Score: numplayers, VIPEscapes: 1, VIPEscapes2: 2, VIPKillsValid: 3, VIPKillsInvalid: 4}}
		d.Objectives = []details.Objective{{Name: "obj", Status: 1}}
	}
	return d
}

// ---------------------------------------------------------------------------- client specs

func parseAddr(s string) addr.Addr {
	host, port, _ := strings.Cut(s, ":")
	pn, _ := strconv.Atoi(port)
	return addr.NewForTesting(net.ParseIP(host), pn)
}

func errTag(err error) string {
	switch {
	case err == nil:
		return "ok"
	case errors.Is(err, probeserver.ErrProbeRetried):
		return "retried"
	case errors.Is(err, probeserver.ErrOutOfRetries):
		return "outofretries"
	case errors.Is(err, addserver.ErrServerDiscoveryInProgress):
		return "inprogress"
	case errors.Is(err, addserver.ErrServerHasNoQueryablePort):
		return "noport"
	case errors.Is(err, addserver.ErrUnableToCreateServer):
		return "cantcreate"
	case errors.Is(err, addserver.ErrUnableToDiscoverServer):
		return "cantdiscover"
	case errors.Is(err, reportserver.ErrInvalidRequestPayload):
		return "err:payload"
	case errors.Is(err, renewserver.ErrUnknownInstanceID):
		return "err:unknowninstance"
	case errors.Is(err, removeserver.ErrInstanceAddrMismatch):
		return "err:mismatch"
	case errors.Is(err, removeserver.ErrInstanceNotFound):
		return "err:noinstance"
	case errors.Is(err, removeserver.ErrServerNotFound):
		return "err:noserver"
	case errors.Is(err, repositories.ErrInstanceNotFound):
		return "err:instancenotfound"
	case errors.Is(err, server.ErrInvalidQueryPort):
		return "err:queryport"
	}
	return storeops.ErrClass(err)
}

// cycleResult renders the outcome of a refresher / reviver cycle: "ok:<count>" or the error class.  The count is the one the
// cycle reports: the `count` member of its log line, or — when the line is worded differently — what it added to the
// `discovery_queue_produced` counter (produced = the counter's growth over the cycle).  An error is a line that carries an
// `error` member, or the harness's own fault marker in any string member; neither the level nor the wording of a line,
// nor the name of any other field, decides anything.
func cycleResult(logged string, produced float64) string {
	count, haveCount := 0, false
	for _, line := range strings.Split(strings.TrimSpace(logged), "\n") {
		var m map[string]any
		if json.Unmarshal([]byte(line), &m) != nil {
			continue
		}
		for _, v := range m {
			if sv, ok := v.(string); ok && strings.Contains(sv, "injected storage fault") {
				return "err:storage"
			}
		}
		if _, ok := m["error"]; ok {
			return "err:cycle"
		}
		if c, ok := m["count"].(float64); ok && !haveCount {
			count, haveCount = int(c), true
		}
	}
	if !haveCount {
		count = int(produced)
	}
	return fmt.Sprintf("ok:%d", count)
}

// Client returns the operation for a client spec:
//
//	report|<addr>|<queryport>|<idhex>|<hostnamehex>|<numplayers>     reportserver.Execute (fields always valid)
//	renew|<idhex>|<ip>                                               renewserver.Execute (keepalive)
//	remove|<idhex>|<addr>                                            removeserver.Execute
//	probe|<addr>|<port>|<goal>|<retries>|<max>|<outcome>             probeserver.Execute with a scripted prober
//	refresh|<intervalNs>                                             refresher component's refresh()
//	revive|<intervalNs>|<scopeNs>|<countdownNs>                      reviver component's revive()
//	addserver|<addr>                                                 addserver.Execute (REST submission)
//	clean|<retentionNs>   cleanins|<retentionNs>                     the cleaners
//	pop|<n>|<outcome>                                                prober runner: PopMany(n), then probe each with the outcome
//	list|<livenessNs>|<status>                                       listservers.Execute with a blank query
//	call|<storeops call spec with ! instead of |>                    a raw repository call
func Client(spec string) func(p *world.Proc) string {
	parts := strings.Split(spec, "|")
	ctx := context.Background()
	switch parts[0] {
	case "report":
		return func(p *world.Proc) string {
			a := parseAddr(parts[1])
			qp, _ := strconv.Atoi(parts[2])
			id, _ := hex.DecodeString(parts[3])
			hn, _ := hex.DecodeString(parts[4])
			np, _ := strconv.Atoi(parts[5])
			fields := map[string]string{"hostname": string(hn), "hostport": strconv.Itoa(a.Port), "gamevariant": "SWAT 4", "gamever": "1.1",
				"gametype": "VIP Escort", "numplayers": strconv.Itoa(np), "maxplayers": "16", "mapname": "A-Bomb Nightclub"}
			return errTag(p.UC.ReportServer.Execute(ctx, reportserver.NewRequest(a, qp, id, fields)))
		}
	case "renew":
		return func(p *world.Proc) string {
			id, _ := hex.DecodeString(parts[1])
			return errTag(p.UC.RenewServer.Execute(ctx, renewserver.NewRequest(id, net.ParseIP(parts[2]))))
		}
	case "remove":
		return func(p *world.Proc) string {
			id, _ := hex.DecodeString(parts[1])
			return errTag(p.UC.RemoveServer.Execute(ctx, removeserver.NewRequest(id, parseAddr(parts[2]))))
		}
	case "probe":
		return func(p *world.Proc) string {
			port, _ := strconv.Atoi(parts[2])
			goal, _ := strconv.Atoi(parts[3])
			retries, _ := strconv.Atoi(parts[4])
			maxr, _ := strconv.Atoi(parts[5])
			prb := probe.New(parseAddr(parts[1]), port, probe.Goal(goal), maxr)
			prb.Retries = retries
			pr, err := proberFor(p, prb.Goal, parts[6])
			if err != nil {
				return "bad-spec"
			}
			return errTag(p.UC.ProbeServer.Execute(ctx, probeserver.NewRequest(prb, pr, time.Second)))
		}
	case "refresh":
		// one cycle of the refresher component (its own deadline computation), count read from its log line
		return func(p *world.Proc) string {
			iv, _ := strconv.ParseInt(parts[1], 10, 64)
			var buf bytes.Buffer
			lg := zerolog.New(&buf)
			before := testutil.ToFloat64(p.Metrics.DiscoveryQueueProduced)
			refresher.VerifRefresh(ctx, p.W.Clock, &lg, p.UC.RefreshServers, refresher.Config{RefreshInterval: time.Duration(iv)})
			return cycleResult(buf.String(), testutil.ToFloat64(p.Metrics.DiscoveryQueueProduced)-before)
		}
	case "revive":
		// one cycle of the reviver component (its own scope / countdown / deadline computation)
		return func(p *world.Proc) string {
			iv, _ := strconv.ParseInt(parts[1], 10, 64)
			scope, _ := strconv.ParseInt(parts[2], 10, 64)
			cd, _ := strconv.ParseInt(parts[3], 10, 64)
			var buf bytes.Buffer
			lg := zerolog.New(&buf)
			before := testutil.ToFloat64(p.Metrics.DiscoveryQueueProduced)
			reviver.VerifRevive(ctx, p.W.Clock, &lg, p.UC.ReviveServers, reviver.Config{
				RevivalInterval: time.Duration(iv), RevivalScope: time.Duration(scope), RevivalCountdown: time.Duration(cd)})
			return cycleResult(buf.String(), testutil.ToFloat64(p.Metrics.DiscoveryQueueProduced)-before)
		}
	case "addserver":
		return func(p *world.Proc) string {
			pa, err := addr.NewPublicAddr(parseAddr(parts[1]))
			if err != nil {
				return "bad-spec"
			}
			svr, err := p.UC.AddServer.Execute(ctx, pa)
			if err != nil {
				return errTag(err)
			}
			return "details:" + storeops.RenderServer(svr)
		}
	case "clean":
		return func(p *world.Proc) string {
			ret, _ := strconv.ParseInt(parts[1], 10, 64)
			c := servercleaner.New(cleanup.NewManager(), servercleaner.Opts{Retention: time.Duration(ret)}, p.Repos.Servers, p.W.Clock, p.Metrics, p.Logger)
			c.Clean(ctx)
			return "ok"
		}
	case "cleanins":
		return func(p *world.Proc) string {
			ret, _ := strconv.ParseInt(parts[1], 10, 64)
			c := instancecleaner.New(cleanup.NewManager(), instancecleaner.Opts{Retention: time.Duration(ret)}, p.Repos.Instances, p.W.Clock, p.Metrics, p.Logger)
			c.Clean(ctx)
			return "ok"
		}
	case "pop":
		return func(p *world.Proc) string {
			n, _ := strconv.Atoi(parts[1])
			prbs, expired, err := p.Repos.Probes.PopMany(ctx, n)
			if err != nil {
				return errTag(err)
			}
			out := []string{fmt.Sprintf("popped:%d:%d", len(prbs), expired)}
			for _, prb := range prbs {
				pr, perr := proberFor(p, prb.Goal, parts[2])
				if perr != nil {
					return "bad-spec"
				}
				out = append(out, errTag(p.UC.ProbeServer.Execute(ctx, probeserver.NewRequest(prb, pr, time.Second))))
			}
			return strings.Join(out, "+")
		}
	case "list":
		return func(p *world.Proc) string {
			lv, _ := strconv.ParseInt(parts[1], 10, 64)
			st, _ := strconv.Atoi(parts[2])
			out, err := p.UC.ListServers.Execute(ctx, listservers.NewRequest(query.Blank, time.Duration(lv), ds.DiscoveryStatus(st)))
			if err != nil {
				return errTag(err)
			}
			return "ok:" + storeops.SortedServers(out)
		}
	case "call":
		return func(p *world.Proc) string { return storeops.RunCall(p, strings.ReplaceAll(parts[1], "!", "|")) }
	}
	return func(*world.Proc) string { return "bad-spec" }
}

// RunUC runs a use-case level scheduled case.
//
//	init    : items joined by "," — client specs executed one after the other on a plain process, or adv<ns>
//	clients : client specs joined by ","
//	events  : see storeops.RunScheduledWrap
//
// output tokens: eff=<effective events>  calls=<i:callname,…>  res=<r0;r1;…>  dump=<…>  trace=<full trace>
func RunUC(opts world.Options, initSpec, clientSpec, eventSpec string) []string {
	w := world.New(opts)
	defer w.Close()
	if initSpec != "-" {
		p0 := w.NewProc()
		for _, it := range strings.Split(initSpec, ",") {
			if strings.HasPrefix(it, "adv") {
				ns, _ := strconv.ParseInt(it[3:], 10, 64)
				w.Advance(time.Duration(ns))
				continue
			}
			if r := Client(it)(p0); r == "bad-spec" {
				return []string{"bad-init:" + it}
			}
		}
	}
	specs := strings.Split(clientSpec, ",")
	clients := make([]func(p *world.Proc) string, len(specs))
	lazy := make([]bool, len(specs))
	for i, s := range specs {
		if strings.HasPrefix(s, "@") { // lazy start: the use case begins at the first event naming it
			lazy[i] = true
			s = s[1:]
		}
		clients[i] = Client(s)
	}
	res := storeops.RunScheduledLazy(w, clients, lazy, strings.Split(eventSpec, ","), Wrap)
	var calls []string
	for _, t := range res.Trace {
		parts := strings.SplitN(t, ":", 3)
		// completion order of repository calls: "<i>:ret:<name>:<ok|err>"
		if len(parts) == 3 && parts[1] == "ret" {
			name, _, _ := strings.Cut(parts[2], ":")
			calls = append(calls, parts[0]+":"+name)
		}
	}
	j := func(xs []string, sep string) string {
		if len(xs) == 0 {
			return "-"
		}
		return strings.Join(xs, sep)
	}
	hung := ""
	if res.Hung {
		hung = ",HUNG"
	}
	return []string{"eff=" + j(res.Effective, ",") + hung, "calls=" + j(calls, ","), "res=" + j(res.Results, ";"), "dump=" + strings.Join(res.Dump, ";"), "trace=" + j(res.Trace, ",")}
}
