// Package c12: the probe queue.  Producers (AddBetween) and consumers (PopMany) of the real probes
// repository, sequentially and interleaved at storage-command granularity, with clock ticks and
// consumer deaths.  Every probe carries a unique port number, so a payload identifies a probe.
package c12

import (
	"fmt"
	"math/rand"
	"strings"

	"github.com/sergeii/swat4master/verifharness/internal/core"
	"github.com/sergeii/swat4master/verifharness/internal/storeops"
	"github.com/sergeii/swat4master/verifharness/internal/world"
)

func init() {
	core.Register(&core.Prop{ID: "C12", Gen: gen, Exec: exec})
}

// q <clients> <events>     clients: storeops call specs (penq|…, ppop|n) joined by ","; events: s<i>, t<ns>, cb<i>, ca<i>
// output: trace=…  timeline=…  res=…  dump=…
func exec(op string, args []string) []string {
	if op != "q" || len(args) != 2 {
		return []string{"bad-op"}
	}
	var out []string
	txt, ok := core.Guard(func() {
		w := world.New(world.DefaultOptions())
		defer w.Close()
		specs := strings.Split(args[0], ",")
		clients := make([]func(p *world.Proc) string, len(specs))
		lazy := make([]bool, len(specs))
		for i, s := range specs {
			if strings.HasPrefix(s, "@") {
				lazy[i] = true
				s = s[1:]
			}
			s := s
			clients[i] = func(p *world.Proc) string { return storeops.RunCall(p, s) }
		}
		res := storeops.RunScheduledLazy(w, clients, lazy, strings.Split(args[1], ","), nil)
		j := func(xs []string, sep string) string {
			if len(xs) == 0 {
				return "-"
			}
			return strings.Join(xs, sep)
		}
		hung := ""
		if res.Hung {
			hung = ",HUNG"
		}
		out = []string{"trace=" + j(res.Trace, ",") + hung, "timeline=" + j(res.Timeline, ","), "res=" + j(res.Results, ";"), "dump=" + strings.Join(res.Dump, ";")}
	})
	if !ok {
		return []string{"panic:" + txt}
	}
	return out
}

const sec = int64(1000000000)

func gen(rng *rand.Rand, tier core.Tier, emit core.Emit) {
	n := 600
	if tier == core.Thorough {
		n = 6000
	}
	epoch := world.Epoch.UnixNano()
	for c := 0; c < n; c++ {
		port := 20000
		clock := epoch
		uniq := int64(0)
		// a probe spec with ready / expiry before, at or after the (estimated) clock; ready times are pairwise distinct
		mk := func() string {
			port++
			uniq++
			after := "z"
			if rng.Intn(6) != 0 || uniq > 1 { // at most one implicit ready time per case (equal scores are ordered by UUID text)
				after = fmt.Sprint(clock + int64(rng.Intn(7)-3)*sec + uniq*256)
			}
			before := "z"
			if rng.Intn(2) == 0 {
				before = fmt.Sprint(clock + int64(rng.Intn(7)-3)*sec + int64(rng.Intn(3)-1)*256)
			}
			return fmt.Sprintf("penq|1.1.1.1:10480|%d|%d|%d|3|%s|%s", port, rng.Intn(2), rng.Intn(3), after, before)
		}
		var clients, events []string
		if rng.Intn(2) == 0 {
			// sequential history: every call starts when scheduled and runs to completion
			ln := 2 + rng.Intn(14)
			for i := 0; i < ln; i++ {
				switch r := rng.Intn(10); {
				case r < 5:
					events = append(events, fmt.Sprintf("r%d", len(clients)))
					clients = append(clients, "@"+mk())
				case r < 8:
					events = append(events, fmt.Sprintf("r%d", len(clients)))
					clients = append(clients, fmt.Sprintf("@ppop|%d", rng.Intn(5)))
				default:
					d := int64(rng.Intn(4))*sec + int64(rng.Intn(3))*256
					clock += d
					events = append(events, fmt.Sprintf("t%d", d))
				}
			}
			events = append(events, fmt.Sprintf("t%d", 10*sec), fmt.Sprintf("r%d", len(clients)))
			clients = append(clients, "@ppop|50")
		} else {
			// a few probes queued, then two consumers and one producer interleaved command by command
			pre := 1 + rng.Intn(5)
			for i := 0; i < pre; i++ {
				events = append(events, fmt.Sprintf("r%d", len(clients)))
				clients = append(clients, "@"+mk())
			}
			if rng.Intn(2) == 0 {
				d := int64(1+rng.Intn(4)) * sec
				clock += d
				events = append(events, fmt.Sprintf("t%d", d))
			}
			base := len(clients)
			clients = append(clients, fmt.Sprintf("@ppop|%d", 1+rng.Intn(4)), fmt.Sprintf("@ppop|%d", 1+rng.Intn(4)), "@"+mk())
			for i := 0; i < 4+rng.Intn(14); i++ {
				switch r := rng.Intn(14); {
				case r == 0:
					d := int64(rng.Intn(3))*sec + 256
					clock += d
					events = append(events, fmt.Sprintf("t%d", d))
				case r == 1 && rng.Intn(2) == 0:
					events = append(events, fmt.Sprintf("%s%d", []string{"cb", "ca"}[rng.Intn(2)], base+rng.Intn(2)))
				default:
					events = append(events, fmt.Sprintf("s%d", base+rng.Intn(3)))
				}
			}
		}
		emit("q", strings.Join(clients, ","), strings.Join(events, ","))
	}
	// the instance table under the same scheduler: ids registered, registered again (a heartbeat refreshes the binding) and
	// removed while a Clear stands between its index scan and its delete — payloads and index must leave together whatever
	// happened in between
	ids := []string{"00000001", "deadbeef", "00ff00ff", "7f000001"}
	for c := 0; c < n/5; c++ {
		var clients, events []string
		clock := epoch
		pre := 1 + rng.Intn(3)
		for i := 0; i < pre; i++ {
			events = append(events, fmt.Sprintf("r%d", len(clients)))
			clients = append(clients, fmt.Sprintf("@insadd|%s|1.1.1.%d:10480", ids[i], i+1))
		}
		d := int64(1+rng.Intn(4)) * sec
		clock += d
		events = append(events, fmt.Sprintf("t%d", d))
		if rng.Intn(2) == 0 {
			events = append(events, fmt.Sprintf("r%d", len(clients)))
			clients = append(clients, fmt.Sprintf("@insadd|%s|1.1.1.9:10480", ids[3]))
		}
		base := len(clients)
		cutoff := fmt.Sprint(clock - int64(rng.Intn(3))*256)
		if rng.Intn(5) == 0 {
			cutoff = "z"
		}
		third := fmt.Sprintf("@insrm|%s", ids[rng.Intn(pre)])
		if rng.Intn(2) == 0 {
			third = fmt.Sprintf("@insadd|%s|2.2.2.2:10480", ids[rng.Intn(len(ids))])
		}
		clients = append(clients, "@insclear|"+cutoff, fmt.Sprintf("@insadd|%s|1.1.1.1:10480", ids[rng.Intn(pre)]), third)
		for i := 0; i < 4+rng.Intn(10); i++ {
			if rng.Intn(12) == 0 {
				events = append(events, fmt.Sprintf("t%d", int64(rng.Intn(3))*sec+256))
				continue
			}
			events = append(events, fmt.Sprintf("s%d", base+rng.Intn(3)))
		}
		emit("q", strings.Join(clients, ","), strings.Join(events, ","))
	}
}
