package c05

import (
	"context"
	"fmt"
	"net"
	"strconv"
	"sync"
	"time"

	"github.com/sergeii/swat4master/pkg/udp/udpserver"
	"github.com/sergeii/swat4master/verifharness/internal/core"
)

// runUDPGlue <n>: the socket side of the reporter.  The property is about "a datagram whose source IP is A": the
// real pkg/udp/udpserver decides which source address and which payload a handler is called with.  It is started
// with a recording handler; three sockets bound to 127.0.0.2 / .3 / .4 send n datagrams back to back (no waiting
// for anything), each payload naming its own sender and sequence number.  Every handler call must carry the
// payload of one sent datagram together with exactly that datagram's source address and port.
func runUDPGlue(args []string) []string {
	if len(args) != 1 {
		return []string{"bad-op"}
	}
	n, err := strconv.Atoi(args[0])
	if err != nil || n < 1 || n > 5000 {
		return []string{"bad-op"}
	}
	type call struct {
		src     string
		payload string
	}
	var mu sync.Mutex
	var calls []call
	ready := make(chan struct{})
	h := udpserver.FuncHandler(func(_ context.Context, _ *net.UDPConn, raddr *net.UDPAddr, payload []byte) {
		mu.Lock()
		calls = append(calls, call{src: raddr.String(), payload: string(payload)})
		mu.Unlock()
	})
	srv, err := udpserver.New("127.0.0.1:0", h, udpserver.WithBufferSize(2048), udpserver.WithReadySignal(func() { close(ready) }))
	if err != nil {
		return []string{"infra:new"}
	}
	go func() { _ = srv.Listen() }()
	select {
	case <-ready:
	case <-time.After(5 * time.Second):
		return []string{"infra:listen"}
	}
	defer func() { _ = srv.Stop() }()
	var socks []*net.UDPConn
	for _, ip := range []string{"127.0.0.2", "127.0.0.3", "127.0.0.4"} {
		c, err := net.DialUDP("udp4", &net.UDPAddr{IP: net.ParseIP(ip)}, srv.LocalAddr())
		if err != nil {
			return []string{"infra:dial"}
		}
		defer c.Close()
		socks = append(socks, c)
	}
	sent := map[string]string{} // payload -> source address
	for i := 0; i < n; i++ {
		c := socks[i%len(socks)]
		if i%7 == 3 {
			c = socks[(i/7)%len(socks)]
		}
		payload := fmt.Sprintf("from=%s seq=%d %s", c.LocalAddr(), i, core.Hex([]byte{byte(i), byte(i >> 8), 0xfe, 0xfd}))
		sent[payload] = c.LocalAddr().String()
		if _, err := c.Write([]byte(payload)); err != nil {
			return []string{"infra:write"}
		}
	}
	deadline := time.Now().Add(3 * time.Second)
	for time.Now().Before(deadline) {
		mu.Lock()
		got := len(calls)
		mu.Unlock()
		if got >= n {
			break
		}
		time.Sleep(5 * time.Millisecond)
	}
	time.Sleep(20 * time.Millisecond) // a handler called twice for one datagram would show up now
	mu.Lock()
	defer mu.Unlock()
	wrongSrc, unknown, dup := 0, 0, 0
	seen := map[string]bool{}
	for _, c := range calls {
		src, ok := sent[c.payload]
		switch {
		case !ok:
			unknown++
		case src != c.src:
			wrongSrc++
		case seen[c.payload]:
			dup++
		}
		seen[c.payload] = true
	}
	// loopback UDP may drop under pressure (receive buffer): lost datagrams are reported, not judged
	return []string{fmt.Sprintf("wrong-source:%d", wrongSrc), fmt.Sprintf("unknown-payload:%d", unknown), fmt.Sprintf("duplicate:%d", dup),
		fmt.Sprintf("delivered:%d/%d", len(seen), n)}
}
