// Package c05: histories of reporter datagrams from 2..4 source IPs with deliberately colliding instance
// ids and host ports, through the real dispatcher (line format: see reputil).
package c05

import (
	"fmt"
	"math/rand"

	"github.com/sergeii/swat4master/verifharness/internal/core"
	"github.com/sergeii/swat4master/verifharness/internal/reputil"
)

func init() {
	core.Register(&core.Prop{ID: "C05", Gen: gen, Exec: exec})
}

func gen(rng *rand.Rand, tier core.Tier, emit core.Emit) {
	// the socket side: which source address the real UDP server hands to the handler (measurement, see udpglue.go)
	for _, k := range []string{"2", "3", "50", "400", "1500"} {
		emit("udpglue", k)
	}
	nw := 12
	if tier == core.Thorough {
		nw = 150
	}
	for i := 0; i < nw; i++ {
		emit("whist", reputil.WireHistory(rng, 3+rng.Intn(10), 2+rng.Intn(2), 10, 3)...)
	}
	n, maxLen := 300, 40
	if tier == core.Thorough {
		n, maxLen = 600, 200
	}
	for i := 0; i < n; i++ {
		ips := reputil.PickIPs(rng, 2+rng.Intn(3), rng.Intn(8) == 0)
		ln := 2 + rng.Intn(maxLen-1)
		if tier == core.Thorough && rng.Intn(3) != 0 {
			ln = 2 + rng.Intn(60)
		}
		emit("hist", reputil.History(rng, ln, ips, 10, 3)...)
	}
	// adversarial scripts: B registers; A replays B's instance id in keepalive / removal / re-report with
	// B's address in localip0, on colliding host ports; then B's keepalive must still work or fail as modelled
	for i := 0; i < n/2; i++ {
		ips := reputil.PickIPs(rng, 2, false)
		a, b := ips[0], ips[1]
		id := core.RandBytes(rng, 4)
		hp := fmt.Sprint(10480 + rng.Intn(2))
		rb := reputil.RandomReport(rng, id, hp, "10481", 0)
		ops := [][]string{reputil.Dg(b, reputil.SrcPort(rng), rb.Payload(rng)), reputil.Adv(rng)}
		for j := 0; j < 1+rng.Intn(6); j++ {
			var p []byte
			switch rng.Intn(5) {
			case 0:
				p = reputil.Keepalive(id)
			case 1:
				r := reputil.RandomReport(rng, id, hp, "10481", 0)
				r.State = "2"
				p = r.Payload(rng)
			case 2: // A reports with B's id (rebinding the instance) and B's IP in localip0
				r := reputil.RandomReport(rng, id, hp, "10481", 0)
				r.Over["localip0"] = []byte(b)
				r.Extra = append(r.Extra, reputil.KV{K: []byte("localip1"), V: []byte(b)})
				p = r.Payload(rng)
			case 3:
				p = reputil.Heartbeat(id, []reputil.KV{{K: []byte("hostport"), V: []byte(hp)}, {K: []byte("localport"), V: []byte("10481")}, {K: []byte("statechanged"), V: []byte("2")}}, []byte{0})
			default:
				p = reputil.Challenge(id)
			}
			src := a
			if rng.Intn(4) == 0 {
				src = b
			}
			if rng.Intn(4) == 0 {
				// the attacker comes over IPv6 (the reporter socket is dual-stack): it owns no IPv4 server at all
				ops = append(ops, reputil.Dg6([]string{"2001:db8::15", "fe80::1", "::1",
					// … and one whose low 32 bits spell the victim's (or its own) IPv4 address: still not that IPv4 address
					"2001:db8::" + b, "64:ff9b::" + b, "::" + b, "2001:db8::" + a, "fe80::" + b}[rng.Intn(8)], reputil.SrcPort(rng), p))
			} else {
				ops = append(ops, reputil.Dg(src, reputil.SrcPort(rng), p))
			}
			if rng.Intn(2) == 0 {
				ops = append(ops, reputil.Adv(rng))
			}
		}
		ops = append(ops, reputil.Dg(b, reputil.SrcPort(rng), reputil.Keepalive(id)))
		emit("hist", reputil.JoinOps(ops)...)
	}
}

func exec(op string, args []string) []string {
	if op == "udpglue" {
		var out []string
		if txt, ok := core.Guard(func() { out = runUDPGlue(args) }); !ok {
			return []string{fmt.Sprintf("harness-panic:%s", txt)}
		}
		return out
	}
	if op == "whist" { // the same kind of history through the real reporter component over real sockets
		var out []string
		if txt, ok := core.Guard(func() { out = reputil.RunWireHistory(args) }); !ok {
			return []string{fmt.Sprintf("harness-panic:%s", txt)}
		}
		return out
	}
	if op != "hist" {
		return []string{"bad-op"}
	}
	var out []string
	if txt, ok := core.Guard(func() { out = reputil.RunHistory(args) }); !ok {
		return []string{fmt.Sprintf("harness-panic:%s", txt)}
	}
	return out
}
