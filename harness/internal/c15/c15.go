// Package c15: one refresh or revival cycle of the real use cases on a planted registry; the whole
// probe queue afterwards is compared with the model and with the declarative selection.
package c15

import (
	"fmt"
	"time"
	"math/rand"
	"strings"

	"github.com/sergeii/swat4master/verifharness/internal/core"
	"github.com/sergeii/swat4master/verifharness/internal/ucops"
	"github.com/sergeii/swat4master/verifharness/internal/world"
)

func init() {
	core.Register(&core.Prop{ID: "C15", Gen: gen, Exec: exec})
}

// cycle <refreshRetries> <revivalRetries> <init> <client>
//
//	init   : "call|add!<srv>!refuse" items (arbitrary status words / refresh times), penq items, adv<ns>
//	client : refresh|<interval>  or  revive|<interval>|<scope>|<countdown>
func exec(op string, args []string) []string {
	if (op != "cycle" && op != "cycle0") || len(args) != 4 {
		return []string{"bad-op"}
	}
	var out []string
	txt, ok := core.Guard(func() {
		opts := world.DefaultOptions()
		fmt.Sscanf(args[0], "%d", &opts.RefreshRetries)
		fmt.Sscanf(args[1], "%d", &opts.RevivalRetries)
		if op == "cycle0" {
			opts.Start = Epoch0
		}
		out = ucops.RunUC(opts, args[2], args[3], "-")
	})
	if !ok {
		return []string{"panic:" + txt}
	}
	return out
}

// Epoch0: the clock of `cycle0` cases starts on 1970-01-02: below 2^53 ns every instant is an exact float64 queue / index
// score, so these cases use intervals, countdowns and refresh times at single-nanosecond granularity.
var Epoch0 = time.Unix(86400, 0).UTC()

func gen(rng *rand.Rand, tier core.Tier, emit core.Emit) {
	n := 600
	if tier == core.Thorough {
		n = 6000
	}
	sec := int64(1000000000)
	for c := 0; c < n; c++ {
		epoch, op, unit := world.Epoch.UnixNano(), "cycle", int64(256)
		if c%4 == 3 {
			epoch, op, unit = Epoch0.UnixNano(), "cycle0", 1
		}
		adv := int64(rng.Intn(7200)) * sec // the cycle runs at epoch + adv
		now := epoch + adv
		interval := int64(1+rng.Intn(600)) * sec
		scope := int64(rng.Intn(3600)) * sec
		if rng.Intn(4) == 0 {
			scope = interval - int64(rng.Intn(3))*sec // scope <= interval: empty window
			if scope < 0 {
				scope = 0
			}
		}
		countdown := int64(rng.Intn(300)) * sec
		switch rng.Intn(5) {
		case 0:
			countdown = 0
		case 1:
			countdown = interval + int64(rng.Intn(100))*sec // countdown > interval: some probes are dropped
		case 2:
			if unit != 1 {
				break // at 2024 scores a draw at the countdown cannot be told from one just below it (256 ns precision)
			}
			// tiny countdowns: the draw hits both ends of [now, now+countdown) all the time (an inclusive upper end shows at once)
			countdown = []int64{1, 2, 3, 100, 256, 1000, 1000000, 2000000, 3000000, 1000000000}[rng.Intn(10)]
			if rng.Intn(2) == 0 {
				interval = countdown // ready = now+countdown would also be the expiry: such a probe is dropped by the queue
			}
		}
		var init []string
		ns := rng.Intn(13)
		for i := 0; i < ns; i++ {
			a := fmt.Sprintf("%d.%d.%d.%d:%d", 1+rng.Intn(3), rng.Intn(2), 0, 1+rng.Intn(3), 10480+100*rng.Intn(3))
			status := rng.Intn(512)
			if rng.Intn(3) == 0 {
				status = []int{64, 64 | 16, 6, 6 | 128, 6 | 64, 2}[rng.Intn(6)]
			}
			refreshed := "z"
			if rng.Intn(6) != 0 {
				// around the scope bounds: now-scope and now-interval, at and +-256ns, or anywhere
				var t int64
				switch rng.Intn(5) {
				case 0:
					t = now - scope + int64(rng.Intn(3)-1)*unit
				case 1:
					t = now - interval + int64(rng.Intn(3)-1)*unit
				default:
					t = now - int64(rng.Intn(4000))*sec
				}
				if t < epoch-100000*sec {
					t = epoch
				}
				refreshed = fmt.Sprint(t)
			}
			qp, ver := 10481+rng.Intn(3), rng.Intn(3)
			if refreshed != "z" && rng.Intn(3) == 0 {
				// the record got here through a history in which its refresh time went BACK (two writers raced, the one
				// with the older clock reading committed last): first stored with a later time, then with the final one
				var t int64
				fmt.Sscan(refreshed, &t)
				later := t + int64(1+rng.Intn(3000))*sec
				if rng.Intn(3) == 0 {
					later = t + unit
				}
				init = append(init, fmt.Sprintf("call|add!%s/%d/%d/%d/%d!refuse", a, qp, status, ver, later),
					fmt.Sprintf("call|update!%s/%d/%d/%d/%s!over", a, qp, status, ver+1, refreshed))
				continue
			}
			init = append(init, fmt.Sprintf("call|add!%s/%d/%d/%d/%s!refuse", a, qp, status, ver, refreshed))
		}
		if rng.Intn(3) == 0 { // something already queued
			init = append(init, "call|penq!9.9.9.9:1!10480!1!0!3!z!z")
		}
		init = append(init, fmt.Sprintf("adv%d", adv))
		client := fmt.Sprintf("refresh|%d", interval)
		if rng.Intn(2) == 0 {
			client = fmt.Sprintf("revive|%d|%d|%d", interval, scope, countdown)
		}
		emit(op, fmt.Sprint(rng.Intn(6)), fmt.Sprint(rng.Intn(6)), strings.Join(init, ","), client)
	}
	// revival with a countdown of one to three nanoseconds that is also the interval, over a dozen servers without a port: the
	// ready time of each probe is drawn from [now, now+countdown) — with an inclusive upper end a quarter to a half of the draws
	// land on the expiry and the queue drops them while the cycle still counts them.  Every run draws anew (the project's
	// random source is the process-wide one): many servers and several cases make a miss practically impossible.
	for c := 0; c < 12; c++ {
		epoch := Epoch0.UnixNano()
		adv := int64(3600+c) * sec
		now := epoch + adv
		countdown := int64(1 + c%3)
		var init []string
		for i := 0; i < 12; i++ {
			a := fmt.Sprintf("%d.%d.0.%d:%d", 1+i%3, i/3%2, 1+i/6, 10480+100*(i%2))
			status := []int{2, 6, 4, 6 | 32, 2 | 4 | 8}[i%5]
			init = append(init, fmt.Sprintf("call|add!%s/10481/%d/1/%d!refuse", a, status, now-int64(10+i)*sec))
		}
		init = append(init, fmt.Sprintf("adv%d", adv))
		emit("cycle0", "2", "2", strings.Join(init, ","), fmt.Sprintf("revive|%d|%d|%d", countdown, 3600*sec, countdown))
	}
}
