// Package gs1util: scripted UDP responder, runner for the real gs1.Query, canonical rendering of
// gs1.Response, and the status encoder shared by the C07 and C08 harnesses.
package gs1util

import (
	"context"
	"errors"
	"fmt"
	"net"
	"net/netip"
	"os"
	"sort"
	"strconv"
	"strings"
	"sync"
	"time"

	"github.com/sergeii/swat4master/pkg/gamespy/serverquery/gs1"
	"github.com/sergeii/swat4master/verifharness/internal/core"
)

// Slack is the grace added to the query timeout before a return is reported as `late`.
const Slack = 1500 * time.Millisecond

// ---------------------------------------------------------------- responder

// Responder is a UDP socket on 127.0.0.1:0 that answers the first datagram it receives with a
// scripted list of datagrams, in order (after an optional delay).  With Flood set it keeps
// repeating the list until closed.
type Responder struct {
	conn     *net.UDPConn
	Dgrams   [][]byte
	Delay    time.Duration
	Flood    bool
	mu       sync.Mutex
	sentAt   time.Time // when the last scripted datagram had been written
	gotQuery []byte
	done     chan struct{}
	stop     chan struct{}
}

func NewResponder(dgrams [][]byte, delay time.Duration, flood bool) (*Responder, error) {
	return NewResponderAt(0, dgrams, delay, flood)
}

// NewResponderAt binds the responder to a given loopback port (0: any free port); when that port is taken, to any free port.
func NewResponderAt(port int, dgrams [][]byte, delay time.Duration, flood bool) (*Responder, error) {
	conn, err := net.ListenUDP("udp4", &net.UDPAddr{IP: net.IPv4(127, 0, 0, 1), Port: port})
	if err != nil && port != 0 {
		conn, err = net.ListenUDP("udp4", &net.UDPAddr{IP: net.IPv4(127, 0, 0, 1), Port: 0})
	}
	if err != nil {
		return nil, err
	}
	_ = conn.SetWriteBuffer(1 << 20)
	r := &Responder{conn: conn, Dgrams: dgrams, Delay: delay, Flood: flood, done: make(chan struct{}), stop: make(chan struct{})}
	go r.serve()
	return r, nil
}

func (r *Responder) AddrPort() netip.AddrPort {
	return r.conn.LocalAddr().(*net.UDPAddr).AddrPort()
}

func (r *Responder) Port() int { return int(r.AddrPort().Port()) }

func (r *Responder) serve() {
	defer close(r.done)
	buf := make([]byte, 4096)
	n, src, err := r.conn.ReadFromUDP(buf)
	if err != nil {
		return
	}
	r.mu.Lock()
	r.gotQuery = append([]byte{}, buf[:n]...)
	r.mu.Unlock()
	if r.Delay > 0 {
		select {
		case <-time.After(r.Delay):
		case <-r.stop:
			return
		}
	}
	for {
		for _, d := range r.Dgrams {
			_, _ = r.conn.WriteToUDP(d, src)
		}
		r.mu.Lock()
		r.sentAt = time.Now()
		r.mu.Unlock()
		if !r.Flood {
			return
		}
		select {
		case <-r.stop:
			return
		default:
		}
	}
}

// SentAt reports when the script had been written out completely (zero if not yet).
func (r *Responder) SentAt() time.Time {
	r.mu.Lock()
	defer r.mu.Unlock()
	return r.sentAt
}

func (r *Responder) Query() []byte {
	r.mu.Lock()
	defer r.mu.Unlock()
	return r.gotQuery
}

func (r *Responder) Close() {
	close(r.stop)
	_ = r.conn.Close()
	<-r.done
}

// ClosedPort returns a loopback UDP port on which nothing listens.
func ClosedPort() int {
	conn, err := net.ListenUDP("udp4", &net.UDPAddr{IP: net.IPv4(127, 0, 0, 1), Port: 0})
	if err != nil {
		return 1
	}
	p := conn.LocalAddr().(*net.UDPAddr).Port
	_ = conn.Close()
	return p
}

// ---------------------------------------------------------------- running the real query

// RunQuery runs the real gs1.Query against a scripted responder and returns the output tokens:
//
//	resp <ver> <fields> <players> <objectives> | err:incomplete | err:malformed | timeout | err:other:<text> | panic:<text>
//
// followed by `late` when Query returned later than timeout+Slack.
func RunQuery(dgrams [][]byte, timeout time.Duration, flood bool) []string {
	out, elapsed, sentLate := runOnce(dgrams, timeout, flood)
	if len(out) == 1 && out[0] == "timeout" && sentLate && !flood {
		// the script was written out late (loaded machine): the timeout proves nothing; once more, slower
		timeout *= 4
		out, elapsed, _ = runOnce(dgrams, timeout, flood)
	}
	if elapsed > timeout+Slack {
		out = append(out, "late")
	}
	return out
}

func runOnce(dgrams [][]byte, timeout time.Duration, flood bool) (out []string, elapsed time.Duration, sentLate bool) {
	r, err := NewResponder(dgrams, 0, flood)
	if err != nil {
		return []string{"harness-error:" + tok(err.Error())}, 0, false
	}
	defer r.Close()
	var resp gs1.Response
	var qerr error
	started := time.Now()
	txt, ok := core.Guard(func() { resp, qerr = gs1.Query(context.Background(), r.AddrPort(), timeout) })
	elapsed = time.Since(started)
	if !ok {
		return []string{"panic:" + txt}, elapsed, false
	}
	sent := r.SentAt()
	sentLate = sent.IsZero() || sent.Sub(started) > timeout/2
	return Classify(resp, qerr), elapsed, sentLate
}

func tok(s string) string {
	return strings.NewReplacer(" ", "_", "\n", "_", "\t", "_").Replace(s)
}

// Classify maps (response, error) of gs1.Query to output tokens.
func Classify(resp gs1.Response, err error) []string {
	switch {
	case err == nil:
		return append([]string{"resp"}, RenderResponse(resp)...)
	case errors.Is(err, gs1.ErrResponseIncomplete):
		return []string{"err:incomplete"}
	case errors.Is(err, gs1.ErrResponseMalformed):
		return []string{"err:malformed"}
	case errors.Is(err, os.ErrDeadlineExceeded):
		return []string{"timeout"}
	default:
		return []string{"err:other:" + tok(err.Error())}
	}
}

// ---------------------------------------------------------------- canonical rendering

func hexs(s string) string { return core.Hex([]byte(s)) }

// RenderMap: `k:v;k:v` sorted by key bytes, hex; `.` for an empty map.
func RenderMap(m map[string]string) string {
	if len(m) == 0 {
		return "."
	}
	keys := make([]string, 0, len(m))
	for k := range m {
		keys = append(keys, k)
	}
	sort.Strings(keys)
	parts := make([]string, len(keys))
	for i, k := range keys {
		parts[i] = hexs(k) + ":" + hexs(m[k])
	}
	return strings.Join(parts, ";")
}

// RenderResponse: <ver> <fields> <players joined by |> <objectives name:status joined by ;>
func RenderResponse(r gs1.Response) []string {
	players := "."
	if len(r.Players) > 0 {
		ps := make([]string, len(r.Players))
		for i, p := range r.Players {
			ps[i] = RenderMap(p)
		}
		players = strings.Join(ps, "|")
	}
	objs := "."
	if len(r.Objectives) > 0 {
		os := make([]string, len(r.Objectives))
		for i, o := range r.Objectives {
			if len(o) != 2 {
				os[i] = "badobj"
				continue
			}
			os[i] = hexs(o["name"]) + ":" + hexs(o["status"])
		}
		objs = strings.Join(os, ";")
	}
	return []string{r.Version.String(), RenderMap(r.Fields), players, objs}
}

// ---------------------------------------------------------------- datagram lists on the line protocol

// JoinDgrams: hex datagrams joined by `,` (`-` = empty datagram); `_` = no datagram at all.
func JoinDgrams(ds [][]byte) string {
	if len(ds) == 0 {
		return "_"
	}
	parts := make([]string, len(ds))
	for i, d := range ds {
		parts[i] = core.Hex(d)
	}
	return strings.Join(parts, ",")
}

func SplitDgrams(s string) ([][]byte, error) {
	if s == "_" {
		return nil, nil
	}
	parts := strings.Split(s, ",")
	out := make([][]byte, len(parts))
	for i, p := range parts {
		b, err := core.UnHex(p)
		if err != nil {
			return nil, err
		}
		out[i] = b
	}
	return out, nil
}

// ---------------------------------------------------------------- abstract status and its encoder

type KV struct{ K, V []byte }

// Status is the abstract content of a server status (Lean: Swat4.GS1Spec.Status).
//
// IDs and Wire are optional.  IDs[i] is the index of Players[i] on the wire (`key_<id>`); nil means
// 0,1,2,… in the listed order.  Wire is the order in which the pairs are sent, as indexes into the
// canonical pair list (Lean: GS1Spec.items — server fields, the players one after another as listed,
// the objectives); nil means the canonical order.
type Status struct {
	Fields     []KV
	Players    [][]KV
	Objectives []KV
	IDs        []int
	Wire       []int
}

// ID is the wire index of Players[i].
func (s Status) ID(i int) int {
	if s.IDs != nil {
		return s.IDs[i]
	}
	return i
}

// pairClass tells which list a canonical pair belongs to: -1 server field, -2 objective, i ≥ 0 player Players[i].
func (s Status) pairClasses() []int {
	var c []int
	for range s.Fields {
		c = append(c, -1)
	}
	for i, p := range s.Players {
		for range p {
			c = append(c, i)
		}
	}
	for range s.Objectives {
		c = append(c, -2)
	}
	return c
}

// pairs is the canonical pair list (wire name, value): Lean GS1Spec.items.
func (s Status) pairs() [][2][]byte {
	var f [][2][]byte
	for _, kv := range s.Fields {
		f = append(f, [2][]byte{kv.K, kv.V})
	}
	for i, p := range s.Players {
		for _, kv := range p {
			f = append(f, [2][]byte{[]byte(string(kv.K) + "_" + strconv.Itoa(s.ID(i))), kv.V})
		}
	}
	for _, kv := range s.Objectives {
		f = append(f, [2][]byte{[]byte("obj_" + string(kv.K)), kv.V})
	}
	return f
}

// Flat is the field sequence n1,v1,n2,v2,…: server fields, then players one after another
// (`key_i`), then objectives (`obj_name`) — or, when Wire is set, the same pairs in that order.
func (s Status) Flat() [][]byte {
	ps := s.pairs()
	var f [][]byte
	if s.Wire != nil {
		for _, j := range s.Wire {
			f = append(f, ps[j][0], ps[j][1])
		}
		return f
	}
	for _, p := range ps {
		f = append(f, p[0], p[1])
	}
	return f
}

func body(fs [][]byte) []byte {
	var b []byte
	for _, f := range fs {
		b = append(b, '\\')
		b = append(b, f...)
	}
	return b
}

// Chunks cuts the flat sequence before the given positions (strictly increasing, within 1..len-1).
func Chunks(flat [][]byte, cuts []int) [][][]byte {
	var out [][][]byte
	prev := 0
	for _, c := range cuts {
		out = append(out, flat[prev:c])
		prev = c
	}
	out = append(out, flat[prev:])
	return out
}

// Dialects understood by Encode.
var Dialects = []string{"vanilla", "vanillaq", "gs1", "am", "amq", "amn"}

// Encode renders the status in a dialect, cut into len(cuts)+1 fragments:
//
//	vanilla   one datagram  body \final\ \queryid\1.1                       (cuts ignored)
//	vanillaq  one datagram  body \queryid\gs1 \final\                       (cuts ignored)
//	gs1       body_k \queryid\k [\final\]                                   k one-based
//	am        \statusresponse\(k-1) body_k [\queryid\AMv1 \final\] \eof\    queryid on the last only
//	amq       same, \queryid\AMv1 on every fragment
//	amn       same, no queryid at all
func Encode(dialect string, s Status, cuts []int) [][]byte {
	flat := s.Flat()
	switch dialect {
	case "vanilla":
		return [][]byte{append(body(flat), []byte("\\final\\\\queryid\\1.1")...)}
	case "vanillaq":
		return [][]byte{append(body(flat), []byte("\\queryid\\gs1\\final\\")...)}
	}
	chunks := Chunks(flat, cuts)
	out := make([][]byte, len(chunks))
	for i, ch := range chunks {
		last := i == len(chunks)-1
		var d []byte
		switch dialect {
		case "gs1":
			d = append(d, body(ch)...)
			d = append(d, []byte("\\queryid\\"+strconv.Itoa(i+1))...)
			if last {
				d = append(d, []byte("\\final\\")...)
			}
		case "am", "amq", "amn":
			d = append(d, []byte("\\statusresponse\\"+strconv.Itoa(i))...)
			d = append(d, body(ch)...)
			if dialect == "amq" || (dialect == "am" && last) {
				d = append(d, []byte("\\queryid\\AMv1")...)
			}
			if last {
				d = append(d, []byte("\\final\\")...)
			}
			d = append(d, []byte("\\eof\\")...)
		default:
			panic("unknown dialect " + dialect)
		}
		out[i] = d
	}
	return out
}

func renderKVs(kvs []KV) string {
	if len(kvs) == 0 {
		return "."
	}
	parts := make([]string, len(kvs))
	for i, kv := range kvs {
		parts[i] = core.Hex(kv.K) + ":" + core.Hex(kv.V)
	}
	return strings.Join(parts, ";")
}

// Tokens renders the abstract status: <fields> <players> <objectives> (lists in the given order).
func (s Status) Tokens() []string {
	players := "."
	if len(s.Players) > 0 {
		ps := make([]string, len(s.Players))
		for i, p := range s.Players {
			ps[i] = renderKVs(p)
		}
		players = strings.Join(ps, "|")
	}
	return []string{renderKVs(s.Fields), players, renderKVs(s.Objectives)}
}

// HasWire reports whether the status carries explicit indexes or a wire order (line format `decw`).
func (s Status) HasWire() bool { return s.IDs != nil || s.Wire != nil }

// TokensW renders the abstract status with explicit player indexes and the wire order:
// <fields> <id=kvs|id=kvs|…> <objectives> <wire>.
func (s Status) TokensW() []string {
	players := "."
	if len(s.Players) > 0 {
		ps := make([]string, len(s.Players))
		for i, p := range s.Players {
			ps[i] = strconv.Itoa(s.ID(i)) + "=" + renderKVs(p)
		}
		players = strings.Join(ps, "|")
	}
	wire := s.Wire
	if wire == nil {
		wire = make([]int, len(s.pairs()))
		for i := range wire {
			wire[i] = i
		}
	}
	return []string{renderKVs(s.Fields), players, renderKVs(s.Objectives), IntsTok(wire)}
}

// RandWire gives the status explicit player indexes — contiguous but listed out of order, with gaps
// (0, 2, 7), or huge ones up to MaxInt64 — and a random wire order: an interleaving of the pairs that
// keeps the relative order of the server fields, of the objectives and of each single player's pairs
// (Lean: GS1Spec.WireOf), so that the pairs of different players, fields and objectives mingle.
func RandWire(rng interface{ Intn(int) int }, s Status) Status {
	n := len(s.Players)
	ids := make([]int, n)
	switch rng.Intn(4) {
	case 0: // contiguous
		for i := range ids {
			ids[i] = i
		}
	case 1: // contiguous from a random base
		base := rng.Intn(5)
		for i := range ids {
			ids[i] = base + i
		}
	default: // gaps
		cur := rng.Intn(3)
		for i := range ids {
			ids[i] = cur
			step := 1 + rng.Intn(4)
			if rng.Intn(6) == 0 {
				step += rng.Intn(1000)
			}
			cur += step
		}
		if n > 0 && rng.Intn(4) == 0 { // the largest one close to the top of `int`
			ids[n-1] = []int{1<<31 - 1, 1 << 31, 1 << 32, 1<<63 - 1}[rng.Intn(4)]
			if n > 1 && ids[n-1] <= ids[n-2] {
				ids[n-1] = ids[n-2] + 1
			}
		}
	}
	// listing order of the players: ascending, descending or shuffled (ids travel with their player)
	switch rng.Intn(4) {
	case 0:
	case 1:
		for i, j := 0, n-1; i < j; i, j = i+1, j-1 {
			ids[i], ids[j] = ids[j], ids[i]
		}
	default:
		for i := n - 1; i > 0; i-- {
			j := rng.Intn(i + 1)
			ids[i], ids[j] = ids[j], ids[i]
		}
	}
	out := s
	out.IDs = ids
	classes := s.pairClasses()
	// positions of the canonical pairs, by class, in their own order
	next := map[int][]int{}
	for j, c := range classes {
		next[c] = append(next[c], j)
	}
	slots := append([]int{}, classes...)
	switch rng.Intn(4) {
	case 0: // canonical order
	case 1: // only the player pairs mingle; fields first, objectives last
		lo, hi := len(s.Fields), len(classes)-len(s.Objectives)
		for i := hi - 1; i > lo; i-- {
			j := lo + rng.Intn(i-lo+1)
			slots[i], slots[j] = slots[j], slots[i]
		}
	default: // everything mingles
		for i := len(slots) - 1; i > 0; i-- {
			j := rng.Intn(i + 1)
			slots[i], slots[j] = slots[j], slots[i]
		}
	}
	wire := make([]int, len(slots))
	for i, c := range slots {
		wire[i] = next[c][0]
		next[c] = next[c][1:]
	}
	out.Wire = wire
	return out
}

func IntsTok(xs []int) string {
	if len(xs) == 0 {
		return "."
	}
	parts := make([]string, len(xs))
	for i, x := range xs {
		parts[i] = strconv.Itoa(x)
	}
	return strings.Join(parts, ",")
}

func ParseInts(s string) ([]int, error) {
	if s == "." {
		return nil, nil
	}
	var out []int
	for _, p := range strings.Split(s, ",") {
		v, err := strconv.Atoi(p)
		if err != nil {
			return nil, fmt.Errorf("bad int list %q", s)
		}
		out = append(out, v)
	}
	return out, nil
}

// ---------------------------------------------------------------- random statuses

var fieldNames = []string{"hostname", "numplayers", "maxplayers", "gametype", "gamevariant", "mapname", "hostport",
	"password", "gamever", "statsenabled", "round", "numrounds", "timeleft", "timespecial", "swatscore",
	"suspectsscore", "swatwon", "suspectswon", "bombsdefused", "bombstotal", "tocreports", "weaponssecured"}

var playerKeys = []string{"player", "score", "ping", "team", "vip", "coopstatus", "kills", "tkills", "deaths",
	"arrests", "arrested", "vescaped", "arrestedvip", "unarrestedvip", "validvipkills", "invalidvipkills",
	"bombsdiffused", "rdcrybaby", "sgcrybaby", "escapedcase", "killedcase"}

// RandValue draws a backslash-free value (never the words `queryid`, `statusresponse`); latin-1 high bytes when latin.
func RandValue(rng interface{ Intn(int) int }, latin bool) []byte {
	// a value that spells a word of the framing (a player may be called `eof`): between backslashes it is a value like any other
	if rng.Intn(40) == 0 {
		return []byte([]string{"eof", "eof", "EOF", "eof!", "final!", "statusresponse1"}[rng.Intn(6)])
	}
	n := 0
	switch rng.Intn(6) {
	case 0:
		n = 0
	case 1:
		n = 1 + rng.Intn(3)
	case 2:
		n = 20 + rng.Intn(60)
	default:
		n = 1 + rng.Intn(14)
	}
	b := make([]byte, n)
	for i := range b {
		var c byte
		switch {
		case latin && rng.Intn(3) == 0:
			c = byte(0x80 + rng.Intn(0x80))
		case rng.Intn(12) == 0:
			c = []byte{'_', ' ', '0', 0x7f, 0x01, '[', '=', 0x00}[rng.Intn(8)]
		default:
			c = byte(0x20 + rng.Intn(0x5f))
		}
		if c == '\\' {
			c = '/'
		}
		b[i] = c
	}
	if string(b) == "queryid" || string(b) == "statusresponse" {
		b[0] = 'Q'
	}
	return b
}

func randName(rng interface{ Intn(int) int }) []byte {
	n := 1 + rng.Intn(9)
	b := make([]byte, n)
	for i := range b {
		c := byte(0x21 + rng.Intn(0x5e))
		if c == '\\' || c == '_' {
			c = 'x'
		}
		if rng.Intn(20) == 0 {
			c = byte(0x80 + rng.Intn(0x80))
		}
		b[i] = c
	}
	switch string(b) {
	case "queryid", "final", "statusresponse", "obj":
		b[0] = 'Z'
	}
	return b
}

func numStr(rng interface{ Intn(int) int }) []byte {
	return []byte(strconv.Itoa(rng.Intn(300) - 10))
}

// RandStatus draws a well-formed status (Lean: WfStatus): realistic names mixed with random ones.
func RandStatus(rng interface{ Intn(int) int }, nPlayers, nObjs int) Status {
	var s Status
	weird := rng.Intn(4) == 0
	latin := rng.Intn(2) == 0
	nf := 1 + rng.Intn(len(fieldNames))
	if rng.Intn(10) == 0 {
		nf = rng.Intn(3)
	}
	perm := make([]int, len(fieldNames))
	for i := range perm {
		perm[i] = i
	}
	for i := len(perm) - 1; i > 0; i-- {
		j := rng.Intn(i + 1)
		perm[i], perm[j] = perm[j], perm[i]
	}
	for i := 0; i < nf; i++ {
		var k []byte
		if weird && rng.Intn(2) == 0 {
			k = randName(rng)
		} else {
			k = []byte(fieldNames[perm[i]])
		}
		var v []byte
		switch {
		case string(k) == "hostport":
			v = []byte(strconv.Itoa(10480 + rng.Intn(3)))
		case rng.Intn(3) == 0:
			v = numStr(rng)
		default:
			v = RandValue(rng, latin)
		}
		s.Fields = append(s.Fields, KV{k, v})
	}
	if weird && rng.Intn(3) == 0 && len(s.Fields) > 0 { // duplicate field name: the later one wins
		s.Fields = append(s.Fields, KV{s.Fields[0].K, RandValue(rng, latin)})
	}
	for p := 0; p < nPlayers; p++ {
		nk := 1 + rng.Intn(5)
		var kvs []KV
		for j := 0; j < nk; j++ {
			var k []byte
			if weird && rng.Intn(3) == 0 {
				k = randName(rng)
			} else if j == 0 {
				k = []byte("player")
			} else {
				k = []byte(playerKeys[rng.Intn(len(playerKeys))])
			}
			var v []byte
			if j == 0 || rng.Intn(4) == 0 {
				v = RandValue(rng, latin)
			} else {
				v = numStr(rng)
			}
			kvs = append(kvs, KV{k, v})
		}
		s.Players = append(s.Players, kvs)
	}
	for o := 0; o < nObjs; o++ {
		var k []byte
		if weird {
			k = randName(rng)
			if rng.Intn(2) == 0 {
				k = append(k, []byte("_x_1")...)
			}
		} else {
			k = []byte([]string{"Neutralize_All_Enemies", "Rescue_All_Hostages", "Arrest_Jennings", "Automatic_DOA", "Custom_Timed"}[rng.Intn(5)])
		}
		v := []byte(strconv.Itoa(rng.Intn(3)))
		if weird && rng.Intn(3) == 0 {
			v = RandValue(rng, latin)
		}
		s.Objectives = append(s.Objectives, KV{k, v})
	}
	return s
}

// RandCuts draws n-1 cut positions in a flat sequence of the given length (pairAligned: even only).
func RandCuts(rng interface{ Intn(int) int }, flatLen, nFrag int, pairAligned bool) []int {
	cand := []int{}
	for i := 1; i < flatLen; i++ {
		if !pairAligned || i%2 == 0 {
			cand = append(cand, i)
		}
	}
	for i := len(cand) - 1; i > 0; i-- {
		j := rng.Intn(i + 1)
		cand[i], cand[j] = cand[j], cand[i]
	}
	if nFrag-1 < len(cand) {
		cand = cand[:nFrag-1]
	}
	sort.Ints(cand)
	return cand
}

// MaxDgram is the longest datagram gs1.Query reads whole.
const MaxDgram = 2048
