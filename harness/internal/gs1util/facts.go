package gs1util

import (
	"fmt"
	"go/ast"
	"go/parser"
	"go/token"
	"io"
	"os"
	"path/filepath"
	"strconv"

	"github.com/sergeii/swat4master/pkg/gamespy/serverquery/gs1"
	"github.com/sergeii/swat4master/verifharness/internal/facts"
)

// Facts the GS1 model relies on, regenerated from the source on every run:
// framing constants, the numeric order of the dialect tags, the read buffer size, and the
// inventory of partial operations (index, slice, type assertion, panic call) of gs1.go.
func init() {
	facts.Add("gs1", func(w io.Writer, repo string) error {
		fmt.Fprintf(w, "def gs1FINAL : List UInt8 := %s\n", facts.LeanBytes([]byte(gs1.FINAL)))
		fmt.Fprintf(w, "def gs1EOF : List UInt8 := %s\n", facts.LeanBytes([]byte(gs1.EOF)))
		fmt.Fprintf(w, "def gs1VerUnknown : Nat := %d\ndef gs1VerVanilla : Nat := %d\ndef gs1VerAM : Nat := %d\ndef gs1VerGS1 : Nat := %d\n",
			int(gs1.VerUnknown), int(gs1.VerVanilla), int(gs1.VerAM), int(gs1.VerGS1))
		fmt.Fprintf(w, "def gs1VerTags : List String := %s\n", facts.LeanStrList([]string{
			gs1.VerUnknown.String(), gs1.VerVanilla.String(), gs1.VerAM.String(), gs1.VerGS1.String()}))
		path := filepath.Join(repo, "pkg", "gamespy", "serverquery", "gs1", "gs1.go")
		src, err := os.ReadFile(path)
		if err != nil {
			return err
		}
		fset := token.NewFileSet()
		f, err := parser.ParseFile(fset, path, src, 0)
		if err != nil {
			return err
		}
		bufSize := -1
		var sites []string
		text := func(n ast.Node) string {
			return string(src[fset.Position(n.Pos()).Offset:fset.Position(n.End()).Offset])
		}
		for _, d := range f.Decls {
			switch d := d.(type) {
			case *ast.GenDecl:
				for _, sp := range d.Specs {
					if vs, ok := sp.(*ast.ValueSpec); ok {
						for i, n := range vs.Names {
							if n.Name == "bufferSize" && i < len(vs.Values) {
								if lit, ok := vs.Values[i].(*ast.BasicLit); ok {
									bufSize, _ = strconv.Atoi(lit.Value)
								}
							}
						}
					}
				}
			case *ast.FuncDecl:
				ast.Inspect(d, func(n ast.Node) bool {
					switch n := n.(type) {
					case *ast.IndexExpr:
						sites = append(sites, d.Name.Name+" index "+text(n))
					case *ast.SliceExpr:
						sites = append(sites, d.Name.Name+" slice "+text(n))
					case *ast.TypeAssertExpr:
						sites = append(sites, d.Name.Name+" assert "+text(n))
					case *ast.CallExpr:
						if id, ok := n.Fun.(*ast.Ident); ok && id.Name == "panic" {
							sites = append(sites, d.Name.Name+" panic "+text(n))
						}
					}
					return true
				})
			}
		}
		if bufSize < 0 {
			return fmt.Errorf("gs1.go: const bufferSize not found")
		}
		fmt.Fprintf(w, "def gs1BufferSize : Nat := %d\n", bufSize)
		fmt.Fprintf(w, "/-- partial operations of gs1.go (function, kind, operand text) -/\n")
		fmt.Fprintf(w, "def gs1PartialOps : List String := %s\n", facts.LeanStrList(sites))
		return nil
	})
}
