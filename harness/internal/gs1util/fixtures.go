// Code generated from /repo/pkg/gamespy/serverquery/gs1/gs1_test.go (captured responses); DO NOT EDIT.
package gs1util

// Fixtures are the datagram lists used by the repository's own gs1 tests.
var Fixtures = [][][]byte{
	{
		[]byte("\\hostname\\test\\queryid\\1"),
		[]byte("\\hostport\\10480\\queryid\\2\\final\\"),
	},
	{
		[]byte("\\hostname\\[C=FFFF00]WWW.HOUSEOFPAiN.TK (Antics)\\numplayers\\4" + "\\maxplayers\\12\\gametype\\Barricaded Suspects\\gamevariant\\SWAT 4" + "\\mapname\\The Wolcott Projects\\hostport\\10480\\password\\0\\gamever\\1.0" + "\\player_0\\Navis\\player_1\\TAMAL(SPEC)\\player_2\\Player\\player_3\\Osanda(VIEW)" + "\\score_0\\15\\score_1\\0\\score_2\\3\\score_3\\0\\ping_0\\56\\ping_1\\160" + "\\ping_2\\256\\ping_3\\262\\final\\\\queryid\\1.1"),
	},
	{
		[]byte("\\statusresponse\\0\\hostname\\[C=FF0000][c=33CCCC]>|S[C=FFFFFF]S|<[c=ffff00]Arg[C=ffffff]en[c=33CCCC]tina\xae[c=ff0000]-By FNXgaming.com" + "\\numplayers\\10\\maxplayers\\16\\gametype\\Barricaded Suspects\\gamevariant\\SWAT 4\\" + "mapname\\A-Bomb Nightclub\\hostport\\10780\\password\\0\\gamever\\1.0\\statsenabled\\0" + "\\swatwon\\2\\suspectswon\\0\\round\\3\\numrounds\\3\\player_0\\darwinn\\player_1\\kyle" + "\\player_2\\super\\player_3\\\xab|FAL|cucuso\\player_4\\||AT||Lp!\\player_5\\Diejack1" + "\\player_6\\Player1232\\player_7\\Mojojojo\\player_8\\DrLemonn\\player_9\\elmatap\\score_0\\4\\eof\\"),
		[]byte("\\statusresponse\\1\\score_1\\2\\score_2\\1\\score_3\\10\\score_4\\14\\score_5\\-3\\score_6\\11" + "\\score_7\\25\\score_8\\18\\score_9\\5\\ping_0\\67\\ping_1\\184\\ping_2\\265\\ping_3\\255" + "\\ping_4\\54\\ping_5\\218\\ping_6\\208\\ping_7\\136\\ping_8\\70\\ping_9\\64\\team_0\\0\\team_1\\0" + "\\team_2\\1\\team_3\\0\\team_4\\1\\team_5\\0\\team_6\\1\\team_7\\1\\team_8\\0\\team_9\\0\\kills_0\\4" + "\\kills_1\\2\\kills_2\\1\\kills_3\\5\\kills_4\\14\\kills_5\\3\\kills_6\\6\\kills_7\\10\\kills_8\\8" + "\\kills_9\\6\\tkills_5\\2\\tkills_9\\2\\deaths_0\\6\\deaths_1\\9" + "\\deaths_2\\4\\deaths_3\\4\\deaths_4\\8\\deaths_5\\4\\deaths_6\\7\\eof\\"),
		[]byte("\\statusresponse\\2\\deaths_7\\5\\deaths_8\\7\\deaths_9\\4" + "\\arrests_3\\1\\arrests_6\\1\\arrests_7\\3\\arrests_8\\2\\arrests_9" + "\\1\\arrested_1\\1\\arrested_2\\2\\arrested_4\\1\\arrested_5\\1\\arrested_6\\1" + "\\arrested_9\\2\\queryid\\AMv1\\final\\\\eof\\"),
	},
	{
		[]byte("\\statusresponse\\2\\kills_13\\1\\kills_14\\1\\deaths_1\\1\\deaths_2\\1\\deaths_4\\1\\deaths_5\\1" + "\\deaths_9\\1\\deaths_14\\1\\queryid\\AMv1\\final\\\\eof\\"),
		[]byte("\\statusresponse\\1\\0\\score_1\\0\\score_2\\1\\score_3\\0\\score_4\\0\\score_5\\0\\score_6\\0" + "\\score_7\\0\\score_8\\1\\score_9\\0\\score_10\\0\\score_11\\0\\score_12\\2\\score_13\\1" + "\\score_14\\1\\ping_0\\155\\ping_1\\127\\ping_2\\263\\ping_3\\163\\ping_4\\111\\ping_5\\117\\ping_6" + "\\142\\ping_7\\121\\ping_8\\159\\ping_9\\142\\ping_10\\72\\ping_11\\154\\ping_12\\212\\ping_13" + "\\123\\ping_14\\153\\team_0\\1\\team_1\\0\\team_2\\1\\team_3\\0\\team_4\\0\\team_5\\0\\team_6\\1" + "\\team_7\\1\\team_8\\0\\team_9\\0\\team_10\\0\\team_11\\1\\team_12\\1\\team_13\\0\\team_14\\1" + "\\kills_2\\1\\kills_8\\1\\kills_12\\2\\eof\\"),
		[]byte("\\statusresponse\\0\\hostname\\{FAB} Clan Server\\numplayers\\15\\maxplayers" + "\\16\\gametype\\VIP Escort\\gamevariant\\SWAT 4\\mapname\\Red Library Offices" + "\\hostport\\10580\\password\\0\\gamever\\1.0\\statsenabled\\0\\swatwon\\1\\suspectswon\\0" + "\\round\\2\\numrounds\\7\\player_0\\{FAB}Nikki_Sixx<CPL>\\player_1\\Nico^Elite\\player_2" + "\\Balls\\player_3\\\xab|FAL|\xdc\xee\xee\xe4^\\player_4\\Reynolds\\player_5\\4Taws\\player_6" + "\\Daro\\player_7\\Majos\\player_8\\mi\\player_9\\tony\\player_10\\MENDEZ\\player_11\\ARoXDeviL" + "\\player_12\\{FAB}Chry<CPL>\\player_13\\P\\player_14\\xXx\\score_0\\eof\\"),
	},
	{
		[]byte("\\statusresponse\\0" + "\\hostname\\|WM| WorldMafia.net | [c=10d0ff]Competitive Gaming" + "\\numplayers\\0\\maxplayers\\16\\gametype\\VIP Escort\\gamevariant\\SWAT 4" + "\\mapname\\The Wolcott Projects\\hostport\\10480\\password\\0\\gamever\\1.1" + "\\statsenabled\\0\\swatwon\\0\\suspectswon\\0\\round\\1\\numrounds\\5" + "\\queryid\\0\\final\\"),
	},
	{
		[]byte("\\statusresponse\\0" + "\\hostname\\|WM| WorldMafia.net | [c=10d0ff]Competitive Gaming\\numplayers\\16" + "\\maxplayers\\16\\gametype\\VIP Escort\\gamevariant\\SWAT 4\\mapname\\Fairfax Residence" + "\\hostport\\10480\\password\\0\\gamever\\1.1\\statsenabled\\0\\swatwon\\1\\suspectswon\\2" + "\\round\\4\\numrounds\\5\\player_0\\Bobo_CZECH\\player_1\\|WM|\\player_2\\|WM|bravo" + "\\player_3\\zuoty\\player_4\\|WM|TC(GER)\\player_5\\Lio\\player_6\\jewngleballs" + "\\player_7\\JingleKat\\player_8\\whore\\player_9\\{WRS}|H|unt_fitcoach" + "\\player_10\\SK\\player_11\\Crystalcastles\\player_12\\{Mopnc}\\player_13" + "\\queryid\\0"),
		[]byte("\\statusresponse\\2" + "\\0\\team_12\\1\\team_13\\0\\team_14\\0\\team_15\\1\\kills_0\\2" + "\\kills_1\\3\\kills_2\\2\\kills_3\\1\\kills_5\\4\\kills_6\\8\\kills_7\\3\\kills_8\\10\\kills_9\\1" + "\\kills_11\\3\\kills_12\\2\\kills_14\\3\\kills_15\\1\\deaths_0\\5\\deaths_1\\3\\deaths_2\\5" + "\\deaths_3\\4\\deaths_5\\2\\deaths_6\\2\\deaths_7\\3\\deaths_8\\5\\deaths_9\\4\\deaths_10\\2" + "\\deaths_11\\3\\deaths_12\\3\\deaths_13\\1\\deaths_15\\2" + "\\queryid\\2" + "\\final\\"),
		[]byte("\\statusresponse\\1" + "\\Gery\\player_14\\Pepper_boi\\player_15\\DavidR\\score_0\\2" + "\\score_1\\3\\score_2\\2\\score_3\\1\\score_4\\0\\score_5\\4\\score_6\\8\\score_7\\3" + "\\score_8\\10\\score_9\\1\\score_10\\0\\score_11\\3\\score_12\\2\\score_13\\0\\score_14\\3" + "\\score_15\\1\\ping_0\\10\\ping_1\\36\\ping_2\\60\\ping_3\\22\\ping_4\\15\\ping_5\\39" + "\\ping_6\\14\\ping_7\\23\\ping_8\\31\\ping_9\\210\\ping_10\\23\\ping_11\\25\\ping_12\\88" + "\\ping_13\\14\\ping_14\\28\\ping_15\\39\\team_0\\0\\team_1\\1\\team_2\\0\\team_3\\1" + "\\team_4\\0\\team_5\\1\\team_6\\1\\team_7\\1\\team_8\\0\\team_9\\0\\team_10\\1\\team_11" + "\\queryid\\1"),
	},
	{
		[]byte("\\hostname\\-==MYT World Svr==-\\numplayers\\0\\maxplayers\\16\\gametype\\VIP Escort" + "\\gamevariant\\SWAT 4\\mapname\\Enverstar Power Plant\\hostport\\10580" + "\\password\\false\\gamever\\1.1\\round\\2\\numrounds\\5\\timeleft\\109" + "\\timespecial\\0\\swatscore\\0\\suspectsscore\\0\\swatwon\\0\\suspectswon\\0" + "\\queryid\\1\\final\\"),
	},
	{
		[]byte("\\player_3\\Morgan\\score_3\\6\\ping_3\\53\\team_3\\1\\kills_3\\6\\deaths_3\\7" + "\\arrested_3\\1\\player_4\\Jericho\\score_4\\3\\ping_4\\46\\team_4\\0\\kills_4\\3" + "\\deaths_4\\12\\player_5\\Bolint\\score_5\\21\\ping_5\\57\\team_5\\1\\kills_5\\16" + "\\deaths_5\\8\\arrests_5\\1\\player_6\\FsB\\score_6\\2\\ping_6\\46\\team_6\\1\\kills_6\\5" + "\\deaths_6\\10\\tkills_6\\1\\arrested_6\\1\\player_7\\t00naab\\score_7\\11\\ping_7\\27" + "\\team_7\\0\\kills_7\\11\\vip_7\\1\\player_8\\ob\\score_8\\2\\ping_8\\74\\team_8\\1" + "\\kills_8\\2\\deaths_8\\3\\player_9\\martino\\score_9\\5\\ping_9\\67\\team_9\\1\\queryid\\2"),
		[]byte("\\hostname\\-==MYT Team Svr==-\\numplayers\\13\\maxplayers\\16" + "\\gametype\\VIP Escort\\gamevariant\\SWAT 4\\mapname\\Fairfax Residence" + "\\hostport\\10480\\password\\false\\gamever\\1.1\\round\\5\\numrounds\\5" + "\\timeleft\\286\\timespecial\\0\\swatscore\\41\\suspectsscore\\36\\swatwon" + "\\1\\suspectswon\\2\\player_0\\ugatz\\score_0\\0\\ping_0\\43\\team_0\\1" + "\\deaths_0\\9\\player_1\\|CSI|Miami\\score_1\\8\\ping_1\\104\\team_1\\0" + "\\kills_1\\8\\deaths_1\\4\\player_2\\aphawil\\score_2\\7\\ping_2\\69" + "\\team_2\\0\\kills_2\\8\\deaths_2\\11\\tkills_2\\2\\arrests_2\\1\\queryid\\1"),
		[]byte("\\kills_9\\5\\deaths_9\\2\\player_10\\conoeMadre\\score_10\\7\\ping_10\\135\\team_10\\0" + "\\kills_10\\7\\deaths_10\\2\\player_11\\Enigma51\\score_11\\0\\ping_11\\289\\team_11\\0" + "\\deaths_11\\1\\player_12\\Billy\\score_12\\0\\ping_12\\999\\team_12\\0\\queryid\\3\\final\\"),
	},
	{
		[]byte("\\hostname\\-==MYT Co-op Svr==-\\numplayers\\0\\maxplayers\\5\\gametype\\CO-OP" + "\\gamevariant\\SWAT 4\\mapname\\DuPlessis Diamond Center\\hostport\\10880\\password\\false" + "\\gamever\\1.1\\round\\1\\numrounds\\1\\timeleft\\316\\timespecial\\0" + "\\obj_Neutralize_All_Enemies\\0\\obj_Rescue_All_Hostages\\0\\tocreports\\0/11" + "\\weaponssecured\\0/0\\queryid\\1\\final\\"),
	},
	{
		[]byte("\\hostname\\[c=0099ff]SEF 7.0 EU [c=ffffff]www.swat4.tk\\numplayers\\2\\maxplayers\\10" + "\\gametype\\CO-OP\\gamevariant\\SEF\\mapname\\Mt. Threshold Research Center" + "\\hostport\\10480\\password\\false\\gamever\\7.0\\round\\1\\numrounds\\1\\timeleft\\0" + "\\timespecial\\0\\obj_Neutralize_All_Enemies\\0\\obj_Rescue_All_Hostages\\0\\queryid\\1"),
		[]byte("\\obj_Rescue_Sterling\\0\\obj_Neutralize_TerrorLeader\\0\\obj_Secure_Briefcase\\0" + "\\tocreports\\21/25\\weaponssecured\\5/8\\player_0\\Soup\\score_0\\0\\ping_0\\65" + "\\team_0\\0\\coopstatus_0\\2\\player_1\\McDuffin\\score_1\\0\\ping_1\\90\\team_1\\0" + "\\coopstatus_1\\0\\queryid\\2\\final\\"),
	},
	{
		[]byte("\\obj_Rescue_Sterling\\0\\obj_Neutralize_TerrorLeader\\0\\obj_Secure_Briefcase\\0" + "\\tocreports\\21/25\\weaponssecured\\5/8\\player_0\\Soup\\score_0\\0\\ping_0\\65" + "\\team_0\\0\\coopstatus_0\\2\\player_1\\McDuffin\\score_1\\0\\ping_1\\90\\team_1\\0" + "\\coopstatus_1\\0\\queryid\\2\\final\\"),
		[]byte("\\hostname\\[c=0099ff]SEF 7.0 EU [c=ffffff]www.swat4.tk\\numplayers\\2\\maxplayers\\10" + "\\gametype\\CO-OP\\gamevariant\\SEF\\mapname\\Mt. Threshold Research Center" + "\\hostport\\10480\\password\\false\\gamever\\7.0\\round\\1\\numrounds\\1\\timeleft\\0" + "\\timespecial\\0\\obj_Neutralize_All_Enemies\\0\\obj_Rescue_All_Hostages\\0\\queryid\\1"),
	},
	{
		[]byte("\\hostname\\-==MYT Co-op Svr==-\\numplayers\\0\\maxplayers\\5\\gametype\\CO-OP" + "\\gamevariant\\SWAT 4\\mapname\\DuPlessis Diamond Center\\hostport\\10880\\password\\false" + "\\gamever\\1.1\\round\\1\\numrounds\\1\\timeleft\\316\\timespecial\\0" + "\\obj_Neutralize_All_Enemies\\0\\obj_\\0\\tocreports\\0/11" + "\\weaponssecured\\0/0\\queryid\\1\\final\\"),
	},
	{
		[]byte("\\player_3\\Morgan\\score_3\\6\\ping_3\\53\\team_3\\1\\kills_3\\6\\deaths_3\\7" + "\\arrested_3\\1\\player_4\\Jericho\\score_4\\3\\ping_4\\46\\team_4\\0\\kills_4\\3" + "\\deaths_4\\12\\player_5\\Bolint\\score_5\\21\\ping_5\\57\\team_5\\1\\kills_5\\16" + "\\deaths_5\\8\\arrests_5\\1\\player_6\\FsB\\score_6\\2\\ping_6\\46\\team_6\\1\\kills_6\\5" + "\\deaths_6\\10\\tkills_6\\1\\arrested_6\\1\\player_7\\t00naab\\score_7\\11\\ping_7\\27" + "\\team_7\\0\\kills_7\\11\\vip_7\\1\\player_8\\ob\\score_8\\2\\ping_8\\74\\team_8\\1" + "\\kills_8\\2\\deaths_8\\3\\player_9\\martino\\score_9\\5\\ping_9\\67\\team_9\\1\\queryid\\2"),
		[]byte("\\hostname\\-==MYT Team Svr==-\\numplayers\\13\\maxplayers\\16" + "\\gametype\\VIP Escort\\gamevariant\\SWAT 4\\mapname\\Fairfax Residence" + "\\hostport\\10480\\password\\false\\gamever\\1.1\\round\\5\\numrounds\\5" + "\\timeleft\\286\\timespecial\\0\\swatscore\\41\\suspectsscore\\36\\swatwon" + "\\1\\suspectswon\\2\\player_0\\ugatz\\score_0\\0\\ping_0\\43\\team_0\\1" + "\\deaths_0\\9\\player_1\\|CSI|Miami\\score_1\\8\\ping_1\\104\\team_1\\0" + "\\kills_1\\8\\deaths_1\\4\\player_2\\aphawil\\score_2\\7\\ping_2\\69" + "\\team_2\\0\\kills_2\\8\\deaths_2\\11\\tkills_2\\2\\arrests_2\\1\\queryid\\1"),
		[]byte("\\kills_9\\5\\deaths_9\\2\\player_10\\conoeMadre\\score_10\\7\\ping_10\\135\\team_10\\0" + "\\kills_10\\7\\deaths_10\\2\\player_11\\Enigma51\\score_11\\0\\ping_11\\289\\team_11\\0" + "\\deaths_11\\1\\player_12\\Billy\\score_12\\0\\ping_12\\999\\team_12\\0\\queryid\\3\\final\\"),
	},
	{
		[]byte("\\hostname\\test\\hostport\\10480\\queryid\\gs1\\final\\"),
	},
	{
		[]byte("\\hostname\\test\\hostport\\10480\\queryid\\1.1\\final\\"),
	},
	{
		[]byte("\\statusresponse\\0\\hostname\\test\\queryid\\AMv1\\eof\\"),
		[]byte("\\statusresponse\\1\\hostport\\10480\\queryid\\AMv1\\final\\\\eof\\"),
	},
	{
		[]byte("\\statusresponse\\0\\hostname\\test\\queryid\\AMv1\\eof\\"),
		[]byte("\\statusresponse\\1\\hostport\\10480\\queryid\\AMv1\\final\\\\eof\\"),
	},
	{
		[]byte("\\statusresponse\\1\\hostport\\10480\\queryid\\AMv1\\final\\\\eof\\"),
		[]byte("\\statusresponse\\0\\hostname\\test\\queryid\\AMv1\\eof\\"),
	},
	{
		[]byte("\\hostname\\test\\queryid\\1"),
		[]byte("\\hostport\\10480\\queryid\\2"),
	},
	{
		[]byte("\\hostname\\test\\hostport\\10480\\final\\"),
	},
	{
		[]byte("\\hostname\\test\\queryid\\1"),
		[]byte("\\hostport\\10480\\queryid\\2"),
		[]byte("\\gametype\\VIP Escort\\queryid\\4\\final\\"),
	},
	{
		[]byte("\\hostname\\test\\queryid\\2"),
		[]byte("\\hostport\\10480\\queryid\\3"),
		[]byte("\\gametype\\VIP Escort\\queryid\\4\\final\\"),
	},
	{
		[]byte("\\hostname\\test\\queryid\\0"),
		[]byte("\\hostport\\10480\\queryid\\1\\final\\"),
	},
	{
		[]byte("\\hostname\\test\\queryid\\-1"),
		[]byte("\\hostport\\10480\\queryid\\0\\"),
		[]byte("\\gametype\\VIP Escort\\queryid\\1\\final\\"),
	},
	{
		[]byte("\\hostname\\test\\queryid\\final\\"),
	},
	{
		[]byte("\\hostname\\test\\queryid\\final\\"),
	},
	{
		[]byte("\\statusresponse\\1.0\\hostname\\test\\queryid\\AMv1\\eof\\"),
		[]byte("\\statusresponse\\2.0\\hostport\\10480\\queryid\\AMv1\\final\\\\eof\\"),
	},
	{
		[]byte("\\statusresponse\\\\hostname\\test\\queryid\\AMv1\\eof\\"),
		[]byte("\\statusresponse\\\\hostport\\10480\\queryid\\AMv1\\final\\\\eof\\"),
	},
	{
		[]byte("\\statusresponse\\hostname\\test\\queryid\\AMv1\\eof\\"),
		[]byte("\\statusresponse\\hostport\\10480\\queryid\\AMv1\\final\\\\eof\\"),
	},
	{
		[]byte("\\statusresponse\\0\\hostname\\test\\queryid\\AMv1\\eof\\"),
		[]byte("\\statusresponse\\2\\hostport\\10480\\queryid\\AMv1\\final\\\\eof\\"),
	},
	{
		[]byte("\\statusresponse\\1\\hostname\\test\\queryid\\AMv1\\eof\\"),
		[]byte("\\statusresponse\\2\\hostport\\10480\\queryid\\AMv1\\final\\\\eof\\"),
	},
	{
		[]byte("\\statusresponse\\"),
	},
	{
		[]byte("\\final\\"),
	},
	{
		[]byte("\\final\\\\eof\\"),
	},
	{
		[]byte("\\statusresponse\\0\\hostname\\[c=ffff00]WWW.EPiCS.TOP\\numplayers\\6\\maxplayers\\16" + "\\gametype\\Barricaded Suspects\\gamevariant\\SWAT 4X\\mapname\\The Wolcott Projects" + "\\hostport\\10480\\password\\0\\gamever\\1.0\\statsenabled\\0\\swatwon\\0\\suspectswon\\0" + "\\round\\1\\numrounds\\3\\nextmap\\MP-FoodWall\\timeleft\\18\\swatscore\\0\\suspectsscore\\0" + "\\player_0\\[c=ffff00]op\\player_1\\[c=2F4F4F]AsD\\player_2\\mr\\player_3\\|Vx|Bogdy" + "\\player_4\\unknow\\player_FOO\\|{|BATMAN|}|\\score_0\\0\\score_1\\0\\score_2\\0\\score_3" + "\\0\\score_4\\0\\score_5\\0\\ping_0\\105\\ping_1\\125\\eof\\"),
		[]byte("\\statusresponse\\1\\ping_2\\79\\ping_3\\72\\ping_4\\65\\ping_5\\81\\team_0\\1" + "\\team_1\\0\\team_2\\1\\team_3\\0\\team_4\\0\\team_5\\1\\queryid\\AMv1\\final\\\\eof\\"),
	},
	{
		[]byte("\\statusresponse\\0\\hostname\\test\\queryid\\AMv1\\eof\\"),
		[]byte("\\statusresponse\\1\\hostport\\10480\\queryid\\AMv1\\final\\\\eof\\"),
	},
	{
		[]byte("\\statusresponse\\0\\hostname\\test\\queryid\\AMv1\\eof\\"),
		[]byte("\\statusresponse\\1\\hostport\\10480\\queryid\\AMv1\\final\\\\eof\\"),
	},
}
