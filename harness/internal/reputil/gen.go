package reputil

import (
	"net"
	"fmt"
	"math/rand"
	"strings"

	"github.com/sergeii/swat4master/verifharness/internal/core"
)

// KV is one name/value pair of a heartbeat body (raw bytes on the wire).
type KV struct{ K, V []byte }

// Heartbeat assembles 03 | id | (name 00 value 00)* | tail.
func Heartbeat(id []byte, kvs []KV, tail []byte) []byte {
	b := []byte{0x03}
	b = append(b, id...)
	for _, kv := range kvs {
		b = append(b, kv.K...)
		b = append(b, 0)
		b = append(b, kv.V...)
		b = append(b, 0)
	}
	return append(b, tail...)
}

func Keepalive(id []byte) []byte { return append([]byte{0x08}, id...) }
func Challenge(id []byte) []byte { return append([]byte{0x01}, id...) }
func Available() []byte {
	return []byte{0x09, 0, 0, 0, 0, 's', 'w', 'a', 't', '4', 0}
}

var asciiWords = []string{"mapname", "password", "hostport", "statechanged", "localport", "hostname", "gametype", "numplayers", "Swat4 Server", "A-Bomb Nightclub", "VIP Escort", "SWAT 4", "1.1", "TSS", "Barricaded Suspects", "x", "0", "-", "a=b", "\\back\\slash", "tab\there", " "}
var utf8Words = []string{"Сервер", "日本語サーバー", "café ☕", "ÿĀ", "\U0001F600 smile", "� repl", "߿ࠀ￿"}
var markupWords = []string{"[c=FF0000]Red[\\c]", "[b]Bold[\\b] [u]x[\\u]", "[C=00ff00][B]My [i]Server", "[c=ffffff]", "[\\c][\\b]"}

// invalid UTF-8 fragments: lone continuation, overlong, surrogate, truncated, out of range, 0xFF
var invalidFrags = [][]byte{{0x80}, {0xbf, 0xbf}, {0xc0, 0x80}, {0xc1, 0xbf}, {0xe0, 0x80, 0x80}, {0xed, 0xa0, 0x80}, {0xe2, 0x82}, {0xf0, 0x9f, 0x98},
	{0xf4, 0x90, 0x80, 0x80}, {0xf5, 0x80, 0x80, 0x80}, {0xff}, {0xfe, 0xff}, {0xc2}, {0xf0, 0x80, 0x80, 0x80}, {0xe0, 0x9f, 0xbf}, {0xf0, 0x8f, 0xbf, 0xbf}}

func nulFree(b []byte) []byte {
	out := make([]byte, 0, len(b))
	for _, x := range b {
		if x != 0 {
			out = append(out, x)
		}
	}
	return out
}

// Value draws a NUL-free, non-empty value from {ASCII, UTF-8, invalid UTF-8, SWAT markup, long}.
func Value(rng *rand.Rand) []byte {
	var v []byte
	switch rng.Intn(8) {
	case 0, 1:
		v = []byte(asciiWords[rng.Intn(len(asciiWords))])
	case 2:
		v = []byte(utf8Words[rng.Intn(len(utf8Words))])
	case 3:
		v = []byte(markupWords[rng.Intn(len(markupWords))])
	case 4: // mixture of valid text and invalid fragments (runs of several invalid bytes too)
		n := 1 + rng.Intn(5)
		for i := 0; i < n; i++ {
			switch rng.Intn(3) {
			case 0:
				v = append(v, invalidFrags[rng.Intn(len(invalidFrags))]...)
			case 1:
				v = append(v, []byte(utf8Words[rng.Intn(len(utf8Words))])...)
			default:
				v = append(v, []byte(asciiWords[rng.Intn(len(asciiWords))])...)
			}
		}
	case 5: // random high bytes
		v = nulFree(core.RandBytes(rng, 1+rng.Intn(24)))
	case 6: // long
		w := []byte(utf8Words[rng.Intn(len(utf8Words))] + asciiWords[rng.Intn(len(asciiWords))])
		n := 200 + rng.Intn(700)
		for len(v) < n {
			v = append(v, w...)
		}
	default:
		v = nulFree(core.RandBytes(rng, 1+rng.Intn(6)))
	}
	if len(v) == 0 {
		v = []byte("v")
	}
	return v
}

var intGood = []string{"0", "1", "5", "16", "007", "+3", "24", "9223372036854775807"}
var intBad = []string{"abc", "1.5", "1e3", " 1", "1 ", "+", "-", "0x10", "1_000", "9223372036854775808", "-9223372036854775809", "99999999999999999999999", "٣"}
var oddPorts = []string{"3000000000", "-4294967296", "2147483648", "2147483647", "-2147483649", "70000", "0", " 10481", "10481 ", "\t10481", "10481\r\n", "10\xff481", "10481\x80", "\xfe10481"}
var intNeg = []string{"-1", "-0", "-9223372036854775808", "-16"}
var boolVals = []string{"0", "1", "true", "false", "True", "yes", "2", "00", "t", "FALSE"}

// Report describes the logical content of one heartbeat.
type Report struct {
	ID        []byte
	HostPort  string
	LocalPort string
	State     string // statechanged value, "" = absent
	Extra     []KV   // further pairs appended verbatim (after the base pairs)
	Drop      map[string]bool
	Over      map[string][]byte // overrides of base values
	Unknown   []KV              // unknown keys to interleave
	Tail      []byte
	Shuffle   bool
}

// BaseKVs renders the pairs of a report: a valid base field set, modified by Drop/Over, plus extras.
func (r Report) KVs(rng *rand.Rand) []KV {
	base := []KV{
		{[]byte("localip0"), []byte("192.168.1.10")},
		{[]byte("localport"), []byte(r.LocalPort)},
		{[]byte("natneg"), []byte("0")},
		{[]byte("gamename"), []byte("swat4")},
		{[]byte("hostname"), []byte("Swat4 Server")},
		{[]byte("hostport"), []byte(r.HostPort)},
		{[]byte("gamever"), []byte("1.1")},
		{[]byte("gamevariant"), []byte("SWAT 4")},
		{[]byte("gametype"), []byte("VIP Escort")},
		{[]byte("mapname"), []byte("A-Bomb Nightclub")},
		{[]byte("numplayers"), []byte("3")},
		{[]byte("maxplayers"), []byte("16")},
		{[]byte("password"), []byte("0")},
		{[]byte("statsenabled"), []byte("1")},
	}
	if r.State != "" {
		base = append(base, KV{[]byte("statechanged"), []byte(r.State)})
	}
	var kvs []KV
	for _, kv := range base {
		if r.Drop[string(kv.K)] {
			continue
		}
		if v, ok := r.Over[string(kv.K)]; ok {
			kv.V = v
		}
		kvs = append(kvs, kv)
	}
	kvs = append(kvs, r.Extra...)
	if r.Shuffle {
		rng.Shuffle(len(kvs), func(i, j int) { kvs[i], kvs[j] = kvs[j], kvs[i] })
	}
	// unknown keys go at random positions
	for _, u := range r.Unknown {
		i := rng.Intn(len(kvs) + 1)
		kvs = append(kvs[:i], append([]KV{u}, kvs[i:]...)...)
	}
	return kvs
}

func (r Report) Payload(rng *rand.Rand) []byte {
	return Heartbeat(r.ID, r.KVs(rng), r.Tail)
}

var stringKeys = []string{"hostname", "gamever", "gamevariant", "gametype", "mapname"}
var intKeys = []string{"numplayers", "maxplayers"}
var boolKeys = []string{"password", "statsenabled"}
var unknownKeys = []string{"publicip", "publicport", "groupid", "numteams", "team_t0", "x", "HOSTNAME", "host name", "localip2", "queryport", "round", "swatscore", "\xc3\xa9cl", "\xff"}
var nonReportValues = []string{"1", "zz", "10.0.0.1", "?", "\xfe", "v a l"}

// RandomReport: a mostly valid report with random values; `wild` adds defects (bad numbers, missing keys,
// empty values, duplicated keys, unknown keys with reportable-looking values, missing terminator).
func RandomReport(rng *rand.Rand, id []byte, hostport, localport string, wild int) Report {
	r := Report{ID: id, HostPort: hostport, LocalPort: localport, Drop: map[string]bool{}, Over: map[string][]byte{}, Tail: []byte{0}}
	// random values for the string fields
	for _, k := range stringKeys {
		if rng.Intn(2) == 0 {
			r.Over[k] = Value(rng)
		}
	}
	for _, k := range intKeys {
		if rng.Intn(2) == 0 {
			r.Over[k] = []byte(intGood[rng.Intn(len(intGood))])
		}
	}
	for _, k := range boolKeys {
		if rng.Intn(2) == 0 {
			r.Over[k] = []byte(boolVals[rng.Intn(4)])
		}
	}
	switch rng.Intn(4) {
	case 0:
		r.State = "1"
	case 1:
		r.State = "0"
	case 2:
		r.State = "3"
	}
	r.Shuffle = rng.Intn(2) == 0
	if rng.Intn(3) == 0 { // unknown keys with plain values
		n := 1 + rng.Intn(3)
		for i := 0; i < n; i++ {
			r.Unknown = append(r.Unknown, KV{[]byte(unknownKeys[rng.Intn(len(unknownKeys))]), []byte(nonReportValues[rng.Intn(len(nonReportValues))])})
		}
	}
	if rng.Intn(5) == 0 { // duplicated key, later wins
		k := stringKeys[rng.Intn(len(stringKeys))]
		r.Extra = append(r.Extra, KV{[]byte(k), Value(rng)})
	}
	switch rng.Intn(4) {
	case 0:
		r.Tail = nil // no final NUL
	case 1:
		r.Tail = []byte{0, 0}
	}
	for i := 0; i < wild; i++ {
		switch rng.Intn(12) {
		case 0:
			r.Over[intKeys[rng.Intn(2)]] = []byte(intBad[rng.Intn(len(intBad))])
		case 1:
			r.Over[intKeys[rng.Intn(2)]] = []byte(intNeg[rng.Intn(len(intNeg))])
		case 2:
			r.Over[boolKeys[rng.Intn(2)]] = []byte(boolVals[rng.Intn(len(boolVals))])
		case 3:
			r.Drop[[]string{"hostname", "gamever", "gamevariant", "gametype", "mapname", "hostport", "localport", "numplayers", "password"}[rng.Intn(9)]] = true
		case 4: // empty value of a reportable key: the datagram is rejected
			r.Over[stringKeys[rng.Intn(len(stringKeys))]] = []byte{}
		case 5: // unknown key whose value is a reportable name: the scanner shifts
			r.Unknown = append(r.Unknown, KV{[]byte(unknownKeys[rng.Intn(len(unknownKeys))]), []byte([]string{"hostname", "hostport", "statechanged", "localport", "mapname"}[rng.Intn(5)])})
		case 6: // unknown key with empty value: ends the scan
			r.Unknown = append(r.Unknown, KV{[]byte(unknownKeys[rng.Intn(len(unknownKeys))]), nil})
		case 7: // duplicate hostport / localport
			r.Extra = append(r.Extra, KV{[]byte([]string{"hostport", "localport"}[rng.Intn(2)]), []byte(PortText(rng))})
		case 8:
			r.Over["hostport"] = []byte(PortText(rng))
		case 9:
			r.Over["localport"] = []byte(PortText(rng))
		case 10: // ratio / non-reportable info keys (ignored by the scanner)
			r.Extra = append(r.Extra, KV{[]byte([]string{"tocreports", "weaponssecured", "round", "version"}[rng.Intn(4)]), []byte([]string{"1/2", "x", "-1/2", "5"}[rng.Intn(4)])})
		case 11: // garbage tail
			r.Tail = append([]byte{}, core.RandBytes(rng, rng.Intn(12))...)
		}
	}
	return r
}

// PortText draws a port text, in and out of range, well and ill formed.
func PortText(rng *rand.Rand) string {
	switch rng.Intn(10) {
	case 0:
		return []string{"0", "-1", "65536", "70000", "-10480", "99999999999"}[rng.Intn(6)]
	case 1:
		return []string{"1", "65535", "+10480", "010480", "65534"}[rng.Intn(5)]
	case 2:
		return intBad[rng.Intn(len(intBad))]
	default:
		return fmt.Sprint(10480 + rng.Intn(4))
	}
}

// SourceIPs: public, private, loopback and non-routable IPv4 sources.
var GoodIPs = []string{"1.1.1.1", "8.8.4.4", "10.0.0.7", "172.16.5.5", "172.31.255.1", "192.168.1.10", "127.0.0.1", "127.9.9.9", "100.64.0.1", "0.1.2.3", "240.1.1.1", "255.255.255.254", "223.255.255.255", "1.1.1.2", "1.1.2.1", "169.253.1.1", "172.32.0.1"}
var BadIPs = []string{"0.0.0.0", "255.255.255.255", "224.0.0.1", "239.255.255.255", "169.254.1.1"}

// prefixFamilies: addresses whose dotted text is a prefix of another's (an ownership check done on text must not confuse them)
var prefixFamilies = [][]string{{"1.1.1.1", "1.1.1.10", "1.1.1.12", "1.1.1.100"}, {"10.0.0.7", "10.0.0.70", "10.0.0.77"}, {"8.8.4.4", "8.8.4.41"}, {"172.16.5.5", "172.16.5.50"}}

// bitNeighbour: an address that differs from ip in exactly one bit (a hand-rolled address comparison — packed integers,
// xor/or chains — must still tell them apart); victims with many one-bits make absorbed differences likely.
func bitNeighbour(rng *rand.Rand, ip string) string {
	b, ok := ParseIP4(ip)
	if !ok {
		return ip
	}
	for try := 0; try < 20; try++ {
		c := append(net.IP{}, b...)
		c[rng.Intn(4)] ^= 1 << uint(rng.Intn(8))
		if c[0] >= 1 && c[0] <= 223 && !(c[0] == 169 && c[1] == 254) {
			return c.String()
		}
	}
	return ip
}

var denseIPs = []string{"223.255.255.254", "191.255.127.255", "126.254.253.251", "95.223.239.247", "81.200.5.7", "10.0.0.5", "1.2.3.4"}

func PickIPs(rng *rand.Rand, n int, bad bool) []string {
	if !bad && rng.Intn(5) == 1 {
		// attacker and victim differ in exactly one bit
		victim := denseIPs[rng.Intn(len(denseIPs))]
		if rng.Intn(3) == 0 {
			victim = GoodIPs[rng.Intn(len(GoodIPs))]
		}
		out := []string{bitNeighbour(rng, victim), victim}
		for len(out) < n {
			out = append(out, bitNeighbour(rng, victim))
		}
		return out
	}
	if !bad && rng.Intn(5) == 0 {
		// the first address (the attacker in the adversarial scripts) is a textual prefix of the second (the victim)
		fam := prefixFamilies[rng.Intn(len(prefixFamilies))]
		out := append([]string{}, fam...)
		if rng.Intn(3) == 0 {
			out[0], out[1] = out[1], out[0]
		}
		for len(out) < n {
			out = append(out, GoodIPs[rng.Intn(len(GoodIPs))])
		}
		return out[:max(2, min(n, len(out)))]
	}
	perm := rng.Perm(len(GoodIPs))
	var out []string
	for i := 0; i < n && i < len(perm); i++ {
		out = append(out, GoodIPs[perm[i]])
	}
	if bad {
		out[len(out)-1] = BadIPs[rng.Intn(len(BadIPs))]
	}
	return out
}

func SrcPort(rng *rand.Rand) int {
	switch rng.Intn(8) {
	case 0:
		return []int{0, 1, 255, 256, 65535, 65536, 70000, 10481}[rng.Intn(8)]
	default:
		return 1024 + rng.Intn(64000)
	}
}

func Adv(rng *rand.Rand) []string {
	return []string{"adv", fmt.Sprint(256 * int64(1+rng.Intn(4000000)))}
}

// History generates one history of n datagrams from the given source IPs with colliding instance ids
// and host ports.  wildPct: percentage of heartbeats carrying defects.  rawPct: percentage of raw/malformed
// datagrams (C06 style) mixed in.
func History(rng *rand.Rand, n int, ips []string, wildPct, rawPct int) []string {
	ids := [][]byte{{0xde, 0xad, 0xbe, 0xef}, {0, 0, 0, 1}, {0xff, 0xff, 0xff, 0xff}}
	if rng.Intn(3) == 0 {
		ids = append(ids, core.RandBytes(rng, 4))
	}
	hostports := []string{"10480", "10481", "10580"}
	var ops [][]string
	for i := 0; i < n; i++ {
		if rng.Intn(3) == 0 {
			ops = append(ops, Adv(rng))
		}
		ip := ips[rng.Intn(len(ips))]
		id := ids[rng.Intn(len(ids))]
		hp := hostports[rng.Intn(len(hostports))]
		lp := fmt.Sprint(10481 + rng.Intn(3))
		// port texts a strict decimal parse and a lenient one, a 32-bit and a 64-bit one, a byte-exact and a "cleaned up" one
		// disagree on: padded with blanks, beyond 2^31, with a stray high byte inside.  A local port is only looked at (after
		// parsing) for a server that is not registered yet; a host port always
		if rng.Intn(6) == 0 {
			lp = oddPorts[rng.Intn(len(oddPorts))]
		}
		if rng.Intn(14) == 0 {
			hp = []string{" 10480", "10480 ", "\t10480", "10480\r\n", "10\xff480", "10480\x80", "+10480", "2147494128", "4294977776"}[rng.Intn(9)]
		}
		var payload []byte
		if rng.Intn(100) < rawPct {
			payload = RawDatagram(rng, id)
		} else {
			switch k := rng.Intn(20); {
			case k < 9: // report / re-report
				wild := 0
				if rng.Intn(100) < wildPct {
					wild = 1 + rng.Intn(2)
				}
				r := RandomReport(rng, id, hp, lp, wild)
				if rng.Intn(2) == 0 { // the reported local address is some participant's IP: it must never become the key
					r.Over["localip0"] = []byte(ips[rng.Intn(len(ips))])
				}
				payload = r.Payload(rng)
			case k < 13:
				payload = Keepalive(id)
			case k < 17: // removal
				r := RandomReport(rng, id, hp, lp, 0)
				r.State = "2"
				if rng.Intn(4) == 0 { // minimal removal: only the keys the handler needs
					payload = Heartbeat(id, []KV{{[]byte("hostport"), []byte(hp)}, {[]byte("localport"), []byte(lp)}, {[]byte("statechanged"), []byte("2")}}, []byte{0})
				} else {
					payload = r.Payload(rng)
				}
			case k < 18:
				payload = Challenge(id)
			case k < 19:
				payload = Available()
			default: // removal with a broken body
				r := RandomReport(rng, id, hp, lp, 2)
				r.State = "2"
				payload = r.Payload(rng)
			}
		}
		ops = append(ops, Dg(ip, SrcPort(rng), payload))
	}
	return JoinOps(ops)
}

// RawDatagram: non-empty malformed or arbitrary datagram.
func RawDatagram(rng *rand.Rand, id []byte) []byte {
	switch rng.Intn(8) {
	case 0: // random bytes 1..2048
		n := 1 + rng.Intn(64)
		if rng.Intn(6) == 0 {
			n = 1 + rng.Intn(2048)
		}
		return core.RandBytes(rng, n)
	case 1: // every message type byte with a random body
		return append([]byte{byte(rng.Intn(256))}, core.RandBytes(rng, rng.Intn(40))...)
	case 2: // message type byte with a valid heartbeat body
		b := RandomReport(rng, id, "10480", "10481", 0).Payload(rng)
		b[0] = byte(rng.Intn(256))
		return b
	case 3: // truncated heartbeat
		b := RandomReport(rng, id, "10480", "10481", 0).Payload(rng)
		return b[:1+rng.Intn(len(b))]
	case 4: // short known types
		t := []byte{1, 3, 8, 9}[rng.Intn(4)]
		return append([]byte{t}, id[:rng.Intn(5)]...)
	case 5: // heartbeat with a random byte flipped
		b := RandomReport(rng, id, "10480", "10481", 0).Payload(rng)
		i := rng.Intn(len(b))
		b[i] = byte(rng.Intn(256))
		return b
	case 6: // oversize field
		big := []byte(strings.Repeat("A", 1500+rng.Intn(500)))
		r := RandomReport(rng, id, "10480", "10481", 0)
		r.Over[stringKeys[rng.Intn(len(stringKeys))]] = big
		return r.Payload(rng)
	default: // only NULs / only a type byte
		return append([]byte{[]byte{1, 3, 8, 9}[rng.Intn(4)]}, make([]byte, rng.Intn(12))...)
	}
}

// WireIPs: loopback addresses a harness socket can bind; the registry treats them as any other address.
var WireIPs = []string{"127.0.0.1", "127.9.9.9", "127.0.0.2", "127.1.2.3", "127.0.0.20"}

// WireHistory: a history for RunWireHistory: sources are loopback addresses with bindable ports (one fixed port per
// source and history, so that sockets are few).  Empty datagrams stay in: the socket layer must drop them before the
// dispatcher and go on reading.
func WireHistory(rng *rand.Rand, n int, nIPs int, wildPct, rawPct int) []string {
	perm := rng.Perm(len(WireIPs))
	var ips []string
	for i := 0; i < nIPs && i < len(perm); i++ {
		ips = append(ips, WireIPs[perm[i]])
	}
	base := 20000 + rng.Intn(30000)
	ports := map[string]int{}
	var ops [][]string
	for _, op := range SplitOps(History(rng, n, ips, wildPct, rawPct)) {
		if len(op) == 4 && op[0] == "dg" {
			if op[3] == "" {
				op[3] = "-"
			}
			if _, ok := ports[op[1]]; !ok {
				ports[op[1]] = base + len(ports)
			}
			op = []string{"dg", op[1], fmt.Sprint(ports[op[1]]), op[3]}
		} else if len(op) == 0 || op[0] != "adv" {
			continue
		}
		ops = append(ops, op)
	}
	return JoinOps(ops)
}

// WireEdgeHistories: deterministic histories around what the socket layer does before the dispatcher sees a datagram:
// empty datagrams (dropped, and the server keeps serving: a heartbeat follows each), and well-formed heartbeats whose
// length sits on and around the receive buffer's size (2048: one of exactly that size fits and must be handled like any
// other; longer ones are cut).
func WireEdgeHistories(rng *rand.Rand) [][]string {
	var hs [][]string
	id := []byte{0xde, 0xad, 0xbe, 0xef}
	port := 20000 + rng.Intn(30000)
	ip := WireIPs[rng.Intn(len(WireIPs))]
	mk := func(total int) []byte {
		r := RandomReport(rng, id, "10480", "10481", 0)
		r.Over["hostname"] = []byte("x")
		for try := 0; try < 4; try++ {
			p := r.Payload(rng)
			if len(p) == total {
				return p
			}
			n := len(r.Over["hostname"]) + total - len(p)
			if n < 1 {
				n = 1
			}
			r.Over["hostname"] = []byte(strings.Repeat("y", n))
		}
		return r.Payload(rng)
	}
	plain := RandomReport(rng, id, "10480", "10481", 0)
	hs = append(hs, JoinOps([][]string{Dg(ip, port, nil), Dg(ip, port, plain.Payload(rng)), Dg(ip, port, nil), Dg(ip, port, Keepalive(id)),
		{"adv", "256000"}, Dg(ip, port, nil), Dg(ip, port, plain.Payload(rng))}))
	// the server's lock is held by another writer for a moment when the heartbeat arrives: it waits and is then handled
	for _, ms := range []int{200, 230, 300} {
		r := RandomReport(rng, id, "10480", "10481", 0)
		hs = append(hs, JoinOps([][]string{Dg(ip, port, plain.Payload(rng)), {"hold", ip + ":10480", fmt.Sprint(ms)}, Dg(ip, port, r.Payload(rng)),
			{"hold", ip + ":10480", fmt.Sprint(ms)}, Dg(ip, port, Keepalive(id))}))
	}
	for _, total := range []int{2046, 2047, 2048, 2049, 2050, 3000} {
		hs = append(hs, JoinOps([][]string{Dg(ip, port, mk(total)), Dg(ip, port, Keepalive(id)), Dg(ip, port, plain.Payload(rng))}))
	}
	return hs
}
