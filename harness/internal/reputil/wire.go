package reputil

import (
	"os"
	"github.com/sergeii/swat4master/verifharness/internal/world"
	"sort"
	"context"
	"net"
	"strconv"
	"strings"
	"time"

	"github.com/jonboulle/clockwork"
	"github.com/rs/zerolog"
	"go.uber.org/fx"

	reporterc "github.com/sergeii/swat4master/cmd/swat4master/components/reporter"
	"github.com/sergeii/swat4master/internal/core/usecases/removeserver"
	"github.com/sergeii/swat4master/internal/core/usecases/renewserver"
	"github.com/sergeii/swat4master/internal/core/usecases/reportserver"
	"github.com/sergeii/swat4master/internal/metrics"
	"github.com/sergeii/swat4master/verifharness/internal/core"
)

// RunWireHistory executes a history through the REAL reporter component (cmd/swat4master/components/reporter: its fx
// module creates the dispatcher, registers the four handlers and starts the UDP server with the configured buffer size)
// over real loopback sockets: each `dg <srcip> <srcport> <hex>` is sent from a socket bound to that address (srcip must
// be 127.x.y.z, a loopback address the registry accepts as any other).  Handlers run on their own goroutines, so after
// each datagram the harness waits for the reply or, for a silent outcome, for the store to stand still.
// Output per datagram: `reply:<hex>` | `none` (no answer: a silent success and a rejected datagram look the same on
// the wire) and the dump, as RunHistory.
func RunWireHistory(args []string) []string {
	var out []string
	// a source port or the listen port may be taken for a moment by another check running on the same machine (the source
	// ports of a history are part of its input: they are in the replies): try again, at uneven intervals, for a while
	for try := 0; try < 30; try++ {
		out = runWireHistoryOnce(args)
		if len(out) == 0 || !strings.HasPrefix(out[0], "infra") {
			return out
		}
		time.Sleep(time.Duration(100+137*(try%7)+(os.Getpid()%97)) * time.Millisecond)
	}
	return out
}

func freeUDPPort() (int, error) {
	c, err := net.ListenUDP("udp4", &net.UDPAddr{IP: net.IPv4(127, 0, 0, 1)})
	if err != nil {
		return 0, err
	}
	defer c.Close()
	return c.LocalAddr().(*net.UDPAddr).Port, nil
}

func runWireHistoryOnce(args []string) []string {
	wopts := world.DefaultOptions()
	for _, op := range SplitOps(args) {
		if len(op) == 3 && op[0] == "hold" {
			wopts.ZeroLockBackoff = false // the real 100 ms back-off between lock attempts
		}
	}
	w := world.New(wopts)
	release := w.Close
	defer release()
	p := w.NewProc()
	port, err := freeUDPPort()
	if err != nil {
		return []string{"infra:port"}
	}
	app := fx.New(
		fx.NopLogger,
		fx.Supply(reporterc.Config{ListenAddr: "127.0.0.1:" + strconv.Itoa(port), BufferSize: 2048}),
		fx.Provide(
			func() *zerolog.Logger { return p.Logger },
			func() *metrics.Collector { return p.Metrics },
			func() clockwork.Clock { return w.Clock },
			func() reportserver.UseCase { return p.UC.ReportServer },
			func() removeserver.UseCase { return p.UC.RemoveServer },
			func() renewserver.UseCase { return p.UC.RenewServer },
		),
		reporterc.Module,
		fx.Invoke(func(*reporterc.Component) {}),
	)
	if err := app.Err(); err != nil {
		return []string{"wiring-error:" + strings.ReplaceAll(err.Error(), " ", "_")}
	}
	ctx, cancel := context.WithTimeout(context.Background(), 10*time.Second)
	startErr := app.Start(ctx)
	cancel() // the start context ends when the start is over, as under fx.App.Run: nothing may go on living off it
	if err := startErr; err != nil {
		return []string{"infra:start"}
	}
	defer func() { _ = app.Stop(context.Background()) }()
	server := &net.UDPAddr{IP: net.IPv4(127, 0, 0, 1), Port: port}
	socks := map[string]*net.UDPConn{}
	defer func() {
		for _, c := range socks {
			c.Close()
		}
	}()
	var out []string
	prev := "-"
	var patientUntil time.Time // while another writer holds a lock (op hold), silence does not yet mean "no answer"
	buf := make([]byte, 4096)
	for _, op := range SplitOps(args) {
		if len(op) == 0 {
			continue
		}
		switch op[0] {
		case "adv":
			ns, err := strconv.ParseInt(op[1], 10, 64)
			if err != nil || ns < 0 {
				return []string{"bad-op"}
			}
			w.Advance(time.Duration(ns))
		case "hold":
			// hold <addr> <ms>: another writer (a prober recording an outcome, a second node) holds the server's lock for <ms> of
			// REAL time from now on: the datagram that follows waits through the repository's back-off and is then handled as usual
			ms, err := strconv.Atoi(op[2])
			if err != nil || len(op) != 3 {
				return []string{"bad-op"}
			}
			key := "servers:lock:" + op[1]
			_ = w.MR.Set(key, "held-by-another-writer")
			patientUntil = time.Now().Add(time.Duration(ms)*time.Millisecond + 450*time.Millisecond)
			go func() {
				time.Sleep(time.Duration(ms) * time.Millisecond)
				w.MR.Del(key)
			}()
		case "dg":
			if len(op) != 4 {
				return []string{"bad-op"}
			}
			ip, ok := ParseIP4(op[1])
			sport, err := strconv.Atoi(op[2])
			payload, err2 := core.UnHex(op[3])
			if !ok || ip[0] != 127 || err != nil || err2 != nil || sport < 1 || sport > 65535 { // an empty payload ("-") is sent as an empty datagram
				return []string{"bad-op"}
			}
			key := op[1] + ":" + op[2]
			c := socks[key]
			if c == nil {
				c, err = net.DialUDP("udp4", &net.UDPAddr{IP: ip, Port: sport}, server)
				if err != nil {
					return []string{"infra:bind"} // the source port is taken: the whole history is tried again
				}
				socks[key] = c
			}
			before := strings.Join(w.Dump(), ";")
			if _, err := c.Write(payload); err != nil {
				return []string{"infra:write"}
			}
			// while another writer holds the lock this datagram waits for (op hold), the listener must go on serving others: an
			// availability request from another socket is answered at once (it touches no storage)
			blocked := false
			if time.Now().Before(patientUntil) {
				if pc, err := net.DialUDP("udp4", &net.UDPAddr{IP: net.IPv4(127, 0, 0, 77)}, server); err == nil {
					time.Sleep(20 * time.Millisecond) // let the held datagram's handler reach the lock
					_, _ = pc.Write(Available())
					_ = pc.SetReadDeadline(time.Now().Add(140 * time.Millisecond))
					if _, err := pc.Read(buf); err != nil {
						blocked = true
					}
					pc.Close()
				}
			}
			// a reply ends the wait; otherwise: until the store has changed and stood still, or nothing happened for 60 ms
			outcome := "none"
			deadline := time.Now().Add(1500 * time.Millisecond)
			last, since := before, time.Now()
			for time.Now().Before(deadline) {
				_ = c.SetReadDeadline(time.Now().Add(10 * time.Millisecond))
				if n, err := c.Read(buf); err == nil {
					outcome = "reply:" + core.Hex(buf[:n])
					break
				}
				d := strings.Join(w.Dump(), ";")
				if d != last {
					last, since = d, time.Now()
					continue
				}
				if time.Since(since) > 60*time.Millisecond && time.Now().After(patientUntil) {
					break
				}
			}
			if blocked {
				outcome = "others-blocked-behind:" + outcome
			}
			time.Sleep(5 * time.Millisecond) // let the handler goroutine finish its bookkeeping after the reply
			d := JoinDump(w.Dump())
			if d == prev {
				out = append(out, outcome, "=")
			} else {
				out = append(out, outcome, d)
				prev = d
			}
		default:
			return []string{"bad-op"}
		}
	}
	if len(out) == 0 {
		return []string{"empty"}
	}
	return out
}

// RunWirePar <k> <rounds>: k reporters (sockets bound to 127.0.1.1 … 127.0.1.k, each with its own instance id and host
// port) send a heartbeat at the same moment, rounds times, to the real reporter component; each reads its own reply.
// The handlers of concurrent datagrams run on their own goroutines: every reply must be the one for its own sender
// (its instance id, its source address and port).  Output: one token per distinct reply a socket received,
// `<ip>:<port>:<idhex>:<replyhex>` (`none` for a missing reply).
func RunWirePar(k, rounds int) []string {
	w, release := FreshWorld()
	defer release()
	p := w.NewProc()
	port, err := freeUDPPort()
	if err != nil {
		return []string{"infra:port"}
	}
	app := fx.New(
		fx.NopLogger,
		fx.Supply(reporterc.Config{ListenAddr: "127.0.0.1:" + strconv.Itoa(port), BufferSize: 2048}),
		fx.Provide(
			func() *zerolog.Logger { return p.Logger },
			func() *metrics.Collector { return p.Metrics },
			func() clockwork.Clock { return w.Clock },
			func() reportserver.UseCase { return p.UC.ReportServer },
			func() removeserver.UseCase { return p.UC.RemoveServer },
			func() renewserver.UseCase { return p.UC.RenewServer },
		),
		reporterc.Module,
		fx.Invoke(func(*reporterc.Component) {}),
	)
	if err := app.Err(); err != nil {
		return []string{"wiring-error:" + strings.ReplaceAll(err.Error(), " ", "_")}
	}
	ctx, cancel := context.WithTimeout(context.Background(), 10*time.Second)
	startErr := app.Start(ctx)
	cancel() // the start context ends when the start is over, as under fx.App.Run: nothing may go on living off it
	if err := startErr; err != nil {
		return []string{"infra:start"}
	}
	defer func() { _ = app.Stop(context.Background()) }()
	server := &net.UDPAddr{IP: net.IPv4(127, 0, 0, 1), Port: port}
	type sock struct {
		c       *net.UDPConn
		id      []byte
		payload []byte
		seen    map[string]bool
	}
	socks := make([]*sock, k)
	for i := range socks {
		c, err := net.DialUDP("udp4", &net.UDPAddr{IP: net.IPv4(127, 0, 1, byte(i+1))}, server)
		if err != nil {
			return []string{"infra:bind"}
		}
		defer c.Close()
		id := []byte{0xa0, 0, 0, byte(i + 1)}
		hb := Heartbeat(id, []KV{
			{K: []byte("hostname"), V: []byte("Par " + strconv.Itoa(i))}, {K: []byte("hostport"), V: []byte(strconv.Itoa(10480 + i))},
			{K: []byte("localport"), V: []byte("10481")}, {K: []byte("gamever"), V: []byte("1.1")},
			{K: []byte("gamevariant"), V: []byte("SWAT 4")}, {K: []byte("gametype"), V: []byte("CO-OP")},
			{K: []byte("mapname"), V: []byte("M")}, {K: []byte("numplayers"), V: []byte("1")}, {K: []byte("maxplayers"), V: []byte("5")}}, []byte{0})
		socks[i] = &sock{c: c, id: id, payload: hb, seen: map[string]bool{}}
	}
	for r := 0; r < rounds; r++ {
		start := make(chan struct{})
		done := make(chan struct{}, k)
		for _, s := range socks {
			go func(s *sock) {
				<-start
				buf := make([]byte, 256)
				got := false
				// a heartbeat that is not answered within two seconds is sent once more (it is idempotent; a datagram or its
				// answer may be lost, a loaded machine may stall): only two silences in a row count as no answer
				for attempt := 0; attempt < 2 && !got; attempt++ {
					_, _ = s.c.Write(s.payload)
					_ = s.c.SetReadDeadline(time.Now().Add(2 * time.Second))
					if n, err := s.c.Read(buf); err == nil {
						s.seen[core.Hex(buf[:n])] = true
						got = true
					}
				}
				if !got {
					s.seen["none"] = true
				}
				done <- struct{}{}
			}(s)
		}
		close(start)
		for range socks {
			<-done
		}
	}
	var out []string
	for _, s := range socks {
		la := s.c.LocalAddr().(*net.UDPAddr)
		for reply := range s.seen {
			out = append(out, la.IP.String()+":"+strconv.Itoa(la.Port)+":"+core.Hex(s.id)+":"+reply)
		}
	}
	sort.Strings(out)
	return out
}
