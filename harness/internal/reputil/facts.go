package reputil

import (
	"fmt"
	"go/ast"
	"go/parser"
	"go/token"
	"io"
	"path/filepath"
	"reflect"
	"strconv"
	"strings"

	"github.com/sergeii/swat4master/internal/core/entities/details"
	"github.com/sergeii/swat4master/internal/core/entities/master"
	"github.com/sergeii/swat4master/pkg/gamespy/browsing"
	"github.com/sergeii/swat4master/pkg/gamespy/serverquery/params"
	"github.com/sergeii/swat4master/verifharness/internal/facts"
)

// SwitchStrings returns the string literals of the case clauses of the first `switch` statement in
// function fn of file (the whitelists are unexported switch statements).
func SwitchStrings(file, fn string) ([]string, error) {
	fset := token.NewFileSet()
	f, err := parser.ParseFile(fset, file, nil, 0)
	if err != nil {
		return nil, err
	}
	var out []string
	found := false
	for _, d := range f.Decls {
		fd, ok := d.(*ast.FuncDecl)
		if !ok || fd.Name.Name != fn || fd.Recv != nil || fd.Body == nil {
			continue
		}
		ast.Inspect(fd.Body, func(n ast.Node) bool {
			sw, ok := n.(*ast.SwitchStmt)
			if !ok || found {
				return !found
			}
			found = true
			for _, st := range sw.Body.List {
				cc, ok := st.(*ast.CaseClause)
				if !ok {
					continue
				}
				for _, e := range cc.List {
					if bl, ok := e.(*ast.BasicLit); ok && bl.Kind == token.STRING {
						if s, err := strconv.Unquote(bl.Value); err == nil {
							out = append(out, s)
						}
					}
				}
			}
			return false
		})
	}
	if !found {
		return nil, fmt.Errorf("no switch in func %s of %s", fn, file)
	}
	return out, nil
}

func leanBytesList(xs []string) string {
	parts := make([]string, len(xs))
	for i, x := range xs {
		parts[i] = facts.LeanBytes([]byte(x))
	}
	return "[" + strings.Join(parts, ", ") + "]"
}

func init() {
	facts.Add("reporter", func(w io.Writer, repo string) error {
		// details.Info as params.Unmarshal and validator see it
		t := reflect.TypeOf(details.Info{})
		var rows []string
		for i := 0; i < t.NumField(); i++ {
			f := t.Field(i)
			if !f.IsExported() {
				continue
			}
			kind := "9"
			switch f.Type.Kind() {
			case reflect.Int:
				kind = "0"
			case reflect.Bool:
				kind = "1"
			case reflect.String:
				kind = "2"
			}
			param := "none"
			if name, ok := params.GetParamName(f); ok {
				param = "some " + facts.LeanBytes([]byte(name))
			}
			var tags []string
			if v, ok := f.Tag.Lookup("validate"); ok && v != "-" && v != "" {
				tags = strings.Split(v, ",")
			}
			rows = append(rows, fmt.Sprintf("  (%s, %s, %s, %s)", facts.LeanStr(f.Name), param, kind, facts.LeanStrList(tags)))
		}
		fmt.Fprintln(w, "/-- details.Info as `params.Unmarshal` and the validator iterate it: (Go field, param name bytes | none for `param:\"-\"`,")
		fmt.Fprintln(w, "kind 0 int / 1 bool / 2 string / 9 other, validate tags in order) -/")
		fmt.Fprintf(w, "def reporterInfoSchema : List (String × Option (List UInt8) × Nat × List String) := [\n%s]\n", strings.Join(rows, ",\n"))

		own, err := SwitchStrings(filepath.Join(repo, "internal/reporter/handlers/heartbeat/heartbeat.go"), "isReportableField")
		if err != nil {
			return err
		}
		qf, err := SwitchStrings(filepath.Join(repo, "pkg/gamespy/browsing/query/filter/filter.go"), "IsQueryField")
		if err != nil {
			return err
		}
		fmt.Fprintf(w, "/-- heartbeat.isReportableField's own switch: %s -/\n", strings.Join(own, " "))
		fmt.Fprintf(w, "def reporterOwnFields : List (List UInt8) := %s\n", leanBytesList(own))
		fmt.Fprintf(w, "/-- filter.IsQueryField's switch: %s -/\n", strings.Join(qf, " "))
		fmt.Fprintf(w, "def reporterQueryFields : List (List UInt8) := %s\n", leanBytesList(qf))
		fmt.Fprintf(w, "def reporterMsgChallenge : Nat := %d\ndef reporterMsgHeartbeat : Nat := %d\ndef reporterMsgKeepalive : Nat := %d\ndef reporterMsgAvailable : Nat := %d\n",
			master.MsgChallenge, master.MsgHeartbeat, master.MsgKeepalive, master.MsgAvailable)
		fmt.Fprintf(w, "def reporterResponseChallenge : List UInt8 := %s\n", facts.LeanBytes(master.ResponseChallenge))
		fmt.Fprintf(w, "def reporterResponseIsAvailable : List UInt8 := %s\n", facts.LeanBytes(master.ResponseIsAvailable))
		fmt.Fprintf(w, "/-- browsing.MinRequestPayloadLength, browsing.MaxAllowedNumberOfFields (C06, TCP half) -/\n")
		fmt.Fprintf(w, "def reporterTcpMinRequestLen : Nat := %d\ndef reporterTcpMaxFields : Nat := %d\n",
			browsing.MinRequestPayloadLength, browsing.MaxAllowedNumberOfFields)
		return nil
	})
}
