// Package reputil: shared helpers of the reporter properties C04, C05, C06.
//
// A history is ONE input line: ops separated by the token "/":
//
//	dg <srcip dotted> <srcport> <payloadhex>     one datagram sent through the REAL dispatcher (world.Proc.Dispatch)
//	adv <ns>                                     fake clock advance (multiple of 256 ns)
//
// Output per datagram: two tokens  <outcome> <dump>
//
//	outcome: reply:<hex> | none | err | panic:<text>
//	dump   : canonical store dump (world.Dump) lines joined by ";", "-" when the store is empty,
//	         "=" when identical to the dump after the previous datagram (or to the initial empty dump)
package reputil

import (
	"errors"
	"fmt"
	"net"
	"strconv"
	"strings"
	"time"

	"github.com/sergeii/swat4master/verifharness/internal/core"
	"github.com/sergeii/swat4master/verifharness/internal/ucops"
	"github.com/sergeii/swat4master/verifharness/internal/world"
)

// ParseIP4 parses a dotted quad without any of net.ParseIP's policy (any 4 numbers 0..255).
func ParseIP4(s string) (net.IP, bool) {
	parts := strings.Split(s, ".")
	if len(parts) != 4 {
		return nil, false
	}
	ip := make(net.IP, 4)
	for i, p := range parts {
		n, err := strconv.Atoi(p)
		if err != nil || n < 0 || n > 255 {
			return nil, false
		}
		ip[i] = byte(n)
	}
	return ip, true
}

// SplitOps splits the argument tokens of a history line at "/".
func SplitOps(args []string) [][]string {
	var ops [][]string
	var cur []string
	for _, a := range args {
		if a == "/" {
			ops = append(ops, cur)
			cur = nil
			continue
		}
		cur = append(cur, a)
	}
	if len(cur) > 0 || len(ops) > 0 {
		ops = append(ops, cur)
	}
	return ops
}

func JoinDump(d []string) string {
	if len(d) == 0 {
		return "-"
	}
	return strings.Join(d, ";")
}

// Send pushes one datagram through the real dispatcher and classifies the outcome.
func Send(p *world.Proc, ip net.IP, port int, payload []byte) string {
	var resp []byte
	var err error
	txt, ok := core.Guard(func() {
		resp, err = p.Dispatch(&net.UDPAddr{IP: ip, Port: port}, payload)
	})
	switch {
	case !ok:
		return "panic:" + txt
	case err != nil:
		var oe *net.OpError
		if errors.As(err, &oe) && oe.Op == "dial" {
			return "infra" // the harness could not reach miniredis (port exhaustion under load): the history is retried
		}
		return "err"
	case resp == nil:
		return "none"
	default:
		return "reply:" + core.Hex(resp)
	}
}

// FreshWorld returns an empty world at world.Epoch with its own miniredis (world.New; the redis clients talk
// to it through world's in-memory transport, so no TCP connection is made per case).
func FreshWorld() (w *world.World, release func()) {
	w = world.New(world.DefaultOptions())
	return w, w.Close
}

// RunHistory executes a whole history on a fresh world with one logical process.  A history during which the
// harness itself failed to connect to miniredis is run again from scratch.
func RunHistory(args []string) []string {
	var out []string
	for try := 0; try < 40; try++ {
		out = runHistoryOnce(args)
		infra := false
		for _, t := range out {
			if t == "infra" {
				infra = true
			}
		}
		if !infra {
			return out
		}
		time.Sleep(250 * time.Millisecond)
	}
	return out
}

func runHistoryOnce(args []string) []string {
	w, release := FreshWorld()
	defer release()
	p := w.NewProc()
	var out []string
	prev := "-"
	for _, op := range SplitOps(args) {
		if len(op) == 0 {
			continue
		}
		switch op[0] {
		case "adv":
			if len(op) != 2 {
				return []string{"bad-op"}
			}
			ns, err := strconv.ParseInt(op[1], 10, 64)
			if err != nil || ns < 0 || ns%256 != 0 {
				return []string{"bad-op"}
			}
			w.Advance(time.Duration(ns))
		case "dg":
			if len(op) != 4 {
				return []string{"bad-op"}
			}
			ip, ok := ParseIP4(op[1])
			port, err := strconv.Atoi(op[2])
			payload, err2 := core.UnHex(op[3])
			if !ok || err != nil || err2 != nil {
				return []string{"bad-op"}
			}
			outcome := Send(p, ip, port, payload)
			d := JoinDump(w.Dump())
			if d == prev {
				out = append(out, outcome, "=")
			} else {
				out = append(out, outcome, d)
				prev = d
			}
		case "dg6":
			// a datagram from a (non IPv4-mapped) IPv6 source: the reporter socket is dual-stack
			if len(op) != 4 {
				return []string{"bad-op"}
			}
			ip := net.ParseIP(op[1])
			port, err := strconv.Atoi(op[2])
			payload, err2 := core.UnHex(op[3])
			if ip == nil || ip.To4() != nil || err != nil || err2 != nil {
				return []string{"bad-op"}
			}
			outcome := Send(p, ip, port, payload)
			d := JoinDump(w.Dump())
			if d == prev {
				out = append(out, outcome, "=")
			} else {
				out = append(out, outcome, d)
				prev = d
			}
		case "uc":
			// a use case of another component run to completion in between (ucops.Client spec)
			if len(op) != 2 {
				return []string{"bad-op"}
			}
			res := ucops.Client(op[1])(p)
			d := JoinDump(w.Dump())
			if d == prev {
				out = append(out, res, "=")
			} else {
				out = append(out, res, d)
				prev = d
			}
		default:
			return []string{"bad-op"}
		}
	}
	if len(out) == 0 {
		return []string{"empty"}
	}
	return out
}

func Dg6(ip string, port int, payload []byte) []string {
	return []string{"dg6", ip, fmt.Sprint(port), core.Hex(payload)}
}

func Dg(ip string, port int, payload []byte) []string {
	return []string{"dg", ip, fmt.Sprint(port), core.Hex(payload)}
}

// JoinOps renders ops as the argument tokens of one history line.
func JoinOps(ops [][]string) []string {
	var out []string
	for i, op := range ops {
		if i > 0 {
			out = append(out, "/")
		}
		out = append(out, op...)
	}
	return out
}
