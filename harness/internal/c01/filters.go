package c01

// Filter strings for the `reply` cases and the generator's declared reading of them (the intent tokens of C03:
// "-" none, "bad" claimed unparsable, "q:<fieldhex>.<op>.<i<dec>|s<hex>|f<hex>>,…"), and requests padded to a
// given total length (the handler reads at most 2048 bytes, once).
//
// The harness never looks at an intent; the Lean driver checks a "q:" intent against the filter bytes
// (FilterSpec.render of the clauses must be the filter) and then evaluates the SPECIFICATION of the listing on the
// declared clauses, so the oracle does not depend on the model's reading of the string.

import (
	"math"
	"math/rand"
	"strconv"
	"strings"

	"github.com/sergeii/swat4master/pkg/gamespy/browsing/query/filter"
	"github.com/sergeii/swat4master/verifharness/internal/core"
	"github.com/sergeii/swat4master/verifharness/internal/world"
)

// livenessTicks: the handler's liveness in ticks of 256ns (world.DefaultOptions: 180 s = 703125000 ticks)
var livenessTicks = int64(world.DefaultOptions().Liveness / 256)

func hexs(s string) string { return core.Hex([]byte(s)) }

type clause struct {
	text  string
	canon string // "" = no declared reading
}

// queryable: the Info schema fields (index into record.vals) that filter.IsQueryField accepts
func queryable() []int {
	var out []int
	for i, f := range schemaCache {
		if filter.IsQueryField(f.param) && f.kind != kindOther {
			out = append(out, i)
		}
	}
	return out
}

var queryableIdx = queryable()

func schemaIndex(param string) int {
	for i, f := range schemaCache {
		if f.param == param {
			return i
		}
	}
	return -1
}

// a string the canonical grammar can quote: non-empty, no NUL (it travels in a C string), no " and" inside
func quotable(s string) bool {
	return s != "" && len(s) <= 120 && !strings.ContainsRune(s, 0) && !strings.Contains(s, " and")
}

func mk(field, opRaw, opName, valText, valCanon string) clause {
	c := clause{text: field + opRaw + valText}
	if !strings.Contains(c.text, " and") {
		c.canon = hexs(field) + "." + opName + "." + valCanon
	}
	return c
}

func intClause(field, opRaw, opName string, n int64) clause {
	t := strconv.FormatInt(n, 10)
	return mk(field, opRaw, opName, t, "i"+t)
}

func strClause(field, opRaw, opName, s string) clause {
	return mk(field, opRaw, opName, "'"+s+"'", "s"+hexs(s))
}

func fldClause(field, opRaw, opName, other string) clause {
	return mk(field, opRaw, opName, other, "f"+hexs(other))
}

// recordClause: a well-formed clause over a queryable field, built around the value record r stores there, so that
// it selects some records of the registry and not others
func recordClause(rng *rand.Rand, r record) clause {
	if len(queryableIdx) == 0 || len(r.vals) != len(schemaCache) {
		return intClause("numplayers", ">", "gt", 0)
	}
	i := queryableIdx[rng.Intn(len(queryableIdx))]
	if rng.Intn(3) == 0 { // the fields stock clients filter on
		name := pick(rng, []string{"gametype", "gamevariant", "gamever", "numplayers", "password"})
		if j := schemaIndex(name); j >= 0 && filter.IsQueryField(name) && schemaCache[j].kind != kindOther {
			i = j
		}
	}
	f := schemaCache[i]
	switch f.kind {
	case kindString:
		s := string(core.MustUnHex(r.vals[i]))
		if !quotable(s) || rng.Intn(6) == 0 {
			s = pick(rng, []string{"CO-OP", "SWAT 4", "1.1", "VIP Escort", "it's", "a=b", "x", "SEF"})
		}
		if rng.Intn(3) == 0 {
			return strClause(f.param, "!=", "ne", s)
		}
		return strClause(f.param, "=", "eq", s)
	case kindBool:
		return []clause{intClause(f.param, "=", "eq", 0), intClause(f.param, "=", "eq", 1), intClause(f.param, "!=", "ne", 1),
			intClause(f.param, ">", "gt", 0), intClause(f.param, "<", "lt", 1)}[rng.Intn(5)]
	default:
		n, err := strconv.ParseInt(r.vals[i], 10, 64)
		if err != nil || n == math.MaxInt64 || n == math.MinInt64 {
			return intClause(f.param, ">", "gt", 0)
		}
		switch rng.Intn(9) {
		case 0:
			return intClause(f.param, "!=", "ne", n)
		case 1:
			return intClause(f.param, "<", "lt", n+1)
		case 2:
			return intClause(f.param, ">", "gt", n-1)
		case 3:
			return intClause(f.param, ">", "gt", n)
		case 4:
			return intClause(f.param, "<", "lt", n)
		case 5, 6:
			other := pick(rng, []string{"maxplayers", "numplayers", "hostport"})
			if filter.IsQueryField(other) {
				o := []struct{ raw, name string }{{"!=", "ne"}, {"<", "lt"}, {"=", "eq"}, {">", "gt"}}[rng.Intn(4)]
				return fldClause(f.param, o.raw, o.name, other)
			}
			fallthrough
		default:
			return intClause(f.param, "=", "eq", n)
		}
	}
}

func joinClauses(cs []clause) (text, intent string) {
	texts := make([]string, len(cs))
	canons := make([]string, len(cs))
	declared := len(cs) > 0
	for i, c := range cs {
		texts[i], canons[i] = c.text, c.canon
		declared = declared && c.canon != ""
	}
	text = strings.Join(texts, " and ")
	if declared {
		return text, "q:" + strings.Join(canons, ",")
	}
	return text, "-"
}

// wfFilter: 1..3 well-formed clauses taken from records of the registry (from a made-up record when it is empty)
func wfFilter(rng *rand.Rand, reg []record) (text, intent string) {
	switch rng.Intn(12) {
	case 0: // what stock clients send
		return joinClauses([]clause{strClause("gametype", "=", "eq", "CO-OP"), strClause("gamever", "=", "eq", "1.1")})
	case 1:
		return joinClauses([]clause{fldClause("numplayers", "!=", "ne", "maxplayers"), intClause("password", "=", "eq", 0),
			strClause("gamever", "=", "eq", "1.1"), strClause("gamevariant", "=", "eq", "SWAT 4")})
	}
	n := 1 + rng.Intn(3)
	cs := make([]clause, n)
	for i := range cs {
		var r record
		if len(reg) > 0 {
			r = reg[rng.Intn(len(reg))]
		} else {
			r = randRecord(rng, map[string]bool{})
		}
		cs[i] = recordClause(rng, r)
	}
	return joinClauses(cs)
}

var malformedFilters = []struct{ text, intent string }{
	{"numplayers>", "bad"}, {"foo=1", "bad"}, {"numplayers", "-"}, {"numplayers>0 and", "-"}, {"numplayers>0 and ", "-"},
	{" and ", "-"}, {" and numplayers>0", "-"}, {"gametype=CO-OP", "-"}, {"numplayers>>1", "-"}, {"hostname=''", "-"},
	{"numplayers=1=2", "-"}, {"numplayers>0 AND password=0", "-"}, {"numplayers>0  and  password=0", "-"}, {"NumPlayers>0", "-"},
	{"numplayers>=0", "-"}, {"numplayers=+1", "-"}, {"numplayers=007", "-"}, {"numplayers=9223372036854775808", "-"},
	{"'", "-"}, {"===", "-"}, {"hostname='a' and 'b'", "-"}, {"numplayers>0 and password", "-"}, {"gamever=1.1", "-"},
}

func malformedFilter(rng *rand.Rand, reg []record) (text, intent string) {
	switch rng.Intn(4) {
	case 0: // a well-formed filter cut short
		t, _ := wfFilter(rng, reg)
		return t[:rng.Intn(len(t)+1)], "-"
	case 1: // one byte of a well-formed filter replaced
		t, _ := wfFilter(rng, reg)
		b := []byte(t)
		b[rng.Intn(len(b))] = []byte{' ', '=', '!', '\'', 'a', 0xff, '<'}[rng.Intn(7)]
		return string(b), "-"
	}
	m := malformedFilters[rng.Intn(len(malformedFilters))]
	return m.text, m.intent
}

// replyFilter draws the filter of a `reply` case
func replyFilter(rng *rand.Rand, reg []record) (text, intent string) {
	switch x := rng.Intn(20); {
	case x < 6:
		return "", "-"
	case x < 16:
		return wfFilter(rng, reg)
	case x < 19:
		return malformedFilter(rng, reg)
	}
	return string(cstr(rng, rng.Intn(40))), "-"
}

// oversizeTargets: total request lengths around the handler's 2048-byte read
var oversizeTargets = []int{2047, 2048, 2049, 2050, 4000}

// padTo grows the request to exactly `total` bytes (when it is shorter): by a long quoted string in one more filter
// clause, or by many unknown field names.  Returns the intent of the padded filter.
func padTo(rng *rand.Rand, q *reqParts, intent string, total int) string {
	need := total - len(q.encode())
	if need <= 0 {
		return intent
	}
	if rng.Intn(2) == 0 {
		// filter: [<old> and ]hostname!='zzz…'
		head, canonHead := "", ""
		if len(q.filter) > 0 {
			head = string(q.filter) + " and "
			if strings.HasPrefix(intent, "q:") {
				canonHead = intent + ","
			}
		} else {
			canonHead = "q:"
		}
		over := len(head) - len(q.filter) + len("hostname!=''")
		if need > over {
			pad := strings.Repeat("z", need-over)
			q.filter = []byte(head + "hostname!='" + pad + "'")
			if canonHead != "" {
				return canonHead + hexs("hostname") + ".ne.s" + hexs(pad)
			}
			return "-"
		}
	}
	// fields: unknown names; each costs 1 + len(name) bytes after the first field, len(name) for the first
	for need > 0 {
		sep := 1
		if len(q.raw) == 0 {
			sep = 0
		}
		n := need - sep
		if n > 30 {
			n = 1 + rng.Intn(30)
		}
		if n < 0 {
			n = 0
		}
		if sep == 0 && n == 0 {
			n = 1
		}
		q.raw = append(q.raw, []byte(strings.Repeat("z", n)))
		need = total - len(q.encode())
	}
	return intent
}
