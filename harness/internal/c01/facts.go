package c01

import (
	"fmt"
	"go/ast"
	"go/parser"
	"go/token"
	"io"
	"path/filepath"
	"reflect"
	"strconv"
	"strings"

	"github.com/sergeii/swat4master/internal/core/entities/details"
	"github.com/sergeii/swat4master/pkg/gamespy/browsing"
	"github.com/sergeii/swat4master/pkg/gamespy/browsing/query/filter"
	"github.com/sergeii/swat4master/pkg/gamespy/serverquery/params"
	"github.com/sergeii/swat4master/verifharness/internal/facts"
)

// kind codes of the generated `browsingInfoSchema` (what params.getParamValue switches on)
const (
	kindInt    = 0
	kindBool   = 1
	kindString = 2
	kindOther  = 3 // params.Marshal fails on such a field ("unknown field type")
)

type schemaField struct {
	goName string
	param  string
	kind   int
	index  int
}

// infoSchema lists what params.Marshal iterates over for details.Info, in declaration order:
// exported fields whose `param` tag is not "-" (params.GetParamName is the repo's own rule).
func infoSchema() []schemaField {
	st := reflect.TypeOf(details.Info{})
	var out []schemaField
	for i := 0; i < st.NumField(); i++ {
		f := st.Field(i)
		if !f.IsExported() {
			continue
		}
		name, ok := params.GetParamName(f)
		if !ok {
			continue
		}
		k := kindOther
		switch f.Type.Kind() { // nolint: exhaustive
		case reflect.Int:
			k = kindInt
		case reflect.Bool:
			k = kindBool
		case reflect.String:
			k = kindString
		}
		out = append(out, schemaField{goName: f.Name, param: name, kind: k, index: i})
	}
	return out
}

// queryFieldWhitelist reads the string literals of the `case` clauses of filter.IsQueryField
// (an unexported switch: go/ast), and cross-checks them against the compiled function.
func queryFieldWhitelist(repo string) ([]string, error) {
	path := filepath.Join(repo, "pkg", "gamespy", "browsing", "query", "filter", "filter.go")
	fset := token.NewFileSet()
	file, err := parser.ParseFile(fset, path, nil, 0)
	if err != nil {
		return nil, err
	}
	var names []string
	found := false
	for _, d := range file.Decls {
		fd, ok := d.(*ast.FuncDecl)
		if !ok || fd.Name.Name != "IsQueryField" || fd.Recv != nil {
			continue
		}
		found = true
		ast.Inspect(fd.Body, func(n ast.Node) bool {
			cc, ok := n.(*ast.CaseClause)
			if !ok {
				return true
			}
			returnsTrue := false
			for _, s := range cc.Body {
				if rs, ok := s.(*ast.ReturnStmt); ok && len(rs.Results) == 1 {
					if id, ok := rs.Results[0].(*ast.Ident); ok && id.Name == "true" {
						returnsTrue = true
					}
				}
			}
			if !returnsTrue {
				return true
			}
			for _, e := range cc.List {
				if bl, ok := e.(*ast.BasicLit); ok && bl.Kind == token.STRING {
					if s, err := strconv.Unquote(bl.Value); err == nil {
						names = append(names, s)
					}
				}
			}
			return true
		})
	}
	if !found {
		return nil, fmt.Errorf("func IsQueryField not found in %s", path)
	}
	// cross-check with the compiled predicate: every extracted name is accepted, and no
	// schema parameter / near-miss outside the list is
	in := map[string]bool{}
	for _, n := range names {
		in[n] = true
		if !filter.IsQueryField(n) {
			return nil, fmt.Errorf("extracted name %q is not accepted by filter.IsQueryField", n)
		}
	}
	probe := []string{"", "gamename", "country", "ping", "version", "numrounds", "round", "timeleft"}
	for _, f := range infoSchema() {
		probe = append(probe, f.param, strings.ToUpper(f.param), f.goName)
	}
	for _, n := range probe {
		if filter.IsQueryField(n) && !in[n] {
			return nil, fmt.Errorf("filter.IsQueryField accepts %q which the go/ast extraction did not find", n)
		}
	}
	return names, nil
}

func leanBytesList(xs []string) string {
	parts := make([]string, len(xs))
	for i, x := range xs {
		parts[i] = facts.LeanBytes([]byte(x))
	}
	return "[" + strings.Join(parts, ", ") + "]"
}

func init() {
	facts.Add("browsing", func(w io.Writer, repo string) error {
		fmt.Fprintf(w, "def browsingMinRequestPayloadLength : Nat := %d\n", browsing.MinRequestPayloadLength)
		fmt.Fprintf(w, "def browsingMaxAllowedNumberOfFields : Nat := %d\n", browsing.MaxAllowedNumberOfFields)
		wl, err := queryFieldWhitelist(repo)
		if err != nil {
			return err
		}
		fmt.Fprintf(w, "/-- filter.IsQueryField accepts exactly: %s -/\n", strings.Join(wl, " "))
		fmt.Fprintf(w, "def browsingQueryFields : List (List UInt8) := %s\n", leanBytesList(wl))
		sch := infoSchema()
		var names, parts []string
		for _, f := range sch {
			kn := []string{"int", "bool", "string", "unsupported"}[f.kind]
			names = append(names, fmt.Sprintf("%s/%s:%s", f.goName, f.param, kn))
			parts = append(parts, fmt.Sprintf("(%s, %d)", facts.LeanBytes([]byte(f.param)), f.kind))
		}
		fmt.Fprintf(w, "/-- what params.Marshal iterates over for details.Info, in order (GoField/param:kind): %s.\n", strings.Join(names, " "))
		fmt.Fprintf(w, "kind codes: 0 = int, 1 = bool, 2 = string, 3 = a kind params.Marshal rejects -/\n")
		fmt.Fprintf(w, "def browsingInfoSchema : List (List UInt8 × Nat) := [%s]\n", strings.Join(parts, ", "))
		return nil
	})
}
