// Package c01 drives the server browser: browsing.NewRequest on raw payloads, and the real
// browser.Handler over a loopback TCP connection with servers planted through the real
// servers repository (miniredis).
//
// Ops (tokens are space-free; byte strings in hex, "-" = empty; lists joined by ",", "_" = empty list):
//
//	req <payload>
//	    => ok <filters> <fields> <challenge> | err:invalid | err:nofields | err:toomany | panic:<text>
//	reply <cliphint> <hdr7> <game1> <game2> <challenge> <filter> <rawfields> <options> <servers> [<intent>]
//	    => <sentpayload> <clientip> <clientport> <now> <liveness> <stored> <reply|closed>
//	replyraw <cliphint> <payload> <servers>
//	    => <clientip> <clientport> <now> <liveness> <stored> <reply|closed>
//
// <servers>/<stored>: records a.b.c.d:port:queryport:status[@ref]:v1:…:vn, one v per field of the Info
// schema that params.Marshal iterates over (ints decimal, bools 0/1, strings hex).
// @ref is the record's RefreshedAt.  In <servers> (input) it is RELATIVE to the handler's clock: "@z" = the zero
// time (never refreshed), "@k" = k ticks of 256ns BEFORE the clock (negative: in the future), absent = refreshed
// right now.  In <stored> (output, read back through the repository) it is ABSOLUTE and always present:
// "@z" or "@<UnixNano>".  <now> = the handler's clock (UnixNano) and <liveness> = its HandlerOpts.Liveness (ns)
// at the time of the request.
// <intent> (optional, the generator's declared reading of <filter>, as in C03): "-" none, "bad" = claimed
// unparsable, "q:<clause>,…" with <clause> = <fieldhex>.<eq|ne|lt|gt>.<i<dec>|s<hex>|f<hex>>; the harness ignores it,
// the Lean driver checks it against the filter bytes and evaluates the specification on it.
// <reply> is the raw (still encrypted) byte stream read from the client side of the connection;
// the Lean driver decrypts it with the SDK reference decoder.  <stored> is the registry content
// read back through the repository right before the request (JSON storage coerces invalid UTF-8).
package c01

import (
	"context"
	"encoding/binary"
	"errors"
	"fmt"
	"io"
	"math/rand"
	"net"
	"reflect"
	"strconv"
	"strings"
	"syscall"
	"time"

	"github.com/sergeii/swat4master/internal/core/entities/addr"
	"github.com/sergeii/swat4master/internal/core/entities/details"
	ds "github.com/sergeii/swat4master/internal/core/entities/discovery/status"
	"github.com/sergeii/swat4master/internal/core/entities/server"
	"github.com/sergeii/swat4master/pkg/gamespy/browsing"
	"github.com/sergeii/swat4master/verifharness/internal/core"
	"github.com/sergeii/swat4master/verifharness/internal/world"
)

func init() {
	core.Register(&core.Prop{ID: "C01", Gen: gen, Exec: exec})
}

// ------------------------------------------------------------------ token helpers

func hexList(xs [][]byte) string {
	if len(xs) == 0 {
		return "_"
	}
	parts := make([]string, len(xs))
	for i, x := range xs {
		parts[i] = core.Hex(x)
	}
	return strings.Join(parts, ",")
}

func unHexList(s string) [][]byte {
	if s == "_" {
		return nil
	}
	parts := strings.Split(s, ",")
	out := make([][]byte, len(parts))
	for i, p := range parts {
		out[i] = core.MustUnHex(p)
	}
	return out
}

// EncodeReq is the harness' request encoder (the Lean side has `Spec.ServerList.encodeReq`; the
// driver checks that both produce the same bytes).
func encodeReq(hdr7, game1, game2, chal, filter []byte, rawFields [][]byte, opts []byte) []byte {
	req := []byte{0, 0}
	req = append(req, hdr7...)
	req = append(req, game1...)
	req = append(req, 0)
	req = append(req, game2...)
	req = append(req, 0)
	req = append(req, chal...)
	req = append(req, filter...)
	req = append(req, 0)
	req = append(req, '\\')
	for i, f := range rawFields {
		if i > 0 {
			req = append(req, '\\')
		}
		req = append(req, f...)
	}
	req = append(req, 0)
	req = append(req, opts...)
	binary.BigEndian.PutUint16(req[:2], uint16(len(req))) // nolint:gosec
	return req
}

// ------------------------------------------------------------------ server records

type record struct {
	ip        [4]byte
	port      int
	queryPort int
	status    int
	ref       string   // RefreshedAt: "" = now, "z" = zero time, else an integer (input: ticks of 256ns before now; output: UnixNano)
	vals      []string // one per schema field; ints decimal, bools 0/1, strings hex
}

func (r record) String() string {
	parts := []string{
		fmt.Sprintf("%d.%d.%d.%d", r.ip[0], r.ip[1], r.ip[2], r.ip[3]),
		strconv.Itoa(r.port), strconv.Itoa(r.queryPort), strconv.Itoa(r.status),
	}
	if r.ref != "" {
		parts[3] += "@" + r.ref
	}
	return strings.Join(append(parts, r.vals...), ":")
}

func recordsToken(rs []record) string {
	if len(rs) == 0 {
		return "_"
	}
	parts := make([]string, len(rs))
	for i, r := range rs {
		parts[i] = r.String()
	}
	return strings.Join(parts, ",")
}

func parseRecords(tok string) ([]record, error) {
	if tok == "_" {
		return nil, nil
	}
	var out []record
	for _, rt := range strings.Split(tok, ",") {
		parts := strings.Split(rt, ":")
		if len(parts) < 4 {
			return nil, fmt.Errorf("short record %q", rt)
		}
		ip := net.ParseIP(parts[0]).To4()
		if ip == nil {
			return nil, fmt.Errorf("bad ip %q", parts[0])
		}
		var r record
		copy(r.ip[:], ip)
		var err error
		if r.port, err = strconv.Atoi(parts[1]); err != nil {
			return nil, err
		}
		if r.queryPort, err = strconv.Atoi(parts[2]); err != nil {
			return nil, err
		}
		st, ref, hasRef := strings.Cut(parts[3], "@")
		if r.status, err = strconv.Atoi(st); err != nil {
			return nil, err
		}
		if hasRef {
			if ref != "z" {
				if _, err := strconv.ParseInt(ref, 10, 64); err != nil {
					return nil, err
				}
			}
			r.ref = ref
		}
		r.vals = parts[4:]
		out = append(out, r)
	}
	return out, nil
}

func (r record) toServer(now time.Time) (server.Server, error) {
	sch := infoSchema()
	if len(r.vals) != len(sch) {
		return server.Blank, fmt.Errorf("record has %d values, schema %d", len(r.vals), len(sch))
	}
	var info details.Info
	rv := reflect.ValueOf(&info).Elem()
	for i, f := range sch {
		fv := rv.Field(f.index)
		switch f.kind {
		case kindInt:
			n, err := strconv.ParseInt(r.vals[i], 10, 64)
			if err != nil {
				return server.Blank, err
			}
			fv.SetInt(n)
		case kindBool:
			fv.SetBool(r.vals[i] == "1")
		case kindString:
			fv.SetString(string(core.MustUnHex(r.vals[i])))
		default:
			return server.Blank, fmt.Errorf("schema field %s has a kind the harness cannot plant", f.goName)
		}
	}
	refreshed := now
	switch r.ref {
	case "":
	case "z":
		refreshed = time.Time{}
	default:
		k, err := strconv.ParseInt(r.ref, 10, 64)
		if err != nil {
			return server.Blank, err
		}
		refreshed = now.Add(-time.Duration(k * 256))
	}
	return server.Server{
		Addr:            addr.Addr{IP: r.ip, Port: r.port},
		QueryPort:       r.queryPort,
		DiscoveryStatus: ds.DiscoveryStatus(r.status),
		Info:            info,
		RefreshedAt:     refreshed,
	}, nil
}

func fromServer(s server.Server) record {
	sch := infoSchema()
	r := record{ip: s.Addr.IP, port: s.Addr.Port, queryPort: s.QueryPort, status: int(s.DiscoveryStatus), ref: "z"}
	if !s.RefreshedAt.IsZero() {
		r.ref = strconv.FormatInt(s.RefreshedAt.UnixNano(), 10)
	}
	rv := reflect.ValueOf(s.Info)
	for _, f := range sch {
		fv := rv.Field(f.index)
		switch f.kind {
		case kindInt:
			r.vals = append(r.vals, strconv.FormatInt(fv.Int(), 10))
		case kindBool:
			if fv.Bool() {
				r.vals = append(r.vals, "1")
			} else {
				r.vals = append(r.vals, "0")
			}
		case kindString:
			r.vals = append(r.vals, core.Hex([]byte(fv.String())))
		default:
			r.vals = append(r.vals, "?")
		}
	}
	return r
}

// ------------------------------------------------------------------ exec

func exec(op string, args []string) []string {
	var out []string
	txt, ok := core.Guard(func() {
		switch {
		case op == "req" && len(args) == 1:
			out = execReq(core.MustUnHex(args[0]))
		case op == "reply" && (len(args) == 9 || len(args) == 10): // args[9], when present, is the declared reading of the filter (for the driver)
			payload := encodeReq(core.MustUnHex(args[1]), core.MustUnHex(args[2]), core.MustUnHex(args[3]),
				core.MustUnHex(args[4]), core.MustUnHex(args[5]), unHexList(args[6]), core.MustUnHex(args[7]))
			out = append([]string{core.Hex(payload)}, execReply(args[0], payload, args[8])...)
		case op == "replyraw" && len(args) == 3:
			out = execReply(args[0], core.MustUnHex(args[1]), args[2])
		default:
			out = []string{"bad-op"}
		}
	})
	if !ok {
		return []string{"panic:" + txt}
	}
	return out
}

func execReq(payload []byte) []string {
	var req browsing.Request
	var err error
	if txt, ok := core.Guard(func() { req, err = browsing.NewRequest(append([]byte{}, payload...)) }); !ok {
		return []string{"panic:" + txt}
	}
	switch {
	case err == nil:
		fields := make([][]byte, len(req.Fields))
		for i, f := range req.Fields {
			fields[i] = []byte(f)
		}
		return []string{"ok", core.Hex([]byte(req.Filters)), hexList(fields), core.Hex(req.Challenge[:])}
	case errors.Is(err, browsing.ErrInvalidRequestFormat):
		return []string{"err:invalid"}
	case errors.Is(err, browsing.ErrNoFieldsRequested):
		return []string{"err:nofields"}
	case errors.Is(err, browsing.ErrTooManyFieldsRequested):
		return []string{"err:toomany"}
	}
	return []string{"err:other:" + strings.ReplaceAll(err.Error(), " ", "_")}
}

// env is built once per harness process and reused by every case (the registry is flushed between
// cases): one miniredis, one logical process, one loopback listener.  A fresh set per case would
// leave tens of thousands of sockets in TIME_WAIT and exhaust the ephemeral port range.
type env struct {
	w   *world.World
	p   *world.Proc
	ln  *net.TCPListener
	ln6 *net.TCPListener // wildcard dual-stack listener, as the browser component opens for ":28910"; nil without IPv6
}

var theEnv *env

func getEnv() (e *env, err error) {
	if theEnv != nil {
		return theEnv, nil
	}
	if txt, ok := core.Guard(func() {
		w := world.New(world.DefaultOptions())
		p := w.NewProc()
		var ln *net.TCPListener
		ln, err = net.ListenTCP("tcp4", &net.TCPAddr{IP: net.IPv4(127, 0, 0, 1), Port: 0})
		if err == nil {
			theEnv = &env{w: w, p: p, ln: ln}
			if l6, err6 := net.ListenTCP("tcp", &net.TCPAddr{IP: net.IPv6unspecified}); err6 == nil {
				theEnv.ln6 = l6
			}
		}
	}); !ok {
		return nil, errors.New(txt)
	}
	return theEnv, err
}

// execReply plants the records through the real servers repository, opens a loopback TCP
// connection pair, hands the accepted side to the real browser handler and returns what the
// client side receives.
func execReply(clipHint string, payload []byte, serversTok string) []string {
	recs, err := parseRecords(serversTok)
	if err != nil {
		return []string{"bad-servers:" + strings.ReplaceAll(err.Error(), " ", "_")}
	}
	e, err := getEnv()
	if err != nil {
		return []string{"env-error:" + strings.ReplaceAll(err.Error(), " ", "_")}
	}
	w, p, ln := e.w, e.p, e.ln
	w.MR.FlushAll()
	ctx := context.Background()
	now := w.Clock.Now()
	var order []addr.Addr
	seen := map[addr.Addr]bool{}
	for _, r := range recs {
		svr, err := r.toServer(now)
		if err != nil {
			return []string{"bad-servers:" + strings.ReplaceAll(err.Error(), " ", "_")}
		}
		// a record for an address planted before replaces it
		if _, err := p.Servers.Add(ctx, svr, func(s *server.Server) bool { *s = svr; return true }); err != nil {
			return []string{"plant-error:" + strings.ReplaceAll(err.Error(), " ", "_")}
		}
		if !seen[svr.Addr] {
			seen[svr.Addr] = true
			order = append(order, svr.Addr)
		}
	}
	stored := make([]record, 0, len(order))
	for _, a := range order {
		s, err := p.Servers.Get(ctx, a)
		if err != nil {
			return []string{"readback-error:" + strings.ReplaceAll(err.Error(), " ", "_")}
		}
		stored = append(stored, fromServer(s))
	}

	// "m:<ip>": the same IPv4 client through the dual-stack listener (the handler sees a 16-byte IPv4-mapped peer);
	// "6": an IPv6 client (::1): there is no IPv4 address to echo, the reply carries 0.0.0.0
	target := ln.Addr().String()
	v6peer := false
	if strings.HasPrefix(clipHint, "m:") && e.ln6 != nil {
		ln = e.ln6
		target = fmt.Sprintf("127.0.0.1:%d", ln.Addr().(*net.TCPAddr).Port)
	}
	clipHint = strings.TrimPrefix(clipHint, "m:")
	// the client binds to the hinted loopback address (any 127.x.y.z is local on Linux); fall back to the default
	var client *net.TCPConn
	if clipHint == "6" && e.ln6 != nil {
		ln = e.ln6
		if c, err := net.DialTimeout("tcp6", fmt.Sprintf("[::1]:%d", ln.Addr().(*net.TCPAddr).Port), 5*time.Second); err == nil {
			client = c.(*net.TCPConn) // nolint: forcetypeassert
			v6peer = true
		} else {
			ln = e.ln
		}
	}
	// "<ip>:<port>": the client also binds a given source port (the reply echoes it: the extremes of the 16-bit range matter);
	// when the port is taken the default is used
	hintPort := 0
	if h, pt, ok := strings.Cut(clipHint, ":"); ok && clipHint != "6" {
		clipHint = h
		hintPort, _ = strconv.Atoi(pt)
	}
	if hint := net.ParseIP(clipHint).To4(); client == nil && hint != nil && hint[0] == 127 && hintPort != 0 {
		d := net.Dialer{LocalAddr: &net.TCPAddr{IP: hint, Port: hintPort}, Timeout: 5 * time.Second}
		if c, err := d.Dial("tcp4", target); err == nil {
			client = c.(*net.TCPConn) // nolint: forcetypeassert
		}
	}
	if hint := net.ParseIP(clipHint).To4(); client == nil && hint != nil && hint[0] == 127 {
		d := net.Dialer{LocalAddr: &net.TCPAddr{IP: hint, Port: 0}, Timeout: 5 * time.Second}
		if c, err := d.Dial("tcp4", target); err == nil {
			client = c.(*net.TCPConn) // nolint: forcetypeassert
		}
	}
	if client == nil {
		c, err := net.DialTimeout("tcp4", target, 5*time.Second)
		if err != nil {
			return []string{"dial-error"}
		}
		client = c.(*net.TCPConn) // nolint: forcetypeassert
	}
	defer client.Close()
	accepted, err := ln.AcceptTCP()
	if err != nil {
		return []string{"accept-error"}
	}
	local := client.LocalAddr().(*net.TCPAddr) // nolint: forcetypeassert
	if _, err := client.Write(payload); err != nil {
		return []string{"write-error"}
	}
	// an empty payload cannot be written: half-close so that the handler reads EOF instead of blocking.
	// Otherwise the handler closes first; the client then resets on close (linger 0), so that neither
	// side leaves a socket in TIME_WAIT however many cases a shard runs.
	if len(payload) == 0 {
		_ = client.CloseWrite()
	}
	_ = client.SetLinger(0)
	done := make(chan string, 1)
	go func() {
		txt, ok := core.Guard(func() { p.Browser.Handle(ctx, accepted) })
		if !ok {
			done <- "panic:" + txt
			return
		}
		done <- ""
	}()
	_ = client.SetReadDeadline(time.Now().Add(20 * time.Second))
	reply, rerr := io.ReadAll(client)
	var panicked string
	select {
	case panicked = <-done:
	case <-time.After(20 * time.Second):
		panicked = "handler-hung"
	}
	head := []string{local.IP.To4().String(), strconv.Itoa(local.Port),
		strconv.FormatInt(now.UnixNano(), 10), strconv.FormatInt(w.Opts.Liveness.Nanoseconds(), 10), recordsToken(stored)}
	if v6peer {
		head[0] = "0.0.0.0"
	}
	switch {
	case panicked != "":
		return append(head, panicked)
	case rerr != nil && !errors.Is(rerr, syscall.ECONNRESET):
		// (a reset ends the stream like a close: the handler closes with unread bytes in its receive queue whenever the
		// client sent more than the 2048 bytes it reads, and the kernel then answers with RST instead of FIN; what was
		// written before the close has been delivered and read)
		return append(head, "read-error:"+strings.ReplaceAll(rerr.Error(), " ", "_"))
	case len(reply) == 0:
		return append(head, "closed")
	}
	return append(head, core.Hex(reply))
}

// ------------------------------------------------------------------ generators

var schemaCache = infoSchema()

var unknownFields = []string{"", "country", "ping", "HOSTNAME", "hostname ", "numplayers2", "game name", "version",
	"round", "numrounds", "timeleft", "swatwon", "hostnam", "hostnamee", "gamenam\xe9", "\xff", "x"}

func knownFields() []string {
	// the facts extraction is authoritative; the generator only needs a plausible pool
	return []string{"gamename", "hostname", "numplayers", "maxplayers", "gametype", "gamevariant", "mapname",
		"hostport", "password", "statsenabled", "gamever"}
}

func pick(rng *rand.Rand, xs []string) string { return xs[rng.Intn(len(xs))] }

var asciiWords = []string{"Swat4 Server", "-==MYT Team Svr==-", "CO-OP", "VIP Escort", "A-Bomb Nightclub", "1.1", "SWAT 4",
	"SEF", "TSS", "Rapid Deployment", "Barricaded Suspects", "[C=FF0000]x", "a", "0", "1/2", "0/0", " ", "'quoted'", "a=b and c!=d"}

var textWords = []string{"Café München", "ÿþý", "Сервер № 1", "日本語サーバー", "\U0001F52B pew", " ", "naïve æøå",
	"Caf\xe9 M\xfcnchen", "\xff\xfe\xfd", "\xc3", "\xe2\x82"}

var markupWords = []string{"[c=ff0000]Red[\\c]", "[b]bold[\\b] [u]under[\\u]", "[C=00FF00][B]-=ELITE=-[\\B][\\C]", "[c=ffffff]", "[i]x", "[c=zzzzzz]y[\\c]"}

var nastyValues = []string{"a\x00b", "\x00", "\x00\x00", "ab\x00", "\x00ab", "\xff", "\xff\xff\xff\xff", "\x00\xff\xff\xff\xff", "\\", "\\hostname\\x\\",
	"\x51\x01\x02\x03\x04\x05\x06", "a\x00\x51\x7f\x00\x00\x01\x28\xf1\xffb\x00", "\x00\x51", "\xff\x00", "\x00\xff", "x\x00\x00\xff\xff\xff\xffy", "\\\x00\xff"}

func randString(rng *rand.Rand) string {
	switch rng.Intn(12) {
	case 0:
		return ""
	case 1, 2, 3:
		return pick(rng, asciiWords)
	case 4, 5:
		return pick(rng, textWords)
	case 6:
		return pick(rng, markupWords)
	case 7, 8:
		return pick(rng, nastyValues)
	case 9: // random bytes biased to 00 FF 5C
		return string(core.RandBytes(rng, rng.Intn(12)))
	case 10: // concatenation
		return randString(rng) + randString(rng)
	default: // 1–2 KiB
		if rng.Intn(4) > 0 {
			return pick(rng, asciiWords)
		}
		n := 1024 + rng.Intn(1025)
		var sb strings.Builder
		mode := rng.Intn(4)
		for sb.Len() < n {
			switch mode {
			case 0:
				sb.WriteString(pick(rng, asciiWords))
			case 1:
				sb.WriteString(pick(rng, textWords))
			case 2:
				sb.WriteString(pick(rng, nastyValues))
			default:
				sb.WriteString(randString(rng))
			}
		}
		return sb.String()[:n]
	}
}

func randInt(rng *rand.Rand) int64 {
	switch rng.Intn(8) {
	case 0:
		return 0
	case 1:
		return -int64(rng.Intn(1000))
	case 2:
		return int64(rng.Intn(65536))
	case 3:
		return []int64{1 << 31, -(1 << 31), 1<<63 - 1, -(1 << 63), 1<<31 - 1, 255, 256, -1}[rng.Intn(8)]
	default:
		return int64(rng.Intn(17))
	}
}

func randRecord(rng *rand.Rand, used map[string]bool) record {
	var r record
	for {
		switch rng.Intn(6) {
		case 0:
			r.ip = [4]byte{255, 255, 255, byte(rng.Intn(255))} // never the all-ones address (addr.New rejects it; it is the SDK's end marker)
		case 1:
			r.ip = [4]byte{byte(rng.Intn(256)), 255, 255, 255}
		case 2:
			r.ip = [4]byte{0x51, 0xff, 0x00, byte(rng.Intn(256))}
		default:
			r.ip = [4]byte{byte(1 + rng.Intn(223)), byte(rng.Intn(256)), byte(rng.Intn(256)), byte(rng.Intn(256))}
		}
		if r.ip == [4]byte{255, 255, 255, 255} {
			continue
		}
		r.port = 1 + rng.Intn(65535)
		if rng.Intn(3) == 0 {
			// a small pool of addresses that come back case after case with different contents: the harness process keeps ONE
			// browser handler for all its cases, as the component does for all its connections; a server that goes away
			// and registers again at the same address (its version counter restarts) must be listed with its current values
			r.ip = [4]byte{1, 1, 1, byte(1 + rng.Intn(4))}
			r.port = 10480 + 100*rng.Intn(2)
		}
		key := fmt.Sprintf("%v:%d", r.ip, r.port)
		if !used[key] {
			used[key] = true
			break
		}
	}
	switch rng.Intn(10) {
	case 0:
		r.queryPort = 65536 + rng.Intn(70000) // game port + offset may exceed 16 bits: truncated on the wire
	case 1:
		r.queryPort = []int{0, 65535, 65536, 255, 256, 0xff00, 0x00ff, 0xffff, 0x5100, -1}[rng.Intn(10)]
	default:
		r.queryPort = 1 + rng.Intn(65535)
	}
	// mostly Master (so that the record is listed) with any other bits; one in seven without the master bit
	r.status = int(ds.Master) | (rng.Intn(512) &^ int(ds.Master))
	if rng.Intn(7) == 0 {
		r.status &^= int(ds.Master)
	}
	// mostly refreshed right now; else around the edge of the liveness window (the bound now-liveness is inclusive),
	// long stale, never refreshed (zero time: not in the refreshed index at all), or ahead of the clock
	switch rng.Intn(20) {
	case 0:
		r.ref = strconv.FormatInt(livenessTicks, 10) // exactly at the bound: listed
	case 1:
		r.ref = strconv.FormatInt(livenessTicks+1, 10) // one tick too old
	case 2:
		r.ref = strconv.FormatInt(livenessTicks-1, 10)
	case 3:
		r.ref = strconv.FormatInt(livenessTicks+1+rng.Int63n(1<<34), 10)
	case 4:
		r.ref = "z"
	case 5:
		r.ref = strconv.FormatInt(rng.Int63n(livenessTicks), 10)
	case 6:
		r.ref = strconv.FormatInt(-1-rng.Int63n(1<<20), 10)
	}
	for _, f := range schemaCache {
		switch f.kind {
		case kindInt:
			r.vals = append(r.vals, strconv.FormatInt(randInt(rng), 10))
		case kindBool:
			r.vals = append(r.vals, strconv.Itoa(rng.Intn(2)))
		default:
			r.vals = append(r.vals, core.Hex([]byte(randString(rng))))
		}
	}
	return r
}

func randRegistry(rng *rand.Rand, maxN int) []record {
	var n int
	switch rng.Intn(6) {
	case 0:
		n = 0
	case 1:
		n = 1
	case 2:
		n = 2
	default:
		n = rng.Intn(maxN + 1)
	}
	used := map[string]bool{}
	rs := make([]record, n)
	for i := range rs {
		rs[i] = randRecord(rng, used)
	}
	return rs
}

func randRawFields(rng *rand.Rand) [][]byte {
	known := knownFields()
	var n int
	switch rng.Intn(8) {
	case 0:
		n = 0
	case 1:
		n = 20 + rng.Intn(6)
	default:
		n = 1 + rng.Intn(25)
	}
	pUnknown := []int{0, 10, 30, 60}[rng.Intn(4)]
	out := make([][]byte, n)
	for i := range out {
		if rng.Intn(100) < pUnknown {
			out[i] = []byte(pick(rng, unknownFields))
		} else {
			out[i] = []byte(pick(rng, known))
		}
	}
	return out
}

func cstr(rng *rand.Rand, n int) []byte { // NUL-free
	b := core.RandBytes(rng, n)
	for i := range b {
		if b[i] == 0 {
			b[i] = 0x5c
		}
	}
	return b
}

type reqParts struct {
	hdr7, g1, g2, chal, filter []byte
	raw                        [][]byte
	opts                       []byte
}

func randReqParts(rng *rand.Rand, emptyFilter bool) reqParts {
	var q reqParts
	if rng.Intn(4) == 0 {
		q.hdr7 = core.RandBytes(rng, 7)
	} else {
		q.hdr7 = []byte{0, 1, 3, 0, 0, 0, 0}
	}
	switch rng.Intn(5) {
	case 0:
		q.g1, q.g2 = []byte("swat4xp1"), []byte("swat4xp1")
	case 1:
		q.g1, q.g2 = cstr(rng, rng.Intn(6)), cstr(rng, rng.Intn(6))
	default:
		q.g1, q.g2 = []byte("swat4"), []byte("swat4")
	}
	q.chal = core.RandBytes(rng, 8)
	if !emptyFilter {
		switch rng.Intn(4) {
		case 0:
			q.filter = []byte("gametype='CO-OP' and gamever='1.1'")
		case 1:
			q.filter = cstr(rng, rng.Intn(40))
		case 2:
			q.filter = []byte("numplayers!=maxplayers and password=0 and gamever='1.1' and gamevariant='SWAT 4'")
		}
	}
	q.raw = randRawFields(rng)
	q.opts = []byte{0, 0, 0, byte(rng.Intn(2))}
	return q
}

func (q reqParts) encode() []byte { return encodeReq(q.hdr7, q.g1, q.g2, q.chal, q.filter, q.raw, q.opts) }

// malformed derives a broken payload from a well-formed one
func malformed(rng *rand.Rand, q reqParts) []byte {
	p := q.encode()
	switch rng.Intn(14) {
	case 0: // declared length off by a little
		n := len(p) + rng.Intn(5) - 2
		binary.BigEndian.PutUint16(p[:2], uint16(n)) // nolint:gosec
	case 1: // truncated
		p = p[:rng.Intn(len(p)+1)]
	case 2: // declared length shorter: cuts the tail
		n := rng.Intn(len(p) + 1)
		binary.BigEndian.PutUint16(p[:2], uint16(n)) // nolint:gosec
	case 3: // trailing garbage beyond the declared length (ignored by the parser)
		p = append(p, core.RandBytes(rng, 1+rng.Intn(8))...)
	case 4: // options
		q.opts = [][]byte{{0, 0, 0, 2}, {1, 0, 0, 0}, {0, 0, 0}, {0, 0, 0, 0, 0}, {0, 0, 1, 0}, {0xff, 0xff, 0xff, 0xff}, {}, {0, 0, 0, 1, 0}}[rng.Intn(8)]
		p = q.encode()
	case 5: // short challenge
		q.chal = q.chal[:rng.Intn(8)]
		p = q.encode()
	case 6: // NUL inside a field name / the game name
		if len(q.raw) > 0 {
			i := rng.Intn(len(q.raw))
			q.raw[i] = append(append([]byte{}, q.raw[i]...), 0)
		} else {
			q.g1 = append(q.g1, 0)
		}
		p = q.encode()
	case 7: // field list without the leading backslash
		p = q.encode()
		for i := len(p) - 6; i >= 1; i-- {
			if p[i] == '\\' && p[i-1] == 0 {
				p = append(p[:i], p[i+1:]...)
				binary.BigEndian.PutUint16(p[:2], uint16(len(p))) // nolint:gosec
				break
			}
		}
	case 8: // random bytes with a plausible length prefix
		p = core.RandBytes(rng, rng.Intn(80))
		if len(p) >= 2 && rng.Intn(2) == 0 {
			binary.BigEndian.PutUint16(p[:2], uint16(len(p))) // nolint:gosec
		}
	case 9: // tiny
		p = core.RandBytes(rng, rng.Intn(4))
	case 10: // exactly at the minimum length, or one below
		q.g1, q.g2, q.filter, q.raw = nil, nil, nil, nil
		p = q.encode()
		if rng.Intn(2) == 0 {
			p = p[:len(p)-1]
			binary.BigEndian.PutUint16(p[:2], uint16(len(p))) // nolint:gosec
		}
	case 11: // a random byte flipped
		if len(p) > 0 {
			p[rng.Intn(len(p))] = byte(rng.Intn(256))
		}
	case 12: // a random byte removed, length fixed up
		i := rng.Intn(len(p))
		p = append(p[:i], p[i+1:]...)
		if len(p) >= 2 {
			binary.BigEndian.PutUint16(p[:2], uint16(len(p))) // nolint:gosec
		}
	default: // trailing backslashes / doubled separators in the field list
		q.raw = append(q.raw, []byte{}, []byte("hostname"), []byte{}, []byte{})
		p = q.encode()
	}
	return p
}

func clipHint(rng *rand.Rand) string {
	switch rng.Intn(16) {
	case 0, 1: // an IPv4 client seen through the dual-stack listener
		return fmt.Sprintf("m:127.%d.%d.%d", rng.Intn(256), rng.Intn(256), 1+rng.Intn(254))
	case 2: // an IPv6 client
		return "6"
	case 3: // a client on a source port at the edges of the 16-bit range
		return fmt.Sprintf("127.%d.%d.%d:%d", rng.Intn(256), rng.Intn(256), 1+rng.Intn(254), []int{65535, 65535, 65534, 65280, 32768, 1023}[rng.Intn(6)])
	}
	if rng.Intn(3) == 0 {
		return "127.0.0.1"
	}
	return fmt.Sprintf("127.%d.%d.%d", rng.Intn(256), rng.Intn(256), 1+rng.Intn(254))
}

func gen(rng *rand.Rand, tier core.Tier, emit core.Emit) {
	nReq, nReply, nRaw, maxN := 4000, 1500, 300, 10
	if tier == core.Thorough {
		nReq, nReply, nRaw, maxN = 60000, 2000, 400, 40
	}
	for i := 0; i < nReq; i++ {
		q := randReqParts(rng, false)
		if rng.Intn(2) == 0 {
			emit("req", core.Hex(q.encode()))
		} else {
			emit("req", core.Hex(malformed(rng, q)))
		}
	}
	for i := 0; i < nReply; i++ {
		q := randReqParts(rng, true)
		n := maxN
		if rng.Intn(10) > 0 && n > 6 {
			n = 6 // mostly small registries; the long tail comes from the remaining tenth
		}
		reg := randRegistry(rng, n)
		// the filter: empty, well-formed clauses around values the registry stores, malformed, random bytes
		text, intent := replyFilter(rng, reg)
		q.filter = []byte(text)
		// one request in twenty-five is padded to a total length around the handler's 2048-byte read buffer
		if rng.Intn(25) == 0 {
			intent = padTo(rng, &q, intent, oversizeTargets[rng.Intn(len(oversizeTargets))])
		}
		emit("reply", clipHint(rng), core.Hex(q.hdr7), core.Hex(q.g1), core.Hex(q.g2), core.Hex(q.chal), core.Hex(q.filter),
			hexList(q.raw), core.Hex(q.opts), recordsToken(reg), intent)
	}
	// one large registry per run: exactly 300 servers pass the repository's selection (master, live) next to a few
	// that do not, and the filter keeps most of them (a round number of servers, should anything fetch them in batches)
	{
		q := randReqParts(rng, true)
		q.raw = [][]byte{[]byte("hostname"), []byte("numplayers"), []byte("hostport")}
		used := map[string]bool{}
		var reg []record
		for len(reg) < 306 {
			r := randRecord(rng, used)
			for j, f := range schemaCache {
				if f.kind == kindString && len(r.vals[j]) > 64 {
					r.vals[j] = core.Hex([]byte(pick(rng, asciiWords)))
				}
			}
			r.status |= int(ds.Master)
			r.ref = ""
			switch len(reg) {
			case 7, 150:
				r.status &^= int(ds.Master)
			case 8, 151:
				r.ref = "z"
			case 9, 305:
				r.ref = strconv.FormatInt(livenessTicks+1, 10)
			}
			reg = append(reg, r)
		}
		c := intClause("numplayers", ">", "gt", -1)
		q.filter = []byte(c.text)
		emit("reply", "127.0.0.1", core.Hex(q.hdr7), core.Hex(q.g1), core.Hex(q.g2), core.Hex(q.chal), core.Hex(q.filter),
			hexList(q.raw), core.Hex(q.opts), recordsToken(reg), "q:"+c.canon)
	}
	for i := 0; i < nRaw; i++ {
		q := randReqParts(rng, true)
		reg := randRegistry(rng, 3)
		if rng.Intn(3) == 0 {
			text, _ := replyFilter(rng, reg)
			q.filter = []byte(strings.ReplaceAll(text, "\x00", "?"))
		}
		p := malformed(rng, q)
		switch rng.Intn(12) {
		case 0: // a well-formed request followed by bytes the declared length does not cover, beyond the read buffer:
			// the handler reads 2048 bytes, the declared length lies within them, it replies
			p = q.encode()
			if len(p) < 2049 {
				p = append(p, core.RandBytes(rng, []int{2049, 2050, 3000, 4000}[rng.Intn(4)]-len(p))...)
			}
		case 1: // the same with the declared length covering everything: beyond what the handler read, no reply
			p = q.encode()
			if len(p) < 2049 {
				p = append(p, core.RandBytes(rng, []int{2049, 2050, 3000, 4000}[rng.Intn(4)]-len(p))...)
				binary.BigEndian.PutUint16(p[:2], uint16(len(p))) // nolint:gosec
			}
		}
		emit("replyraw", clipHint(rng), core.Hex(p), recordsToken(reg))
	}
}
