// Package c04 drives the real reporter dispatcher + use cases + repositories over miniredis with
// whole histories of datagrams (see reputil for the line format).
package c04

import (
	"strconv"
	"fmt"
	"math/rand"

	"github.com/sergeii/swat4master/verifharness/internal/core"
	"github.com/sergeii/swat4master/verifharness/internal/reputil"
	"github.com/sergeii/swat4master/verifharness/internal/ucops"
	"github.com/sergeii/swat4master/verifharness/internal/world"
)

func init() {
	core.Register(&core.Prop{ID: "C04", Gen: gen, Exec: exec})
}

func gen(rng *rand.Rand, tier core.Tier, emit core.Emit) {
	// concurrent reporters: every reply must be its own sender's
	if tier == core.Thorough {
		emit("wpar", "8", "1500")
	} else {
		emit("wpar", "8", "250")
	}
	// histories through the real reporter component (fx wiring, UDP server, handler goroutines) over loopback sockets
	nw := 12
	if tier == core.Thorough {
		nw = 150
	}
	for i := 0; i < nw; i++ {
		emit("whist", reputil.WireHistory(rng, 2+rng.Intn(8), 1+rng.Intn(2), 20, 0)...)
	}
	for _, h := range reputil.WireEdgeHistories(rng) {
		emit("whist", h...)
	}
	n := 300
	if tier == core.Thorough {
		n = 1500
	}
	ids := [][]byte{{0xde, 0xad, 0xbe, 0xef}, {1, 2, 3, 4}}
	// single datagrams: one heartbeat with random values from a random source (value round-trip, reply bytes)
	for i := 0; i < n; i++ {
		ip := reputil.PickIPs(rng, 1, rng.Intn(12) == 0)[0]
		wild := 0
		if rng.Intn(3) == 0 {
			wild = 1 + rng.Intn(3)
		}
		r := reputil.RandomReport(rng, ids[rng.Intn(2)], reputil.PortText(rng), reputil.PortText(rng), wild)
		ops := [][]string{reputil.Dg(ip, reputil.SrcPort(rng), r.Payload(rng))}
		if rng.Intn(2) == 0 { // followed by a re-report and a keepalive from the same source
			r2 := reputil.RandomReport(rng, r.ID, r.HostPort, r.LocalPort, 0)
			ops = append(ops, reputil.Adv(rng), reputil.Dg(ip, reputil.SrcPort(rng), r2.Payload(rng)),
				reputil.Adv(rng), reputil.Dg(ip, reputil.SrcPort(rng), reputil.Keepalive(r.ID)))
		}
		emit("hist", reputil.JoinOps(ops)...)
	}
	// the discovery pipeline in between: a heartbeat, then what the prober did with its port probe (success, transient
	// failure, final failure — which leaves "no port"), a details probe, then the next heartbeats of the same server
	for i := 0; i < n/3; i++ {
		ip := reputil.PickIPs(rng, 1, false)[0]
		id := ids[rng.Intn(2)]
		r := reputil.RandomReport(rng, id, "10480", "10481", 0)
		addr := ip + ":10480"
		ops := [][]string{reputil.Dg(ip, reputil.SrcPort(rng), r.Payload(rng))}
		for k := 0; k < 1+rng.Intn(3); k++ {
			var uc string
			switch rng.Intn(5) {
			case 0:
				uc = fmt.Sprintf("probe|%s|10480|1|2|2|fail", addr) // the port probe's last attempt fails: no_port
			case 1:
				uc = fmt.Sprintf("probe|%s|10480|1|0|2|fail", addr) // transient failure: retry
			case 2:
				uc = fmt.Sprintf("probe|%s|10480|1|0|2|ok:10481:%x:%d", addr, "probed", rng.Intn(16))
			case 3:
				uc = fmt.Sprintf("probe|%s|10481|0|%d|2|fail", addr, rng.Intn(3))
			default:
				uc = "pop|3|fail"
			}
			if rng.Intn(6) == 0 {
				// another master node with a clock a few seconds ahead refreshed the record: its refresh time lies in this
				// node's future; the next heartbeat handled here is refreshed at THIS node's now all the same
				uc = fmt.Sprintf("call|update!%s/10481/%d/%d/%d!over", addr, 2|4|rng.Intn(2)*64, 50, world.Epoch.UnixNano()+int64(1+rng.Intn(20))*256000000000)
			}
			ops = append(ops, []string{"uc", uc})
			if rng.Intn(2) == 0 {
				ops = append(ops, reputil.Adv(rng))
			}
			r2 := reputil.RandomReport(rng, id, "10480", "10481", 0)
			ops = append(ops, reputil.Dg(ip, reputil.SrcPort(rng), r2.Payload(rng)))
			if rng.Intn(3) == 0 {
				ops = append(ops, reputil.Dg(ip, reputil.SrcPort(rng), reputil.Keepalive(id)))
			}
		}
		emit("hist", reputil.JoinOps(ops)...)
	}
	// … and the same while another update of the server commits between the report's read and its write: a storage error
	// during the write must fail the report (the other update stands), never turn it into a blind overwrite
	for k := 0; k < 8; k++ {
		for _, ev := range []string{"yb", "ya"} {
			for _, other := range []string{"@renew|00000009|1.1.1.1", fmt.Sprintf("@probe|1.1.1.1:10480|10480|1|0|2|ok:10484:%x:2", "p")} {
				emit("ucf", fmt.Sprintf("report|1.1.1.1:10480|10481|00000009|%x|1", "old"),
					fmt.Sprintf("report|1.1.1.1:10480|10481|00000001|%x|3,%s", "srv", other), fmt.Sprintf("c0,r1,%s0:%d,e", ev, k))
			}
		}
	}
	// a report whose storage fails at one command: "acknowledged ⇒ registered and bound" must survive every placement
	for c := 0; c <= 4; c++ {
		for k := 0; k < 11; k++ {
			for _, ev := range []string{"yb", "ya"} {
				pre := ""
				for i := 0; i < c; i++ {
					pre += "c0,"
				}
				emit("ucf", "-", fmt.Sprintf("report|1.1.1.1:10480|10481|00000001|%x|3", "srv"), fmt.Sprintf("%s%s0:%d,e", pre, ev, k))
				emit("ucf", fmt.Sprintf("report|1.1.1.1:10480|10481|00000009|%x|1", "old"), fmt.Sprintf("report|1.1.1.1:10480|10481|00000001|%x|3", "srv"), fmt.Sprintf("%s%s0:%d,e", pre, ev, k))
			}
		}
	}
	// histories of 1..40 datagrams, 1..3 sources
	for i := 0; i < n; i++ {
		ips := reputil.PickIPs(rng, 1+rng.Intn(3), rng.Intn(10) == 0)
		emit("hist", reputil.History(rng, 1+rng.Intn(40), ips, 25, 5)...)
	}
}

func exec(op string, args []string) []string {
	if op == "ucf" && len(args) == 3 {
		var out []string
		if txt, ok := core.Guard(func() { out = ucops.RunUC(world.DefaultOptions(), args[0], args[1], args[2]) }); !ok {
			return []string{fmt.Sprintf("harness-panic:%s", txt)}
		}
		return out
	}
	if op == "wpar" && len(args) == 2 { // concurrent reporters against the real reporter component
		var out []string
		k, _ := strconv.Atoi(args[0])
		rounds, _ := strconv.Atoi(args[1])
		if txt, ok := core.Guard(func() { out = reputil.RunWirePar(k, rounds) }); !ok {
			return []string{fmt.Sprintf("harness-panic:%s", txt)}
		}
		return out
	}
	if op == "whist" { // the same kind of history through the real reporter component over real sockets
		var out []string
		if txt, ok := core.Guard(func() { out = reputil.RunWireHistory(args) }); !ok {
			return []string{fmt.Sprintf("harness-panic:%s", txt)}
		}
		return out
	}
	if op != "hist" {
		return []string{"bad-op"}
	}
	var out []string
	if txt, ok := core.Guard(func() { out = reputil.RunHistory(args) }); !ok {
		return []string{fmt.Sprintf("harness-panic:%s", txt)}
	}
	return out
}
