// Package c04 drives the real reporter dispatcher + use cases + repositories over miniredis with
// whole histories of datagrams (see reputil for the line format).
package c04

import (
	"fmt"
	"math/rand"

	"github.com/sergeii/swat4master/verifharness/internal/core"
	"github.com/sergeii/swat4master/verifharness/internal/reputil"
)

func init() {
	core.Register(&core.Prop{ID: "C04", Gen: gen, Exec: exec})
}

func gen(rng *rand.Rand, tier core.Tier, emit core.Emit) {
	n := 300
	if tier == core.Thorough {
		n = 1500
	}
	ids := [][]byte{{0xde, 0xad, 0xbe, 0xef}, {1, 2, 3, 4}}
	// single datagrams: one heartbeat with random values from a random source (value round-trip, reply bytes)
	for i := 0; i < n; i++ {
		ip := reputil.PickIPs(rng, 1, rng.Intn(12) == 0)[0]
		wild := 0
		if rng.Intn(3) == 0 {
			wild = 1 + rng.Intn(3)
		}
		r := reputil.RandomReport(rng, ids[rng.Intn(2)], reputil.PortText(rng), reputil.PortText(rng), wild)
		ops := [][]string{reputil.Dg(ip, reputil.SrcPort(rng), r.Payload(rng))}
		if rng.Intn(2) == 0 { // followed by a re-report and a keepalive from the same source
			r2 := reputil.RandomReport(rng, r.ID, r.HostPort, r.LocalPort, 0)
			ops = append(ops, reputil.Adv(rng), reputil.Dg(ip, reputil.SrcPort(rng), r2.Payload(rng)),
				reputil.Adv(rng), reputil.Dg(ip, reputil.SrcPort(rng), reputil.Keepalive(r.ID)))
		}
		emit("hist", reputil.JoinOps(ops)...)
	}
	// histories of 1..40 datagrams, 1..3 sources
	for i := 0; i < n; i++ {
		ips := reputil.PickIPs(rng, 1+rng.Intn(3), rng.Intn(10) == 0)
		emit("hist", reputil.History(rng, 1+rng.Intn(40), ips, 25, 5)...)
	}
}

func exec(op string, args []string) []string {
	if op != "hist" {
		return []string{"bad-op"}
	}
	var out []string
	if txt, ok := core.Guard(func() { out = reputil.RunHistory(args) }); !ok {
		return []string{fmt.Sprintf("harness-panic:%s", txt)}
	}
	return out
}
