// Package c09: concurrent registry writers/readers on the real servers repository under a
// controlled scheduler (every storage command is a scheduling point; lease expiry is an event).
package c09

import (
	"context"
	"fmt"
	"math/rand"
	"strings"

	"github.com/sergeii/swat4master/internal/core/entities/server"
	"github.com/sergeii/swat4master/verifharness/internal/core"
	"github.com/sergeii/swat4master/verifharness/internal/storeops"
	"github.com/sergeii/swat4master/verifharness/internal/world"
)

func init() {
	core.Register(&core.Prop{ID: "C09", Gen: gen, Exec: exec})
}

// sched <init> <clients> <events>
//
//	init    : server specs joined by "," (planted with Repository.Add at the given version), "-" for none
//	clients : call specs (storeops.RunCall) joined by ","
//	events  : joined by ","
func exec(op string, args []string) []string {
	if (op != "sched" && op != "sched1") || len(args) != 3 {
		return []string{"bad-op"}
	}
	var out []string
	if txt, ok := core.Guard(func() { out = run(args[0], args[1], args[2], op == "sched1") }); !ok {
		return []string{"panic:" + txt}
	}
	return out
}

func run(initSpec, clientSpec, eventSpec string, shared bool) []string {
	w := world.New(world.DefaultOptions())
	defer w.Close()
	if initSpec != "-" {
		p0 := w.NewProc()
		for _, tok := range strings.Split(initSpec, ",") {
			svr, err := storeops.ParseServer(tok)
			if err != nil {
				return []string{"bad-init"}
			}
			svr.Version-- // Add stores version + 1
			if _, err := p0.Servers.Add(context.Background(), svr, func(*server.Server) bool { return false }); err != nil {
				return []string{"bad-init:" + err.Error()}
			}
		}
	}
	specs := strings.Split(clientSpec, ",")
	clients := make([]func(p *world.Proc) string, len(specs))
	for i, s := range specs {
		s := s
		clients[i] = func(p *world.Proc) string { return storeops.RunCall(p, s) }
	}
	// sched1: the operations are concurrent goroutines of one component (one lock manager, one connection pool)
	var res storeops.SchedResult
	if shared {
		res = storeops.RunScheduledShared(w, clients, strings.Split(eventSpec, ","))
	} else {
		res = storeops.RunScheduled(w, clients, strings.Split(eventSpec, ","))
	}
	hung := ""
	if res.Hung {
		hung = "HUNG"
	}
	return []string{"trace=" + strings.Join(res.Trace, ",") + hung, "res=" + strings.Join(res.Results, ";"), "dump=" + strings.Join(res.Dump, ";")}
}

var kinds = []string{"add", "update", "remove"}
var resolvers = []string{"refuse", "accept", "merge", "over"}

func gen(rng *rand.Rand, tier core.Tier, emit core.Emit) {
	n := 600
	if tier == core.Thorough {
		n = 4000
	}
	epoch := world.Epoch.UnixNano()
	for c := 0; c < n; c++ {
		addrs := []string{"1.1.1.1:10480"}
		if rng.Intn(4) == 0 {
			addrs = append(addrs, "2.2.2.2:10480")
		}
		var init []string
		vers := map[string]int{}
		for _, a := range addrs {
			if rng.Intn(4) != 0 {
				v := 1 + rng.Intn(3)
				vers[a] = v
				init = append(init, fmt.Sprintf("%s/%d/%d/%d/%s", a, 10481, 1<<uint(rng.Intn(9)), v, refr(rng, epoch)))
			}
		}
		nw := 2
		if rng.Intn(5) == 0 {
			nw = 3
		}
		var clients []string
		for i := 0; i < nw; i++ {
			a := addrs[rng.Intn(len(addrs))]
			if i < 2 {
				a = addrs[0] // at least two writers contend for the same address
			}
			v := vers[a] + rng.Intn(3) - 1
			if v < 0 {
				v = 0
			}
			clients = append(clients, fmt.Sprintf("%s|%s/%d/%d/%d/%s|%s", kinds[rng.Intn(3)], a, 20000+i, rng.Intn(512), v, refr(rng, epoch), resolvers[rng.Intn(4)]))
		}
		if rng.Intn(2) == 0 {
			clients = append(clients, fmt.Sprintf("filter|%d|%d|z|z|z|z", []int{0, 2, 4, 64}[rng.Intn(4)], []int{0, 0, 16, 128}[rng.Intn(4)]))
		}
		// every third case: the operations are goroutines of ONE component (shared lock manager and connection pool)
		op := "sched"
		if c%3 == 2 {
			op = "sched1"
		}
		emit(op, join(init), strings.Join(clients, ","), strings.Join(schedule(rng, len(clients)), ","))
	}
}

func refr(rng *rand.Rand, epoch int64) string {
	if rng.Intn(3) == 0 {
		return "z"
	}
	return fmt.Sprint(epoch - int64(rng.Intn(100))*256000)
}

func join(xs []string) string {
	if len(xs) == 0 {
		return "-"
	}
	return strings.Join(xs, ",")
}

// schedule: biased to the read→commit window: run one client up to a random command, let the
// others act (possibly to completion), drop lease expiries and clock ticks in between.
func schedule(rng *rand.Rand, n int) []string {
	var ev []string
	switch rng.Intn(4) {
	case 3: // overlap: A takes the lock and stalls, the lease runs out, B gets as far as its read, A resumes up to its
		// commit, B commits — both inside the critical section at once (setnx watch get hget exec unwatch | watch get del unwatch)
		a, b := rng.Intn(n), rng.Intn(n)
		if a == b {
			b = (a + 1) % n
		}
		burst := func(id, k int) {
			for i := 0; i < k; i++ {
				ev = append(ev, fmt.Sprintf("s%d", id))
			}
		}
		if rng.Intn(5) < 3 {
			burst(a, 1)
		} else {
			burst(a, 1+rng.Intn(4))
		}
		if rng.Intn(5) > 0 {
			ev = append(ev, "e")
		}
		if rng.Intn(2) == 0 {
			burst(b, 4)
		} else {
			burst(b, 1+rng.Intn(6))
		}
		if rng.Intn(6) == 0 {
			ev = append(ev, "e")
		}
		if rng.Intn(2) == 0 {
			burst(a, 4+rng.Intn(3))
		} else {
			burst(a, rng.Intn(8))
		}
		burst(b, 1+rng.Intn(3))
		for i := 0; i < rng.Intn(6); i++ {
			ev = append(ev, randEvent(rng, n))
		}
	case 0: // fully random
		for i := 0; i < 10+rng.Intn(50); i++ {
			ev = append(ev, randEvent(rng, n))
		}
	default: // phased
		first := rng.Intn(n)
		for i := 0; i < rng.Intn(7); i++ {
			ev = append(ev, fmt.Sprintf("s%d", first))
		}
		if rng.Intn(2) == 0 {
			ev = append(ev, "e")
		}
		second := rng.Intn(n)
		for i := 0; i < rng.Intn(14); i++ {
			ev = append(ev, fmt.Sprintf("s%d", second))
		}
		if rng.Intn(3) == 0 {
			ev = append(ev, "e")
		}
		if rng.Intn(3) == 0 {
			ev = append(ev, fmt.Sprintf("t%d", 256000*(1+rng.Intn(10))))
		}
		for i := 0; i < rng.Intn(20); i++ {
			ev = append(ev, randEvent(rng, n))
		}
	}
	if len(ev) == 0 {
		ev = []string{"-"}
	}
	return ev
}

func randEvent(rng *rand.Rand, n int) string {
	switch r := rng.Intn(20); {
	case r == 0:
		return "e"
	case r == 1:
		return fmt.Sprintf("t%d", 256000*(1+rng.Intn(10)))
	default:
		return fmt.Sprintf("s%d", rng.Intn(n))
	}
}
