// Package c16: every use case that sets or consumes a retry mark (heartbeat-triggered discovery, REST
// submission, probe retry / success / final failure, queue pop) on the real code, with a client death
// or a storage fault injected at every storage command (before / after it took effect), followed by
// lease expiry and quiescence; plus the race in which a prober resolves a fresh probe before the mark
// is committed.
package c16

import (
	"sync"
	"time"
	_ "time/tzdata"
	"fmt"
	"math/rand"
	"strings"

	"github.com/sergeii/swat4master/verifharness/internal/core"
	"github.com/sergeii/swat4master/verifharness/internal/ucops"
	"github.com/sergeii/swat4master/verifharness/internal/world"
)

func init() {
	core.Register(&core.Prop{ID: "C16", Gen: gen, Exec: exec})
}

// uc <init> <clients> <events>   (see ucops.RunUC)
// zoneOnce: the processes that run C16's cases live in a zone other than UTC (Europe/Berlin, whose offset in year 1 — where
// Go's zero time lies — is a local mean time with seconds: +00:53:28), as a deployment outside UTC does.  Nothing the
// property speaks about depends on the zone a process runs in; the fake clock and every planted time stay in UTC.
var zoneOnce sync.Once

func exec(op string, args []string) []string {
	zoneOnce.Do(func() {
		if loc, err := time.LoadLocation("Europe/Berlin"); err == nil {
			time.Local = loc
		}
	})
	if op == "runner" && len(args) == 3 {
		var out []string
		if txt, ok := core.Guard(func() { out = runRunner(args[0], args[1]) }); !ok {
			return []string{"panic:" + txt}
		}
		return out
	}
	if op != "uc" || len(args) != 3 {
		return []string{"bad-op"}
	}
	var out []string
	txt, ok := core.Guard(func() { out = ucops.RunUC(world.DefaultOptions(), args[0], args[1], args[2]) })
	if !ok {
		return []string{"panic:" + txt}
	}
	return out
}

const a1 = "1.1.1.1:10480"

func hexs(s string) string { return fmt.Sprintf("%x", s) }

type scenario struct {
	init   []string
	client string
	calls  int // upper bound of repository calls of the client
}

func scenarios() []scenario {
	report := fmt.Sprintf("report|%s|10481|00000001|%s|3", a1, hexs("srv"))
	portOK := fmt.Sprintf("probe|%s|10480|1|0|2|ok:10481:%s:4", a1, hexs("p"))
	return []scenario{
		{nil, report, 5},                                 // first report: discovery enqueue + mark
		{[]string{report, portOK}, report, 3},            // re-report of a server with a port: no discovery
		{nil, "addserver|" + a1, 4},                      // REST submission of an unknown server
		{[]string{report, portOK}, "addserver|" + a1, 1}, // … of a known one
		{[]string{report}, "pop|2|fail", 4},              // prober: pop, failed probe with budget left (retry)
		{[]string{report}, "pop|2|ok:10481:" + hexs("x") + ":2", 3}, // prober: success
		{[]string{report, fmt.Sprintf("call|penq!%s!10480!1!2!2!z!z", a1)}, "pop|2|fail", 5}, // one probe at its budget: final failure
		{[]string{report, portOK}, "refresh|60000000000", 2},                                  // refresh enqueues a details probe (no mark)
		{[]string{report, portOK, "refresh|60000000000"}, "pop|2|fail", 4},                    // details probe fails: details retry
	}
}

// runnerCases: the real prober component consuming a planted queue (see runner.go).  <n> (third argument) is an upper
// bound of the probes in the queue: the model pops them all at once.
func runnerCases(rng *rand.Rand, n int, emit core.Emit) {
	for c := 0; c < n; c++ {
		offsets := []string{"1+2", "1", "1+2+3+4", "-"}[rng.Intn(4)]
		if c%3 == 0 {
			offsets = "-" // started with an empty --discovery-revival-ports
		}
		var init []string
		addrs := []string{"1.1.1.1:10480", "2.2.2.2:10480", "3.3.3.3:10580"}
		for i, a := range addrs[:1+rng.Intn(3)] {
			switch rng.Intn(4) {
			case 0: // a heartbeat: port probe queued, port_retry set
				init = append(init, fmt.Sprintf("report|%s|10481|0000000%d|%s|3", a, i+1, hexs("srv")))
			case 1: // REST submission
				init = append(init, "addserver|"+a)
			default: // an arbitrary record with marks, and probes (not) backing them at arbitrary retry counts
				st := rng.Intn(512)
				init = append(init, fmt.Sprintf("call|add!%s/10481/%d/1/z!refuse", a, st))
				// at most one probe per server: the workers run concurrently, two outcomes for one record do not commute
				if g := rng.Intn(3); g < 2 {
					maxr := rng.Intn(3)
					init = append(init, fmt.Sprintf("call|penq!%s!%d!%d!%d!%d!z!z", a, 10480+g, 1-g, rng.Intn(maxr+1), maxr))
				}
			}
		}
		if rng.Intn(2) == 0 { // probes that expired while nobody was polling: dropped and counted
			init = append(init, "adv3000000000")
			for k := 0; k < 1+rng.Intn(4); k++ {
				init = append(init, fmt.Sprintf("call|penq!9.9.9.%d:1!10480!1!0!1!z!%d", k+1, world.Epoch.UnixNano()+int64(1+rng.Intn(2))*1000000000))
			}
		}
		emit("runner", offsets, strings.Join(init, ","), "24")
	}
	// contention: another writer holds the server's lock while the probe's outcome is being committed (the commit waits
	// through the lock's back-off, longer than twice the probe timeout): the outcome must still be recorded
	for _, ms := range []int{150, 250} {
		emit("runner", "1+2", fmt.Sprintf("report|%s|10481|00000001|%s|3,hold|%s|%d", a1, hexs("srv"), a1, ms), "24")
		emit("runner", "-", fmt.Sprintf("call|add!%s/10481/144/1/z!refuse,call|penq!%s!10481!0!1!1!z!z,hold|%s|%d", a1, a1, a1, ms), "24")
	}
	// queue items of a goal this release does not know, then ordinary work: every worker must still be available
	for _, k := range []int{3, 5, 9} {
		emit("runner", "1+2", fmt.Sprintf("junk|%d,adv1000000000,report|%s|10481|00000001|%s|3,call|add!2.2.2.2:10480/10481/144/1/z!refuse,call|penq!2.2.2.2:10480!10481!0!1!1!z!z", k, a1, hexs("srv")), "24")
	}
	// a backlog of nothing but expired probes
	emit("runner", "1+2", "call|penq!9.9.9.1:1!10480!1!0!1!z!"+fmt.Sprint(world.Epoch.UnixNano()+256)+",call|penq!9.9.9.2:1!10480!0!0!1!z!"+fmt.Sprint(world.Epoch.UnixNano()+512)+",adv1000000000", "24")
}

func gen(rng *rand.Rand, tier core.Tier, emit core.Emit) {
	if tier == core.Thorough {
		runnerCases(rng, 150, emit)
	} else {
		runnerCases(rng, 6, emit)
	}
	scs := scenarios()
	maxK := 12
	if tier == core.Thorough {
		maxK = 14
	}
	// exhaustive: scenario x position (after c repository calls) x storage command k x {crash, fault} x {before, after}
	for _, sc := range scs {
		init := "-"
		if len(sc.init) > 0 {
			init = strings.Join(sc.init, ",")
		}
		for c := 0; c <= sc.calls; c++ {
			pre := strings.Repeat("c0,", c)
			for k := 0; k < maxK; k++ {
				if tier != core.Thorough && k > 1 && k < 9 && k%2 == 1 {
					continue // quick tier: thin out the middle of the lock protocol
				}
				for _, ev := range []string{"xb", "xa", "yb", "ya"} {
					emit("uc", init, sc.client, fmt.Sprintf("%s%s0:%d,e", pre, ev, k))
				}
			}
		}
	}
	// after the fault/crash another component keeps working: a later report / prober run must not be confused
	n := 40
	if tier == core.Thorough {
		n = 1500
	}
	for i := 0; i < n; i++ {
		sc := scs[rng.Intn(len(scs))]
		init := "-"
		if len(sc.init) > 0 {
			init = strings.Join(sc.init, ",")
		}
		c := rng.Intn(sc.calls + 1)
		ev := fmt.Sprintf("%s%s0:%d,e", strings.Repeat("c0,", c), []string{"xb", "xa", "yb", "ya"}[rng.Intn(4)], rng.Intn(12))
		follow := []string{fmt.Sprintf("@report|%s|10481|00000001|%s|5", a1, hexs("srv")), "@pop|3|fail", "@pop|3|ok:10481:" + hexs("y") + ":1", "@renew|00000001|1.1.1.1"}[rng.Intn(4)]
		emit("uc", init, sc.client+","+follow, ev+",t3000000000,r1")
	}
	// a heartbeat (or keepalive) commits while a probe on its LAST attempt is being recorded: the final-failure
	// transformation must be applied to the latest record (the mark goes: nothing is queued any more)
	for goal := 0; goal < 2; goal++ {
		st := 2 | 4 | 128 // master|info|port_retry
		port := 10480
		if goal == 0 {
			st = 2 | 4 | 64 | 16 // master|info|port|details_retry
			port = 10481
		}
		init := fmt.Sprintf("call|add!%s/10481/%d/1/z!refuse,call|insadd!00000001!%s,call|penq!%s!%d!%d!2!2!z!z", a1, st, a1, a1, port, goal)
		for _, other := range []string{fmt.Sprintf("@report|%s|10481|00000001|%s|5", a1, hexs("srv")), "@renew|00000001|1.1.1.1"} {
			for k := 0; k <= 3; k++ {
				emit("uc", init, "pop|1|fail,"+other, strings.Repeat("c0,", k)+"r1,r0")
			}
		}
	}
	// a details probe fails (retries left) while a port probe of the same server succeeds on ANOTHER query port: the
	// re-queued details probe still carries the old port; when it is popped later it must be worked off like any other
	// (it fails for good and clears the mark) — a probe consumed without an outcome leaves the mark behind
	{
		init := fmt.Sprintf("call|add!%s/10481/70/1/z!refuse,call|penq!%s!10481!0!0!1!z!z", a1, a1) // master|info|port, one details probe
		portOK2 := fmt.Sprintf("@probe|%s|10480|1|0|2|ok:10484:%s:4", a1, hexs("moved"))
		for k := 1; k <= 3; k++ {
			emit("uc", init, "pop|1|fail,"+portOK2+",@pop|1|fail", strings.Repeat("c0,", k)+"r1,r0,t3000000000,r2")
		}
	}
	// the prober resolves the fresh probe before the mark is committed (success / retry)
	for _, outcome := range []string{"ok:10481:" + hexs("q") + ":4", "fail"} {
		for c := 3; c <= 4; c++ {
			emit("uc", "-", fmt.Sprintf("report|%s|10481|00000001|%s|3,@pop|1|%s", a1, hexs("srv"), outcome), strings.Repeat("c0,", c)+"r1,r0")
		}
		for c := 2; c <= 3; c++ {
			emit("uc", "-", fmt.Sprintf("addserver|%s,@pop|1|%s", a1, outcome), strings.Repeat("c0,", c)+"r1,r0")
		}
	}
}
