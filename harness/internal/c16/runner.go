package c16

import (
	"context"
	"fmt"
	"net"
	"strconv"
	"strings"
	"time"

	"github.com/go-playground/validator/v10"
	"github.com/jonboulle/clockwork"
	"github.com/prometheus/client_golang/prometheus/testutil"
	"github.com/rs/zerolog"
	"go.uber.org/fx"

	proberc "github.com/sergeii/swat4master/cmd/swat4master/components/prober"
	"github.com/sergeii/swat4master/internal/core/entities/addr"
	"github.com/sergeii/swat4master/internal/core/entities/probe"
	"github.com/sergeii/swat4master/internal/core/repositories"
	"github.com/sergeii/swat4master/internal/core/usecases/probeserver"
	"github.com/sergeii/swat4master/internal/metrics"
	"github.com/sergeii/swat4master/verifharness/internal/ucops"
	"github.com/sergeii/swat4master/verifharness/internal/world"
)

// runRunner <offsets> <init>: the REAL prober component (cmd/swat4master/components/prober: its fx module wires the
// port and details probers into the goal map, the probe runner, its scheduler and worker pool) against a planted
// registry and queue.  Nothing answers the probes (the sandbox has no network; the addresses are not local), so every
// probe fails: with retries left it is re-queued (ready after floor(e^n) s of the FAKE clock, which stands still) and
// the mark stays; at its last retry the server is marked no_port / no_details and the retry mark goes.  The component
// runs until the queue holds no ready probe and no worker is busy; then the store is dumped.
//
//	offsets : port offsets of the port prober joined by "+", "-" for none (--discovery-revival-ports=)
//	init    : ucops init items (report / probe / addserver / call|penq … / adv<ns>)
func runRunner(offsetSpec, initSpec string) []string {
	var offsets []int
	if offsetSpec != "-" {
		for _, t := range strings.Split(offsetSpec, "+") {
			n, err := strconv.Atoi(t)
			if err != nil {
				return []string{"bad-op"}
			}
			offsets = append(offsets, n)
		}
	}
	wopts := world.DefaultOptions()
	if strings.Contains(initSpec, "hold|") {
		wopts.ZeroLockBackoff = false // the real 100 ms back-off between lock attempts
	}
	w := world.New(wopts)
	defer w.Close()
	p := w.NewProc()
	type hold struct {
		key string
		ms  int
	}
	var holds []hold
	if initSpec != "-" {
		for _, it := range strings.Split(initSpec, ",") {
			if strings.HasPrefix(it, "hold|") {
				// hold|<addr>|<ms>: another writer holds the server's lock for <ms> of REAL time once the component starts
				// (contention: the outcome commit waits through one or two back-offs; it must still be recorded)
				parts := strings.Split(it, "|")
				ms, _ := strconv.Atoi(parts[len(parts)-1])
				holds = append(holds, hold{key: "servers:lock:" + parts[1], ms: ms})
				continue
			}
			if strings.HasPrefix(it, "junk|") {
				// junk|<n>: n queue items whose goal this release does not know (left by another release): the runner
				// drops each — and must go on probing with all its workers afterwards
				n, _ := strconv.Atoi(it[5:])
				for i := 0; i < n; i++ {
					prb := probe.New(addr.NewForTesting(net.IPv4(9, 9, 9, byte(i+1)), 9), 9, probe.Goal(9), 1)
					if err := p.Probes.Add(p.Context(), prb); err != nil {
						return []string{"bad-init:" + it}
					}
				}
				continue
			}
			if strings.HasPrefix(it, "adv") {
				ns, _ := strconv.ParseInt(it[3:], 10, 64)
				w.Advance(time.Duration(ns))
				continue
			}
			if r := ucops.Client(it)(p); r == "bad-spec" {
				return []string{"bad-init:" + it}
			}
		}
	}
	before := strings.Join(w.Dump(), ";")
	app := fx.New(
		fx.NopLogger,
		fx.Supply(proberc.Config{PollInterval: 2 * time.Millisecond, Concurrency: 3, ProbeTimeout: 40 * time.Millisecond, PortOffsets: offsets}),
		fx.Provide(
			func() *zerolog.Logger { return p.Logger },
			func() *metrics.Collector { return p.Metrics },
			func() *validator.Validate { return p.Validate },
			func() clockwork.Clock { return w.Clock },
			func() repositories.ProbeRepository { return p.Repos.Probes },
			func() probeserver.UseCase { return p.UC.ProbeServer },
		),
		proberc.Module,
		fx.Invoke(func(*proberc.Component) {}),
	)
	if err := app.Err(); err != nil {
		return []string{"wiring-error:" + strings.ReplaceAll(err.Error(), " ", "_")}
	}
	ctx, cancel := context.WithTimeout(context.Background(), 10*time.Second)
	defer cancel()
	for _, h := range holds {
		_ = w.MR.Set(h.key, "held-by-another-writer")
		go func(h hold) {
			time.Sleep(time.Duration(h.ms) * time.Millisecond)
			w.MR.Del(h.key)
		}(h)
	}
	startErr := app.Start(ctx)
	cancel() // the start context ends when the start is over, as under fx.App.Run: nothing may go on living off it
	if err := startErr; err != nil {
		return []string{"start-error:" + strings.ReplaceAll(err.Error(), " ", "_")}
	}
	// quiescence: no ready probe in the queue, no busy worker, and the dump unchanged for 150 ms
	deadline := time.Now().Add(8 * time.Second)
	last, stableSince := "", time.Now()
	quiet := false
	for time.Now().Before(deadline) {
		time.Sleep(10 * time.Millisecond)
		d := strings.Join(w.Dump(), ";")
		if d != last {
			last, stableSince = d, time.Now()
			continue
		}
		busy := testutil.ToFloat64(p.Metrics.DiscoveryWorkersBusy)
		if busy == 0 && time.Since(stableSince) > 150*time.Millisecond {
			quiet = true
			break
		}
	}
	_ = app.Stop(context.Background())
	q := "quiet"
	if !quiet {
		q = "not-quiet"
	}
	changed := "changed"
	if last == before {
		changed = "unchanged"
	}
	if last == "" {
		last = "-"
	}
	return []string{"dump=" + last,
		fmt.Sprintf("met=%d:%d", int(testutil.ToFloat64(p.Metrics.DiscoveryQueueConsumed)), int(testutil.ToFloat64(p.Metrics.DiscoveryQueueExpired))),
		q, changed}
}
