// Package c03 drives the filter language (query.NewFromString, Query.Match), the listing use case
// (listservers.Execute over the real repository), the browser handler and GET /api/servers.
//
// Line protocol (see lean/Swat4/Drv/C03.lean):
//
//	parse <filterhex> <intent>                                  => ok <clauses> | err:<class>
//	match <filterhex> <intent> <info>                           => <ok|err:class> <0|1>
//	list  <nowK> <livK> <required> <filterhex> <intent> <srv…>  => <ok|err:class> <addrs|->
//	blist <nowK> <livK> <filterhex> <intent> <srv…>             => reply <addrs|-> | noreply
//	rest  <nowK> <livK> <gv> <gver> <gt> <np> <nf> <ne> <srv…>  => <http status> <addrs|->
//
// clause  = <fieldhex>.<eq|ne|lt|gt>.<i<decimal> | s<hex> | f<hex>>     clauses joined by ","
// intent  = "-" (none) | "bad" (generator claims: does not parse) | q:<clauses> (generator claims: this is
//
//	render(<clauses>), all well-formed)
//
// info    = the values of details.Info's non-ignored fields in declaration order joined by ","
//
//	(int decimal, bool 0/1, string hex)
//
// srv     = <ip:port>,<status>,<refreshedK|z>,<info…>
// times   = world.Epoch + K·256ns; liveness = livK·256ns
// rest    : gv/gver/gt hex of the form value or "~" (absent); np/nf/ne hex of the literal value or "~"
// addrs   = the listed addresses in the order of the input servers (the listing is compared as a multiset);
//
//	"<addr>*n" for a duplicate, "?<addr>" for an address that was never planted
package c03

import (
	"context"
	"encoding/binary"
	"encoding/json"
	"errors"
	"fmt"
	"io"
	"net"
	"net/http"
	"net/http/httptest"
	"net/url"
	"reflect"
	"sort"
	"strconv"
	"strings"
	"sync"
	"time"

	"github.com/gin-gonic/gin"

	"github.com/sergeii/swat4master/internal/browser"
	"github.com/sergeii/swat4master/internal/core/entities/addr"
	"github.com/sergeii/swat4master/internal/core/entities/details"
	ds "github.com/sergeii/swat4master/internal/core/entities/discovery/status"
	"github.com/sergeii/swat4master/internal/core/entities/server"
	"github.com/sergeii/swat4master/internal/core/usecases/listservers"
	"github.com/sergeii/swat4master/internal/rest"
	"github.com/sergeii/swat4master/internal/rest/api"
	"github.com/sergeii/swat4master/internal/settings"
	"github.com/sergeii/swat4master/pkg/gamespy/browsing/query"
	"github.com/sergeii/swat4master/pkg/gamespy/browsing/query/filter"
	"github.com/sergeii/swat4master/pkg/gamespy/crypt"
	"github.com/sergeii/swat4master/verifharness/internal/core"
	"github.com/sergeii/swat4master/verifharness/internal/world"
)

func init() {
	core.Register(&core.Prop{ID: "C03", Gen: gen, Exec: exec})
	// rest.NewRouter uses gin.Default(), whose request logger writes to gin.DefaultWriter (stdout = the case stream)
	gin.DefaultWriter = io.Discard
	gin.DefaultErrorWriter = io.Discard
}

// ---------------------------------------------------------------------------- canonical parse result

func errClass(err error) string {
	switch {
	case errors.Is(err, filter.ErrInvalidFilterFormat):
		return "err:format"
	case errors.Is(err, filter.ErrInvalidValueFormat):
		return "err:value"
	case errors.Is(err, filter.ErrUnknownFieldName):
		return "err:field"
	case errors.Is(err, filter.ErrUnsupportedOperatorType):
		return "err:op"
	case errors.Is(err, query.ErrQueryHasNoFilters):
		return "err:empty"
	}
	return "err:other:" + strings.ReplaceAll(err.Error(), " ", "_")
}

var opNames = []string{"eq", "ne", "lt", "gt"}

func hexs(s string) string { return core.Hex([]byte(s)) }

// canonQuery reads the (unexported) parsed representation through reflection: reading ints and strings of
// unexported fields is permitted by package reflect (only Interface()/Set are not).
func canonQuery(q query.Query) string {
	fs := reflect.ValueOf(q).FieldByName("filters")
	parts := make([]string, 0, fs.Len())
	for i := 0; i < fs.Len(); i++ {
		f := fs.Index(i)
		op := int(f.FieldByName("op").Int())
		opn := "op" + strconv.Itoa(op)
		if op >= 0 && op < len(opNames) {
			opn = opNames[op]
		}
		v := f.FieldByName("value")
		val := "nil"
		if !v.IsNil() {
			e := v.Elem()
			switch e.Kind() { // nolint: exhaustive
			case reflect.Int:
				val = "i" + strconv.FormatInt(e.Int(), 10)
			case reflect.String:
				val = "s" + hexs(e.String())
			case reflect.Struct:
				val = "f" + hexs(e.Field(0).String())
			default:
				val = "?" + e.Kind().String()
			}
		}
		parts = append(parts, hexs(f.FieldByName("field").String())+"."+opn+"."+val)
	}
	if len(parts) == 0 {
		return "-"
	}
	return strings.Join(parts, ",")
}

// browserQuery is browser.go:119-130 verbatim: a non-empty filter string is parsed, a parse error is
// logged and the (blank) query is used all the same.
func browserQuery(filters string) (query.Query, string) {
	var q query.Query
	var err error
	class := "ok"
	if filters != "" {
		q, err = query.NewFromString(filters)
		if err != nil {
			class = errClass(err)
		}
	}
	return q, class
}

// ---------------------------------------------------------------------------- info / servers

func parseInfo(toks []string) (details.Info, error) {
	var info details.Info
	schema, _ := infoSchema()
	if len(toks) != len(schema) {
		return info, fmt.Errorf("info: %d values for %d fields", len(toks), len(schema))
	}
	rv := reflect.ValueOf(&info).Elem()
	for i, f := range schema {
		fv := rv.Field(f.Index)
		switch f.Kind {
		case kindInt:
			n, err := strconv.ParseInt(toks[i], 10, 64)
			if err != nil {
				return info, err
			}
			fv.SetInt(n)
		case kindBool:
			fv.SetBool(toks[i] == "1")
		case kindString:
			b, err := core.UnHex(toks[i])
			if err != nil {
				return info, err
			}
			fv.SetString(string(b))
		default:
			return info, fmt.Errorf("info: unsupported kind of %s", f.Go)
		}
	}
	return info, nil
}

type planted struct {
	addr string
	svr  server.Server
}

func parseServer(tok string, offK int64) (planted, error) {
	parts := strings.Split(tok, ",")
	if len(parts) < 3 {
		return planted{}, fmt.Errorf("server token %q", tok)
	}
	a, err := addr.NewFromString(parts[0])
	if err != nil {
		return planted{}, err
	}
	status, err := strconv.Atoi(parts[1])
	if err != nil {
		return planted{}, err
	}
	qp := a.Port + 1
	if qp > 65535 {
		qp = a.Port - 1
	}
	svr, err := server.NewFromAddr(a, qp)
	if err != nil {
		return planted{}, err
	}
	svr.DiscoveryStatus = ds.DiscoveryStatus(status)
	if parts[2] != "z" {
		k, err := strconv.ParseInt(parts[2], 10, 64)
		if err != nil {
			return planted{}, err
		}
		svr.RefreshedAt = world.Epoch.Add(time.Duration((k + offK) * 256))
	}
	info, err := parseInfo(parts[3:])
	if err != nil {
		return planted{}, err
	}
	svr.Info = info
	return planted{addr: parts[0], svr: svr}, nil
}

// One world (miniredis + fake clock + logical process) per harness process: a world per case would leave
// thousands of loopback sockets in TIME-WAIT.  The keyspace is flushed between cases.  The fake clock can
// only move forward, so a case whose `now` lies before the current clock value is shifted as a whole
// (clock, refresh times) by `off` ticks of 256ns; every time used is still world.Epoch + k·256ns and the
// selection only depends on differences.  The clock never exceeds the largest `nowK` seen.
var shared struct {
	w    *world.World
	p    *world.Proc
	curK int64
}

func sharedWorld() (*world.World, *world.Proc) {
	if shared.w == nil {
		var w *world.World
		for attempt := 0; ; attempt++ { // the loopback port range may be exhausted for a moment by parallel runs
			if _, ok := core.Guard(func() { w = world.New(world.DefaultOptions()) }); ok {
				break
			}
			if attempt > 120 {
				panic("harness: cannot start miniredis")
			}
			time.Sleep(500 * time.Millisecond)
		}
		shared.w, shared.p = w, w.NewProc()
	}
	return shared.w, shared.p
}

type fixture struct {
	w        *world.World
	p        *world.Proc
	ps       []planted
	liveness time.Duration
}

func setup(nowK, livK int64, srvToks []string) (*fixture, error) {
	w, p := sharedWorld()
	w.MR.FlushAll()
	off := int64(0)
	if nowK < shared.curK {
		off = shared.curK - nowK
	}
	if d := off + nowK - shared.curK; d > 0 {
		w.Advance(time.Duration(d * 256))
		shared.curK += d
	}
	fx := &fixture{w: w, p: p, liveness: time.Duration(livK * 256)}
	for _, t := range srvToks {
		pl, err := parseServer(t, off)
		if err != nil {
			return nil, err
		}
		// through the real repository: item + updated/refreshed indexes + the nine status sets
		if _, err := p.Servers.Add(context.Background(), pl.svr, func(*server.Server) bool { return false }); err != nil {
			return nil, err
		}
		fx.ps = append(fx.ps, pl)
	}
	return fx, nil
}

// browserHandler / router: the frontends wired as world.NewProc wires them, with this case's liveness.
func (fx *fixture) browserHandler() browser.Handler {
	return browser.NewHandler(fx.p.Metrics, fx.p.Logger, fx.w.Clock, fx.p.UC.ListServers, browser.HandlerOpts{Liveness: fx.liveness})
}

func (fx *fixture) router() *gin.Engine {
	return rest.NewRouter(api.New(settings.Settings{ServerLiveness: fx.liveness}, fx.p.Logger, fx.p.UC))
}

// canonListing renders a listing as a multiset in the order of the planted servers.
func canonListing(ps []planted, listed []string) string {
	count := map[string]int{}
	for _, a := range listed {
		count[a]++
	}
	var out []string
	for _, p := range ps {
		n, ok := count[p.addr]
		if !ok {
			continue
		}
		delete(count, p.addr)
		if n == 1 {
			out = append(out, p.addr)
		} else {
			out = append(out, fmt.Sprintf("%s*%d", p.addr, n))
		}
	}
	var unknown []string
	for a, n := range count {
		unknown = append(unknown, fmt.Sprintf("?%s*%d", a, n))
	}
	sort.Strings(unknown)
	out = append(out, unknown...)
	if len(out) == 0 {
		return "-"
	}
	return strings.Join(out, ",")
}

// ---------------------------------------------------------------------------- exec

func exec(op string, args []string) (out []string) {
	txt, ok := core.Guard(func() { out = exec1(op, args) })
	if !ok {
		return []string{"panic:" + txt}
	}
	return out
}

func i64(s string) int64 {
	n, err := strconv.ParseInt(s, 10, 64)
	if err != nil {
		panic("harness: bad integer " + s)
	}
	return n
}

func exec1(op string, args []string) []string {
	switch {
	case op == "parse" && len(args) == 2:
		q, err := query.NewFromString(string(core.MustUnHex(args[0])))
		if err != nil {
			return []string{errClass(err)}
		}
		return []string{"ok", canonQuery(q)}

	case op == "match" && len(args) == 3:
		info, err := parseInfo(strings.Split(args[2], ","))
		if err != nil {
			return []string{"bad-op:" + strings.ReplaceAll(err.Error(), " ", "_")}
		}
		q, class := browserQuery(string(core.MustUnHex(args[0])))
		if q.Match(&info) {
			return []string{class, "1"}
		}
		return []string{class, "0"}

	case op == "list" && len(args) >= 5:
		nowK, livK, required := i64(args[0]), i64(args[1]), i64(args[2])
		fx, err := setup(nowK, livK, args[5:])
		if err != nil {
			return []string{"bad-op:" + strings.ReplaceAll(err.Error(), " ", "_")}
		}
		q, class := browserQuery(string(core.MustUnHex(args[3])))
		req := listservers.NewRequest(q, fx.liveness, ds.DiscoveryStatus(required))
		res, err := fx.p.UC.ListServers.Execute(context.Background(), req)
		if err != nil {
			return []string{class, "error:" + strings.ReplaceAll(err.Error(), " ", "_")}
		}
		listed := make([]string, len(res))
		for i, s := range res {
			listed[i] = s.Addr.String()
		}
		return []string{class, canonListing(fx.ps, listed)}

	case op == "blist" && len(args) >= 4:
		nowK, livK := i64(args[0]), i64(args[1])
		fx, err := setup(nowK, livK, args[4:])
		if err != nil {
			return []string{"bad-op:" + strings.ReplaceAll(err.Error(), " ", "_")}
		}
		return browserList(fx, core.MustUnHex(args[2]))

	case op == "rest" && len(args) >= 8:
		nowK, livK := i64(args[0]), i64(args[1])
		fx, err := setup(nowK, livK, args[8:])
		if err != nil {
			return []string{"bad-op:" + strings.ReplaceAll(err.Error(), " ", "_")}
		}
		vals := url.Values{}
		for i, name := range []string{"gamevariant", "gamever", "gametype", "nopassworded", "nofull", "noempty"} {
			if args[2+i] != "~" {
				vals.Set(name, string(core.MustUnHex(args[2+i])))
			}
		}
		target := "/api/servers"
		if len(vals) > 0 {
			target += "?" + vals.Encode()
		}
		rec := httptest.NewRecorder()
		fx.router().ServeHTTP(rec, httptest.NewRequest(http.MethodGet, target, nil))
		code := strconv.Itoa(rec.Code)
		if rec.Code != http.StatusOK {
			return []string{code, "-"}
		}
		var body []struct {
			Address string `json:"address"`
		}
		if err := json.Unmarshal(rec.Body.Bytes(), &body); err != nil {
			return []string{code, "undecodable"}
		}
		listed := make([]string, len(body))
		for i, s := range body {
			listed[i] = s.Address
		}
		return []string{code, canonListing(fx.ps, listed)}
	}
	return []string{"bad-op"}
}

// ---------------------------------------------------------------------------- the real browser handler over loopback TCP

var (
	lnOnce sync.Once
	ln     *net.TCPListener
)

func listener() *net.TCPListener {
	lnOnce.Do(func() {
		for attempt := 0; ; attempt++ {
			l, err := net.ListenTCP("tcp4", &net.TCPAddr{IP: net.IPv4(127, 0, 0, 1)})
			if err == nil {
				ln = l
				return
			}
			if attempt > 120 {
				panic(err)
			}
			time.Sleep(500 * time.Millisecond)
		}
	})
	return ln
}

func dial(to *net.TCPAddr) *net.TCPConn {
	for attempt := 0; ; attempt++ {
		c, err := net.DialTCP("tcp4", nil, to)
		if err == nil {
			return c
		}
		if attempt > 120 {
			panic(err)
		}
		time.Sleep(500 * time.Millisecond)
	}
}

var blistChallenge = [8]byte{'q', '!', '8', 'G', 'p', '9', 'R', 'i'}

// browserRequest builds a well-formed server-list request carrying `filters` and asking for one field.
func browserRequest(filters []byte) []byte {
	body := []byte{0, 0, 0, 1, 3, 0, 0, 0, 0} // 2 length bytes + 7 bytes the parser skips
	body = append(body, "swat4\x00swat4\x00"...)
	body = append(body, blistChallenge[:]...)
	body = append(body, filters...)
	body = append(body, 0)
	body = append(body, "\\hostport\x00"...)
	body = append(body, 0, 0, 0, 0)
	binary.BigEndian.PutUint16(body[:2], uint16(len(body))) // nolint:gosec
	return body
}

func browserList(fx *fixture, filters []byte) []string {
	ps := fx.ps
	l := listener()
	client := dial(l.Addr().(*net.TCPAddr))
	defer client.Close()
	conn, err := l.AcceptTCP()
	if err != nil {
		panic(err)
	}
	if _, err := client.Write(browserRequest(filters)); err != nil {
		panic(err)
	}
	fx.browserHandler().Handle(context.Background(), conn) // reads the request, writes the reply, closes conn
	_ = client.SetReadDeadline(time.Now().Add(5 * time.Second))
	reply, _ := io.ReadAll(client)
	if len(reply) == 0 {
		return []string{"noreply"}
	}
	var key [crypt.GMSL]byte
	copy(key[:], browser.GameEncKey)
	plain := crypt.Decrypt(key, blistChallenge, reply)
	ips, ok := decodeServerList(plain)
	if !ok {
		return []string{"undecodable"}
	}
	byIP := map[string]string{}
	for _, pl := range ps {
		byIP[pl.svr.Addr.GetDottedIP()+"/"+strconv.Itoa(pl.svr.QueryPort)] = pl.addr
	}
	listed := make([]string, len(ips))
	for i, ip := range ips {
		if a, ok := byIP[ip]; ok {
			listed[i] = a
		} else {
			listed[i] = ip
		}
	}
	return []string{"reply", canonListing(ps, listed)}
}

// decodeServerList decodes the plaintext server list (as the stock client does) into "ip/queryport" keys.
func decodeServerList(b []byte) ([]string, bool) {
	if len(b) < 8 {
		return nil, false
	}
	nf := int(b[6])
	pos := 8
	for i := 0; i < nf; i++ { // field declarations: name NUL NUL
		for pos < len(b) && b[pos] != 0 {
			pos++
		}
		pos += 2
	}
	var out []string
	for {
		if pos >= len(b) {
			return nil, false
		}
		if b[pos] == 0x00 {
			return out, len(b) == pos+5 && b[pos+1] == 0xff && b[pos+2] == 0xff && b[pos+3] == 0xff && b[pos+4] == 0xff
		}
		if b[pos] != 0x51 || pos+7 > len(b) {
			return nil, false
		}
		ip := net.IPv4(b[pos+1], b[pos+2], b[pos+3], b[pos+4]).String()
		qp := int(binary.BigEndian.Uint16(b[pos+5 : pos+7]))
		pos += 7
		for i := 0; i < nf; i++ {
			if pos >= len(b) || b[pos] != 0xff {
				return nil, false
			}
			pos++
			for pos < len(b) && b[pos] != 0 {
				pos++
			}
			pos++
		}
		out = append(out, ip+"/"+strconv.Itoa(qp))
	}
}
