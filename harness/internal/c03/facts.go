package c03

import (
	"fmt"
	"go/ast"
	"go/parser"
	"go/token"
	"io"
	"path/filepath"
	"reflect"
	"strconv"

	"github.com/sergeii/swat4master/internal/core/entities/details"
	ds "github.com/sergeii/swat4master/internal/core/entities/discovery/status"
	"github.com/sergeii/swat4master/pkg/gamespy/browsing/query/filter"
	"github.com/sergeii/swat4master/pkg/gamespy/serverquery/params"
	"github.com/sergeii/swat4master/verifharness/internal/facts"
)

// schemaField is one exported, non-ignored field of details.Info as the reflection-based code of
// /repo sees it (filter.getStructField, params.Marshal/Unmarshal all go through params.GetParamName).
type schemaField struct {
	Go    string
	Param string
	Kind  int // 0 int, 1 bool, 2 string, 3 unsupported
	Index int
}

const (
	kindInt = iota
	kindBool
	kindString
	kindOther
)

func infoSchema() (fields []schemaField, ignored []string) {
	st := reflect.TypeOf(details.Info{})
	for i := 0; i < st.NumField(); i++ {
		f := st.Field(i)
		if !f.IsExported() {
			ignored = append(ignored, f.Name)
			continue
		}
		name, ok := params.GetParamName(f) // the real rule: `param` tag, "-" = ignored, else lower-cased name
		if !ok {
			ignored = append(ignored, f.Name)
			continue
		}
		k := kindOther
		switch f.Type.Kind() { // nolint: exhaustive
		case reflect.Int:
			k = kindInt
		case reflect.Bool:
			k = kindBool
		case reflect.String:
			k = kindString
		}
		fields = append(fields, schemaField{Go: f.Name, Param: name, Kind: k, Index: i})
	}
	return fields, ignored
}

// queryFieldCandidates reads the string literals of the `case` clauses of filter.IsQueryField from the source.
func queryFieldCandidates(repo string) ([]string, error) {
	path := filepath.Join(repo, "pkg", "gamespy", "browsing", "query", "filter", "filter.go")
	fset := token.NewFileSet()
	file, err := parser.ParseFile(fset, path, nil, 0)
	if err != nil {
		return nil, err
	}
	var out []string
	found := false
	for _, d := range file.Decls {
		fd, ok := d.(*ast.FuncDecl)
		if !ok || fd.Name.Name != "IsQueryField" || fd.Recv != nil {
			continue
		}
		found = true
		ast.Inspect(fd.Body, func(n ast.Node) bool {
			cc, ok := n.(*ast.CaseClause)
			if !ok {
				return true
			}
			for _, e := range cc.List {
				if lit, ok := e.(*ast.BasicLit); ok && lit.Kind == token.STRING {
					if s, err := strconv.Unquote(lit.Value); err == nil {
						out = append(out, s)
					}
				}
			}
			return true
		})
	}
	if !found {
		return nil, fmt.Errorf("func IsQueryField not found in %s", path)
	}
	return out, nil
}

// queryFields = candidates from the source (and the Info param names) that the compiled predicate accepts.
func queryFields(repo string) ([]string, error) {
	cands, err := queryFieldCandidates(repo)
	if err != nil {
		return nil, err
	}
	schema, _ := infoSchema()
	seen := map[string]bool{}
	var out []string
	add := func(s string) {
		if !seen[s] && filter.IsQueryField(s) {
			out = append(out, s)
		}
		seen[s] = true
	}
	for _, c := range cands {
		add(c)
	}
	for _, f := range schema {
		add(f.Param)
	}
	add("")
	return out, nil
}

func init() {
	facts.Add("info_schema", func(w io.Writer, repo string) error {
		schema, ignored := infoSchema()
		fmt.Fprintln(w, "/-- `details.Info`: exported, non-ignored fields in declaration order as `(param name, kind)`;")
		fmt.Fprintln(w, "kind: 0 = int, 1 = bool, 2 = string, 3 = a Go kind the params/filter code does not support -/")
		fmt.Fprintln(w, "def infoSchema : List (List UInt8 × Nat) := [")
		for i, f := range schema {
			sep := ","
			if i == len(schema)-1 {
				sep = ""
			}
			fmt.Fprintf(w, "  (%s, %d)%s -- %s %q\n", facts.LeanBytes([]byte(f.Param)), f.Kind, sep, f.Go, f.Param)
		}
		fmt.Fprintln(w, "]")
		fmt.Fprintf(w, "def infoIgnored : List String := %s\n", facts.LeanStrList(ignored))
		qf, err := queryFields(repo)
		if err != nil {
			return err
		}
		fmt.Fprintln(w, "/-- the names `filter.IsQueryField` accepts -/")
		fmt.Fprintln(w, "def queryFields : List (List UInt8) := [")
		for i, f := range qf {
			sep := ","
			if i == len(qf)-1 {
				sep = ""
			}
			fmt.Fprintf(w, "  %s%s -- %q\n", facts.LeanBytes([]byte(f)), sep, f)
		}
		fmt.Fprintln(w, "]")
		ms := ""
		for i, m := range ds.Members() {
			if i > 0 {
				ms += ", "
			}
			ms += strconv.Itoa(int(m))
		}
		fmt.Fprintln(w, "/-- `ds.Members()`: the status bits that have a `servers:status:*` index set -/")
		fmt.Fprintf(w, "def statusMembers : List Nat := [%s]\n", ms)
		fmt.Fprintf(w, "def statusMaster : Nat := %d\ndef statusInfo : Nat := %d\n", int(ds.Master), int(ds.Info))
		return nil
	})
}
