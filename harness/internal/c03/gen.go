package c03

import (
	"fmt"
	"math/rand"
	"strconv"
	"strings"

	"github.com/sergeii/swat4master/pkg/gamespy/browsing/query/filter"
	"github.com/sergeii/swat4master/verifharness/internal/core"
)

// ---------------------------------------------------------------------------- value pools

var strPool = map[string][]string{
	"hostname":       {"Swat4 Server", "it's <b>", "a=b", "x and y", "[c=ff0000]Host", "'quoted'", "!", " and ", "H?st ??"},
	"gamevariant":    {"SWAT 4", "SWAT 4X", "SEF"},
	"gamever":        {"1.0", "1.1"},
	"gametype":       {"VIP Escort", "CO-OP", "Barricaded Suspects"},
	"mapname":        {"A-Bomb Nightclub", "Food Wall Restaurant", "-EXP- Stetchkov Warehouse", "Caf? Bar"},
	"tocreports":     {"", "24/28"},
	"weaponssecured": {"", "17/19"},
}

var intPool = map[string][]int64{
	"hostport":   {10480, 10580, 1, 65535},
	"numplayers": {0, 1, 5, 10, 16},
	"maxplayers": {0, 10, 16},
	"timeleft":   {-1, 0, 100, -900},
}

const (
	maxInt64 = int64(9223372036854775807)
	minInt64 = -maxInt64 - 1
)

func pick[T any](rng *rand.Rand, xs []T) T { return xs[rng.Intn(len(xs))] }

// randInfo draws the values of details.Info's schema fields (as raw Go values rendered to tokens).
// ascii=true keeps strings JSON-safe (they travel through the repository's JSON encoding).
func randInfo(rng *rand.Rand, ascii bool) (toks []string, byName map[string]string) {
	schema, _ := infoSchema()
	byName = map[string]string{}
	for _, f := range schema {
		var tok, raw string
		switch f.Kind {
		case kindInt:
			var n int64
			pool, ok := intPool[f.Param]
			switch {
			case rng.Intn(40) == 0:
				n = pick(rng, []int64{maxInt64, minInt64, -1, 1 << 40})
			case f.Param == "maxplayers" && rng.Intn(2) == 0 && byName["numplayers"] != "":
				n, _ = strconv.ParseInt(byName["numplayers"], 10, 64) // full servers
			case ok:
				n = pick(rng, pool)
			default:
				n = int64(rng.Intn(6))
			}
			tok = strconv.FormatInt(n, 10)
			raw = tok
		case kindBool:
			tok = strconv.Itoa(rng.Intn(2))
			raw = tok
		default:
			pool, ok := strPool[f.Param]
			switch {
			case !ascii && rng.Intn(12) == 0:
				raw = string(core.RandBytes(rng, rng.Intn(6)))
			case ok:
				raw = pick(rng, pool)
			default:
				raw = pick(rng, []string{"", "x", "1"})
			}
			tok = hexs(raw)
		}
		toks = append(toks, tok)
		byName[f.Param] = raw
	}
	return toks, byName
}

// ---------------------------------------------------------------------------- clauses

type clauseGen struct {
	text  string // what goes on the wire
	canon string // canonical clause token when well-formed
	wf    bool   // generator claims: whitelisted field, valid op, canonical in-range value, no " and" inside
	bad   bool   // generator claims: Parse fails on this text
}

var validOps = []struct{ raw, name string }{{"=", "eq"}, {"!=", "ne"}, {"<", "lt"}, {">", "gt"}}
var badOps = []string{"==", "<=", ">=", "=!", "<>", "!", "!==", "=<", "><", "=!="}

// whitelist: the known query-field names and every Info param name, filtered through the compiled predicate.
func whitelist() []string {
	cands := []string{"gamename", "hostname", "numplayers", "maxplayers", "gametype", "gamevariant", "mapname", "hostport", "password", "statsenabled", "gamever"}
	schema, _ := infoSchema()
	for _, f := range schema {
		cands = append(cands, f.Param)
	}
	seen := map[string]bool{}
	var out []string
	for _, c := range cands {
		if !seen[c] && filter.IsQueryField(c) {
			out = append(out, c)
		}
		seen[c] = true
	}
	return out
}

var wl = whitelist()

func inWhitelist(s string) bool {
	for _, w := range wl {
		if w == s {
			return true
		}
	}
	return false
}

type fieldChoice struct {
	name string
	ok   bool
}

func fieldChoices() []fieldChoice {
	var out []fieldChoice
	for _, w := range wl {
		out = append(out, fieldChoice{w, true})
	}
	out = append(out, fieldChoice{"round", inWhitelist("round")}, fieldChoice{"NumPlayers", false}, fieldChoice{"", false},
		fieldChoice{"foo", false}, fieldChoice{"version", inWhitelist("version")})
	return out
}

type valueChoice struct {
	text  string
	canon string // i<dec> | s<hex> | f<hex>; "" when not canonical
	wf    bool
	bad   bool
}

func intVal(n int64) valueChoice {
	t := strconv.FormatInt(n, 10)
	return valueChoice{text: t, canon: "i" + t, wf: true}
}

func strVal(s string) valueChoice {
	v := valueChoice{text: "'" + s + "'", canon: "s" + hexs(s)}
	switch {
	case s == "":
		v.bad = true
	case strings.Contains(s, " and"):
	default:
		v.wf = true
	}
	return v
}

// valueChoices: the value-kind axis of the table, specialised to an info record so that clauses often match.
func valueChoices(info map[string]string) []valueChoice {
	out := []valueChoice{
		intVal(0), intVal(1), intVal(-1), intVal(2), intVal(16), intVal(10480), intVal(maxInt64), intVal(minInt64),
		{text: "+1"}, {text: "007"}, {text: "-0"}, {text: "+0"}, {text: "+"}, {text: "-"},
		{text: "9223372036854775808", bad: true}, {text: "-9223372036854775809", bad: true}, {text: "99999999999999999999", bad: true},
		{text: "1.1", bad: true}, {text: "0x10", bad: true}, {text: "1_000", bad: true}, {text: " 5", bad: true}, {text: "5 ", bad: true}, {text: "1e3", bad: true},
		strVal(""), strVal("x"), strVal("1"), strVal("it's"), strVal("a=b"), strVal("<>"), strVal("'"), strVal("x and y"), strVal(" and "),
		{text: "'abc", bad: true}, {text: "abc'", bad: true}, {text: "'", bad: true}, {text: "abc", bad: true}, {text: "\"x\"", bad: true},
		{text: "round", bad: !inWhitelist("round")}, {text: "Password", bad: true},
	}
	for _, k := range []string{"numplayers", "maxplayers", "hostport", "timeleft"} {
		if v, ok := info[k]; ok {
			n, _ := strconv.ParseInt(v, 10, 64)
			out = append(out, intVal(n))
			if n < maxInt64 {
				out = append(out, intVal(n+1))
			}
		}
	}
	for _, k := range []string{"hostname", "gamevariant", "gamever", "gametype", "mapname"} {
		if v, ok := info[k]; ok {
			out = append(out, strVal(v))
		}
	}
	for _, w := range wl {
		out = append(out, valueChoice{text: w, canon: "f" + hexs(w), wf: true})
	}
	return out
}

func mkClause(f fieldChoice, opRaw, opName string, v valueChoice) clauseGen {
	c := clauseGen{text: f.name + opRaw + v.text}
	noAnd := !strings.Contains(c.text, " and")
	opOK := opName != ""
	if f.ok && opOK && v.wf && noAnd {
		c.wf = true
		c.canon = hexs(f.name) + "." + opName + "." + v.canon
	}
	if noAnd && (!f.ok || !opOK || v.bad) {
		c.bad = true
	}
	return c
}

func randClause(rng *rand.Rand, info map[string]string) clauseGen {
	fcs := fieldChoices()
	var f fieldChoice
	if rng.Intn(10) < 8 {
		f = fcs[rng.Intn(len(wl))]
	} else {
		f = pick(rng, fcs)
	}
	opRaw, opName := "", ""
	if rng.Intn(20) < 17 {
		o := pick(rng, validOps)
		opRaw, opName = o.raw, o.name
	} else {
		opRaw = pick(rng, badOps)
	}
	vcs := valueChoices(info)
	v := pick(rng, vcs)
	if rng.Intn(3) > 0 { // prefer a value of the field's own kind taken from the record
		if raw, ok := info[f.name]; ok {
			if _, isStr := strPool[f.name]; isStr || f.name == "hostname" {
				// a stored '?' may stand for a byte the reporter could not keep (values are stored as valid UTF-8): the operand
				// with such a byte in its place is a DIFFERENT string and must be compared as the bytes it is
				if strings.Contains(raw, "?") && rng.Intn(2) == 0 {
					raw = strings.ReplaceAll(raw, "?", pick(rng, []string{"\xe9", "\xff", "\xe8\xe9", "\xc3"}))
				}
				v = strVal(raw)
			} else if n, err := strconv.ParseInt(raw, 10, 64); err == nil {
				v = intVal(n)
			}
		}
	}
	return mkClause(f, opRaw, opName, v)
}

// query joins clauses; intent per the header comment of c03.go.
func joinClauses(cs []clauseGen) (text, intent string) {
	texts := make([]string, len(cs))
	canons := make([]string, len(cs))
	allWf, anyBad, allKnown := true, false, true
	for i, c := range cs {
		texts[i] = c.text
		canons[i] = c.canon
		allWf = allWf && c.wf
		anyBad = anyBad || c.bad
		allKnown = allKnown && (c.wf || c.bad)
	}
	text = strings.Join(texts, " and ")
	switch {
	case len(cs) > 0 && allWf:
		intent = "q:" + strings.Join(canons, ",")
	case anyBad && allKnown:
		intent = "bad"
	default:
		intent = "-"
	}
	return text, intent
}

func randQuery(rng *rand.Rand, info map[string]string) (text, intent string) {
	n := 1 + rng.Intn(4)
	cs := make([]clauseGen, n)
	for i := range cs {
		cs[i] = randClause(rng, info)
	}
	return joinClauses(cs)
}

// satClause: a well-formed clause that the given record satisfies (when the generator's reading of the
// semantics is right — nothing depends on that): own value with =, a neighbour with !=, <, >, or a
// field reference of the same kind.
func satClause(rng *rand.Rand, info map[string]string) clauseGen {
	for {
		f := pick(rng, wl)
		raw, ok := info[f]
		if !ok {
			continue
		}
		fc := fieldChoice{f, true}
		if _, isStr := strPool[f]; isStr {
			if rng.Intn(3) == 0 {
				return mkClause(fc, "!=", "ne", strVal(raw+"x"))
			}
			return mkClause(fc, "=", "eq", strVal(raw))
		}
		n, err := strconv.ParseInt(raw, 10, 64)
		if err != nil || n >= maxInt64 || n <= minInt64 {
			continue
		}
		switch rng.Intn(6) {
		case 0:
			return mkClause(fc, "!=", "ne", intVal(n+1))
		case 1:
			return mkClause(fc, "<", "lt", intVal(n+1))
		case 2:
			return mkClause(fc, ">", "gt", intVal(n-1))
		case 3:
			if f == "numplayers" && info["maxplayers"] == raw {
				return mkClause(fc, "=", "eq", valueChoice{text: "maxplayers", canon: "f" + hexs("maxplayers"), wf: true})
			}
			fallthrough
		default:
			return mkClause(fc, "=", "eq", intVal(n))
		}
	}
}

// wfQuery: 1..4 well-formed clauses (one time in twelve 5 … 40: nothing bounds the number of clauses of a filter; in a long
// one the clause that decides often sits near the end), half of the time all satisfied by the given record.
func wfQuery(rng *rand.Rand, info map[string]string) (text, intent string) {
	n := 1 + rng.Intn(4)
	if rng.Intn(12) == 0 {
		n = 5 + rng.Intn(36)
		// all but the last few satisfied: a reader that stops early lists the server
		var cs []clauseGen
		for len(cs) < n-1-rng.Intn(3) {
			cs = append(cs, satClause(rng, info))
		}
		for len(cs) < n {
			if c := randClause(rng, info); c.wf {
				cs = append(cs, c)
			}
		}
		return joinClauses(cs)
	}
	var cs []clauseGen
	allSat := rng.Intn(2) == 0
	for len(cs) < n {
		c := randClause(rng, info)
		if allSat || rng.Intn(2) == 0 {
			c = satClause(rng, info)
		}
		if c.wf {
			cs = append(cs, c)
		}
	}
	return joinClauses(cs)
}

var malformed = []string{
	"", " and ", "numplayers>0 and ", " and numplayers>0", "numplayers>0 and  and password=0", "numplayers>0 AND password=0",
	"numplayers>0 and", "numplayers>0  and  password=0", "numplayers>0 and password", "===", "numplayers", "numplayers=", "=5", "numplayers 5",
	"numplayers>0 and password=0 and ", "numplayers>0 and password=0 and  and ", "gamevariant='SWAT 4' and gamever='1.1'",
	"numplayers!=maxplayers and password=0 and gamever='1.1' and gamevariant='SWAT 4'", "hostname='x and y'", "hostname='a' and 'b'",
	"numplayers>0and password=0", "numplayers>0 andpassword=0", "numplayers=1=2", "numplayers=1 and numplayers=1=", "gamename='swat4'",
	"numplayers>\x000", "numplayers>0\x00", "\x00", "'", "''", "numplayers=''", "numplayers='", "hostname=''' and '''",
}

func randMalformed(rng *rand.Rand, info map[string]string) string {
	switch rng.Intn(5) {
	case 0:
		return pick(rng, malformed)
	case 1:
		return string(core.RandBytes(rng, rng.Intn(24)))
	case 2: // alphabet soup of the grammar's own bytes
		alpha := []string{"=", "!", "<", ">", " ", "and", " and ", "'", "numplayers", "password", "0", "1", "-", "+", "gamever", "x"}
		var sb strings.Builder
		for i := rng.Intn(10); i >= 0; i-- {
			sb.WriteString(pick(rng, alpha))
		}
		return sb.String()
	case 3: // truncation of a valid query
		t, _ := wfQuery(rng, info)
		return t[:rng.Intn(len(t)+1)]
	default: // one byte of a valid query replaced
		t, _ := wfQuery(rng, info)
		b := []byte(t)
		b[rng.Intn(len(b))] = pick(rng, []byte{' ', '=', '!', '\'', 'a', 0, 0xff, '<'})
		return string(b)
	}
}

// ---------------------------------------------------------------------------- registries

type regGen struct {
	nowK, livK int64
	required   int64
	servers    []string
	infos      []map[string]string
}

func randRegistry(rng *rand.Rand, required int64, maxServers int) regGen {
	r := regGen{required: required}
	r.nowK = int64(1<<20) + rng.Int63n(1<<36)
	switch rng.Intn(8) {
	case 0:
		r.livK = 0
	case 1:
		r.livK = 1
	case 2:
		r.livK = -int64(rng.Intn(1000))
	case 3:
		r.livK = rng.Int63n(1 << 33)
	default:
		r.livK = 703125000 // 180 s
	}
	n := rng.Intn(maxServers + 1)
	bound := r.nowK - r.livK
	for i := 0; i < n; i++ {
		status := rng.Int63n(512)
		switch rng.Intn(6) {
		case 0, 1, 2, 3:
			status |= required & 511
		case 4:
			if required != 0 { // drop one required bit
				for b := int64(1); b < 512; b <<= 1 {
					if required&b != 0 && rng.Intn(2) == 0 {
						status = (status | required&511) &^ b
						break
					}
				}
			}
		}
		var ref string
		switch rng.Intn(12) {
		case 0:
			ref = "z"
		case 1, 2:
			ref = strconv.FormatInt(bound-1, 10)
		case 3, 4, 5:
			ref = strconv.FormatInt(bound, 10)
		case 6, 7:
			ref = strconv.FormatInt(bound+1, 10)
		case 8:
			ref = strconv.FormatInt(bound-1-rng.Int63n(1<<30), 10)
		case 9:
			ref = strconv.FormatInt(bound+1+rng.Int63n(1<<20), 10)
		default:
			ref = strconv.FormatInt(r.nowK, 10)
		}
		toks, byName := randInfo(rng, true)
		addr := fmt.Sprintf("1.1.%d.%d:%d", 1+i/200, 1+i%200, 10480+i)
		r.servers = append(r.servers, addr+","+strconv.FormatInt(status, 10)+","+ref+","+strings.Join(toks, ","))
		r.infos = append(r.infos, byName)
	}
	return r
}

func (r regGen) someInfo(rng *rand.Rand) map[string]string {
	if len(r.infos) == 0 {
		_, m := randInfo(rng, true)
		return m
	}
	return pick(rng, r.infos)
}

// filterFor draws the filter string of a listing case.
func filterFor(rng *rand.Rand, info map[string]string, nulFree bool) (text, intent string) {
	switch x := rng.Intn(20); {
	case x < 9:
		text, intent = wfQuery(rng, info)
	case x < 11:
		text, intent = "", "-"
	case x < 15:
		text, intent = randMalformed(rng, info), "-"
	default:
		text, intent = randQuery(rng, info)
	}
	if nulFree && strings.ContainsRune(text, 0) {
		text, intent = strings.ReplaceAll(text, "\x00", "?"), "-"
	}
	return text, intent
}

// ---------------------------------------------------------------------------- gen

func gen(rng *rand.Rand, tier core.Tier, emit core.Emit) {
	nInfos, nRand, nMal, nList, nBlist, nRestRounds := 2, 1500, 1500, 400, 120, 1
	if tier == core.Thorough {
		nInfos, nRand, nMal, nList, nBlist, nRestRounds = 6, 12000, 12000, 2500, 600, 4
	}
	// (1) the table field × operator × value kind: parse once, match against nInfos records
	for k := 0; k < nInfos; k++ {
		toks, info := randInfo(rng, k%2 == 0)
		itok := strings.Join(toks, ",")
		for _, f := range fieldChoices() {
			ops := [][2]string{}
			for _, o := range validOps {
				ops = append(ops, [2]string{o.raw, o.name})
			}
			for _, o := range badOps[:4+rng.Intn(len(badOps)-3)][rng.Intn(3):] {
				ops = append(ops, [2]string{o, ""})
			}
			for _, o := range ops {
				for _, v := range valueChoices(info) {
					text, intent := joinClauses([]clauseGen{mkClause(f, o[0], o[1], v)})
					if k == 0 {
						emit("parse", hexs(text), intent)
					}
					emit("match", hexs(text), intent, itok)
				}
			}
		}
	}
	// (2) random 1..4-clause queries and malformed strings
	for i := 0; i < nRand; i++ {
		toks, info := randInfo(rng, i%3 != 0)
		text, intent := randQuery(rng, info)
		if i%2 == 0 {
			text, intent = wfQuery(rng, info)
		}
		emit("parse", hexs(text), intent)
		emit("match", hexs(text), intent, strings.Join(toks, ","))
	}
	for i := 0; i < nMal; i++ {
		toks, info := randInfo(rng, true)
		text := randMalformed(rng, info)
		emit("parse", hexs(text), "-")
		emit("match", hexs(text), "-", strings.Join(toks, ","))
	}
	for _, m := range malformed {
		emit("parse", hexs(m), "-")
	}
	// (3) listings through listservers.Execute over the real repository
	for i := 0; i < nList; i++ {
		required := pick(rng, []int64{2, 4, 2, 4, 0, 6, 1, rng.Int63n(512), rng.Int63n(512)})
		if rng.Intn(60) == 0 {
			required = pick(rng, []int64{512, 514, 1024})
		}
		r := randRegistry(rng, required, 10)
		text, intent := filterFor(rng, r.someInfo(rng), false)
		args := []string{strconv.FormatInt(r.nowK, 10), strconv.FormatInt(r.livK, 10), strconv.FormatInt(required, 10), hexs(text), intent}
		emit("list", append(args, r.servers...)...)
	}
	// (4) the browser handler over TCP (status = master by the code)
	for i := 0; i < nBlist; i++ {
		r := randRegistry(rng, 2, 8)
		text, intent := filterFor(rng, r.someInfo(rng), true)
		if len(text) > 1500 {
			text, intent = "", "-"
		}
		args := []string{strconv.FormatInt(r.nowK, 10), strconv.FormatInt(r.livK, 10), hexs(text), intent}
		emit("blist", append(args, r.servers...)...)
	}
	// (4b) through the browser again: an operand that has an invalid-UTF-8 byte where a stored value has '?' (stored values are
	// valid UTF-8, a byte the reporter could not keep became '?'): the operand is a different string — `=` must not list the
	// server, `!=` must.  A request parser that "cleans up" the filter text before parsing turns one into the other.
	for i := 0; i < 24; i++ {
		var r regGen
		var info map[string]string
		field := ""
		for try := 0; try < 200 && field == ""; try++ {
			r = randRegistry(rng, 2, 8)
			for _, in := range r.infos {
				for _, f := range []string{"mapname", "hostname"} {
					if strings.Contains(in[f], "?") {
						info, field = in, f
					}
				}
			}
		}
		if field == "" {
			continue
		}
		sib := strings.ReplaceAll(info[field], "?", pick(rng, []string{"\xe9", "\xff", "\xe8\xe9", "\xc3"}))
		op := validOps[i%len(validOps)]
		fc := fieldChoice{name: field, ok: true}
		for _, c := range fieldChoices() {
			if c.name == field {
				fc = c
			}
		}
		text, intent := joinClauses([]clauseGen{mkClause(fc, op.raw, op.name, strVal(sib))})
		args := []string{strconv.FormatInt(r.nowK, 10), strconv.FormatInt(r.livK, 10), hexs(text), intent}
		emit("blist", append(args, r.servers...)...)
	}
	// (5) GET /api/servers: all 64 presence combinations of the six flags, literal spellings drawn
	trueish := []string{"1", "true", "t", "T", "TRUE", "True"}
	falseish := []string{"0", "false", "f", "F", "FALSE", "False", ""}
	for round := 0; round < nRestRounds; round++ {
		for mask := 0; mask < 64; mask++ {
			r := randRegistry(rng, 4, 10)
			info := r.someInfo(rng)
			args := []string{strconv.FormatInt(r.nowK, 10), strconv.FormatInt(r.livK, 10)}
			for i, name := range []string{"gamevariant", "gamever", "gametype"} {
				switch {
				case mask&(1<<i) == 0:
					args = append(args, "~")
				case rng.Intn(8) == 0:
					args = append(args, hexs(pick(rng, []string{"", "it's", "a and b", "x", "'SWAT 4'"})))
				default:
					args = append(args, hexs(info[name]))
				}
			}
			for i := 3; i < 6; i++ {
				switch {
				case mask&(1<<i) == 0:
					args = append(args, "~")
				case rng.Intn(4) == 0:
					args = append(args, hexs(pick(rng, falseish)))
				case rng.Intn(25) == 0:
					args = append(args, hexs(pick(rng, []string{"yes", "2", "tRuE", " 1"})))
				default:
					args = append(args, hexs(pick(rng, trueish)))
				}
			}
			emit("rest", append(args, r.servers...)...)
		}
	}
}
