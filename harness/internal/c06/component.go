package c06

import (
	"context"
	"errors"
	"fmt"
	"net"
	"strconv"
	"strings"
	"time"

	"github.com/jonboulle/clockwork"
	"github.com/rs/zerolog"
	"go.uber.org/fx"

	browserc "github.com/sergeii/swat4master/cmd/swat4master/components/browser"
	"github.com/sergeii/swat4master/internal/core/usecases/listservers"
	"github.com/sergeii/swat4master/internal/metrics"
	"github.com/sergeii/swat4master/internal/settings"
	"github.com/sergeii/swat4master/verifharness/internal/core"
	"github.com/sergeii/swat4master/verifharness/internal/reputil"
)

const clientTimeout = 300 * time.Millisecond

// runComponentTCP <k> <payload|none|idle>: the same request as `tcp`, through the REAL browser component
// (cmd/swat4master/components/browser: its fx module builds the handler from the settings and runs pkg/tcp/tcpserver
// with the configured client timeout).  `idle`: the client connects and sends nothing, and keeps its side open — the
// server must hang up on it by itself when the client timeout has passed.
func runComponentTCP(args []string) []string {
	if len(args) != 2 {
		return []string{"bad-op"}
	}
	k, err := strconv.Atoi(args[0])
	if err != nil {
		return []string{"bad-op"}
	}
	var payload []byte
	if args[1] != "none" && args[1] != "idle" {
		payload = core.MustUnHex(args[1])
	}
	for try := 0; try < 10; try++ {
		out := runComponentTCPOnce(k, args[1], payload)
		if len(out) == 0 || !strings.HasPrefix(out[0], "infra") {
			return out
		}
		time.Sleep(100 * time.Millisecond)
	}
	return []string{"infra"}
}

func runComponentTCPOnce(k int, kind string, payload []byte) []string {
	w, release := reputil.FreshWorld()
	defer release()
	p := w.NewProc()
	for i := 0; i < k; i++ {
		hb := reputil.Heartbeat([]byte{0, 0, 0, byte(i + 1)}, []reputil.KV{
			{K: []byte("hostname"), V: []byte(fmt.Sprintf("Server %d", i))}, {K: []byte("hostport"), V: []byte("10480")},
			{K: []byte("localport"), V: []byte("10481")}, {K: []byte("gamever"), V: []byte("1.1")},
			{K: []byte("gamevariant"), V: []byte("SWAT 4")}, {K: []byte("gametype"), V: []byte("CO-OP")},
			{K: []byte("mapname"), V: []byte("Food Wall Restaurant")}, {K: []byte("numplayers"), V: []byte("1")},
			{K: []byte("maxplayers"), V: []byte("5")}}, []byte{0})
		if o := reputil.Send(p, net.IPv4(10, 0, 0, byte(i+1)).To4(), 5000, hb); !strings.HasPrefix(o, "reply:") {
			return []string{"setup-failed:" + o}
		}
	}
	before := reputil.JoinDump(w.Dump())
	l, err := net.ListenTCP("tcp4", &net.TCPAddr{IP: net.IPv4(127, 0, 0, 1)})
	if err != nil {
		return []string{"infra:port"}
	}
	port := l.Addr().(*net.TCPAddr).Port
	l.Close()
	app := fx.New(
		fx.NopLogger,
		fx.Supply(browserc.Config{ListenAddr: "127.0.0.1:" + strconv.Itoa(port), ClientTimeout: clientTimeout}),
		fx.Supply(settings.Settings{ServerLiveness: w.Opts.Liveness}),
		fx.Provide(
			func() *zerolog.Logger { return p.Logger },
			func() *metrics.Collector { return p.Metrics },
			func() clockwork.Clock { return w.Clock },
			func() listservers.UseCase { return p.UC.ListServers },
		),
		browserc.Module,
		fx.Invoke(func(*browserc.Component) {}),
	)
	if err := app.Err(); err != nil {
		return []string{"wiring-error:" + strings.ReplaceAll(err.Error(), " ", "_")}
	}
	ctx, cancel := context.WithTimeout(context.Background(), 10*time.Second)
	defer cancel()
	if err := app.Start(ctx); err != nil {
		return []string{"infra:start"}
	}
	defer func() { _ = app.Stop(context.Background()) }()
	client, err := net.DialTCP("tcp4", nil, &net.TCPAddr{IP: net.IPv4(127, 0, 0, 1), Port: port})
	if err != nil {
		return []string{"infra:dial"}
	}
	defer client.Close()
	started := time.Now()
	switch {
	case len(payload) > 0:
		if _, err := client.Write(payload); err != nil {
			return []string{"infra:write"}
		}
	case kind == "none":
		_ = client.CloseWrite()
	}
	// (idle: nothing is sent, nothing is closed)
	_ = client.SetReadDeadline(time.Now().Add(clientTimeout + 3*time.Second))
	var reply []byte
	buf := make([]byte, 65536)
	timedOut := false
	for {
		n, err := client.Read(buf)
		if n > 0 {
			reply = append(reply, buf[:n]...)
		}
		if err != nil {
			var ne net.Error
			if errors.As(err, &ne) && ne.Timeout() {
				timedOut = true
			}
			break
		}
	}
	_ = started
	after := reputil.JoinDump(w.Dump())
	state := "same"
	if before != after {
		state = "changed"
	}
	switch {
	case timedOut:
		return []string{"not-closed", state}
	case len(reply) == 0:
		return []string{"closed", state}
	default:
		return []string{fmt.Sprintf("reply:%d", len(reply)), state}
	}
}
