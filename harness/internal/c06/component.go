package c06

import (
	"context"
	"math/rand"
	"syscall"
	"errors"
	"fmt"
	"net"
	"strconv"
	"strings"
	"time"

	"github.com/jonboulle/clockwork"
	"github.com/rs/zerolog"
	"go.uber.org/fx"

	apic "github.com/sergeii/swat4master/cmd/swat4master/components/api"
	browserc "github.com/sergeii/swat4master/cmd/swat4master/components/browser"
	"github.com/sergeii/swat4master/cmd/swat4master/container"
	"github.com/sergeii/swat4master/internal/core/entities/details"
	ds "github.com/sergeii/swat4master/internal/core/entities/discovery/status"
	"github.com/sergeii/swat4master/internal/core/entities/server"
	"github.com/sergeii/swat4master/internal/core/usecases/listservers"
	"github.com/sergeii/swat4master/internal/metrics"
	"github.com/sergeii/swat4master/internal/settings"
	"github.com/sergeii/swat4master/verifharness/internal/core"
	"github.com/sergeii/swat4master/verifharness/internal/reputil"
)

const clientTimeout = 300 * time.Millisecond

// runComponentTCP <k> <payload|none|idle>: the same request as `tcp`, through the REAL browser component
// (cmd/swat4master/components/browser: its fx module builds the handler from the settings and runs pkg/tcp/tcpserver
// with the configured client timeout).  `idle`: the client connects and sends nothing, and keeps its side open — the
// server must hang up on it by itself when the client timeout has passed.
func runComponentTCP(args []string) []string {
	if len(args) != 2 {
		return []string{"bad-op"}
	}
	k, err := strconv.Atoi(args[0])
	if err != nil {
		return []string{"bad-op"}
	}
	var payload []byte
	if args[1] != "none" && args[1] != "idle" && args[1] != "idle0" {
		payload = core.MustUnHex(args[1])
	}
	for try := 0; try < 10; try++ {
		out := runComponentTCPOnce(k, args[1], payload)
		if len(out) == 0 || !strings.HasPrefix(out[0], "infra") {
			return out
		}
		time.Sleep(100 * time.Millisecond)
	}
	return []string{"infra"}
}

func runComponentTCPOnce(k int, kind string, payload []byte) []string {
	w, release := reputil.FreshWorld()
	defer release()
	p := w.NewProc()
	for i := 0; i < k; i++ {
		hb := reputil.Heartbeat([]byte{0, 0, 0, byte(i + 1)}, []reputil.KV{
			{K: []byte("hostname"), V: []byte(fmt.Sprintf("Server %d", i))}, {K: []byte("hostport"), V: []byte("10480")},
			{K: []byte("localport"), V: []byte("10481")}, {K: []byte("gamever"), V: []byte("1.1")},
			{K: []byte("gamevariant"), V: []byte("SWAT 4")}, {K: []byte("gametype"), V: []byte("CO-OP")},
			{K: []byte("mapname"), V: []byte("Food Wall Restaurant")}, {K: []byte("numplayers"), V: []byte("1")},
			{K: []byte("maxplayers"), V: []byte("5")}}, []byte{0})
		if o := reputil.Send(p, net.IPv4(10, 0, 0, byte(i+1)).To4(), 5000, hb); !strings.HasPrefix(o, "reply:") {
			return []string{"setup-failed:" + o}
		}
	}
	before := reputil.JoinDump(w.Dump())
	// `idle0`: an idle client of a browser configured with a client timeout of 0 (a legal duration): the deadline the
	// TCP server arms has passed at once, the connection is closed without a reply — it is not kept for ever
	timeout := clientTimeout
	if kind == "idle0" {
		timeout = 0
	}
	l, err := net.ListenTCP("tcp4", &net.TCPAddr{IP: net.IPv4(127, 0, 0, 1)})
	if err != nil {
		return []string{"infra:port"}
	}
	port := l.Addr().(*net.TCPAddr).Port
	l.Close()
	app := fx.New(
		fx.NopLogger,
		fx.Supply(browserc.Config{ListenAddr: "127.0.0.1:" + strconv.Itoa(port), ClientTimeout: timeout}),
		fx.Supply(settings.Settings{ServerLiveness: w.Opts.Liveness}),
		fx.Provide(
			func() *zerolog.Logger { return p.Logger },
			func() *metrics.Collector { return p.Metrics },
			func() clockwork.Clock { return w.Clock },
			func() listservers.UseCase { return p.UC.ListServers },
		),
		browserc.Module,
		fx.Invoke(func(*browserc.Component) {}),
	)
	if err := app.Err(); err != nil {
		return []string{"wiring-error:" + strings.ReplaceAll(err.Error(), " ", "_")}
	}
	ctx, cancel := context.WithTimeout(context.Background(), 10*time.Second)
	startErr := app.Start(ctx)
	cancel() // the start context ends when the start is over, as under fx.App.Run: nothing may go on living off it
	if err := startErr; err != nil {
		return []string{"infra:start"}
	}
	defer func() { _ = app.Stop(context.Background()) }()
	client, err := net.DialTCP("tcp4", nil, &net.TCPAddr{IP: net.IPv4(127, 0, 0, 1), Port: port})
	if err != nil {
		return []string{"infra:dial"}
	}
	defer client.Close()
	started := time.Now()
	switch {
	case len(payload) > 0:
		if _, err := client.Write(payload); err != nil {
			return []string{"infra:write"}
		}
	case kind == "none":
		_ = client.CloseWrite()
	}
	// (idle: nothing is sent, nothing is closed)
	_ = client.SetReadDeadline(time.Now().Add(clientTimeout + 3*time.Second))
	var reply []byte
	buf := make([]byte, 65536)
	timedOut := false
	for {
		n, err := client.Read(buf)
		if n > 0 {
			reply = append(reply, buf[:n]...)
		}
		if err != nil {
			var ne net.Error
			if errors.As(err, &ne) && ne.Timeout() {
				timedOut = true
			}
			break
		}
	}
	_ = started
	after := reputil.JoinDump(w.Dump())
	state := "same"
	if before != after {
		state = "changed"
	}
	switch {
	case timedOut:
		return []string{"not-closed", state}
	case len(reply) == 0:
		return []string{"closed", state}
	default:
		return []string{fmt.Sprintf("reply:%d", len(reply)), state}
	}
}

// runStall <servers> <hostname bytes>: a client that asks for a very long list and then does not read.  The real browser
// component must not wait for it beyond the client timeout: the TCP server arms one deadline per accepted connection,
// and the reply write has to give up when it passes (the handler goroutine, the packed reply and the descriptor are
// released).  A first client reads normally (F = size of the whole reply); a second one, with a small receive buffer,
// sends the same request, sleeps well past the client timeout and only then reads what it can get (S bytes).  S = F
// means the server kept writing for as long as the peer stalled.  Output: `stall:<S>:<F>`.
// stallTimeout: the client timeout of the stall cases: long enough to list, pack, encrypt and copy the whole reply over loopback
const stallTimeout = 2 * time.Second

func runStall(args []string) []string { return retryInfra(func() []string { return runStallOnce(args) }) }

func runStallOnce(args []string) []string {
	if len(args) != 2 {
		return []string{"bad-op"}
	}
	n, err1 := strconv.Atoi(args[0])
	hl, err2 := strconv.Atoi(args[1])
	if err1 != nil || err2 != nil || n < 1 || hl < 1 {
		return []string{"bad-op"}
	}
	w, release := reputil.FreshWorld()
	defer release()
	p := w.NewProc()
	ctx := context.Background()
	host := strings.Repeat("H", hl)
	for i := 0; i < n; i++ {
		svr := server.MustNew(net.IPv4(10, 1, byte(i/256), byte(i%256)), 10480, 10481)
		svr.UpdateInfo(details.MustNewInfoFromParams(map[string]string{"hostname": host, "hostport": "10480", "gamevariant": "SWAT 4", "gamever": "1.1",
			"gametype": "CO-OP", "mapname": "M"}))
		svr.Refresh(w.Clock.Now())
		svr.UpdateDiscoveryStatus(ds.Master | ds.Info)
		if _, err := p.Repos.Servers.Add(ctx, svr, func(*server.Server) bool { return false }); err != nil {
			return []string{"setup-failed"}
		}
	}
	l, err := net.ListenTCP("tcp4", &net.TCPAddr{IP: net.IPv4(127, 0, 0, 1)})
	if err != nil {
		return []string{"infra:port"}
	}
	port := l.Addr().(*net.TCPAddr).Port
	l.Close()
	app := fx.New(
		fx.NopLogger,
		fx.Supply(browserc.Config{ListenAddr: "127.0.0.1:" + strconv.Itoa(port), ClientTimeout: stallTimeout}),
		fx.Supply(settings.Settings{ServerLiveness: w.Opts.Liveness}),
		fx.Provide(
			func() *zerolog.Logger { return p.Logger },
			func() *metrics.Collector { return p.Metrics },
			func() clockwork.Clock { return w.Clock },
			func() listservers.UseCase { return p.UC.ListServers },
		),
		browserc.Module,
		fx.Invoke(func(*browserc.Component) {}),
	)
	if err := app.Err(); err != nil {
		return []string{"wiring-error:" + strings.ReplaceAll(err.Error(), " ", "_")}
	}
	sctx, cancel := context.WithTimeout(ctx, 10*time.Second)
	startErr := app.Start(sctx)
	cancel() // the start context ends when the start is over, as under fx.App.Run
	if startErr != nil {
		return []string{"infra:start"}
	}
	defer func() { _ = app.Stop(context.Background()) }()
	fields := make([]string, 20)
	for i := range fields {
		fields[i] = "hostname"
	}
	req := BrowserRequest(rand.New(rand.NewSource(1)), "", fields, []byte{0, 0, 0, 0})
	target := fmt.Sprintf("127.0.0.1:%d", port)
	readAll := func(c net.Conn, limit time.Duration) int {
		total := 0
		buf := make([]byte, 1<<20)
		_ = c.SetReadDeadline(time.Now().Add(limit))
		for {
			k, err := c.Read(buf)
			total += k
			if err != nil {
				return total
			}
		}
	}
	// 1. a client that reads at once: the whole reply.  (The server's single deadline also bounds this transfer: the
	// client timeout is generous enough for a loopback copy.)
	c1, err := net.DialTimeout("tcp4", target, 2*time.Second)
	if err != nil {
		return []string{"infra:dial"}
	}
	if _, err := c1.Write(req); err != nil {
		return []string{"infra:write"}
	}
	full := readAll(c1, 10*time.Second)
	c1.Close()
	// 2. a client with a small receive buffer that stalls
	d := net.Dialer{Timeout: 2 * time.Second, Control: func(_, _ string, rc syscall.RawConn) error {
		return rc.Control(func(fd uintptr) { _ = syscall.SetsockoptInt(int(fd), syscall.SOL_SOCKET, syscall.SO_RCVBUF, 65536) })
	}}
	c2, err := d.Dial("tcp4", target)
	if err != nil {
		return []string{"infra:dial"}
	}
	defer c2.Close()
	if _, err := c2.Write(req); err != nil {
		return []string{"infra:write"}
	}
	time.Sleep(stallTimeout + 1200*time.Millisecond)
	got := readAll(c2, 5*time.Second)
	return []string{fmt.Sprintf("stall:%d:%d", got, full)}
}

// runStallHTTP <servers> <hostname bytes>: the same for the REST port, through the REAL API component
// (cmd/swat4master/components/api: gin router + pkg/http/httpserver with the configured read / write timeouts):
// `GET /api/servers` with a body far larger than the socket buffers, to a client that reads (F bytes) and to one that
// stalls past the write timeout (S bytes).  Output: `stall:<S>:<F>`.
func runStallHTTP(args []string) []string { return retryInfra(func() []string { return runStallHTTPOnce(args) }) }

func runStallHTTPOnce(args []string) []string {
	if len(args) != 2 {
		return []string{"bad-op"}
	}
	n, err1 := strconv.Atoi(args[0])
	hl, err2 := strconv.Atoi(args[1])
	if err1 != nil || err2 != nil || n < 1 || hl < 1 {
		return []string{"bad-op"}
	}
	w, release := reputil.FreshWorld()
	defer release()
	p := w.NewProc()
	ctx := context.Background()
	host := strings.Repeat("H", hl)
	for i := 0; i < n; i++ {
		svr := server.MustNew(net.IPv4(10, 1, byte(i/256), byte(i%256)), 10480, 10481)
		svr.UpdateInfo(details.MustNewInfoFromParams(map[string]string{"hostname": host, "hostport": "10480", "gamevariant": "SWAT 4", "gamever": "1.1",
			"gametype": "CO-OP", "mapname": "M"}))
		svr.Refresh(w.Clock.Now())
		svr.UpdateDiscoveryStatus(ds.Master | ds.Info)
		if _, err := p.Repos.Servers.Add(ctx, svr, func(*server.Server) bool { return false }); err != nil {
			return []string{"setup-failed"}
		}
	}
	l, err := net.ListenTCP("tcp4", &net.TCPAddr{IP: net.IPv4(127, 0, 0, 1)})
	if err != nil {
		return []string{"infra:port"}
	}
	port := l.Addr().(*net.TCPAddr).Port
	l.Close()
	const writeTimeout = 2 * time.Second
	app := fx.New(
		fx.NopLogger,
		fx.Supply(apic.Config{HTTPListenAddr: "127.0.0.1:" + strconv.Itoa(port), HTTPReadTimeout: 2 * time.Second, HTTPWriteTimeout: writeTimeout, HTTPShutdownTimeout: time.Second}),
		fx.Supply(settings.Settings{ServerLiveness: w.Opts.Liveness}),
		fx.Provide(
			func() *zerolog.Logger { return p.Logger },
			func() container.Container { return p.UC },
		),
		apic.Module,
		fx.Invoke(func(*apic.Component) {}),
	)
	if err := app.Err(); err != nil {
		return []string{"wiring-error:" + strings.ReplaceAll(err.Error(), " ", "_")}
	}
	sctx, cancel := context.WithTimeout(ctx, 10*time.Second)
	startErr := app.Start(sctx)
	cancel() // the start context ends when the start is over, as under fx.App.Run
	if startErr != nil {
		return []string{"infra:start"}
	}
	defer func() { _ = app.Stop(context.Background()) }()
	req := []byte("GET /api/servers HTTP/1.1\r\nHost: verif\r\nConnection: close\r\n\r\n")
	target := fmt.Sprintf("127.0.0.1:%d", port)
	readAll := func(c net.Conn, limit time.Duration) int {
		total := 0
		buf := make([]byte, 1<<20)
		_ = c.SetReadDeadline(time.Now().Add(limit))
		for {
			k, err := c.Read(buf)
			total += k
			if err != nil {
				return total
			}
		}
	}
	c1, err := net.DialTimeout("tcp4", target, 2*time.Second)
	if err != nil {
		return []string{"infra:dial"}
	}
	if _, err := c1.Write(req); err != nil {
		return []string{"infra:write"}
	}
	full := readAll(c1, 10*time.Second)
	c1.Close()
	d := net.Dialer{Timeout: 2 * time.Second, Control: func(_, _ string, rc syscall.RawConn) error {
		return rc.Control(func(fd uintptr) { _ = syscall.SetsockoptInt(int(fd), syscall.SOL_SOCKET, syscall.SO_RCVBUF, 65536) })
	}}
	c2, err := d.Dial("tcp4", target)
	if err != nil {
		return []string{"infra:dial"}
	}
	defer c2.Close()
	if _, err := c2.Write(req); err != nil {
		return []string{"infra:write"}
	}
	time.Sleep(writeTimeout + 1200*time.Millisecond)
	got := readAll(c2, 5*time.Second)
	return []string{fmt.Sprintf("stall:%d:%d", got, full)}
}

// retryInfra: a case whose set-up failed for a reason of the machine (the port picked by listen-and-close was taken again
// before the component bound it, a dial refused under load) is run again from scratch, a few times
func retryInfra(f func() []string) []string {
	var out []string
	for try := 0; try < 6; try++ {
		out = f()
		if len(out) == 0 || !strings.HasPrefix(out[0], "infra") {
			return out
		}
		time.Sleep(150 * time.Millisecond)
	}
	return out
}
