// Package c06: arbitrary bytes against the reporter dispatcher (UDP half, in-process and through the real
// udpserver) and against the browser handler over real loopback TCP connections (TCP half).
//
//	hist <ops>                 as C04/C05: whole histories; here mostly malformed datagrams between valid ones
//	tcp <k> <payloadhex|none>  k servers registered first (valid heartbeats from 10.0.0.1..k); one real TCP
//	                           connection handed to browser.Handler.Handle; "none" = connect and close
//	                           => <reply:<len> | closed | panic:<text>> <same|changed>
//	udpsrv <payloadhex>/...    MEASUREMENT: the datagrams are sent to the real udpserver on 127.0.0.1 (reporter
//	                           dispatcher as handler); after each one an `available` request must be answered
//	                           => <alive|dead> per datagram, then replies:<n> (replies to the malformed datagrams),
//	                           src=<client port> per=<w1>/<w2>/… (w: the replies received in that datagram's window,
//	                           hex joined by "+", "-" for none; the availability answer itself is not listed)
package c06

import (
	"bytes"
	"errors"
	"context"
	"fmt"
	"math/rand"
	"net"
	"strconv"
	"strings"
	"sync"
	"time"

	"github.com/sergeii/swat4master/pkg/gamespy/crypt"
	"github.com/sergeii/swat4master/pkg/udp/udpserver"
	"github.com/sergeii/swat4master/verifharness/internal/core"
	"github.com/sergeii/swat4master/verifharness/internal/reputil"
)

func init() {
	core.Register(&core.Prop{ID: "C06", Gen: gen, Exec: exec})
}

// ---------------------------------------------------------------------------------------------- generators

var queryFields = []string{"gamename", "hostname", "numplayers", "maxplayers", "gametype", "gamevariant", "mapname", "hostport", "password", "statsenabled", "gamever"}

// BrowserRequest builds a valid browser request: len16 | 7 bytes | game 00 game 00 | challenge8 | filters 00 | \f1\f2 00 | opts4
func BrowserRequest(rng *rand.Rand, filters string, fields []string, opts []byte) []byte {
	body := []byte{0x00, 0x01, 0x03, 0x00, 0x00, 0x00, 0x00}
	game := []string{"swat4", "swat4xp1", ""}[rng.Intn(3)]
	body = append(body, game...)
	body = append(body, 0)
	body = append(body, game...)
	body = append(body, 0)
	ch := core.RandBytes(rng, 8)
	body = append(body, ch...)
	body = append(body, filters...)
	body = append(body, 0)
	for _, f := range fields {
		body = append(body, '\\')
		body = append(body, f...)
	}
	body = append(body, 0)
	body = append(body, opts...)
	n := len(body) + 2
	return append([]byte{byte(n >> 8), byte(n)}, body...)
}

func randFields(rng *rand.Rand) []string {
	n := 1 + rng.Intn(6)
	switch rng.Intn(8) {
	case 0:
		n = 0
	case 1:
		n = 19 + rng.Intn(4) // around the cap of 20
	}
	var fs []string
	for i := 0; i < n; i++ {
		fs = append(fs, queryFields[rng.Intn(len(queryFields))])
	}
	// unknown names are filtered out before the cap applies
	for i := rng.Intn(3); i > 0; i-- {
		j := rng.Intn(len(fs) + 1)
		fs = append(fs[:j], append([]string{[]string{"bogus", "", "HOSTNAME", "round"}[rng.Intn(4)]}, fs[j:]...)...)
	}
	return fs
}

var filterTexts = []string{"", "gametype='CO-OP'", "numplayers!=maxplayers and password=0", "gamever='1.1' and gamevariant='SWAT 4'", "''", "x", "hostport>1 and ", "numplayers<"}

// nastyFilter: a filter string of the GameSpy shape whose values sit on the edges of the value parser
// (lone quotes, empty quotes, quotes inside, signs without digits, operators without operands, long runs)
func nastyFilter(rng *rand.Rand) string {
	q := "'"
	vals := []string{q, q + q, q + q + q, q + "a", "a" + q, q + "a" + q + "b" + q, "", "0", "+", "-", "+1", "-0", "99999999999999999999", q, "hostname", q + " and " + q, "=", "!", "<>",
		// bytes that are not UTF-8, and runes whose case mapping changes their encoded width (a parser that folds case must not index with the folded text)
		q + "\xc9\xc9\xc9\xc9\xc9\xc9\xc9\xc9" + q, "\xff\xff\xff\xff", q + "\xe9t\xe9" + q, q + "\u0130\u0130\u0130\u0130" + q, q + "\u212a\u212a\u212a" + q,
		q + "\u1e9e\u023a\u023e" + q, q + "Smash And Grab" + q, q + "A AND B" + q, "\xc3", "\xe2\x82"}
	ops := []string{"=", "!=", "<", ">", "==", "=!", "", "<=", " = "}
	n := 1 + rng.Intn(3)
	parts := make([]string, n)
	for i := range parts {
		f := queryFields[rng.Intn(len(queryFields))]
		if rng.Intn(8) == 0 {
			f = []string{"", "nosuchfield", "host name"}[rng.Intn(3)]
		}
		parts[i] = f + ops[rng.Intn(len(ops))] + vals[rng.Intn(len(vals))]
	}
	sep := " and "
	if rng.Intn(6) == 0 {
		sep = []string{" and", "and ", " AND ", "  and  "}[rng.Intn(4)]
	}
	return strings.Join(parts, sep)
}

func validRequest(rng *rand.Rand) []byte {
	filters := filterTexts[rng.Intn(len(filterTexts))]
	if rng.Intn(2) == 0 {
		filters = nastyFilter(rng)
	}
	return BrowserRequest(rng, filters, randFields(rng), []byte{0, 0, 0, byte(rng.Intn(2))})
}

func mutateTCP(rng *rand.Rand, emit func([]byte)) {
	b := validRequest(rng)
	switch rng.Intn(9) {
	case 0: // length-prefix lies
		d := []int{1, -1, 256, -256}[rng.Intn(4)]
		n := (int(b[0])<<8 | int(b[1])) + d
		if rng.Intn(4) == 0 {
			n = []int{0, 65535, 25, 26, 9, 8, 2}[rng.Intn(7)]
		}
		b[0], b[1] = byte(n>>8), byte(n)
		emit(b)
	case 1: // truncation at a random offset (every offset: see truncations)
		emit(b[:rng.Intn(len(b)+1)])
	case 2: // NULs removed (missing terminators)
		i := 9 + rng.Intn(len(b)-9)
		for i < len(b) && b[i] != 0 {
			i++
		}
		if i < len(b) {
			b = append(b[:i], b[i+1:]...)
		}
		emit(b)
	case 3: // options mask
		opts := [][]byte{{0, 0, 0, 2}, {1, 0, 0, 0}, {0, 0, 0}, {0, 0, 0, 0, 0}, {}, {0xff, 0xff, 0xff, 0xff}}[rng.Intn(6)]
		emit(BrowserRequest(rng, "", randFields(rng), opts))
	case 4: // random byte flipped
		b[rng.Intn(len(b))] = byte(rng.Intn(256))
		emit(b)
	case 5: // oversize: fields repeated up to ~2 KiB and beyond the read buffer
		var fs []string
		for i := 0; i < 150+rng.Intn(150); i++ {
			fs = append(fs, []string{"bogus", "x", "hostname"}[rng.Intn(3)])
		}
		emit(BrowserRequest(rng, "", fs, []byte{0, 0, 0, 0}))
	case 6: // trailing garbage with and without a matching length prefix
		b = append(b, core.RandBytes(rng, 1+rng.Intn(8))...)
		if rng.Intn(2) == 0 {
			b[0], b[1] = byte(len(b)>>8), byte(len(b))
		}
		emit(b)
	case 7: // field list without the leading backslash / empty field list
		i := strings.LastIndex(string(b[:len(b)-5]), "\x00")
		if i > 0 && i+1 < len(b) {
			b[i+1] = 'h'
		}
		emit(b)
	default:
		emit(b)
	}
}

func validHeartbeat(rng *rand.Rand) []byte {
	return reputil.RandomReport(rng, []byte{0xde, 0xad, 0xbe, 0xef}, "10480", "10481", 0).Payload(rng)
}

func gen(rng *rand.Rand, tier core.Tier, emit core.Emit) {
	n := 120
	if tier == core.Thorough {
		n = 1200
	}
	// --- UDP, in-process: histories where malformed datagrams hit a populated registry
	for i := 0; i < n; i++ {
		ips := reputil.PickIPs(rng, 1+rng.Intn(3), rng.Intn(10) == 0)
		emit("hist", reputil.History(rng, 1+rng.Intn(30), ips, 40, 60)...)
	}
	// every message type byte 00..FF with a valid heartbeat body, a random body, and alone
	for t := 0; t < 256; t++ {
		hb := validHeartbeat(rng)
		hb[0] = byte(t)
		pre := reputil.Dg("10.0.0.7", 4000, validHeartbeat(rng))
		ops := [][]string{pre,
			reputil.Dg("10.0.0.7", 4001, hb),
			reputil.Dg("10.0.0.7", 4002, append([]byte{byte(t)}, core.RandBytes(rng, rng.Intn(30))...)),
			reputil.Dg("10.0.0.7", 4003, []byte{byte(t)}),
			reputil.Dg("10.0.0.7", 4004, []byte{byte(t), 0xde, 0xad, 0xbe, 0xef})}
		emit("hist", reputil.JoinOps(ops)...)
	}
	// truncation of valid heartbeats at EVERY offset (after a registration, so that a truncated datagram that
	// still scans shows up as a state change)
	trunc := 2
	if tier == core.Thorough {
		trunc = 12
	}
	for i := 0; i < trunc; i++ {
		hb := validHeartbeat(rng)
		if i%2 == 1 {
			r := reputil.RandomReport(rng, []byte{0xde, 0xad, 0xbe, 0xef}, "10480", "10481", 0)
			r.State = "2"
			hb = r.Payload(rng)
		}
		ops := [][]string{reputil.Dg("10.0.0.7", 4000, validHeartbeat(rng))}
		for cut := 1; cut <= len(hb); cut++ {
			ops = append(ops, reputil.Dg("10.0.0.7", 4000, hb[:cut]))
			if len(ops) >= 60 {
				emit("hist", reputil.JoinOps(ops)...)
				ops = [][]string{reputil.Dg("10.0.0.7", 4000, validHeartbeat(rng))}
			}
		}
		emit("hist", reputil.JoinOps(ops)...)
	}
	// random bytes 1..2048
	for i := 0; i < n; i++ {
		var ops [][]string
		for j := 0; j < 1+rng.Intn(6); j++ {
			ln := 1 + rng.Intn(80)
			if rng.Intn(5) == 0 {
				ln = 1 + rng.Intn(2048)
			}
			ops = append(ops, reputil.Dg(reputil.GoodIPs[rng.Intn(len(reputil.GoodIPs))], reputil.SrcPort(rng), core.RandBytes(rng, ln)))
		}
		emit("hist", reputil.JoinOps(ops)...)
	}
	// --- TCP: real loopback connections to browser.Handler.Handle
	nt := 150
	if tier == core.Thorough {
		nt = 900
	}
	emit("tcp", "0", "none")
	emit("tcp", "2", "none")
	// valid requests from an IPv4 peer seen as IPv4-mapped, and from an IPv6 peer, with and without servers to pack
	for _, op := range []string{"tcpm", "tcp6"} {
		for _, k := range []string{"0", "1", "3"} {
			emit(op, k, core.Hex(BrowserRequest(rng, "", []string{"hostname", "gametype"}, []byte{0, 0, 0, 0})))
			emit(op, k, core.Hex(BrowserRequest(rng, "gametype='CO-OP'", []string{"hostname", "numplayers", "bogus"}, []byte{0, 0, 0, 1})))
		}
	}
	// a reply far larger than the socket buffers to a client that does not read
	emit("cstall", "300", "4000")
	emit("cstallhttp", "1500", "4000")
	// the real browser component: valid, malformed and silent clients
	for _, k := range []string{"0", "2"} {
		emit("ctcp", k, "none")
		emit("ctcp", k, "idle")
		emit("ctcp", k, "idle0")
		emit("ctcp", k, core.Hex(BrowserRequest(rng, "", []string{"hostname", "gametype"}, []byte{0, 0, 0, 0})))
		emit("ctcp", k, core.Hex(BrowserRequest(rng, "gametype='CO-OP' and numplayers>0", []string{"hostname", "numplayers", "bogus"}, []byte{0, 0, 0, 1})))
	}
	for i := 0; i < 6*(1+9*map[bool]int{true: 1}[tier == core.Thorough]); i++ {
		if rng.Intn(2) == 0 {
			emit("ctcp", "1", core.Hex(validRequest(rng)))
		} else {
			mutateTCP(rng, func(b []byte) { emit("ctcp", "1", core.Hex(b)) })
		}
	}
	// the cipher under the concurrency of the connection goroutines
	if tier == core.Thorough {
		emit("encpar", "64", "400000")
	} else {
		emit("encpar", "64", "60000")
	}
	for i := 0; i < nt; i++ {
		k := fmt.Sprint([]int{0, 0, 1, 3}[rng.Intn(4)])
		switch rng.Intn(6) {
		case 0:
			ln := rng.Intn(64)
			if rng.Intn(4) == 0 {
				ln = rng.Intn(2049)
			}
			emit("tcp", k, core.Hex(core.RandBytes(rng, ln)))
		case 1: // plausible length prefix + random body
			ln := 26 + rng.Intn(60)
			b := append([]byte{byte(ln >> 8), byte(ln)}, core.RandBytes(rng, ln-2)...)
			emit("tcp", k, core.Hex(b))
		case 2:
			emit([]string{"tcp", "tcpm", "tcp6"}[rng.Intn(3)], k, core.Hex(validRequest(rng)))
		default:
			mutateTCP(rng, func(b []byte) { emit("tcp", k, core.Hex(b)) })
		}
	}
	// well-framed requests whose FILTER is hostile: a clause separator preceded by bytes that are not UTF-8 or whose case
	// mapping changes their encoded width, followed by a short tail (a scanner that folds case must not index with the folded text)
	for _, v := range []string{"\xc9\xc9\xc9\xc9\xc9\xc9\xc9\xc9", "\xff\xff\xff\xff", "\xe9t\xe9 \xe0 la carte", "\u0130\u0130\u0130\u0130\u0130\u0130", "\u212a\u212a\u212a\u212a",
		"\u1e9e\u023a\u023e\u023a\u023e", "Smash And Grab", "\xc3\xc3\xc3\xc3\xc3\xc3 AND \xc3", "\xe2\x82\xe2\x82\xe2\x82"} {
		for _, tail := range []string{"password=0", "a=1", "", "gamever='1.1'"} {
			for _, sep := range []string{" and ", " AND ", " And "} {
				for _, quoted := range []bool{true, false} {
					val := v
					if quoted {
						val = "'" + v + "'"
					}
					f := "gametype=" + val + sep + tail
					emit("tcp", "1", core.Hex(BrowserRequest(rng, f, []string{"hostname", "gametype"}, []byte{0, 0, 0, 0})))
				}
			}
		}
	}
	// truncation of a valid browser request at EVERY offset
	tr := 1
	if tier == core.Thorough {
		tr = 4
	}
	for i := 0; i < tr; i++ {
		b := BrowserRequest(rng, "gametype='CO-OP'", []string{"hostname", "bogus", "gamever"}, []byte{0, 0, 0, 1})
		for cut := 0; cut <= len(b); cut++ {
			emit("tcp", "0", core.Hex(b[:cut]))
		}
	}
	// --- MEASUREMENT (thorough): liveness of the real udpserver under the malformed stream
	if tier == core.Thorough {
		for i := 0; i < 6; i++ {
			var ps []string
			for j := 0; j < 40; j++ {
				ps = append(ps, core.Hex(reputil.RawDatagram(rng, []byte{0xde, 0xad, 0xbe, 0xef})))
			}
			emit("udpsrv", strings.Join(ps, "/"))
		}
	}
	// through the real socket: what the read loop does before the dispatcher (empty datagrams, datagrams on and over the buffer size), and hostile histories
	for _, h := range reputil.WireEdgeHistories(rng) {
		emit("whist", h...)
	}
	for i := 0; i < 12; i++ {
		emit("whist", reputil.WireHistory(rng, 2+rng.Intn(8), 1+rng.Intn(2), 40, 50)...)
	}
}

// ---------------------------------------------------------------------------------------------- exec

func exec(op string, args []string) []string {
	var out []string
	txt, ok := core.Guard(func() {
		switch op {
		case "hist":
			out = reputil.RunHistory(args)
		case "whist": // the same through the real reporter component and a real UDP socket (empty and over-long datagrams included)
			out = reputil.RunWireHistory(args)
		case "tcp":
			out = runTCP(args, "4")
		case "tcpm": // the same through a dual-stack listener: the handler sees the IPv4 peer as a 16-byte IPv4-mapped address
			out = runTCP(args, "m")
		case "tcp6": // … and an IPv6 peer (::1)
			out = runTCP(args, "6")
		case "encpar":
			out = runEncPar(args)
		case "cstallhttp": // the same on the REST port, through the real API component
			out = runStallHTTP(args)
		case "cstall": // a client that requests a long list and does not read it
			out = runStall(args)
		case "ctcp": // through the real browser component (fx module, tcpserver with the client timeout)
			out = runComponentTCP(args)
		case "udpsrv":
			out = runUDPServer(args)
		default:
			out = []string{"bad-op"}
		}
	})
	if !ok {
		return []string{"harness-panic:" + txt}
	}
	return out
}

var (
	lnOnce   sync.Once
	listener *net.TCPListener
)

func theListener() *net.TCPListener {
	lnOnce.Do(func() {
		for i := 0; ; i++ {
			l, err := net.ListenTCP("tcp4", &net.TCPAddr{IP: net.IPv4(127, 0, 0, 1)})
			if err == nil {
				listener = l
				return
			}
			if i > 100 {
				panic(err)
			}
			time.Sleep(100 * time.Millisecond)
		}
	})
	return listener
}

var (
	ln6Once   sync.Once
	listener6 *net.TCPListener
)

// theListener6: a wildcard dual-stack listener ("tcp", [::]:0), as the browser component opens for ":28910"; nil when
// the host has no IPv6 (the cases then run over the IPv4 listener)
func theListener6() *net.TCPListener {
	ln6Once.Do(func() {
		if l, err := net.ListenTCP("tcp", &net.TCPAddr{IP: net.IPv6unspecified}); err == nil {
			listener6 = l
		}
	})
	return listener6
}

// runEncPar <goroutines> <iterations>: crypt.Encrypt (the browser's reply path: one call per connection goroutine)
// hammered from many goroutines at once; every ciphertext must decrypt to its plaintext and nothing may panic.
func runEncPar(args []string) []string {
	if len(args) != 2 {
		return []string{"bad-op"}
	}
	g, err1 := strconv.Atoi(args[0])
	n, err2 := strconv.Atoi(args[1])
	if err1 != nil || err2 != nil || g < 1 || n < 1 {
		return []string{"bad-op"}
	}
	var sk [crypt.GMSL]byte
	copy(sk[:], "tG3j8c")
	errs := make(chan string, g)
	var wg sync.WaitGroup
	for i := 0; i < g; i++ {
		wg.Add(1)
		go func(i int) {
			defer wg.Done()
			txt, ok := core.Guard(func() {
				var ch [crypt.CCHL]byte
				for j := 0; j < n; j++ {
					ch[0], ch[1], ch[2] = byte(i), byte(j), byte(j>>8)
					plain := []byte{byte(i), byte(j), 0x5c, 0xff}
					out := crypt.Encrypt(sk, ch, append([]byte{}, plain...))
					if back := crypt.Decrypt(sk, ch, out); !bytes.Equal(back, plain) {
						panic("round trip differs")
					}
				}
			})
			if !ok {
				errs <- txt
			}
		}(i)
	}
	wg.Wait()
	select {
	case txt := <-errs:
		return []string{"panic:" + txt, "same"}
	default:
		return []string{"ok", "same"}
	}
}

func runTCP(args []string, flavour string) []string {
	if len(args) != 2 {
		return []string{"bad-op"}
	}
	k, err := strconv.Atoi(args[0])
	if err != nil {
		return []string{"bad-op"}
	}
	var payload []byte
	if args[1] != "none" {
		payload = core.MustUnHex(args[1])
	}
	w, release := reputil.FreshWorld()
	defer release()
	p := w.NewProc()
	for i := 0; i < k; i++ {
		hb := reputil.Heartbeat([]byte{0, 0, 0, byte(i + 1)}, []reputil.KV{
			{K: []byte("hostname"), V: []byte(fmt.Sprintf("Server %d", i))}, {K: []byte("hostport"), V: []byte("10480")},
			{K: []byte("localport"), V: []byte("10481")}, {K: []byte("gamever"), V: []byte("1.1")},
			{K: []byte("gamevariant"), V: []byte("SWAT 4")}, {K: []byte("gametype"), V: []byte("CO-OP")},
			{K: []byte("mapname"), V: []byte("Food Wall Restaurant")}, {K: []byte("numplayers"), V: []byte("1")},
			{K: []byte("maxplayers"), V: []byte("5")}}, []byte{0})
		if o := reputil.Send(p, net.IPv4(10, 0, 0, byte(i+1)).To4(), 5000, hb); !strings.HasPrefix(o, "reply:") {
			return []string{"setup-failed:" + o}
		}
	}
	before := reputil.JoinDump(w.Dump())

	ln := theListener()
	network, target := "tcp4", ln.Addr().(*net.TCPAddr)
	if l6 := theListener6(); l6 != nil && flavour != "4" {
		ln = l6
		port := l6.Addr().(*net.TCPAddr).Port
		if flavour == "6" {
			network, target = "tcp6", &net.TCPAddr{IP: net.IPv6loopback, Port: port}
		} else {
			target = &net.TCPAddr{IP: net.IPv4(127, 0, 0, 1), Port: port}
		}
	}
	var client *net.TCPConn
	for i := 0; ; i++ {
		c, err := net.DialTCP(network, nil, target)
		if err == nil {
			client = c
			break
		}
		if i > 100 {
			return []string{"infra:dial"}
		}
		time.Sleep(100 * time.Millisecond)
	}
	defer client.Close()
	server, err := ln.AcceptTCP()
	if err != nil {
		return []string{"infra:accept"}
	}
	_ = server.SetDeadline(time.Now().Add(5 * time.Second)) // as tcpserver does (its default is 1s)
	done := make(chan string, 1)
	go func() {
		txt, ok := core.Guard(func() { p.Browser.Handle(context.Background(), server) })
		if !ok {
			_ = server.Close()
			done <- "panic:" + txt
			return
		}
		done <- ""
	}()
	if len(payload) > 0 {
		if _, err := client.Write(payload); err != nil {
			return []string{"infra:write"}
		}
	} else {
		_ = client.CloseWrite()
	}
	_ = client.SetReadDeadline(time.Now().Add(7 * time.Second)) // longer than the handler's own 5 s deadline
	var reply []byte
	buf := make([]byte, 65536)
	reads := 0
	timedOut := false
	for {
		n, err := client.Read(buf)
		if n > 0 {
			reply = append(reply, buf[:n]...)
			reads++
		}
		if err != nil {
			// the handler must hang up on the peer whatever it received: a read that ends by OUR deadline instead of EOF /
			// reset means the accepted connection was left open (a descriptor leak per such peer)
			var ne net.Error
			if errors.As(err, &ne) && ne.Timeout() {
				timedOut = true
			}
			break
		}
	}
	res := <-done
	if res == "" && timedOut {
		res = "not-closed"
	}
	after := reputil.JoinDump(w.Dump())
	state := "same"
	if before != after {
		state = "changed"
	}
	switch {
	case res != "":
		return []string{res, state}
	case len(reply) == 0:
		return []string{"closed", state}
	default:
		return []string{fmt.Sprintf("reply:%d", len(reply)), state}
	}
}

// runUDPServer: measurement through the real udpserver + dispatcher on 127.0.0.1.
func runUDPServer(args []string) []string {
	if len(args) != 1 {
		return []string{"bad-op"}
	}
	w, release := reputil.FreshWorld()
	defer release()
	p := w.NewProc()
	ready := make(chan struct{})
	srv, err := udpserver.New("127.0.0.1:0", p.Dispatcher, udpserver.WithBufferSize(2048), udpserver.WithReadySignal(func() { close(ready) }))
	if err != nil {
		return []string{"infra:" + strings.ReplaceAll(err.Error(), " ", "_")}
	}
	go func() { _ = srv.Listen() }()
	select {
	case <-ready:
	case <-time.After(5 * time.Second):
		return []string{"infra:listen"}
	}
	defer func() { _ = srv.Stop() }()
	conn, err := net.DialUDP("udp4", nil, srv.LocalAddr())
	if err != nil {
		return []string{"infra:dial"}
	}
	defer conn.Close()
	avail := reputil.Available()
	var out []string
	extra := 0
	// per datagram: the replies received between sending it and the end of its window (all but the availability answer)
	var per []string
	buf := make([]byte, 4096)
	for _, h := range strings.Split(args[0], "/") {
		payload := core.MustUnHex(h)
		_, _ = conn.Write(payload)
		_, _ = conn.Write(avail)
		// collect replies until the availability answer arrives (handlers run on their own goroutines,
		// so the answer to the malformed datagram may come before or after it)
		alive := false
		var window []string
		deadline := time.Now().Add(3 * time.Second)
		for time.Now().Before(deadline) {
			_ = conn.SetReadDeadline(time.Now().Add(300 * time.Millisecond))
			n, err := conn.Read(buf)
			if err != nil {
				if alive {
					break
				}
				continue
			}
			if n == 7 && buf[2] == 0x09 && !alive {
				alive = true
				// give a late reply to the first datagram a moment, then move on
				_ = conn.SetReadDeadline(time.Now().Add(20 * time.Millisecond))
				if n2, err2 := conn.Read(buf); err2 == nil && n2 > 0 {
					extra++
					window = append(window, core.Hex(buf[:n2]))
				}
				break
			}
			extra++
			window = append(window, core.Hex(buf[:n]))
		}
		if alive {
			out = append(out, "alive")
		} else {
			out = append(out, "dead")
		}
		if len(window) == 0 {
			per = append(per, "-")
		} else {
			per = append(per, strings.Join(window, "+"))
		}
	}
	out = append(out, fmt.Sprintf("replies:%d", extra))
	// appended last (older recorded outputs end at replies:<n>): the client socket's port (the source the dispatcher sees,
	// 127.0.0.1:<port>) and the replies of each datagram's window
	srcPort := 0
	if la, ok := conn.LocalAddr().(*net.UDPAddr); ok {
		srcPort = la.Port
	}
	out = append(out, fmt.Sprintf("src=%d", srcPort), "per="+strings.Join(per, "/"))
	return out
}
