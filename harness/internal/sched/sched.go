// Package sched gives the harness control over every storage-command boundary of the real code:
// a go-redis hook gates each command (or MULTI/EXEC batch, or plain pipeline) of a logical process
// until the scheduler grants it, and can crash the process (park its goroutine for good, so no
// deferred code runs) or inject a storage fault before/after the command takes effect.
// See DESIGN.md Appendix D.
package sched

import (
	"context"
	"errors"
	"fmt"
	"net"
	"strings"
	"sync"
	"time"

	"github.com/redis/go-redis/v9"
)

var ErrInjected = errors.New("verif: injected storage fault")
var errAborted = errors.New("verif: case finished")

type Action int

const (
	Run Action = iota
	CrashBefore
	CrashAfter
	FaultBefore
	FaultAfter
)

type arrival struct {
	id   int
	kind string
	done bool // the process' operation returned
}

type proc struct {
	grant   chan Action
	waiting bool
	kind    string
	done    bool
	crashed bool
	active  bool
}

type Sched struct {
	mu       sync.Mutex
	procs    []*proc
	arrivals chan arrival
	abort    chan struct{}
	Trace    []string
	// StepTimeout bounds the wait for a granted process to reach its next command or finish.
	StepTimeout time.Duration
	Hung        bool
}

func New() *Sched {
	return &Sched{arrivals: make(chan arrival, 64), abort: make(chan struct{}), StepTimeout: 20 * time.Second}
}

// AddProc registers a logical process and returns the hook to attach to its redis client.
func (s *Sched) AddProc() (int, redis.Hook) {
	s.mu.Lock()
	defer s.mu.Unlock()
	id := len(s.procs)
	s.procs = append(s.procs, &proc{grant: make(chan Action)})
	return id, &hook{s: s, id: id}
}

// Go starts the operation of process id on its own goroutine; the hook gates its commands.
func (s *Sched) Go(id int, op func()) {
	s.mu.Lock()
	s.procs[id].active = true
	s.mu.Unlock()
	go func() {
		defer func() {
			r := recover()
			if r != nil && r != errAborted {
				s.mu.Lock()
				s.Trace = append(s.Trace, fmt.Sprintf("%d:PANIC:%s", id, strings.ReplaceAll(fmt.Sprint(r), " ", "_")))
				s.mu.Unlock()
			}
			s.arrivals <- arrival{id: id, done: true}
		}()
		op()
	}()
}

// Settle waits until every started, live process is blocked at a command or has finished.
func (s *Sched) Settle() {
	for {
		s.mu.Lock()
		pending := false
		for _, p := range s.procs {
			if p.active && !p.done && !p.crashed && !p.waiting {
				pending = true
			}
		}
		s.mu.Unlock()
		if !pending {
			return
		}
		if !s.recv() {
			return
		}
	}
}

func (s *Sched) recv() bool {
	select {
	case a := <-s.arrivals:
		s.mu.Lock()
		p := s.procs[a.id]
		if a.done {
			p.done = true
			p.waiting = false
		} else {
			p.waiting = true
			p.kind = a.kind
		}
		s.mu.Unlock()
		return true
	case <-time.After(s.StepTimeout):
		s.mu.Lock()
		s.Hung = true
		s.mu.Unlock()
		return false
	}
}

// Live reports whether process id can still take a step.
func (s *Sched) Live(id int) bool {
	s.mu.Lock()
	defer s.mu.Unlock()
	if id < 0 || id >= len(s.procs) {
		return false
	}
	p := s.procs[id]
	return p.active && !p.done && !p.crashed
}

func (s *Sched) Done(id int) bool {
	s.mu.Lock()
	defer s.mu.Unlock()
	return s.procs[id].done
}

func (s *Sched) Crashed(id int) bool {
	s.mu.Lock()
	defer s.mu.Unlock()
	return s.procs[id].crashed
}

// Step applies action to the next command of process id (which must be live and settled) and
// waits until it arrives at its following command or finishes.  Returns false if id is not live.
func (s *Sched) Step(id int, act Action) bool {
	if !s.Live(id) {
		return false
	}
	s.mu.Lock()
	p := s.procs[id]
	if !p.waiting {
		s.mu.Unlock()
		return false
	}
	p.waiting = false
	if act == CrashBefore || act == CrashAfter {
		p.crashed = true
	}
	s.mu.Unlock()
	p.grant <- act
	if act == CrashBefore {
		return true
	}
	if act == CrashAfter {
		// wait for the command to have executed (the hook reports it) — it then parks
		s.recvExecuted(id)
		return true
	}
	s.Settle()
	return true
}

func (s *Sched) recvExecuted(id int) {
	// a crashed-after process signals completion of its command as an arrival with kind "parked"
	for {
		select {
		case a := <-s.arrivals:
			if a.id == id && a.kind == "parked" {
				return
			}
			s.mu.Lock()
			p := s.procs[a.id]
			if a.done {
				p.done = true
			} else {
				p.waiting = true
				p.kind = a.kind
			}
			s.mu.Unlock()
		case <-time.After(s.StepTimeout):
			s.mu.Lock()
			s.Hung = true
			s.mu.Unlock()
			return
		}
	}
}

// Finish releases every parked goroutine (their operations then fail) — call after the final dump.
func (s *Sched) Finish() {
	close(s.abort)
	// drain so that finishing goroutines are not blocked on the arrivals channel
	go func() {
		for range s.arrivals {
		}
	}()
}

// Mark appends a marker (e.g. a repository-call boundary) of process id to the trace.
func (s *Sched) Mark(id int, text string) {
	s.mu.Lock()
	s.Trace = append(s.Trace, fmt.Sprintf("%d:%s", id, text))
	s.mu.Unlock()
}

// CountMarks counts trace entries of process id that start with prefix.
func (s *Sched) CountMarks(id int, prefix string) int {
	s.mu.Lock()
	defer s.mu.Unlock()
	n := 0
	p := fmt.Sprintf("%d:%s", id, prefix)
	for _, t := range s.Trace {
		if strings.HasPrefix(t, p) {
			n++
		}
	}
	return n
}

func (s *Sched) record(id int, kind, reply string) {
	s.mu.Lock()
	s.Trace = append(s.Trace, fmt.Sprintf("%d:%s:%s", id, kind, reply))
	s.mu.Unlock()
}

type hook struct {
	s  *Sched
	id int
}

type idKey struct{}

// WithID marks the commands issued under ctx as belonging to logical process id, whatever redis client
// they go through (several operations of ONE component share its client, lock manager and repositories).
func WithID(ctx context.Context, id int) context.Context { return context.WithValue(ctx, idKey{}, id) }

func (h *hook) eid(ctx context.Context) int {
	if v, ok := ctx.Value(idKey{}).(int); ok {
		return v
	}
	return h.id
}

func (h *hook) DialHook(next redis.DialHook) redis.DialHook {
	return func(ctx context.Context, network, addr string) (net.Conn, error) { return next(ctx, network, addr) }
}

func (h *hook) gate(id int, kind string) Action {
	s := h.s
	s.mu.Lock()
	active := s.procs[id].active && !s.procs[id].done
	s.mu.Unlock()
	if !active {
		return Run
	}
	select {
	case s.arrivals <- arrival{id: id, kind: kind}:
	case <-s.abort:
		panic(errAborted)
	}
	select {
	case a := <-s.procs[id].grant:
		return a
	case <-s.abort:
		panic(errAborted)
	}
}

func (h *hook) park() {
	<-h.s.abort
	panic(errAborted)
}

func replyClass(cmd redis.Cmder, err error) string {
	switch {
	case err == nil:
		if b, ok := cmd.(*redis.BoolCmd); ok {
			if b.Val() {
				return "1"
			}
			return "0"
		}
		return "ok"
	case errors.Is(err, redis.Nil):
		return "nil"
	default:
		return "err"
	}
}

func (h *hook) ProcessHook(next redis.ProcessHook) redis.ProcessHook {
	return func(ctx context.Context, cmd redis.Cmder) error {
		kind := strings.ToLower(cmd.Name())
		if kind == "set" {
			kind = "setnx"
		}
		id := h.eid(ctx)
		act := h.gate(id, kind)
		// a fault on UNWATCH is not injected: a failed UNWATCH on a healthy connection would leave the
		// connection watching (in reality a failing connection is discarded, not reused)
		if kind == "unwatch" && (act == FaultBefore || act == FaultAfter) {
			act = Run
		}
		switch act {
		case CrashBefore:
			h.park()
		case CrashAfter:
			err := next(ctx, cmd)
			h.s.record(id, kind, replyClass(cmd, err)+"!crash")
			h.s.arrivals <- arrival{id: id, kind: "parked"}
			h.park()
		case FaultBefore:
			cmd.SetErr(ErrInjected)
			h.s.record(id, kind, "fault-before")
			return ErrInjected
		case FaultAfter:
			_ = next(ctx, cmd)
			cmd.SetErr(ErrInjected)
			h.s.record(id, kind, "fault-after")
			return ErrInjected
		}
		err := next(ctx, cmd)
		h.s.record(id, kind, replyClass(cmd, err))
		return err
	}
}

func (h *hook) ProcessPipelineHook(next redis.ProcessPipelineHook) redis.ProcessPipelineHook {
	return func(ctx context.Context, cmds []redis.Cmder) error {
		kind := "pipe"
		if len(cmds) > 0 && strings.EqualFold(cmds[0].Name(), "multi") {
			kind = "exec"
		}
		setAll := func(e error) {
			for _, c := range cmds {
				c.SetErr(e)
			}
		}
		id := h.eid(ctx)
		switch h.gate(id, kind) {
		case CrashBefore:
			h.park()
		case CrashAfter:
			err := next(ctx, cmds)
			h.s.record(id, kind, pipeReply(err)+"!crash")
			h.s.arrivals <- arrival{id: id, kind: "parked"}
			h.park()
		case FaultBefore:
			setAll(ErrInjected)
			h.s.record(id, kind, "fault-before")
			return ErrInjected
		case FaultAfter:
			_ = next(ctx, cmds)
			setAll(ErrInjected)
			h.s.record(id, kind, "fault-after")
			return ErrInjected
		}
		err := next(ctx, cmds)
		h.s.record(id, kind, pipeReply(err))
		return err
	}
}

func pipeReply(err error) string {
	switch {
	case err == nil:
		return "ok"
	case errors.Is(err, redis.TxFailedErr):
		return "abort"
	case errors.Is(err, redis.Nil):
		return "ok" // a nil reply inside a pipeline (e.g. HMGET miss) is not a failure
	default:
		return "err"
	}
}
