// Package c10: histories of registry / instance / probe-queue calls on the real repositories with a
// client death injected at a storage-command boundary (before the command, or after it took effect
// with the reply lost); the raw keyspace is dumped after every item of the history.
package c10

import (
	"fmt"
	"math/rand"
	"strings"

	"github.com/sergeii/swat4master/verifharness/internal/core"
	"github.com/sergeii/swat4master/verifharness/internal/storeops"
	"github.com/sergeii/swat4master/verifharness/internal/world"
)

func init() {
	core.Register(&core.Prop{ID: "C10", Gen: gen, Exec: exec})
}

// hist <item>,<item>,…     item = <callspec>[@cb<c>|@ca<c>] | e | t<ns>
// output: res=<r>;…  traces=<t>;…  dumps=<dump>#<dump>…   (one entry per item)
func exec(op string, args []string) []string {
	if op != "hist" || len(args) != 1 {
		return []string{"bad-op"}
	}
	var out []string
	if txt, ok := core.Guard(func() { out = run(strings.Split(args[0], ",")) }); !ok {
		return []string{"panic:" + txt}
	}
	return out
}

func run(items []string) []string {
	w := world.New(world.DefaultOptions())
	defer w.Close()
	var results, traces, dumps []string
	for _, it := range items {
		switch {
		case it == "e" || (len(it) > 1 && it[0] == 't' && strings.IndexByte(it, '|') < 0):
			res := storeops.RunScheduled(w, nil, []string{it})
			results = append(results, "-")
			traces = append(traces, "-")
			dumps = append(dumps, strings.Join(res.Dump, ";"))
		default:
			spec, crash, _ := strings.Cut(it, "@")
			var events []string
			if crash != "" {
				var n int
				fmt.Sscanf(crash[2:], "%d", &n)
				for i := 0; i < n; i++ {
					events = append(events, "s0")
				}
				events = append(events, crash[:2]+"0")
			}
			res := storeops.RunScheduled(w, []func(p *world.Proc) string{func(p *world.Proc) string { return storeops.RunCall(p, spec) }}, events)
			r := res.Results[0]
			if res.Hung {
				r = "hung"
			}
			results = append(results, r)
			t := strings.Join(res.Trace, "+")
			if t == "" {
				t = "-"
			}
			traces = append(traces, t)
			dumps = append(dumps, strings.Join(res.Dump, ";"))
		}
	}
	return []string{"res=" + strings.Join(results, ";"), "traces=" + strings.Join(traces, ";"), "dumps=" + strings.Join(dumps, "#")}
}

var addrs = []string{"1.1.1.1:10480", "1.1.1.1:10580", "2.2.2.2:10480"}
var ids = []string{"00000001", "deadbeef", "00ff00ff"}

func randCall(rng *rand.Rand, clock *int64, step *int64) string {
	epoch := world.Epoch.UnixNano()
	a := addrs[rng.Intn(len(addrs))]
	switch rng.Intn(10) {
	case 0, 1, 2:
		refreshed := "z"
		if rng.Intn(3) != 0 {
			refreshed = fmt.Sprint(epoch - int64(rng.Intn(50))*256000)
		}
		return fmt.Sprintf("%s|%s/%d/%d/%d/%s|%s", []string{"add", "update", "update"}[rng.Intn(3)], a, 10481+rng.Intn(3), rng.Intn(512), rng.Intn(4), refreshed,
			[]string{"refuse", "accept", "merge", "over"}[rng.Intn(4)])
	case 3:
		return fmt.Sprintf("remove|%s/1/0/%d/z|%s", a, rng.Intn(4), []string{"refuse", "accept"}[rng.Intn(2)])
	case 4:
		return fmt.Sprintf("insadd|%s|%s", ids[rng.Intn(len(ids))], a)
	case 5:
		if rng.Intn(2) == 0 {
			return fmt.Sprintf("insrm|%s", ids[rng.Intn(len(ids))])
		}
		before := "z"
		if rng.Intn(3) != 0 {
			before = fmt.Sprint(*clock - int64(rng.Intn(4))*256000)
		}
		return "insclear|" + before
	case 6, 7:
		// distinct ready times so that queue order is defined without ties: ready = epoch + unique step
		*step++
		after := fmt.Sprint(epoch + (*step)*256 - int64(rng.Intn(3))*1024000)
		before := "z"
		if rng.Intn(2) == 0 {
			before = fmt.Sprint(*clock + int64(rng.Intn(5)-2)*256000)
		}
		return fmt.Sprintf("penq|%s|%d|%d|%d|%d|%s|%s", a, 10480+rng.Intn(3), rng.Intn(2), rng.Intn(3), 3, after, before)
	default:
		return fmt.Sprintf("ppop|%d", rng.Intn(4))
	}
}

func gen(rng *rand.Rand, tier core.Tier, emit core.Emit) {
	n := 500
	if tier == core.Thorough {
		n = 3000
	}
	for c := 0; c < n; c++ {
		clock := world.Epoch.UnixNano()
		var step int64
		var items []string
		for i := 0; i < 2+rng.Intn(11); i++ {
			switch r := rng.Intn(12); {
			case r == 0:
				items = append(items, "e")
			case r == 1:
				d := int64(256000 * (1 + rng.Intn(8)))
				clock += d
				items = append(items, fmt.Sprintf("t%d", d))
			default:
				call := randCall(rng, &clock, &step)
				if rng.Intn(3) == 0 {
					call += fmt.Sprintf("@%s%d", []string{"cb", "ca"}[rng.Intn(2)], rng.Intn(10))
				}
				items = append(items, call)
			}
		}
		emit("hist", strings.Join(items, ","))
	}
	// exhaustive crash placement for one call of each kind after a short prefix
	if tier == core.Thorough {
		for _, call := range []string{"add|1.1.1.1:10480/10481/70/0/z|accept", "update|1.1.1.1:10480/10482/6/1/1704067200000000000|merge", "remove|1.1.1.1:10480/1/0/3/z|accept",
			"insadd|00000001|1.1.1.1:10480", "insrm|00000001", "insclear|z", "penq|1.1.1.1:10480|10480|1|0|3|z|z", "ppop|2"} {
			for c := 0; c < 11; c++ {
				for _, k := range []string{"cb", "ca"} {
					emit("hist", fmt.Sprintf("add|1.1.1.1:10480/10481/6/0/z|accept,insadd|00000001|1.1.1.1:10480,penq|1.1.1.1:10480|10480|1|0|3|z|z,%s@%s%d,e,%s", call, k, c, call))
				}
			}
		}
	}
}
