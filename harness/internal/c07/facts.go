package c07

import (
	"fmt"
	"go/ast"
	"go/parser"
	"go/token"
	"io"
	"os"
	"path/filepath"
	"reflect"
	"strings"

	"github.com/sergeii/swat4master/internal/core/entities/details"
	"github.com/sergeii/swat4master/pkg/gamespy/serverquery/params"
	"github.com/sergeii/swat4master/verifharness/internal/facts"
)

// Facts the model of the details prober's post-query stage relies on (Model/Details.lean),
// regenerated from the source on every run:
//
//   - details.Info / Player / Objective as params.Unmarshal and the validator iterate them
//     (Go field, param name, kind, validate tags split at `,`),
//   - the tags of the three fields of details.Details (`required` on Info, `dive` on the slices),
//   - the inventory of partial operations (index, slice, type assertion, panic call) of the source
//     files of the stage.

func schemaRows(t reflect.Type) []string {
	var rows []string
	for i := 0; i < t.NumField(); i++ {
		f := t.Field(i)
		if !f.IsExported() {
			continue
		}
		kind := "9"
		switch f.Type.Kind() {
		case reflect.Int:
			kind = "0"
		case reflect.Bool:
			kind = "1"
		case reflect.String:
			kind = "2"
		}
		param := "none"
		if name, ok := params.GetParamName(f); ok {
			param = "some " + facts.LeanBytes([]byte(name))
		}
		rows = append(rows, fmt.Sprintf("  (%s, %s, %s, %s)", facts.LeanStr(f.Name), param, kind, facts.LeanStrList(validateTags(f))))
	}
	return rows
}

func validateTags(f reflect.StructField) []string {
	if v, ok := f.Tag.Lookup("validate"); ok && v != "-" && v != "" {
		return strings.Split(v, ",")
	}
	return nil
}

func typeDescr(t reflect.Type) string {
	switch t.Kind() {
	case reflect.Struct:
		return "struct:" + t.Name()
	case reflect.Slice:
		return "slice:" + typeDescr(t.Elem())
	case reflect.Ptr:
		return "ptr:" + typeDescr(t.Elem())
	}
	return t.Kind().String()
}

// files of the post-query stage, relative to the repository root
var stageFiles = []string{
	"internal/prober/probers/detailsprober/detailsprober.go",
	"internal/core/entities/details/details.go",
	"internal/core/entities/details/info.go",
	"internal/core/entities/details/player.go",
	"internal/core/entities/details/objective.go",
	"pkg/gamespy/serverquery/params/encode.go",
	"pkg/gamespy/serverquery/params/utils.go",
	"internal/validation/validation.go",
}

func partialOps(repo string) ([]string, error) {
	files := append([]string{}, stageFiles...)
	vdir := filepath.Join(repo, "internal/validation/validators")
	ents, err := os.ReadDir(vdir)
	if err != nil {
		return nil, err
	}
	for _, e := range ents {
		if n := e.Name(); strings.HasSuffix(n, ".go") && !strings.HasSuffix(n, "_test.go") {
			files = append(files, "internal/validation/validators/"+n)
		}
	}
	var sites []string
	for _, rel := range files {
		path := filepath.Join(repo, rel)
		src, err := os.ReadFile(path)
		if err != nil {
			return nil, err
		}
		fset := token.NewFileSet()
		f, err := parser.ParseFile(fset, path, src, 0)
		if err != nil {
			return nil, err
		}
		text := func(n ast.Node) string {
			return strings.Join(strings.Fields(string(src[fset.Position(n.Pos()).Offset:fset.Position(n.End()).Offset])), " ")
		}
		base := filepath.Base(rel)
		for _, d := range f.Decls {
			fd, ok := d.(*ast.FuncDecl)
			if !ok {
				continue
			}
			ast.Inspect(fd, func(n ast.Node) bool {
				switch n := n.(type) {
				case *ast.IndexExpr:
					sites = append(sites, base+" "+fd.Name.Name+" index "+text(n))
				case *ast.SliceExpr:
					sites = append(sites, base+" "+fd.Name.Name+" slice "+text(n))
				case *ast.TypeAssertExpr:
					sites = append(sites, base+" "+fd.Name.Name+" assert "+text(n))
				case *ast.CallExpr:
					if id, ok := n.Fun.(*ast.Ident); ok && id.Name == "panic" {
						sites = append(sites, base+" "+fd.Name.Name+" panic")
					}
				}
				return true
			})
		}
	}
	return sites, nil
}

func init() {
	facts.Add("detailsprober", func(w io.Writer, repo string) error {
		const ty = "List (String × Option (List UInt8) × Nat × List String)"
		fmt.Fprintln(w, "/-- details.Info / Player / Objective as `params.Unmarshal` and the validator iterate them: (Go field, param name")
		fmt.Fprintln(w, "bytes | none for `param:\"-\"`, kind 0 int / 1 bool / 2 string / 9 other, validate tags in order) -/")
		fmt.Fprintf(w, "def detailsInfoSchema : %s := [\n%s]\n", ty, strings.Join(schemaRows(reflect.TypeOf(details.Info{})), ",\n"))
		fmt.Fprintf(w, "def detailsPlayerSchema : %s := [\n%s]\n", ty, strings.Join(schemaRows(reflect.TypeOf(details.Player{})), ",\n"))
		fmt.Fprintf(w, "def detailsObjectiveSchema : %s := [\n%s]\n", ty, strings.Join(schemaRows(reflect.TypeOf(details.Objective{})), ",\n"))
		t := reflect.TypeOf(details.Details{})
		var rows []string
		for i := 0; i < t.NumField(); i++ {
			f := t.Field(i)
			if !f.IsExported() {
				continue
			}
			rows = append(rows, fmt.Sprintf("(%s, %s, %s)", facts.LeanStr(f.Name), facts.LeanStr(typeDescr(f.Type)), facts.LeanStrList(validateTags(f))))
		}
		fmt.Fprintln(w, "/-- the fields of details.Details: (Go field, type, validate tags) -/")
		fmt.Fprintf(w, "def detailsTopSchema : List (String × String × List String) := [%s]\n", strings.Join(rows, ", "))
		sites, err := partialOps(repo)
		if err != nil {
			return err
		}
		fmt.Fprintln(w, "/-- partial operations of the post-query stage of the details prober (file, function, kind, operand text) -/")
		fmt.Fprintf(w, "def detailsPartialOps : List String := %s\n", facts.LeanStrList(sites))
		return nil
	})
}
