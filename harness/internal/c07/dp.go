package c07

// Op `dp`: the real details prober (gs1.Query → details.NewDetailsFromParams → Details.Validate)
// against the scripted UDP responder.
//
//	C07 dp <timeout_ms> <dgrams>
//	  => ok:<canon.Of(details.Details)> | err-timeout | err-query | err-parse | err-validate |
//	     err-other:<text> | panic:<text>, followed by `late` if Probe outlived timeout+slack.

import (
	"context"
	"errors"
	"io"
	"net"
	"strings"
	"sync"
	"time"

	"github.com/go-playground/validator/v10"
	"github.com/jonboulle/clockwork"
	"github.com/rs/zerolog"

	"github.com/sergeii/swat4master/internal/core/entities/addr"
	"github.com/sergeii/swat4master/internal/core/entities/details"
	"github.com/sergeii/swat4master/internal/metrics"
	"github.com/sergeii/swat4master/internal/prober/probers/detailsprober"
	"github.com/sergeii/swat4master/internal/validation"
	"github.com/sergeii/swat4master/verifharness/internal/canon"
	"github.com/sergeii/swat4master/verifharness/internal/core"
	u "github.com/sergeii/swat4master/verifharness/internal/gs1util"
)

var (
	sharedOnce     sync.Once
	sharedMetrics  *metrics.Collector
	sharedValidate *validator.Validate
)

// the validator and the metrics collector are built once, the way the application container does
func shared() {
	sharedOnce.Do(func() {
		sharedMetrics = metrics.New()
		sharedValidate = validation.MustNew()
	})
}

// RunProbe runs the real DetailsProber.Probe against a scripted responder.
func runProbe(dgrams [][]byte, timeout time.Duration) []string {
	out, elapsed, sentLate := probeOnce(dgrams, timeout)
	if len(out) == 1 && out[0] == "err-timeout" && sentLate {
		// the script was written out late (loaded machine): the timeout proves nothing; once more, slower
		timeout *= 4
		out, elapsed, _ = probeOnce(dgrams, timeout)
	}
	if elapsed > timeout+u.Slack {
		out = append(out, "late")
	}
	return out
}

func tok(s string) string {
	return strings.NewReplacer(" ", "_", "\n", "_", "\t", "_").Replace(s)
}

func probeOnce(dgrams [][]byte, timeout time.Duration) (out []string, elapsed time.Duration, sentLate bool) {
	shared()
	r, err := u.NewResponder(dgrams, 0, false)
	if err != nil {
		return []string{"harness-error:" + tok(err.Error())}, 0, false
	}
	defer r.Close()
	logger := zerolog.New(io.Discard)
	prober := detailsprober.New(sharedValidate, clockwork.NewFakeClock(), sharedMetrics, &logger)
	// the game port is irrelevant to Probe; the query port is the responder's
	svrAddr := addr.NewForTesting(net.IPv4(127, 0, 0, 1), 10480)
	var res any
	var perr error
	started := time.Now()
	txt, ok := core.Guard(func() { res, perr = prober.Probe(context.Background(), svrAddr, r.Port(), timeout) })
	elapsed = time.Since(started)
	if !ok {
		return []string{"panic:" + txt}, elapsed, false
	}
	sent := r.SentAt()
	sentLate = sent.IsZero() || sent.Sub(started) > timeout/2
	return classifyProbe(res, perr), elapsed, sentLate
}

func classifyProbe(res any, err error) []string {
	switch {
	case err == nil:
		det, ok := res.(details.Details)
		if !ok {
			return []string{"err-other:result-type"}
		}
		return []string{"ok:" + canon.Of(det)}
	case errors.Is(err, detailsprober.ErrQueryTimeout):
		return []string{"err-timeout"}
	case errors.Is(err, detailsprober.ErrQueryFailed):
		return []string{"err-query"}
	case errors.Is(err, detailsprober.ErrParseFailed):
		return []string{"err-parse"}
	case errors.Is(err, detailsprober.ErrValidationFailed):
		return []string{"err-validate"}
	default:
		return []string{"err-other:" + tok(err.Error())}
	}
}
