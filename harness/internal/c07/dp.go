package c07

// Op `dp`: the real details prober (gs1.Query → details.NewDetailsFromParams → Details.Validate)
// against the scripted UDP responder.
//
//	C07 dp <timeout_ms> <dgrams>
//	  => ok:<canon.Of(details.Details)> | err-timeout | err-query | err-parse | err-validate |
//	     err-other:<text> | panic:<text>, followed by `late` if Probe outlived timeout+slack.

import (
	"context"
	"errors"
	"io"
	"math/rand"
	"net"
	"strconv"
	"strings"
	"sync"
	"time"

	"github.com/go-playground/validator/v10"
	"github.com/jonboulle/clockwork"
	"github.com/rs/zerolog"

	"github.com/sergeii/swat4master/internal/core/entities/addr"
	"github.com/sergeii/swat4master/internal/core/entities/details"
	"github.com/sergeii/swat4master/internal/metrics"
	"github.com/sergeii/swat4master/internal/prober/probers/detailsprober"
	"github.com/sergeii/swat4master/internal/validation"
	"github.com/sergeii/swat4master/verifharness/internal/canon"
	"github.com/sergeii/swat4master/verifharness/internal/core"
	u "github.com/sergeii/swat4master/verifharness/internal/gs1util"
)

var (
	sharedOnce     sync.Once
	sharedMetrics  *metrics.Collector
	sharedValidate *validator.Validate
)

// the validator and the metrics collector are built once, the way the application container does
func shared() {
	sharedOnce.Do(func() {
		sharedMetrics = metrics.New()
		sharedValidate = validation.MustNew()
	})
}

// RunProbe runs the real DetailsProber.Probe against a scripted responder.
func runProbe(dgrams [][]byte, timeout time.Duration) []string {
	out, elapsed, sentLate := probeOnce(dgrams, timeout)
	if len(out) == 1 && out[0] == "err-timeout" && sentLate {
		// the script was written out late (loaded machine): the timeout proves nothing; once more, slower
		timeout *= 4
		out, elapsed, _ = probeOnce(dgrams, timeout)
	}
	if elapsed > timeout+u.Slack {
		out = append(out, "late")
	}
	return out
}

func tok(s string) string {
	return strings.NewReplacer(" ", "_", "\n", "_", "\t", "_").Replace(s)
}

func probeOnce(dgrams [][]byte, timeout time.Duration) (out []string, elapsed time.Duration, sentLate bool) {
	shared()
	r, err := u.NewResponder(dgrams, 0, false)
	if err != nil {
		return []string{"harness-error:" + tok(err.Error())}, 0, false
	}
	defer r.Close()
	logger := zerolog.New(io.Discard)
	prober := detailsprober.New(sharedValidate, clockwork.NewFakeClock(), sharedMetrics, &logger)
	// the game port is irrelevant to Probe; the query port is the responder's
	svrAddr := addr.NewForTesting(net.IPv4(127, 0, 0, 1), 10480)
	var res any
	var perr error
	started := time.Now()
	txt, ok := core.Guard(func() { res, perr = prober.Probe(context.Background(), svrAddr, r.Port(), timeout) })
	elapsed = time.Since(started)
	if !ok {
		return []string{"panic:" + txt}, elapsed, false
	}
	sent := r.SentAt()
	sentLate = sent.IsZero() || sent.Sub(started) > timeout/2
	return classifyProbe(res, perr), elapsed, sentLate
}

func classifyProbe(res any, err error) []string {
	switch {
	case err == nil:
		det, ok := res.(details.Details)
		if !ok {
			return []string{"err-other:result-type"}
		}
		return []string{"ok:" + canon.Of(det)}
	case errors.Is(err, detailsprober.ErrQueryTimeout):
		return []string{"err-timeout"}
	case errors.Is(err, detailsprober.ErrQueryFailed):
		return []string{"err-query"}
	case errors.Is(err, detailsprober.ErrParseFailed):
		return []string{"err-parse"}
	case errors.Is(err, detailsprober.ErrValidationFailed):
		return []string{"err-validate"}
	default:
		return []string{"err-other:" + tok(err.Error())}
	}
}

// ---------------------------------------------------------------- generator

func kv(k, v string) u.KV { return u.KV{K: []byte(k), V: []byte(v)} }

var (
	ratioPool = []string{"", "0/0", "1/2", "1/2/3", "0/0/0", "1//2", "/1", "1/", "/", "-1/2", "+1/2", "1/-2", " 1/2", "1/2 ", "a/b",
		"\xef\xbc\x99/2", "99999999999999999999/1", "1/99999999999999999999", "-0/5", "5/-0", "+0/+0", "17/19", "3/2", "1/2/", "/1/2", "1/2/x",
		"9223372036854775807/9223372036854775807", "9223372036854775808/1", "1/9223372036854775808", "00/007", "1_0/2", "0x1/2", "1/2/3/4", "//", "+/1", "-/1", "1/+"}
	intPool = []string{"", "-1", "+5", "0x10", "1e3", " 7", "007", "2147483648", "9223372036854775807", "9223372036854775808",
		"-9223372036854775808", "-9223372036854775809", "0", "-0", "+0", "1", "7 ", "1_000", "\xd9\xa1", "--1", "+-1", "+", "-"}
	boolPool   = []string{"1", "0", "true", "false", "TRUE", "yes", "", "2", "True", "t", "01", " 1", "-1"}
	oneofPool  = []string{"-1", "0", "1", "2", "3", "4", "5", "6", "+1", "01", "-0", ""}
	infoInts   = []string{"numplayers", "maxplayers", "round", "numrounds", "timeleft", "timespecial", "swatscore", "suspectsscore", "swatwon", "suspectswon", "bombsdefused", "bombstotal", "hostport"}
	infoBools  = []string{"password", "statsenabled"}
	infoStrs   = []string{"hostname", "gamevariant", "gamever", "gametype", "mapname"}
	infoRatios = []string{"tocreports", "weaponssecured"}
	plInts     = []string{"score", "ping", "kills", "tkills", "deaths", "arrests", "arrested", "vescaped", "vipescaped", "arrestedvip", "unarrestedvip",
		"validvipkills", "invalidvipkills", "bombsdiffused", "escapedcase", "killedcase"}
	plBools  = []string{"vip", "rdcrybaby", "sgcrybaby"}
	plOneofs = []string{"team", "coopstatus"}
	objNames = []string{"Neutralize_All_Enemies", "Rescue_All_Hostages", "Arrest_Jennings", "Automatic_DOA", "Custom_Timed", "x", "obj_", "_"}
)

// validStatus draws a status the details prober accepts (every struct field present or, at random, left out
// when the zero value is valid too).
func validStatus(rng *rand.Rand, nPlayers, nObjs int) u.Status {
	opt := func(kvs []u.KV, k, v string) []u.KV {
		if rng.Intn(6) == 0 {
			return kvs
		}
		return append(kvs, kv(k, v))
	}
	num := func(n int) string { return strconv.Itoa(rng.Intn(n)) }
	ratio := func() string {
		switch rng.Intn(4) {
		case 0:
			return ""
		case 1:
			return "+" + num(9) + "/" + num(30)
		default:
			return num(30) + "/" + num(30)
		}
	}
	var s u.Status
	f := []u.KV{
		kv("hostname", "Swat4 Server "+num(100)), kv("hostport", strconv.Itoa(10480+rng.Intn(3))), kv("gamevariant", "SWAT 4"),
		kv("gamever", "1."+num(2)), kv("gametype", []string{"VIP Escort", "CO-OP", "Barricaded Suspects"}[rng.Intn(3)]), kv("mapname", "Fairfax Residence"),
	}
	f = opt(f, "numplayers", num(17))
	f = opt(f, "maxplayers", num(17))
	f = opt(f, "password", num(2))
	f = opt(f, "statsenabled", []string{"0", "1", "true", "false"}[rng.Intn(4)])
	f = opt(f, "round", num(6))
	f = opt(f, "numrounds", num(6))
	f = opt(f, "timeleft", strconv.Itoa(rng.Intn(900)-20))
	f = opt(f, "timespecial", num(900))
	f = opt(f, "swatscore", strconv.Itoa(rng.Intn(200)-50))
	f = opt(f, "suspectsscore", strconv.Itoa(rng.Intn(200)-50))
	f = opt(f, "swatwon", num(5))
	f = opt(f, "suspectswon", num(5))
	f = opt(f, "bombsdefused", num(5))
	f = opt(f, "bombstotal", num(5))
	f = opt(f, "tocreports", ratio())
	f = opt(f, "weaponssecured", ratio())
	rng.Shuffle(len(f), func(i, j int) { f[i], f[j] = f[j], f[i] })
	s.Fields = f
	for p := 0; p < nPlayers; p++ {
		pl := []u.KV{kv("player", []string{"Joe", "P\xe9pe", "|MYT|dimonkey", "[c=ff0000]Red", "x"}[rng.Intn(5)]+num(10))}
		pl = opt(pl, "score", strconv.Itoa(rng.Intn(60)-10))
		pl = opt(pl, "ping", num(400))
		pl = opt(pl, "team", num(3))
		pl = opt(pl, "vip", num(2))
		pl = opt(pl, "coopstatus", num(5))
		for _, k := range plInts[2:] {
			if rng.Intn(3) == 0 {
				pl = append(pl, kv(k, num(12)))
			}
		}
		for _, k := range plBools[1:] {
			if rng.Intn(3) == 0 {
				pl = append(pl, kv(k, num(2)))
			}
		}
		s.Players = append(s.Players, pl)
	}
	for o := 0; o < nObjs; o++ {
		s.Objectives = append(s.Objectives, kv(objNames[rng.Intn(len(objNames))], num(3)))
	}
	return s
}

// set replaces (or adds) key k of a key-value list; del removes it
func set(kvs []u.KV, k, v string) []u.KV {
	for i := range kvs {
		if string(kvs[i].K) == k {
			kvs[i] = kv(k, v)
			return kvs
		}
	}
	return append(kvs, kv(k, v))
}

func del(kvs []u.KV, k string) []u.KV {
	var out []u.KV
	for _, x := range kvs {
		if string(x.K) != k {
			out = append(out, x)
		}
	}
	return out
}

func pick(rng *rand.Rand, xs []string) string { return xs[rng.Intn(len(xs))] }

// mutate changes one value of the status, from the pool that fits the field's kind
func mutate(rng *rand.Rand, s *u.Status) {
	for {
		switch rng.Intn(12) {
		case 0, 1:
			s.Fields = set(s.Fields, pick(rng, infoRatios), pick(rng, ratioPool))
		case 2:
			s.Fields = set(s.Fields, pick(rng, infoInts), pick(rng, intPool))
		case 3:
			s.Fields = set(s.Fields, pick(rng, infoBools), pick(rng, boolPool))
		case 4:
			k := pick(rng, append(append([]string{}, infoStrs...), "hostport"))
			if rng.Intn(2) == 0 {
				s.Fields = del(s.Fields, k)
			} else {
				s.Fields = set(s.Fields, k, "")
			}
		case 5:
			if len(s.Players) == 0 {
				continue
			}
			i := rng.Intn(len(s.Players))
			s.Players[i] = set(s.Players[i], pick(rng, plInts), pick(rng, intPool))
		case 6:
			if len(s.Players) == 0 {
				continue
			}
			i := rng.Intn(len(s.Players))
			s.Players[i] = set(s.Players[i], pick(rng, plBools), pick(rng, boolPool))
		case 7, 8:
			if len(s.Players) == 0 {
				continue
			}
			i := rng.Intn(len(s.Players))
			s.Players[i] = set(s.Players[i], pick(rng, plOneofs), pick(rng, oneofPool))
		case 9:
			if len(s.Players) == 0 {
				continue
			}
			i := rng.Intn(len(s.Players))
			if rng.Intn(2) == 0 {
				s.Players[i] = del(s.Players[i], "player")
				if len(s.Players[i]) == 0 {
					s.Players[i] = []u.KV{kv("score", "1")}
				}
			} else {
				s.Players[i] = set(s.Players[i], "player", "")
			}
		case 10:
			if len(s.Objectives) == 0 {
				continue
			}
			i := rng.Intn(len(s.Objectives))
			if rng.Intn(3) == 0 {
				s.Objectives[i].V = []byte(pick(rng, intPool))
			} else {
				s.Objectives[i].V = []byte(pick(rng, oneofPool))
			}
		case 11: // a field name the structs do not know, or one that lands in the wrong map
			switch rng.Intn(3) {
			case 0:
				s.Fields = set(s.Fields, "version", "x")
			case 1:
				s.Fields = set(s.Fields, "name", "x")
			default:
				if len(s.Players) > 0 {
					i := rng.Intn(len(s.Players))
					s.Players[i] = set(s.Players[i], "hostname", "x")
				}
			}
		}
		return
	}
}

// encodeDp renders the status in a random dialect and fragmentation, fragments at random in a shuffled order;
// nil when a datagram would not fit the read buffer
func encodeDp(rng *rand.Rand, s u.Status) [][]byte {
	d := u.Dialects[rng.Intn(len(u.Dialects))]
	flat := s.Flat()
	var cuts []int
	if d != "vanilla" && d != "vanillaq" {
		n := 1 + rng.Intn(4)
		if len(s.Players) > 4 {
			n = 3 + rng.Intn(5)
		}
		cuts = u.RandCuts(rng, len(flat), n, d == "gs1" && rng.Intn(2) == 0)
	}
	ds := u.Encode(d, s, cuts)
	for _, x := range ds {
		if len(x) > u.MaxDgram {
			return nil
		}
	}
	if rng.Intn(3) == 0 {
		ds = shuffle(rng, ds)
	}
	return ds
}

func cloneStatus(s u.Status) u.Status {
	var c u.Status
	c.Fields = append([]u.KV{}, s.Fields...)
	for _, p := range s.Players {
		c.Players = append(c.Players, append([]u.KV{}, p...))
	}
	c.Objectives = append([]u.KV{}, s.Objectives...)
	return c
}

func genDp(rng *rand.Rand, tier core.Tier, emit core.Emit, streams [][][]byte) {
	k := 1
	if tier == core.Thorough {
		k = 12
	}
	dp := func(ds [][]byte) { emit("dp", tmo, u.JoinDgrams(ds)) }
	send := func(s u.Status) {
		for try := 0; try < 20; try++ {
			if ds := encodeDp(rng, s); ds != nil {
				dp(ds)
				return
			}
		}
		// too large for any drawn fragmentation: fewer players
		if len(s.Players) > 0 {
			s.Players = s.Players[:len(s.Players)/2]
			if ds := encodeDp(rng, s); ds != nil {
				dp(ds)
			}
		}
	}
	counts := func() (int, int) {
		switch rng.Intn(8) {
		case 0:
			return 0, 0
		case 1:
			return 5 + rng.Intn(12), rng.Intn(8)
		default:
			return rng.Intn(4), rng.Intn(4)
		}
	}
	// (a) accepted statuses as they are
	for i := 0; i < 40*k; i++ {
		np, no := counts()
		send(validStatus(rng, np, no))
	}
	// (b) every pool value once per kind of field
	one := func(f func(s *u.Status)) {
		s := validStatus(rng, 1+rng.Intn(3), 1+rng.Intn(3))
		f(&s)
		send(s)
	}
	for _, v := range ratioPool {
		for _, name := range infoRatios {
			one(func(s *u.Status) { s.Fields = set(s.Fields, name, v) })
		}
	}
	for _, v := range intPool {
		one(func(s *u.Status) { s.Fields = set(s.Fields, pick(rng, infoInts), v) })
		one(func(s *u.Status) { s.Fields = set(s.Fields, "hostport", v) })
		one(func(s *u.Status) { s.Players[0] = set(s.Players[0], pick(rng, plInts), v) })
		one(func(s *u.Status) { s.Objectives[0].V = []byte(v) })
	}
	for _, v := range boolPool {
		one(func(s *u.Status) { s.Fields = set(s.Fields, pick(rng, infoBools), v) })
		one(func(s *u.Status) { s.Players[0] = set(s.Players[0], pick(rng, plBools), v) })
	}
	for _, v := range oneofPool {
		one(func(s *u.Status) { s.Players[0] = set(s.Players[0], "team", v) })
		one(func(s *u.Status) { s.Players[0] = set(s.Players[0], "coopstatus", v) })
		one(func(s *u.Status) { i := rng.Intn(len(s.Objectives)); s.Objectives[i].V = []byte(v) })
	}
	for _, name := range append(append([]string{}, infoStrs...), "hostport") {
		one(func(s *u.Status) { s.Fields = del(s.Fields, name) })
		one(func(s *u.Status) { s.Fields = set(s.Fields, name, "") })
	}
	one(func(s *u.Status) { s.Players[0] = set(s.Players[0], "player", "") })
	one(func(s *u.Status) { s.Players[0] = []u.KV{kv("score", "3")} })
	// (c) one or two random mutations
	for i := 0; i < 260*k; i++ {
		np, no := counts()
		s := validStatus(rng, np, no)
		mutate(rng, &s)
		if rng.Intn(3) == 0 {
			mutate(rng, &s)
		}
		send(s)
	}
	// (d) the hostile streams of op q, a sample: decode failures and odd decodings go through the prober too
	for _, ds := range streams {
		dp(ds)
	}
}
