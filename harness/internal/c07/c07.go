// Package c07 drives the real gs1.Query against a scripted UDP responder with hostile datagram
// sequences (DESIGN.md §5 C07 "Correspondence").
//
//	C07 q <timeout_ms> <dgrams>       responder sends the datagrams in order, then stays silent
//	C07 flood <timeout_ms> <dgram>    responder repeats one datagram until the query returns
//	C07 dp <timeout_ms> <dgrams>      the real details prober against the same responder (dp.go)
//
// output (q, flood): resp <ver> <fields> <players> <objectives> | err:incomplete | err:malformed | timeout |
// err:other:<text> | panic:<text>, followed by `late` if Query outlived timeout+slack.
package c07

import (
	"github.com/sergeii/swat4master/pkg/gamespy/serverquery/gs1"
	"net/netip"
	"context"
	"strings"
	"fmt"
	"math/rand"
	"strconv"
	"time"

	"github.com/sergeii/swat4master/verifharness/internal/core"
	u "github.com/sergeii/swat4master/verifharness/internal/gs1util"
)

func init() {
	core.Register(&core.Prop{ID: "C07", Gen: gen, Exec: exec})
}

func exec(op string, args []string) []string {
	if op == "qdial" && len(args) == 1 {
		// qdial <ip:port>: a status query to an address the socket cannot even be connected to (the limited broadcast address
		// without SO_BROADCAST: EACCES; elsewhere: no route): no datagram is exchanged; the query must come back with an error
		ap, err := netip.ParseAddrPort(args[0])
		if err != nil {
			return []string{"bad-op"}
		}
		var qerr error
		txt, ok := core.Guard(func() { _, qerr = gs1.Query(context.Background(), ap, 150*time.Millisecond) })
		switch {
		case !ok:
			return []string{"panic:" + strings.ReplaceAll(txt, " ", "_")}
		case qerr != nil:
			return []string{"error"}
		default:
			return []string{"answered"}
		}
	}
	if len(args) != 2 {
		return []string{"bad-op"}
	}
	ms, err := strconv.Atoi(args[0])
	if err != nil || ms <= 0 {
		return []string{"bad-op"}
	}
	ds, err := u.SplitDgrams(args[1])
	if err != nil {
		return []string{"bad-op"}
	}
	timeout := time.Duration(ms) * time.Millisecond
	var run func() []string
	switch op {
	case "q":
		run = func() []string { return u.RunQuery(ds, timeout, false) }
	case "flood":
		if len(ds) != 1 {
			return []string{"bad-op"}
		}
		run = func() []string { return u.RunQuery(ds, timeout, true) }
	case "dp":
		run = func() []string { return runProbe(ds, timeout) }
	default:
		return []string{"bad-op"}
	}
	// a query that never returns must not take the whole shard with it: it is abandoned after hangLimit and reported
	// as `hung` (the goroutine is left behind), so that the case itself is the replay
	inner := run
	run = func() []string {
		ch := make(chan []string, 1)
		go func() { ch <- inner() }()
		select {
		case out := <-ch:
			return out
		case <-time.After(timeout + hangLimit):
			return []string{"hung", "late"}
		}
	}
	started := time.Now()
	out := run()
	if time.Since(started) > timeout+stallMargin && (len(out) == 0 || out[0] != "hung") {
		// the call took far longer than its timeout: either the machine stalled (all shards of a run show it at the
		// same moment; datagrams are then lost or read after the deadline) or the code really overran its deadline.
		// Once more: a real overrun reproduces and is reported (`late`), a stall does not.
		out = run()
	}
	return out
}

// stallMargin: a call that outlives its timeout by this much is repeated once (see exec).
const stallMargin = 500 * time.Millisecond

// hangLimit: how long past its timeout a call may run before it is given up as hung
const hangLimit = 8 * time.Second

const tmo = "150"

func clone(ds [][]byte) [][]byte {
	out := make([][]byte, len(ds))
	for i, d := range ds {
		out[i] = append([]byte{}, d...)
	}
	return out
}

// arbitrary bytes with a protocol-flavoured alphabet
func junk(rng *rand.Rand, n int) []byte {
	words := []string{"\\", "\\", "\\", "queryid", "final", "statusresponse", "eof", "1", "2", "0", "-1", "1.1", "_", "obj_",
		"obj", "a", "player_0", "x_", "_1", "\\final\\", "\\eof\\", "\\queryid\\", "\\statusresponse\\", "9223372036854775807", "+3", "\x00", "\xff"}
	var b []byte
	for len(b) < n {
		if rng.Intn(5) == 0 {
			b = append(b, core.RandBytes(rng, 1+rng.Intn(4))...)
		} else {
			b = append(b, words[rng.Intn(len(words))]...)
		}
	}
	return b
}

// valid response in a random dialect from the encoder, small enough for one read per datagram
func validResponse(rng *rand.Rand, maxPlayers, maxObjs, maxFrag int) [][]byte {
	for {
		s := u.RandStatus(rng, rng.Intn(maxPlayers+1), rng.Intn(maxObjs+1))
		d := u.Dialects[rng.Intn(len(u.Dialects))]
		flat := s.Flat()
		cuts := u.RandCuts(rng, len(flat), 1+rng.Intn(maxFrag), d == "gs1" && rng.Intn(2) == 0)
		ds := u.Encode(d, s, cuts)
		ok := true
		for _, x := range ds {
			if len(x) > u.MaxDgram {
				ok = false
			}
		}
		if ok {
			return ds
		}
	}
}

func shuffle(rng *rand.Rand, ds [][]byte) [][]byte {
	out := clone(ds)
	rng.Shuffle(len(out), func(i, j int) { out[i], out[j] = out[j], out[i] })
	return out
}

var mutBytes = []byte{'\\', '_', 0x00, '1', '0', '-', 0xff, 'a', '.', ' '}

func gen(rng *rand.Rand, tier core.Tier, emit core.Emit) {
	// a probe whose socket cannot be connected at all (limited broadcast without SO_BROADCAST; port 0)
	emit("qdial", "[fe80::1%nosuchif0]:10481") // connect: invalid argument (a link-local address without a usable zone)
	emit("qdial", "[ff02::1]:1")
	emit("qdial", "255.255.255.255:10481") // connects; the write is refused

	k := 1
	if tier == core.Thorough {
		k = 12
	}
	// every 10th stream of op q is replayed through the details prober (op dp) at the end
	var dpStreams [][][]byte
	nq := 0
	q := func(ds [][]byte) {
		emit("q", tmo, u.JoinDgrams(ds))
		if nq++; nq%10 == 0 {
			dpStreams = append(dpStreams, clone(ds))
		}
	}

	// (0) complete, well-formed responses whose player / objective indexes are anything an int can be: far apart, negative,
	// at the ends of the int64 range, repeated, with signs and leading zeros — decoding must cost time proportional to
	// the response, not to the numbers in it
	for _, ids := range [][]string{{"0", "4000000000000000"}, {"-9223372036854775808", "9223372036854775807"}, {"7", "0", "2"}, {"1000000", "999999"},
		{"0", "1", "3000000000"}, {"-1", "+1", "01"}, {"5"}, {"2147483647", "2147483648", "-2147483649"}, {"0", "0", "0"}, {"9223372036854775807"}} {
		for _, tail := range []string{"\\queryid\\1\\final\\", "\\final\\\\queryid\\1.1"} {
			var sb strings.Builder
			sb.WriteString("\\hostname\\Srv\\hostport\\10480\\gamevariant\\SWAT 4\\gamever\\1.1\\gametype\\CO-OP\\mapname\\M\\numplayers\\1\\maxplayers\\5")
			for j, id := range ids {
				fmt.Fprintf(&sb, "\\player_%s\\P%d\\score_%s\\%d", id, j, id, j)
			}
			sb.WriteString(tail)
			ds := [][]byte{[]byte(sb.String())}
			q(ds)
			emit("dp", tmo, u.JoinDgrams(ds))
		}
	}
	// (1) arbitrary bytes, 1..4 datagrams
	for i := 0; i < 250*k; i++ {
		n := 1 + rng.Intn(3)
		if rng.Intn(4) == 0 {
			n = 4
		}
		ds := make([][]byte, n)
		for j := range ds {
			switch rng.Intn(4) {
			case 0:
				ds[j] = core.RandBytes(rng, 1+rng.Intn(40))
			default:
				ds[j] = junk(rng, 1+rng.Intn(60))
			}
		}
		q(ds)
	}

	// (2) valid responses (encoder, all dialects; repository fixtures): as they are, shuffled,
	// every truncation of one fragment, single-byte mutations
	for i := 0; i < 40*k; i++ {
		ds := validResponse(rng, 16, 12, 8)
		q(ds)
		q(shuffle(rng, ds))
	}
	for _, fx := range u.Fixtures {
		if rng.Intn(3) == 0 || tier == core.Thorough {
			q(fx)
			q(shuffle(rng, fx))
		}
	}
	for i := 0; i < 3*k; i++ {
		var ds [][]byte
		if rng.Intn(3) == 0 {
			ds = clone(u.Fixtures[rng.Intn(len(u.Fixtures))])
		} else {
			ds = validResponse(rng, 3, 2, 3)
		}
		if len(ds) == 0 {
			continue
		}
		// every truncation of the fragment delivered last (the others complete the response)
		j := rng.Intn(len(ds))
		ds[j], ds[len(ds)-1] = ds[len(ds)-1], ds[j]
		full := ds[len(ds)-1]
		step := 1
		if len(full) > 160 && tier == core.Quick {
			step = 1 + len(full)/160
		}
		for cut := 0; cut < len(full); cut += step {
			t := clone(ds)
			t[len(t)-1] = full[:cut]
			q(t)
		}
		// the last 24 truncation points always, one by one
		for cut := len(full) - 1; cut >= 0 && cut >= len(full)-24; cut-- {
			t := clone(ds)
			t[len(t)-1] = full[:cut]
			q(t)
		}
	}
	for i := 0; i < 12*k; i++ {
		var ds [][]byte
		if rng.Intn(3) == 0 {
			ds = clone(u.Fixtures[rng.Intn(len(u.Fixtures))])
		} else {
			ds = validResponse(rng, 4, 3, 4)
		}
		if len(ds) == 0 {
			continue
		}
		for m := 0; m < 40; m++ {
			t := clone(ds)
			j := rng.Intn(len(t))
			if len(t[j]) == 0 {
				continue
			}
			var pos int
			switch rng.Intn(3) {
			case 0: // near the end: where the framing lives
				pos = len(t[j]) - 1 - rng.Intn(min(len(t[j]), 24))
			case 1: // near the start
				pos = rng.Intn(min(len(t[j]), 24))
			default:
				pos = rng.Intn(len(t[j]))
			}
			switch rng.Intn(4) {
			case 0: // delete a byte
				t[j] = append(t[j][:pos], t[j][pos+1:]...)
			case 1: // insert a byte
				t[j] = append(t[j][:pos], append([]byte{mutBytes[rng.Intn(len(mutBytes))]}, t[j][pos:]...)...)
			default:
				t[j][pos] = mutBytes[rng.Intn(len(mutBytes))]
			}
			q(t)
		}
	}

	// (3) names and values of length 0..3 at the very end of the reassembled payload
	shortNames := []string{"", "a", "ab", "abc", "o", "ob", "obj", "obj_", "obj_a", "_", "a_", "_1", "a_1", "a_b", "__", "_-1", "a_+"}
	shortVals := []string{"", "1", "xy", "abc"}
	heads := []string{"", "\\hostname\\x", "\\obj\\1", "\\a"}
	for _, h := range heads {
		for _, n := range shortNames {
			for _, v := range shortVals {
				if rng.Intn(3) != 0 && tier == core.Quick {
					continue
				}
				withV := "\\" + n + "\\" + v
				noV := "\\" + n
				for _, tail := range []string{withV, noV} {
					q([][]byte{[]byte(h + tail + "\\queryid\\1\\final\\")})
					q([][]byte{[]byte("\\statusresponse\\0" + h + tail + "\\final\\\\eof\\")})
					q([][]byte{[]byte("\\statusresponse\\0" + h + tail + "\\queryid\\AMv1\\final\\\\eof\\")})
					q([][]byte{[]byte(h + tail + "\\final\\\\queryid\\1.1")})
					q([][]byte{[]byte(h + "\\queryid\\1"), []byte(tail + "\\queryid\\2\\final\\")})
					q([][]byte{[]byte(tail + "\\queryid\\2\\final\\"), []byte(h + "\\queryid\\1")})
				}
			}
		}
	}

	// (4) empty datagrams at every position of short sequences
	for i := 0; i < 6*k; i++ {
		ds := validResponse(rng, 2, 1, 4)
		pos := rng.Intn(len(ds) + 1)
		t := append(clone(ds[:pos]), append([][]byte{{}}, clone(ds[pos:])...)...)
		q(t)
	}
	q([][]byte{{}})
	q([][]byte{})

	// (5) fragment numbers: duplicate, missing, zero, negative, huge; any arrival order
	nums := []string{"0", "1", "2", "3", "4", "-1", "-0", "+1", "+2", "01", "9223372036854775806", "9223372036854775807",
		"9223372036854775808", "-9223372036854775808", "18446744073709551616", "99999999999999999999", "1.1", "gs1", "", " 1", "1 ", "0x1"}
	for i := 0; i < 120*k; i++ {
		n := 1 + rng.Intn(4)
		ds := make([][]byte, n)
		am := rng.Intn(2) == 0
		for j := range ds {
			num := nums[rng.Intn(len(nums))]
			if rng.Intn(2) == 0 {
				num = strconv.Itoa(rng.Intn(n + 1))
			}
			body := "\\f" + strconv.Itoa(j) + "\\v" + strconv.Itoa(j)
			fin := ""
			if rng.Intn(3) == 0 || (j == n-1 && rng.Intn(2) == 0) {
				fin = "\\final\\"
			}
			if am {
				qid := ""
				if rng.Intn(2) == 0 {
					qid = "\\queryid\\AMv1"
				}
				ds[j] = []byte("\\statusresponse\\" + num + body + qid + fin + "\\eof\\")
			} else {
				ds[j] = []byte(body + "\\queryid\\" + num + fin)
			}
		}
		q(ds)
	}
	// all permutations (with one duplicate) of valid 2..4-fragment responses
	for i := 0; i < 2*k; i++ {
		var ds [][]byte
		for {
			ds = validResponse(rng, 3, 2, 4)
			if len(ds) >= 2 {
				break
			}
		}
		permute(ds, func(p [][]byte) { q(p) })
		dup := append(clone(ds), ds[rng.Intn(len(ds))])
		q(shuffle(rng, dup))
	}
	// mixed dialects in one stream
	for i := 0; i < 10*k; i++ {
		a := validResponse(rng, 2, 1, 3)
		b := validResponse(rng, 2, 1, 3)
		q(shuffle(rng, append(clone(a), clone(b)...)))
	}

	// (6) datagrams longer than the 2048-byte read buffer
	for i := 0; i < 3*k; i++ {
		pad := make([]byte, 2030+rng.Intn(40))
		for j := range pad {
			pad[j] = byte('a' + rng.Intn(26))
		}
		q([][]byte{[]byte("\\hostname\\" + string(pad) + "\\queryid\\1\\final\\")})
		q([][]byte{[]byte("\\hostname\\" + string(pad) + "\\final\\\\queryid\\1.1")})
	}

	// (7) a responder that never completes and floods
	emit("flood", tmo, core.Hex([]byte("\\hostname\\x\\queryid\\1")))
	emit("flood", tmo, core.Hex([]byte("\\statusresponse\\1\\a\\b\\eof\\")))
	if rng.Intn(2) == 0 {
		emit("flood", tmo, core.Hex(junk(rng, 20)))
	}

	// (8) the details prober on mostly-valid statuses with hostile values, and on a sample of the streams above
	genDp(rng, tier, emit, dpStreams)
}

func permute(ds [][]byte, f func([][]byte)) {
	var rec func(k int)
	a := clone(ds)
	rec = func(k int) {
		if k == len(a) {
			f(clone(a))
			return
		}
		for i := k; i < len(a); i++ {
			a[k], a[i] = a[i], a[k]
			rec(k + 1)
			a[k], a[i] = a[i], a[k]
		}
	}
	rec(0)
}
