package c17

import (
	"fmt"
	"math/rand"
	"reflect"
	"strconv"
	"strings"

	"github.com/sergeii/swat4master/internal/core/entities/details"
	ds "github.com/sergeii/swat4master/internal/core/entities/discovery/status"
	"github.com/sergeii/swat4master/verifharness/internal/core"
)

// ------------------------------------------------------------------ full records (extended state form)

// strings a server reports: game names, map names, ratios; slug.Make's special cases (& @ quotes dashes, leading and
// trailing dashes/underscores/white space, runs of separators), Latin-1 (the probe decoder's range) with its
// transliterations, code points beyond Latin-1 (outside the slug model: unidecode's table), astral code points (dropped)
var textPool = []string{
	"", " ", "SWAT 4", "SWAT 4X", "1.0", "1.1", "VIP Escort", "Barricaded Suspects", "CO-OP", "CO-OP QMM", "Rapid Deployment", "Smash And Grab",
	"A-Bomb Nightclub", "Food Wall Restaurant", "Qwik Fuel Convenience Store", "St. Michael's Medical Center", "-EXP- FunTime Amusements",
	"24/28", "0/0", "17/19", "-Ex-", "__x__", "_-_", "---", "a&b", "R&D", "me@home", "it's", "\"q\"", "a--b", "a - b", "a_b", "UPPER lower 123",
	"<b>", "[c=ff0000]red", "  trim me\t", "\ttab\n", "x y", " x ", "\u0085x", "Ärger Straße", "Café", "naïve café", "¡Olé!", "½ Life", "©®", "µ±°", "Þorn ð æ Æ ÿ",
	"x — y", "x–y", "‒―", "l’été", "日本", "Ā", "ſ", "😀", "a😀b", " ", "�", "a.b.c", "x/y\\z", "100%", "C++", "#1", "(1)", "a,b;c:d", "~tilde~", "\x00", "a\x7fb",
}

func randText(rng *rand.Rand) string {
	switch rng.Intn(8) {
	case 0: // Latin-1
		n := rng.Intn(12)
		rs := make([]rune, n)
		for i := range rs {
			rs[i] = rune(rng.Intn(0x100))
		}
		return string(rs)
	case 1: // printable ASCII
		n := rng.Intn(16)
		b := make([]byte, n)
		for i := range b {
			b[i] = byte(0x20 + rng.Intn(0x5f))
		}
		return string(b)
	case 2: // slug separators around words
		parts := []string{"-", "_", " ", "--", "&", "@", "'", "a", "B", "9", "é", " ", "—", "x y"}
		var sb strings.Builder
		for i, n := 0, rng.Intn(7); i < n; i++ {
			sb.WriteString(parts[rng.Intn(len(parts))])
		}
		return sb.String()
	default:
		return textPool[rng.Intn(len(textPool))]
	}
}

var edgeInts = []int64{0, 1, -1, 2, 255, 256, 65535, 65536, 2147483647, -2147483648, 2147483648, 9007199254740993, 9223372036854775807, -9223372036854775808, -9223372036854775807}

// a value for one int field: "valid" = small and different from field to field (base), so that a swap of two members shows
func randInt(rng *rand.Rand, valid bool, base int) int64 {
	if valid || rng.Intn(3) != 0 {
		return int64(base + rng.Intn(7))
	}
	return edgeInts[rng.Intn(len(edgeInts))]
}

// enum-like fields: the defined values, the first undefined ones on both sides, and far out
func randEnum(rng *rand.Rand, valid bool, defined int) int64 {
	if valid || rng.Intn(3) != 0 {
		return int64(rng.Intn(defined))
	}
	return []int64{-1, int64(defined), int64(defined) + 1, 7, 10, 255, -128, 2147483647, 9223372036854775807, -9223372036854775808}[rng.Intn(10)]
}

func encStr(s string) string {
	return core.Hex([]byte(strings.ToValidUTF8(s, "?")))
}

// the fields of a struct type in declaration order, encoded for the case line
func randFields(rng *rand.Rand, t reflect.Type, valid bool) string {
	toks := make([]string, t.NumField())
	for i := 0; i < t.NumField(); i++ {
		f := t.Field(i)
		switch f.Type.Kind() {
		case reflect.String:
			s := randText(rng)
			if valid && s == "" {
				s = "x" + strconv.Itoa(i)
			}
			if f.Name == "Hostname" && rng.Intn(2) == 0 {
				s = randHostname(rng)
			}
			toks[i] = encStr(s)
		case reflect.Bool:
			toks[i] = strconv.Itoa(rng.Intn(2))
		case reflect.Int, reflect.Int8, reflect.Int16, reflect.Int32, reflect.Int64:
			switch f.Name {
			case "Team":
				toks[i] = strconv.FormatInt(randEnum(rng, valid, 3), 10)
			case "CoopStatus":
				toks[i] = strconv.FormatInt(randEnum(rng, valid, 5), 10)
			case "Status":
				toks[i] = strconv.FormatInt(randEnum(rng, valid, 3), 10)
			case "TimeLeft":
				if rng.Intn(4) == 0 {
					toks[i] = strconv.Itoa(-rng.Intn(900))
					break
				}
				fallthrough
			default:
				toks[i] = strconv.FormatInt(randInt(rng, valid, 10*(i+1)), 10)
			}
		default:
			toks[i] = "?"
		}
	}
	return strings.Join(toks, ",")
}

var (
	tInfo      = reflect.TypeOf(details.Info{})
	tPlayer    = reflect.TypeOf(details.Player{})
	tObjective = reflect.TypeOf(details.Objective{})
)

// fullState: an extended record state for the given address; withDetails forces the details bit
func fullState(rng *rand.Rand, ip string, port int, withDetails bool) string {
	valid := rng.Intn(3) != 0
	status := randStatus(rng)
	if withDetails {
		status |= int(ds.Details)
	}
	qp := port + 1
	if rng.Intn(4) == 0 {
		qp = 1 + rng.Intn(65535)
	}
	players, objectives := "-", "-"
	if n := []int{0, 0, 1, 2, 3, 5, 16}[rng.Intn(7)]; n > 0 {
		ps := make([]string, n)
		for i := range ps {
			ps[i] = randFields(rng, tPlayer, valid)
		}
		players = strings.Join(ps, ";")
	}
	if n := []int{0, 0, 1, 2, 4, 9}[rng.Intn(6)]; n > 0 {
		os := make([]string, n)
		for i := range os {
			os[i] = randFields(rng, tObjective, valid)
		}
		objectives = strings.Join(os, ";")
	}
	return fmt.Sprintf("P:%s:%d:%d:%d:%s:%s:%s:%d", ip, port, status, qp, randFields(rng, tInfo, valid), players, objectives, rng.Intn(3))
}

// one field set to a chosen value, everything else valid: the enum renderings and integer edges, one at a time
func fixedFields(rng *rand.Rand, t reflect.Type, name, value string) string {
	toks := strings.Split(randFields(rng, t, true), ",")
	for i := 0; i < t.NumField(); i++ {
		if t.Field(i).Name == name {
			toks[i] = value
		}
	}
	return strings.Join(toks, ",")
}

func genFull(rng *rand.Rand, tier core.Tier, emit core.Emit) {
	scale := 1
	if tier == core.Thorough {
		scale = 30
	}
	const ip, port = "1.1.1.1", 10480
	view := func(st string) { emit("view", st, hx(fmt.Sprintf("%s:%d", ip, port))) }
	add := func(st string) { emit("add-ip", st, hx(ip), strconv.Itoa(port)) }
	// every value of the three enum-like fields around their defined range, through the detail view
	for v := -2; v <= 6; v++ {
		for _, name := range []string{"Team", "CoopStatus"} {
			st := fmt.Sprintf("P:%s:%d:8:%d:%s:%s:-:0", ip, port, port+1, randFields(rng, tInfo, true), fixedFields(rng, tPlayer, name, strconv.Itoa(v)))
			view(st)
		}
		st := fmt.Sprintf("P:%s:%d:8:%d:%s:-:%s:0", ip, port, port+1, randFields(rng, tInfo, true), fixedFields(rng, tObjective, "Status", strconv.Itoa(v)))
		view(st)
	}
	// every int field of Info and Player at every edge value
	for _, e := range edgeInts {
		for i := 0; i < tInfo.NumField(); i++ {
			if k := tInfo.Field(i).Type.Kind(); k == reflect.Int {
				st := fmt.Sprintf("P:%s:%d:8:%d:%s:-:-:2", ip, port, port+1, fixedFields(rng, tInfo, tInfo.Field(i).Name, strconv.FormatInt(e, 10)))
				if i%2 == 0 {
					view(st)
				} else {
					add(st)
				}
			}
		}
		if tier == core.Thorough || e == 0 || e == -1 || e == 9223372036854775807 || e == -9223372036854775808 {
			for i := 0; i < tPlayer.NumField(); i++ {
				if k := tPlayer.Field(i).Type.Kind(); k == reflect.Int {
					view(fmt.Sprintf("P:%s:%d:8:%d:%s:%s:-:1", ip, port, port+1, randFields(rng, tInfo, true), fixedFields(rng, tPlayer, tPlayer.Field(i).Name, strconv.FormatInt(e, 10))))
				}
			}
		}
	}
	// every pool text as game type and map name (the two slugged members) and as a player / objective name
	for _, s := range textPool {
		inf := fixedFields(rng, tInfo, "GameType", encStr(s))
		inf2 := strings.Split(inf, ",")
		for i := 0; i < tInfo.NumField(); i++ {
			if tInfo.Field(i).Name == "MapName" {
				inf2[i] = encStr(textPool[rng.Intn(len(textPool))])
			}
		}
		view(fmt.Sprintf("P:%s:%d:8:%d:%s:%s:%s:0", ip, port, port+1, strings.Join(inf2, ","),
			fixedFields(rng, tPlayer, "Name", encStr(s)), fixedFields(rng, tObjective, "Name", encStr(s))))
		add(fmt.Sprintf("P:%s:%d:8:%d:%s:-:-:2", ip, port, port+1, fixedFields(rng, tInfo, "MapName", encStr(s))))
	}
	// random full records: mostly with the details bit (200), through view and add, at random routable addresses too
	for i := 0; i < 350*scale; i++ {
		rip, rport := ip, port
		if rng.Intn(3) == 0 {
			rip, rport = randIP(rng), 1025+rng.Intn(65535-1025+1)
		}
		st := fullState(rng, rip, rport, rng.Intn(8) != 0)
		if rng.Intn(2) == 0 {
			emit("view", st, hx(fmt.Sprintf("%s:%d", rip, rport)))
		} else {
			emit("add-ip", st, hx(rip), strconv.Itoa(rport))
		}
	}
	genList(rng, scale, emit)
}

// ------------------------------------------------------------------ listing

// values for the three flags: strconv.ParseBool's accepted spellings, the empty value, and rejected ones (⇒ 400)
var boolTexts = []string{"1", "t", "T", "TRUE", "true", "True", "0", "f", "F", "FALSE", "false", "False", "", "yes", "2", "tRUE", " 1", "on", "-1", "１"}

// boundaryListing: five listed records, one at each boundary of the three flags (empty, one player, full, one short of
// full, passworded), under every combination of the flags
func boundaryListing(rng *rand.Rand, emit core.Emit) {
	mk := func(d int, num, max int, pw string) string {
		f := strings.Split(fullState(rng, fmt.Sprintf("1.1.1.%d", d), 10480, false), ":")
		f[3] = strconv.Itoa(int(ds.Info))
		inf := strings.Split(f[5], ",")
		inf[fieldIndex(tInfo, "NumPlayers")] = strconv.Itoa(num)
		inf[fieldIndex(tInfo, "MaxPlayers")] = strconv.Itoa(max)
		inf[fieldIndex(tInfo, "Password")] = pw
		f[5] = strings.Join(inf, ",")
		return strings.Join(f, ":") + "@0"
	}
	for k := 0; k < 8; k++ {
		items := []string{mk(1, 0, 16, "0"), mk(2, 1, 16, "0"), mk(3, 16, 16, "0"), mk(4, 15, 16, "0"), mk(5, 3, 16, "1"), mk(6, -1, 0, "0"), mk(7, 0, 0, "1"), mk(8, 17, 16, "0")}
		flag := func(bit int) string {
			if k&bit != 0 {
				return encStr([]string{"1", "true", "T"}[rng.Intn(3)])
			}
			return []string{"~", encStr("0"), encStr("")}[rng.Intn(3)]
		}
		emit("list", strings.Join(items, "|"), "~", "~", "~", flag(1), flag(2), flag(4))
	}
}

func genList(rng *rand.Rand, scale int, emit core.Emit) {
	ages := []string{"0", "1", "60", "179", "180", "181", "3600", "-5", "z"}
	for i := 0; i < scale; i++ {
		boundaryListing(rng, emit)
	}
	for i := 0; i < 110*scale; i++ {
		n := []int{0, 1, 1, 2, 2, 3, 3, 4, 6}[rng.Intn(9)]
		items := make([]string, 0, n)
		var infos [][]string
		seen := map[string]bool{}
		for len(items) < n {
			rip, rport := randIP(rng), 1025+rng.Intn(65535-1025+1)
			if rng.Intn(2) == 0 {
				rip = fmt.Sprintf("1.1.1.%d", 1+rng.Intn(9))
			}
			key := fmt.Sprintf("%s:%d", rip, rport)
			if seen[key] {
				continue
			}
			seen[key] = true
			f := strings.Split(fullState(rng, rip, rport, false), ":")
			if rng.Intn(4) != 0 { // mostly listed: the info bit
				w, _ := strconv.Atoi(f[3])
				f[3] = strconv.Itoa(w | int(ds.Info))
			}
			inf := strings.Split(f[5], ",")
			if rng.Intn(3) == 0 { // a full server, an empty one
				inf[fieldIndex(tInfo, "NumPlayers")] = inf[fieldIndex(tInfo, "MaxPlayers")]
			} else if rng.Intn(3) == 0 {
				inf[fieldIndex(tInfo, "NumPlayers")] = []string{"0", "-1", "1"}[rng.Intn(3)]
			}
			f[5] = strings.Join(inf, ",")
			infos = append(infos, inf)
			age := "0"
			if rng.Intn(3) == 0 {
				age = ages[rng.Intn(len(ages))]
			}
			items = append(items, strings.Join(f, ":")+"@"+age)
		}
		// parameters: absent mostly; a string filter equal to some record's value, a near miss, or any text
		params := make([]string, 6)
		for k, name := range []string{"GameVariant", "GameVersion", "GameType"} {
			params[k] = "~"
			switch rng.Intn(12) {
			case 0, 3:
				if len(infos) > 0 {
					params[k] = infos[rng.Intn(len(infos))][fieldIndex(tInfo, name)]
				}
			case 1:
				if len(infos) > 0 {
					b := core.MustUnHex(infos[rng.Intn(len(infos))][fieldIndex(tInfo, name)])
					params[k] = encStr(strings.ToLower(string(b)) + []string{"", " ", "x"}[rng.Intn(3)])
				}
			case 2:
				params[k] = encStr(randText(rng))
			}
		}
		for k := 3; k < 6; k++ {
			params[k] = "~"
			if rng.Intn(3) == 0 {
				params[k] = encStr(boolTexts[rng.Intn(13)]) // accepted spellings, empty
				if rng.Intn(8) == 0 {
					params[k] = encStr(boolTexts[rng.Intn(len(boolTexts))])
				}
			}
		}
		tok := "-"
		if len(items) > 0 {
			tok = strings.Join(items, "|")
		}
		emit("list", append([]string{tok}, params...)...)
	}
}

func fieldIndex(t reflect.Type, name string) int {
	for i := 0; i < t.NumField(); i++ {
		if t.Field(i).Name == name {
			return i
		}
	}
	panic("no field " + name)
}
