package c17

import (
	"fmt"
	"go/ast"
	"go/parser"
	"go/token"
	"io"
	"path/filepath"
	"reflect"
	"strconv"

	"github.com/sergeii/swat4master/internal/core/entities/details"
	ds "github.com/sergeii/swat4master/internal/core/entities/discovery/status"
	"github.com/sergeii/swat4master/internal/core/entities/probe"
	"github.com/sergeii/swat4master/internal/core/entities/server"
	"github.com/sergeii/swat4master/internal/rest/api"
	"github.com/sergeii/swat4master/internal/rest/model"
	"github.com/sergeii/swat4master/verifharness/internal/facts"
)

// Facts the C17 model relies on, regenerated from the source on every run:
//   - the binding tags of model.NewServer (reflection),
//   - the discovery status bits the REST handlers look at and probe.GoalPort (compiled constants),
//   - every string literal of pkg/swat/styles/styles.go in source order (go/ast): the four regular
//     expressions, the span template and the empty replacements,
//   - the json tags, Go field names and kinds of model.Server, model.ServerPlayer, model.ServerObjective and
//     model.ServerDetail and the form tags of api.ServerFilterForm, in field order (reflection),
//   - the String() renderings of PlayerTeam, PlayerCoopStatus, ObjectiveStatus for -2..8 (compiled methods),
//   - slug.Make as model.NewServerFromDomain applies it, observed through that function: the image of "x<c>y" for
//     every code point c of Latin-1 and for the five code points of slug's defaultSub beyond Latin-1, and of a few
//     whole strings (trimming, collapsing, no length limit).
func jsonTags(w io.Writer, name string, t reflect.Type) {
	var tags, fields, kinds []string
	for i := 0; i < t.NumField(); i++ {
		f := t.Field(i)
		tags = append(tags, f.Tag.Get("json"))
		fields = append(fields, f.Name)
		kinds = append(kinds, f.Type.Kind().String())
	}
	fmt.Fprintf(w, "def rest%sJsonTags : List String := %s\n", name, facts.LeanStrList(tags))
	fmt.Fprintf(w, "def rest%sGoFields : List String := %s\n", name, facts.LeanStrList(fields))
	fmt.Fprintf(w, "def rest%sKinds : List String := %s\n", name, facts.LeanStrList(kinds))
}

func slugOf(s string) string {
	return model.NewServerFromDomain(server.Server{Info: details.Info{GameType: s}}).GameTypeSlug
}

func init() {
	facts.Add("c17rest", func(w io.Writer, repo string) error {
		t := reflect.TypeOf(model.NewServer{})
		for i := 0; i < t.NumField(); i++ {
			f := t.Field(i)
			fmt.Fprintf(w, "def restNewServer%sBinding : String := %s\n", f.Name, facts.LeanStr(f.Tag.Get("binding")))
			fmt.Fprintf(w, "def restNewServer%sJson : String := %s\n", f.Name, facts.LeanStr(f.Tag.Get("json")))
			fmt.Fprintf(w, "def restNewServer%sKind : String := %s\n", f.Name, facts.LeanStr(f.Type.Kind().String()))
		}
		fmt.Fprintf(w, "def restNewServerNumField : Nat := %d\n", t.NumField())
		fmt.Fprintf(w, "def restDsInfo : Nat := %d\n", int(ds.Info))
		fmt.Fprintf(w, "def restDsNew : Nat := %d\ndef restDsDetails : Nat := %d\ndef restDsDetailsRetry : Nat := %d\ndef restDsPortRetry : Nat := %d\ndef restDsNoPort : Nat := %d\n",
			int(ds.New), int(ds.Details), int(ds.DetailsRetry), int(ds.PortRetry), int(ds.NoPort))
		fmt.Fprintf(w, "def restGoalPort : Nat := %d\n", int(probe.GoalPort))

		fset := token.NewFileSet()
		file, err := parser.ParseFile(fset, filepath.Join(repo, "pkg", "swat", "styles", "styles.go"), nil, 0)
		if err != nil {
			return err
		}
		var lits []string
		ast.Inspect(file, func(n ast.Node) bool {
			if _, ok := n.(*ast.ImportSpec); ok {
				return false
			}
			if bl, ok := n.(*ast.BasicLit); ok && bl.Kind == token.STRING {
				if s, err := strconv.Unquote(bl.Value); err == nil {
					lits = append(lits, s)
				}
			}
			return true
		})
		fmt.Fprintf(w, "def stylesStringLiterals : List String := %s\n", facts.LeanStrList(lits))

		jsonTags(w, "Server", reflect.TypeOf(model.Server{}))
		jsonTags(w, "ServerPlayer", reflect.TypeOf(model.ServerPlayer{}))
		jsonTags(w, "ServerObjective", reflect.TypeOf(model.ServerObjective{}))
		jsonTags(w, "ServerDetail", reflect.TypeOf(model.ServerDetail{}))
		ft := reflect.TypeOf(api.ServerFilterForm{})
		var forms, fkinds []string
		for i := 0; i < ft.NumField(); i++ {
			forms = append(forms, ft.Field(i).Tag.Get("form"))
			fkinds = append(fkinds, ft.Field(i).Type.Kind().String())
		}
		fmt.Fprintf(w, "def restFilterFormTags : List String := %s\n", facts.LeanStrList(forms))
		fmt.Fprintf(w, "def restFilterFormKinds : List String := %s\n", facts.LeanStrList(fkinds))

		var teams, coops, objs []string
		for v := -2; v <= 8; v++ {
			teams = append(teams, details.PlayerTeam(v).String())
			coops = append(coops, details.PlayerCoopStatus(v).String())
			objs = append(objs, details.ObjectiveStatus(v).String())
		}
		fmt.Fprintf(w, "/-- String() of the values -2..8 -/\n")
		fmt.Fprintf(w, "def restTeamStrings : List String := %s\n", facts.LeanStrList(teams))
		fmt.Fprintf(w, "def restCoopStatusStrings : List String := %s\n", facts.LeanStrList(coops))
		fmt.Fprintf(w, "def restObjectiveStatusStrings : List String := %s\n", facts.LeanStrList(objs))

		var latin1 []string
		for c := 0; c < 0x100; c++ {
			latin1 = append(latin1, slugOf("x"+string(rune(c))+"y"))
		}
		fmt.Fprintf(w, "/-- gametype_slug for the game type \"x<c>y\", c = U+0000..U+00FF -/\n")
		fmt.Fprintf(w, "def restSlugLatin1 : List String := %s\n", facts.LeanStrList(latin1))
		var special []string
		for _, c := range []rune{0x2012, 0x2013, 0x2014, 0x2015, 0x2019, 0x10000, 0x1F600} {
			special = append(special, slugOf("x"+string(c)+"y"))
		}
		fmt.Fprintf(w, "/-- the same for U+2012..U+2015, U+2019, U+10000, U+1F600 -/\n")
		fmt.Fprintf(w, "def restSlugSpecial : List String := %s\n", facts.LeanStrList(special))
		var whole []string
		for _, s := range slugProbes {
			whole = append(whole, slugOf(s))
		}
		fmt.Fprintf(w, "def restSlugProbes : List String := %s\n", facts.LeanStrList(slugProbes))
		fmt.Fprintf(w, "def restSlugProbeResults : List String := %s\n", facts.LeanStrList(whole))
		return nil
	})
}

// whole strings through slug.Make: white space and separators at the ends, runs, the spelled-out characters, quotes,
// a string longer than any plausible MaxLength (no truncation), underscores (kept inside, trimmed at the ends)
var slugProbes = []string{
	"", "  VIP Escort\t", "-Ex-", "__x__", "_-_", "a--b", "a - b", "a_b", "R&D", "me@home", "it's \"q\"", "CO-OP QMM",
	"Qwik Fuel Convenience Store", "\u00a0x\u00a0", "0123456789 0123456789 0123456789 0123456789 0123456789 0123456789 0123456789 0123456789",
	"In Progress", "Incapacitated", "-3", "unknown",
}
