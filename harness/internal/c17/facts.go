package c17

import (
	"fmt"
	"go/ast"
	"go/parser"
	"go/token"
	"io"
	"path/filepath"
	"reflect"
	"strconv"

	ds "github.com/sergeii/swat4master/internal/core/entities/discovery/status"
	"github.com/sergeii/swat4master/internal/core/entities/probe"
	"github.com/sergeii/swat4master/internal/rest/model"
	"github.com/sergeii/swat4master/verifharness/internal/facts"
)

// Facts the C17 model relies on, regenerated from the source on every run:
//   - the binding tags of model.NewServer (reflection),
//   - the discovery status bits the REST handlers look at and probe.GoalPort (compiled constants),
//   - every string literal of pkg/swat/styles/styles.go in source order (go/ast): the four regular
//     expressions, the span template and the empty replacements.
func init() {
	facts.Add("c17rest", func(w io.Writer, repo string) error {
		t := reflect.TypeOf(model.NewServer{})
		for i := 0; i < t.NumField(); i++ {
			f := t.Field(i)
			fmt.Fprintf(w, "def restNewServer%sBinding : String := %s\n", f.Name, facts.LeanStr(f.Tag.Get("binding")))
			fmt.Fprintf(w, "def restNewServer%sJson : String := %s\n", f.Name, facts.LeanStr(f.Tag.Get("json")))
			fmt.Fprintf(w, "def restNewServer%sKind : String := %s\n", f.Name, facts.LeanStr(f.Type.Kind().String()))
		}
		fmt.Fprintf(w, "def restNewServerNumField : Nat := %d\n", t.NumField())
		fmt.Fprintf(w, "def restDsNew : Nat := %d\ndef restDsDetails : Nat := %d\ndef restDsDetailsRetry : Nat := %d\ndef restDsPortRetry : Nat := %d\ndef restDsNoPort : Nat := %d\n",
			int(ds.New), int(ds.Details), int(ds.DetailsRetry), int(ds.PortRetry), int(ds.NoPort))
		fmt.Fprintf(w, "def restGoalPort : Nat := %d\n", int(probe.GoalPort))

		fset := token.NewFileSet()
		file, err := parser.ParseFile(fset, filepath.Join(repo, "pkg", "swat", "styles", "styles.go"), nil, 0)
		if err != nil {
			return err
		}
		var lits []string
		ast.Inspect(file, func(n ast.Node) bool {
			if _, ok := n.(*ast.ImportSpec); ok {
				return false
			}
			if bl, ok := n.(*ast.BasicLit); ok && bl.Kind == token.STRING {
				if s, err := strconv.Unquote(bl.Value); err == nil {
					lits = append(lits, s)
				}
			}
			return true
		})
		fmt.Fprintf(w, "def stylesStringLiterals : List String := %s\n", facts.LeanStrList(lits))
		return nil
	})
}
