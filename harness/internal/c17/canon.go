package c17

import (
	"bytes"
	"encoding/hex"
	"encoding/json"
	"errors"
	"io"
	"sort"
	"strings"
)

// canonBody renders a response body as ONE space-free token, losslessly as far as JSON goes:
//
//	~                 empty body
//	raw:<hex>         not (exactly one) JSON value
//	otherwise the value, in document order (nothing is sorted, duplicate keys stay):
//	  object  {<key>:<value>,<key>:<value>}     key: the name itself if it matches [A-Za-z0-9_]+, else #<hex>
//	  array   [<value>,<value>]
//	  string  s<hex of the decoded string>      ("s" alone = empty string)
//	  number  n<the literal as written>         (json.Number: no float conversion)
//	  true t, false f, null z
//
// A member the model does not know (an ADDED field), a missing, renamed or reordered one, a null instead of an array:
// all show up as a different token.
func canonBody(body []byte) string {
	if len(bytes.TrimSpace(body)) == 0 {
		return "~"
	}
	dec := json.NewDecoder(bytes.NewReader(body))
	dec.UseNumber()
	var sb strings.Builder
	if err := canonValue(dec, &sb); err != nil {
		return "raw:" + hex.EncodeToString(body)
	}
	if _, err := dec.Token(); !errors.Is(err, io.EOF) {
		return "raw:" + hex.EncodeToString(body)
	}
	return sb.String()
}

// sortTopArray sorts the elements of a top-level array of objects: the listing's order is the iteration order of a
// Go map (pkg/slice.Intersection over the index lookups), so it differs from run to run and means nothing.
func sortTopArray(tok string) string {
	if !strings.HasPrefix(tok, "[{") || !strings.HasSuffix(tok, "}]") {
		return tok
	}
	var elems []string
	depth, start := 0, 1
	for i := 1; i < len(tok)-1; i++ {
		switch tok[i] {
		case '{', '[':
			depth++
		case '}', ']':
			depth--
		case ',':
			if depth == 0 {
				elems = append(elems, tok[start:i])
				start = i + 1
			}
		}
	}
	elems = append(elems, tok[start:len(tok)-1])
	sort.Strings(elems)
	return "[" + strings.Join(elems, ",") + "]"
}

func plainKey(k string) bool {
	if k == "" {
		return false
	}
	for i := 0; i < len(k); i++ {
		c := k[i]
		if !(c >= 'a' && c <= 'z' || c >= 'A' && c <= 'Z' || c >= '0' && c <= '9' || c == '_') {
			return false
		}
	}
	return true
}

func canonValue(dec *json.Decoder, sb *strings.Builder) error {
	tok, err := dec.Token()
	if err != nil {
		return err
	}
	switch v := tok.(type) {
	case json.Delim:
		switch v {
		case '{':
			sb.WriteByte('{')
			for first := true; dec.More(); first = false {
				if !first {
					sb.WriteByte(',')
				}
				kt, err := dec.Token()
				if err != nil {
					return err
				}
				k, ok := kt.(string)
				if !ok {
					return errors.New("object key is not a string")
				}
				if plainKey(k) {
					sb.WriteString(k)
				} else {
					sb.WriteString("#" + hex.EncodeToString([]byte(k)))
				}
				sb.WriteByte(':')
				if err := canonValue(dec, sb); err != nil {
					return err
				}
			}
			if _, err := dec.Token(); err != nil { // '}'
				return err
			}
			sb.WriteByte('}')
		case '[':
			sb.WriteByte('[')
			for first := true; dec.More(); first = false {
				if !first {
					sb.WriteByte(',')
				}
				if err := canonValue(dec, sb); err != nil {
					return err
				}
			}
			if _, err := dec.Token(); err != nil { // ']'
				return err
			}
			sb.WriteByte(']')
		default:
			return errors.New("unexpected delimiter")
		}
	case string:
		sb.WriteString("s" + hex.EncodeToString([]byte(v)))
	case json.Number:
		sb.WriteString("n" + v.String())
	case bool:
		if v {
			sb.WriteByte('t')
		} else {
			sb.WriteByte('f')
		}
	case nil:
		sb.WriteByte('z')
	default:
		return errors.New("unexpected token")
	}
	return nil
}
