// Package c17 drives the REST API (real gin router over the real use cases and repositories),
// pkg/swat/styles and internal/core/entities/addr.
//
// Input lines:
//
//	add    <state> <bodyhex>          POST /api/servers with this body (application/json)
//	add-ip <state> <iphex> <port>     POST /api/servers with {"ip":"<ip>","port":<port>}
//	view   <state> <addrhex>          GET  /api/servers/<addr>
//	list   <items> <gamevariant> <gamever> <gametype> <nopassworded> <nofull> <noempty>
//	                                  GET  /api/servers?…; <items> = "-" | <state>@<age> joined by "|" (record.go);
//	                                  each parameter "~" (absent) or the hex of its value ("-" = present and empty)
//	html   <hostnamehex>              styles.ToHTML
//	clean  <hostnamehex>              styles.Clean
//	addr   <stringhex>                addr.NewFromString + addr.NewPublicAddr
//
// <state> = "absent" | "p:<a.b.c.d>:<port>:<statusword>:<queryport>:<hostnamehex>" | "P:…" (extended form with
// a full details value, see record.go): a record planted through the real servers repository before the request
// (no address validation: addr.NewForTesting).
//
// Output of add / add-ip / view / list:  <http status> <hostname_html hex|~> <hostname_plain hex|~> <effect> <body>
// <body> = the whole response body as one canonical token (canon.go): every member, in document order.
// <effect> = "none" when the canonical keyspace dump is unchanged, else items joined by "+":
//
//	new:<addr>,<queryport>,<status>   record created        upd:<addr>,<queryport>,<status>  record rewritten
//	del:<addr>                        record removed        probe:<addr>,<port>,<goal>,<retries>,<max>  probe queued
//	unprobe:<…>                       probe removed         x:<n>  other changed lines (locks, instances, unknown keys)
//
// Output of html / clean: <hex>.   Output of addr: ok <a.b.c.d> <port> | err-ip | err-port | err-public | err-other
package c17

import (
	"bytes"
	"encoding/json"
	"errors"
	"fmt"
	"io"
	"math/rand"
	"net"
	"net/http"
	"net/http/httptest"
	"net/url"
	"sort"
	"strconv"
	"strings"

	"github.com/gin-gonic/gin"

	"github.com/sergeii/swat4master/internal/core/entities/addr"
	ds "github.com/sergeii/swat4master/internal/core/entities/discovery/status"
	"github.com/sergeii/swat4master/pkg/swat/styles"
	"github.com/sergeii/swat4master/verifharness/internal/core"
	"github.com/sergeii/swat4master/verifharness/internal/world"
)

func init() {
	// gin.Default() attaches the request logger to gin.DefaultWriter (stdout) at router creation;
	// stdout is the line protocol
	gin.DefaultWriter = io.Discard
	gin.DefaultErrorWriter = io.Discard
	core.Register(&core.Prop{ID: "C17", Gen: gen, Exec: exec})
}

var (
	theWorld *world.World
	theProc  *world.Proc
)

// one world per harness process; the keyspace is flushed before every case
func proc() (*world.World, *world.Proc) {
	if theWorld == nil {
		theWorld = world.New(world.DefaultOptions())
		theProc = theWorld.NewProc()
	}
	theWorld.MR.FlushAll()
	return theWorld, theProc
}

func exec(op string, args []string) (out []string) {
	if txt, ok := core.Guard(func() { out = exec1(op, args) }); !ok {
		return []string{"panic:" + txt}
	}
	return out
}

func exec1(op string, args []string) []string {
	switch op {
	case "html":
		if len(args) != 1 {
			return []string{"bad-op"}
		}
		return []string{core.Hex([]byte(styles.ToHTML(string(core.MustUnHex(args[0])))))}
	case "clean":
		if len(args) != 1 {
			return []string{"bad-op"}
		}
		return []string{core.Hex([]byte(styles.Clean(string(core.MustUnHex(args[0])))))}
	case "addr":
		if len(args) != 1 {
			return []string{"bad-op"}
		}
		return execAddr(string(core.MustUnHex(args[0])))
	case "add":
		if len(args) != 2 {
			return []string{"bad-op"}
		}
		body := core.MustUnHex(args[1])
		req := httptest.NewRequest(http.MethodPost, "/api/servers", bytes.NewReader(body))
		req.Header.Set("Content-Type", "application/json")
		return execHTTP(args[0], req)
	case "add-ip":
		if len(args) != 3 {
			return []string{"bad-op"}
		}
		ipb, _ := json.Marshal(string(core.MustUnHex(args[1])))
		body := fmt.Sprintf(`{"ip":%s,"port":%s}`, ipb, args[2])
		req := httptest.NewRequest(http.MethodPost, "/api/servers", strings.NewReader(body))
		req.Header.Set("Content-Type", "application/json")
		return execHTTP(args[0], req)
	case "view":
		if len(args) != 2 {
			return []string{"bad-op"}
		}
		req := httptest.NewRequest(http.MethodGet, "/api/servers/x", nil)
		// gin routes on URL.Path (UseRawPath is off), so the parameter is exactly this string
		req.URL.Path = "/api/servers/" + string(core.MustUnHex(args[1]))
		req.URL.RawPath = ""
		return execHTTP(args[0], req)
	case "viewraw":
		// <state> <address> <wire>: the same request as `view`, as it arrives on the wire: <wire> is a spelling of the
		// address with percent-escapes (an HTTP client may escape any byte); net/http parses it as it does for a real request
		if len(args) != 3 {
			return []string{"bad-op"}
		}
		var req *http.Request
		if txt, ok := core.Guard(func() { req = httptest.NewRequest(http.MethodGet, "/api/servers/"+string(core.MustUnHex(args[2])), nil) }); !ok {
			return []string{"bad-wire:" + txt}
		}
		return execHTTP(args[0], req)
	case "list":
		if len(args) != 7 {
			return []string{"bad-op"}
		}
		return execList(args[0], args[1:])
	}
	return []string{"bad-op"}
}

func execAddr(s string) []string {
	a, err := addr.NewFromString(s)
	if err != nil {
		switch {
		case errors.Is(err, addr.ErrInvalidIP):
			return []string{"err-ip"}
		case errors.Is(err, addr.ErrInvalidPort):
			return []string{"err-port"}
		}
		return []string{"err-other"}
	}
	pa, err := addr.NewPublicAddr(a)
	if err != nil {
		if errors.Is(err, addr.ErrInvalidPublicIP) {
			return []string{"err-public"}
		}
		return []string{"err-other"}
	}
	return []string{"ok", pa.ToAddr().GetDottedIP(), strconv.Itoa(pa.ToAddr().Port)}
}

func execHTTP(state string, req *http.Request) []string {
	w, p := proc()
	if err := plant(p, state); err != nil {
		return []string{"bad-state:" + strings.ReplaceAll(err.Error(), " ", "_")}
	}
	before := w.Dump()
	rec := httptest.NewRecorder()
	p.Router.ServeHTTP(rec, req)
	after := w.Dump()
	html, plain := "~", "~"
	var doc map[string]any
	if json.Unmarshal(rec.Body.Bytes(), &doc) == nil {
		if info, ok := doc["info"].(map[string]any); ok {
			doc = info
		}
		if s, ok := doc["hostname_html"].(string); ok {
			html = core.Hex([]byte(s))
		}
		if s, ok := doc["hostname_plain"].(string); ok {
			plain = core.Hex([]byte(s))
		}
	}
	return []string{strconv.Itoa(rec.Code), html, plain, effect(before, after), canonBody(rec.Body.Bytes())}
}

// execList plants the records (refreshed <age> seconds ago) and asks for the listing
func execList(items string, params []string) []string {
	q := url.Values{}
	for i, name := range []string{"gamevariant", "gamever", "gametype", "nopassworded", "nofull", "noempty"} {
		if params[i] != "~" {
			q.Set(name, string(core.MustUnHex(params[i])))
		}
	}
	rawQuery := q.Encode()
	w, p := proc()
	if items != "-" {
		for _, it := range strings.Split(items, "|") {
			if err := plantListed(p, w, it); err != nil {
				return []string{"bad-state:" + strings.ReplaceAll(err.Error(), " ", "_")}
			}
		}
	}
	before := w.Dump()
	req := httptest.NewRequest(http.MethodGet, "/api/servers", nil)
	req.URL.RawQuery = rawQuery
	rec := httptest.NewRecorder()
	p.Router.ServeHTTP(rec, req)
	after := w.Dump()
	return []string{strconv.Itoa(rec.Code), "~", "~", effect(before, after), sortTopArray(canonBody(rec.Body.Bytes()))}
}

// effect summarises the difference of two canonical dumps (see the package comment).
func effect(before, after []string) string {
	index := func(lines []string) (sv map[string]string, pi map[string]int, other map[string]int) {
		sv, pi, other = map[string]string{}, map[string]int{}, map[string]int{}
		for _, l := range lines {
			f := strings.Split(l, ",")
			switch f[0] {
			case "SV":
				if len(f) >= 4 {
					sv[f[1]] = l
				} else {
					other[l]++
				}
			case "PI": // PI,<n>,<addr>,<port>,<goal>,<retries>,<max>,<expires>
				if len(f) >= 7 {
					pi[strings.Join(f[2:7], ",")]++
				} else {
					other[l]++
				}
			case "UP", "RF", "ST", "PQ": // indexes and queue scores follow the records (C10's subject)
			default:
				other[l]++
			}
		}
		return
	}
	svB, piB, otB := index(before)
	svA, piA, otA := index(after)
	var items []string
	short := func(l string) string { return strings.Join(strings.Split(l, ",")[1:4], ",") }
	for k, l := range svA {
		if old, ok := svB[k]; !ok {
			items = append(items, "new:"+short(l))
		} else if old != l {
			items = append(items, "upd:"+short(l))
		}
	}
	for k := range svB {
		if _, ok := svA[k]; !ok {
			items = append(items, "del:"+k)
		}
	}
	for k, n := range piA {
		for i := piB[k]; i < n; i++ {
			items = append(items, "probe:"+k)
		}
	}
	for k, n := range piB {
		for i := piA[k]; i < n; i++ {
			items = append(items, "unprobe:"+k)
		}
	}
	x := 0
	for k, n := range otA {
		if d := n - otB[k]; d > 0 {
			x += d
		}
	}
	for k, n := range otB {
		if d := n - otA[k]; d > 0 {
			x += d
		}
	}
	if x > 0 {
		items = append(items, "x:"+strconv.Itoa(x))
	}
	if len(items) == 0 {
		// index-only differences still count as a change
		if strings.Join(before, "\n") != strings.Join(after, "\n") {
			return "index-only"
		}
		return "none"
	}
	sort.Strings(items)
	return strings.Join(items, "+")
}

// ---------------------------------------------------------------------------- generators

func hx(s string) string { return core.Hex([]byte(s)) }

// first/last address of every class the property excludes, ±1, plus the extra classes Go accepts
var boundaryIPs = []string{
	"0.0.0.0", "0.0.0.1", "0.255.255.255", "1.0.0.0", "1.1.1.1",
	"9.255.255.255", "10.0.0.0", "10.0.0.1", "10.255.255.255", "11.0.0.0",
	"126.255.255.255", "127.0.0.0", "127.0.0.1", "127.255.255.255", "128.0.0.0",
	"169.253.255.255", "169.254.0.0", "169.254.255.255", "169.255.0.0",
	"172.15.255.255", "172.16.0.0", "172.31.255.255", "172.32.0.0", "172.0.0.1", "171.16.0.1", "173.16.0.1",
	"192.167.255.255", "192.168.0.0", "192.168.255.255", "192.169.0.0", "191.168.0.1", "193.168.0.1",
	"223.255.255.255", "224.0.0.0", "224.0.0.1", "239.255.255.255", "240.0.0.0", "240.0.0.1",
	"255.255.255.254", "255.255.255.255", "255.255.255.0", "255.0.0.0", "8.8.8.8", "100.64.0.1", "198.18.0.1", "203.0.113.7",
}

var oddIPs = []string{
	"", " ", "1.1.1", "1.1.1.1.1", "1.1.1.", ".1.1.1", "1..1.1", "01.1.1.1", "1.1.1.01", "1.1.1.00", "1.1.1.0", "001.1.1.1",
	"256.1.1.1", "1.1.1.256", "1.1.1.999", "1.1.1.1 ", " 1.1.1.1", "1.1.1.1\n", "1.1.1.-1", "+1.1.1.1", "1.1.1.1%eth0", "%", "1%.1.1.1",
	"0x1.1.1.1", "1.1.1.1e0", "1,1,1,1", "localhost", "example.com", "1.1.1.a", "１.1.1.1", "1.1.1.1/24", "1.1.1.1.", "....", "1", "16843009",
	"::1", "::", "::ffff:1.1.1.1", "::ffff:10.0.0.1", "::ffff:127.0.0.1", "::ffff:0101:0101", "::1.1.1.1", "2001:db8::1", "fe80::1%eth0", "[::1]",
	"[1.1.1.1]", "[8.8.8.8]", "[::ffff:1.1.1.1]", "[::ffff:101:101]", "[1.1.1.1", "1.1.1.1]", "[[1.1.1.1]]", "[1.1.1.1]x", "[]",
	"::ffff:224.0.0.1", "::ffff:8.8.8.8", "0:0:0:0:0:ffff:1.1.1.1", "1.1.1.1:", ":1.1.1.1", "1.1:1.1", "::ffff:192.168.0.1", "64:ff9b::1.1.1.1",
}

var edgePorts = []int{-70000, -1, 0, 1, 2, 79, 80, 1023, 1024, 1025, 1026, 10480, 10481, 32767, 32768, 65534, 65535, 65536, 65537, 70000, 99999, 2147483647}

var portStrings = []string{"", "+", "-", "+80", "-80", "+10480", "010480", "0010480", "10480 ", " 10480", "1_0480", "0x2af0", "10480.0", "1e4",
	"９", "9223372036854775807", "9223372036854775808", "-9223372036854775808", "-9223372036854775809", "99999999999999999999", "65535", "65536", "0", "00", "-0", "+0", "1", "a", "10480:1", ":"}

func randIP(rng *rand.Rand) string {
	switch rng.Intn(4) {
	case 0:
		return boundaryIPs[rng.Intn(len(boundaryIPs))]
	case 1:
		a := []int{0, 1, 9, 10, 11, 100, 126, 127, 128, 169, 171, 172, 173, 191, 192, 193, 223, 224, 225, 239, 240, 254, 255}[rng.Intn(23)]
		b := []int{0, 1, 15, 16, 17, 31, 32, 167, 168, 169, 253, 254, 255}[rng.Intn(13)]
		return fmt.Sprintf("%d.%d.%d.%d", a, b, []int{0, 1, 255}[rng.Intn(3)], []int{0, 1, 254, 255}[rng.Intn(4)])
	default:
		return fmt.Sprintf("%d.%d.%d.%d", rng.Intn(256), rng.Intn(256), rng.Intn(256), rng.Intn(256))
	}
}

func randPort(rng *rand.Rand) int {
	switch rng.Intn(4) {
	case 0:
		return edgePorts[rng.Intn(len(edgePorts))]
	case 1:
		return rng.Intn(70001)
	default:
		return 1025 + rng.Intn(65535-1025+1)
	}
}

// status words: every combination of the four bits the handlers look at, over a random rest
func randStatus(rng *rand.Rand) int {
	w := 0
	if rng.Intn(2) == 0 {
		w = rng.Intn(512)
	} else {
		w = []int{0, 1, 2, 4, 6, 64, 70, 32, 1 | 2}[rng.Intn(9)]
	}
	mask := int(ds.Details | ds.DetailsRetry | ds.PortRetry | ds.NoPort)
	k := rng.Intn(16)
	sel := 0
	if k&1 != 0 {
		sel |= int(ds.Details)
	}
	if k&2 != 0 {
		sel |= int(ds.DetailsRetry)
	}
	if k&4 != 0 {
		sel |= int(ds.PortRetry)
	}
	if k&8 != 0 {
		sel |= int(ds.NoPort)
	}
	return (w &^ mask) | sel
}

var hostAlphabet = []string{
	"[c=ff0000]", "[C=00FF7f]", "[\\c]", "[b]", "[\\b]", "[u]", "[\\U]", "[c=", "[c", "[", "]", "[c=ff00]", "[c=gggggg]", "[c]", "[/c]", "[\\C]", "[c=[c=ff0000]",
	"[\\c=", "[\\C ", "[\\c=<", "[c]<", "[cſff0000]", "[cKx]", "[c\nff0000]", "[c]]", "[c[ff0000]", "[c&ff0000]", "[c<ff0000]", "[c'ff0000]",
	"<", ">", "&", "\"", "'", "<script>", "</span>", "<span style=\"color:#ff0000;\">", "&lt;", "&amp;", "&#39;", "&#34", "&", ";",
	"a", "Z", "0", "_", " ", "  ", "\t", "\n", " ", "　", "\u0085", "é", "ß", "ſ", "K", "日本", "😀", "=", "#", "\\", "/", "c", "b", "u", "ff0000", "Swat4 Server",
}

func randHostname(rng *rand.Rand) string {
	var sb strings.Builder
	target := rng.Intn(65)
	if rng.Intn(4) == 0 {
		target = rng.Intn(8)
	}
	for n := 0; n < target; {
		s := hostAlphabet[rng.Intn(len(hostAlphabet))]
		if rng.Intn(12) == 0 {
			s = string(rune(rng.Intn(0x250)))
		}
		l := len([]rune(s))
		if n+l > 64 {
			break
		}
		sb.WriteString(s)
		n += l
	}
	return strings.ToValidUTF8(sb.String(), "?")
}

// nestedHostname: a style code that only becomes visible when the one inside it has been removed, depth levels deep
// ("[[[b]b]b]x"): Clean has to sweep once per level.
func nestedHostname(rng *rand.Rand, depth int) string {
	codes := [][2]string{{"[", "b]"}, {"[", "\\C]"}, {"[", "u]"}, {"[\\", "c]"}, {"[c=ff", "0000]"}, {"[", "\\B]"}}
	var open, close string
	k := rng.Intn(len(codes))
	for i := 0; i < depth; i++ {
		if rng.Intn(3) == 0 {
			k = rng.Intn(len(codes))
		}
		open += codes[k][0]
		close = codes[k][1] + close
	}
	// the innermost code must be a complete one
	inner := []string{"[b]", "[\\c]", "[u]", "[c=00ff00]"}[rng.Intn(4)]
	tail := []string{"", "x", "Srv", " s ", "<b>"}[rng.Intn(5)]
	return open + inner + close + tail
}

// the 12-symbol alphabet enumerated exhaustively in the thorough tier
var smallAlphabet = []string{"[c=ff0000]", "[\\c]", "[b]", "[", "]", "c", "=", "<", "&", "\"", "x", " "}

func state(rng *rand.Rand, ip string, port int) string {
	switch rng.Intn(8) {
	case 0:
		return "absent"
	case 1: // a record elsewhere
		return fmt.Sprintf("p:%s:%d:%d:%d:%s", "1.2.3.4", 10480, randStatus(rng), 10481, hx(randHostname(rng)))
	}
	if net.ParseIP(ip).To4() == nil || strings.Contains(ip, ":") || port < 1 || port > 65535 {
		return "absent"
	}
	qp := port + 1
	if rng.Intn(4) == 0 {
		qp = 1 + rng.Intn(65535)
	}
	return fmt.Sprintf("p:%s:%d:%d:%d:%s", ip, port, randStatus(rng), qp, hx(randHostname(rng)))
}

var jsonBodies = []string{
	``, ` `, `null`, `true`, `42`, `"x"`, `[]`, `[1]`, `{}`, `{`, `}`, `{"ip"}`, `{"ip":}`, `{"ip":"1.1.1.1"}`, `{"port":10480}`,
	`{"ip":"1.1.1.1","port":10480}`, `{"ip":"1.1.1.1","port":10480} trailing`, `{"ip":"1.1.1.1","port":10480}}`, `{"ip":"1.1.1.1","port":10480,}`,
	`{"ip":"1.1.1.1","port":"10480"}`, `{"ip":"1.1.1.1","port":10480.0}`, `{"ip":"1.1.1.1","port":1.048e4}`, `{"ip":"1.1.1.1","port":1e4}`,
	`{"ip":"1.1.1.1","port":true}`, `{"ip":"1.1.1.1","port":null}`, `{"ip":null,"port":10480}`, `{"ip":16843009,"port":10480}`,
	`{"ip":["1.1.1.1"],"port":10480}`, `{"ip":{"a":"1.1.1.1"},"port":10480}`, `{"ip":"1.1.1.1","port":[10480]}`,
	`{"IP":"1.1.1.1","PORT":10480}`, `{"Ip":"1.1.1.1","pOrt":10480}`, `{"ip":"10.0.0.1","ip":"1.1.1.1","port":10480}`, `{"ip":"1.1.1.1","ip":"10.0.0.1","port":10480}`,
	`{"ip":"1.1.1.1","port":80,"port":10480}`, `{"ip":"1.1.1.1","port":"x","port":10480}`, `{"ip":"1.1.1.1","port":10480,"port":"x"}`, `{"ip":"1.1.1.1","port":10480,"port":null}`,
	`{"ip":"1.1.1.1","port":10480,"extra":[1,{"a":2}]}`, `{"extra":"}","ip":"1.1.1.1","port":10480}`, ` { "ip" : "1.1.1.1" , "port" : 10480 } `, "{\"ip\":\"1.1.1.1\",\n\t\"port\":10480\r\n}",
	`{"ip":"1.1.1.1","port":-10480}`, `{"ip":"1.1.1.1","port":010480}`, `{"ip":"1.1.1.1","port":+10480}`, `{"ip":"1.1.1.1","port":0}`, `{"ip":"1.1.1.1","port":-0}`,
	`{"ip":"1.1.1.1","port":99999999999999999999}`, `{"ip":"1.1.1.1","port":9223372036854775807}`, `{"ip":"","port":10480}`, `{"ip":"1.1.1.1\u0000","port":10480}`,
	`{"ip":"1.1.1.1","port":10480}`, `{"ip":"1.1.1.1","port":10480}`, `{"ip":"1.1.1.1" "port":10480}`, `{'ip':'1.1.1.1','port':10480}`, `{"ip":"1.1.1.1","port":10480`, `{"ip":"1.1.1.1","port":1048`,
	`{"ip":"::ffff:1.1.1.1","port":10480}`, `{"ip":"::ffff:10.0.0.1","port":10480}`, `{"ip":"::1","port":10480}`, `{"ip":"2001:db8::1","port":10480}`, `{"ip":"1.1.1.1","port":65535}`, `{"ip":"1.1.1.1","port":65536}`,
	"{\"ip\":\"1.1.1.1\x01\",\"port\":10480}", "{\"ip\":\"1.1.1.1\xff\",\"port\":10480}", "\xef\xbb\xbf{\"ip\":\"1.1.1.1\",\"port\":10480}", `{"ip":"1.1.1.1","port":10480}{"ip":"10.0.0.1","port":10480}`,
}

func randBody(rng *rand.Rand) string {
	switch rng.Intn(6) {
	case 0:
		return jsonBodies[rng.Intn(len(jsonBodies))]
	case 1: // structured object with typed members drawn at random
		ipv := []string{`"` + randIP(rng) + `"`, `"` + oddIPs[rng.Intn(len(oddIPs))] + `"`, `null`, `true`, `1`, `[]`, `{}`, `""`}[rng.Intn(8)]
		if strings.ContainsAny(ipv, "\n\\") {
			ipv = `"1.1.1.1"`
		}
		pv := []string{strconv.Itoa(randPort(rng)), `"10480"`, `null`, `false`, `1.5`, `1e3`, `[]`, `{}`, `-1`, `0`}[rng.Intn(10)]
		ws := []string{"", " ", "\n", "\t "}[rng.Intn(4)]
		members := []string{`"ip":` + ws + ipv, `"port":` + ws + pv}
		if rng.Intn(3) == 0 {
			members = append(members, `"x":`+[]string{`1`, `"y"`, `null`, `[1,2]`, `{"ip":"10.0.0.1"}`}[rng.Intn(5)])
		}
		rng.Shuffle(len(members), func(i, j int) { members[i], members[j] = members[j], members[i] })
		return "{" + ws + strings.Join(members, ws+","+ws) + ws + "}"
	case 2: // a valid body damaged at one byte
		b := []byte(fmt.Sprintf(`{"ip":"%s","port":%d}`, randIP(rng), randPort(rng)))
		i := rng.Intn(len(b))
		switch rng.Intn(3) {
		case 0:
			b = append(b[:i], b[i+1:]...)
		case 1:
			b[i] = byte(rng.Intn(256))
		default:
			b = b[:i]
		}
		return string(b)
	case 3:
		return string(core.RandBytes(rng, rng.Intn(24)))
	default:
		return fmt.Sprintf(`{"ip":"%s","port":%d}`, randIP(rng), randPort(rng))
	}
}

func gen(rng *rand.Rand, tier core.Tier, emit core.Emit) {
	scale := 1
	if tier == core.Thorough {
		scale = 40
	}
	// 1. every boundary address × edge ports, absent and planted
	for _, ip := range boundaryIPs {
		for _, port := range []int{1024, 1025, 10480, 65535, 65536} {
			emit("add-ip", "absent", hx(ip), strconv.Itoa(port))
			emit("view", "absent", hx(fmt.Sprintf("%s:%d", ip, port)))
		}
		emit("addr", hx(ip+":10480"))
		// a record stored under a non-routable address must stay unreachable
		emit("view", fmt.Sprintf("p:%s:10480:%d:10481:%s", ip, randStatus(rng)|int(ds.Details), hx("[c=ff0000]x<b>")), hx(ip+":10480"))
		emit("add-ip", fmt.Sprintf("p:%s:10480:%d:10481:%s", ip, randStatus(rng), hx("a&b")), hx(ip), "10480")
	}
	for _, port := range edgePorts {
		emit("add-ip", "absent", hx("1.1.1.1"), strconv.Itoa(port))
		emit("view", "absent", hx(fmt.Sprintf("1.1.1.1:%d", port)))
		emit("addr", hx(fmt.Sprintf("1.1.1.1:%d", port)))
	}
	for _, ps := range portStrings {
		emit("view", "absent", hx("1.1.1.1:"+ps))
		emit("addr", hx("1.1.1.1:"+ps))
		emit("add", "absent", hx(`{"ip":"1.1.1.1","port":`+ps+`}`))
	}
	for _, ip := range oddIPs {
		emit("add-ip", "absent", hx(ip), "10480")
		if !strings.Contains(ip, "/") {
			emit("view", "absent", hx(ip+":10480"))
		}
		emit("addr", hx(ip+":10480"))
		emit("addr", hx(ip))
	}
	for _, b := range jsonBodies {
		emit("add", "absent", hx(b))
		emit("add", "p:1.1.1.1:10480:8:10481:"+hx("[b]x"), hx(b))
	}
	// every status word on a routable address
	for w := 0; w < 512; w++ {
		if tier == core.Quick && w%4 != 1 && w > 64 {
			continue
		}
		st := fmt.Sprintf("p:1.1.1.1:10480:%d:%d:%s", w, 10481+w%3, hx(randHostname(rng)))
		emit("add-ip", st, hx("1.1.1.1"), "10480")
		emit("view", st, hx("1.1.1.1:10480"))
	}
	// ports 0..70000
	step := 97
	if tier == core.Thorough {
		step = 7
	}
	for port := rng.Intn(step); port <= 70000; port += step {
		emit("add-ip", "absent", hx("8.8.4.4"), strconv.Itoa(port))
		emit("view", "absent", hx(fmt.Sprintf("8.8.4.4:%d", port)))
	}
	// 2. random requests
	for i := 0; i < 700*scale; i++ {
		ip, port := randIP(rng), randPort(rng)
		if rng.Intn(10) == 0 {
			ip = oddIPs[rng.Intn(len(oddIPs))]
		}
		switch rng.Intn(4) {
		case 0:
			emit("add-ip", state(rng, ip, port), hx(ip), strconv.Itoa(port))
		case 1:
			ps := strconv.Itoa(port)
			if rng.Intn(8) == 0 {
				ps = portStrings[rng.Intn(len(portStrings))]
			}
			a := ip + ":" + ps
			if strings.Contains(a, "/") {
				a = strings.ReplaceAll(a, "/", "_")
			}
			emit("view", state(rng, ip, port), hx(a))
		case 2:
			b := randBody(rng)
			emit("add", state(rng, "1.1.1.1", 10480), hx(b))
		default:
			ps := strconv.Itoa(port)
			if rng.Intn(4) == 0 {
				ps = portStrings[rng.Intn(len(portStrings))]
			}
			emit("addr", hx(ip+":"+ps))
		}
	}
	// the same view requests as a client may spell them on the wire: some bytes of the address percent-escaped
	for i := 0; i < 120*scale; i++ {
		ip, port := randIP(rng), randPort(rng)
		if i%3 == 0 {
			ip, port = "1.1.1.1", 10480
		}
		a := fmt.Sprintf("%s:%d", ip, port)
		var wire strings.Builder
		for j := 0; j < len(a); j++ {
			c := a[j]
			esc := rng.Intn(4) == 0 || (c == ':' && rng.Intn(2) == 0)
			if i%5 == 0 {
				esc = c == ':' // what encodeURIComponent does
			}
			switch {
			case esc && rng.Intn(4) == 0:
				fmt.Fprintf(&wire, "%%%02x", c)
			case esc:
				fmt.Fprintf(&wire, "%%%02X", c)
			default:
				wire.WriteByte(c)
			}
		}
		w := wire.String()
		st := state(rng, ip, port)
		emit("viewraw", st, hx(a), hx(w))
	}
	// garbage view addresses (no '/': that is the router's business, see the driver)
	for i := 0; i < 100*scale; i++ {
		b := core.RandBytes(rng, 1+rng.Intn(20))
		for j := range b {
			if b[j] == '/' {
				b[j] = ':'
			}
		}
		emit("view", "absent", core.Hex(b))
		emit("addr", core.Hex(b))
	}
	// 3. hostnames
	for _, s := range hostAlphabet {
		emit("html", hx(s))
		emit("clean", hx(s))
	}
	// hostnames that one renderer empties and the other does not (the two recognise different tag shapes): whatever is left
	// in either member must still be inert / free of codes, through the API as well
	for _, s := range []string{"[\\c=<img src=x onerror=alert(1)>]", "[\\C <script>alert(1)</script>]", "[c]<script>alert(1)</script>]", "[b][\\c=<b>&\"']",
		"[\\c=]", "[\\c=x]", "[c]]", "[c]x]", "[\\c =<]", "[u][\\C=<svg/onload=1>][\\u]", "[c=<>]", "[c <>]x", "[/c=<i>]"} {
		emit("html", hx(s))
		emit("clean", hx(s))
		st := fmt.Sprintf("p:1.1.1.1:10480:%d:10481:%s", randStatus(rng)|int(ds.Details), hx(s))
		emit("view", st, hx("1.1.1.1:10480"))
		emit("add-ip", st, hx("1.1.1.1"), "10480")
	}
	// a control character inside the brackets of a code hides it from the code remover; whoever strips control characters
	// AFTER removing codes puts the code back together
	for _, c := range []string{"\u0095", "\u007f", "\u0001", "\u0085", "\u009f", "\t"} {
		for _, hn := range []string{"[" + c + "b]Bold", "[" + c + "c=FF0000]Red [" + c + "u]x", "[\\" + c + "c]x", "[c" + c + "=ff0000]y", "[b" + c + "]z[" + c + "\\b]"} {
			emit("html", hx(hn))
			emit("clean", hx(hn))
			st := fmt.Sprintf("p:1.1.1.1:10480:%d:10481:%s", randStatus(rng)|int(ds.Details), hx(hn))
			emit("view", st, hx("1.1.1.1:10480"))
		}
	}
	for depth := 1; depth <= 30; depth++ {
		for k := 0; k < 3*scale; k++ {
			hn := nestedHostname(rng, depth)
			if len([]rune(hn)) > 64 && k > 0 {
				continue // beyond the game's limit: one specimen per depth is enough
			}
			emit("html", hx(hn))
			emit("clean", hx(hn))
			st := fmt.Sprintf("p:1.1.1.1:10480:%d:10481:%s", randStatus(rng)|int(ds.Details), hx(hn))
			emit("view", st, hx("1.1.1.1:10480"))
		}
	}
	// hostnames far beyond what the game lets an operator type (nothing in the protocol caps the reported value): the
	// renderers must treat a long name like a short one
	for _, target := range []int{100, 255, 256, 257, 300, 1500} {
		for k := 0; k < 2; k++ {
			var sb strings.Builder
			for sb.Len() < target-30 {
				sb.WriteString(hostAlphabet[rng.Intn(len(hostAlphabet))])
			}
			sb.WriteString("<img src=x onerror=alert(1)>")
			for sb.Len() < target {
				sb.WriteString("x")
			}
			hn := strings.ToValidUTF8(sb.String(), "?")
			emit("html", hx(hn))
			emit("clean", hx(hn))
			st := fmt.Sprintf("p:1.1.1.1:10480:%d:10481:%s", randStatus(rng)|int(ds.Details), hx(hn))
			emit("view", st, hx("1.1.1.1:10480"))
		}
	}
	for i := 0; i < 1500*scale; i++ {
		h := hx(randHostname(rng))
		emit("html", h)
		emit("clean", h)
		if i%10 == 0 { // the same hostname through the API
			st := fmt.Sprintf("p:1.1.1.1:10480:%d:10481:%s", randStatus(rng)|int(ds.Details), h)
			emit("view", st, hx("1.1.1.1:10480"))
			emit("add-ip", st, hx("1.1.1.1"), "10480")
		}
	}
	// 4. full records: every member of the 200 bodies, the listing
	genFull(rng, tier, emit)
	if tier == core.Thorough {
		// exhaustive to length 4 over the 12-symbol alphabet; shards split the space by first symbol
		var rec func(prefix string, depth int)
		rec = func(prefix string, depth int) {
			emit("html", hx(prefix))
			emit("clean", hx(prefix))
			if depth == 4 {
				return
			}
			for _, s := range smallAlphabet {
				rec(prefix+s, depth+1)
			}
		}
		rec("", 0)
	}
}
