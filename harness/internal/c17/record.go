package c17

import (
	"context"
	"fmt"
	"net"
	"reflect"
	"strconv"
	"strings"
	"time"

	"github.com/sergeii/swat4master/internal/core/entities/addr"
	"github.com/sergeii/swat4master/internal/core/entities/details"
	ds "github.com/sergeii/swat4master/internal/core/entities/discovery/status"
	"github.com/sergeii/swat4master/internal/core/entities/server"
	"github.com/sergeii/swat4master/internal/core/repositories"
	"github.com/sergeii/swat4master/verifharness/internal/core"
	"github.com/sergeii/swat4master/verifharness/internal/world"
)

// Record states on a case line.
//
// compact:   p:<a.b.c.d>:<port>:<statusword>:<queryport>:<hostnamehex>
//
//	Info.Hostname = Details.Info.Hostname = hostname, every other field of Info / Details zero.
//
// extended:  P:<a.b.c.d>:<port>:<statusword>:<queryport>:<info>:<players>:<objectives>:<dimode>
//
//	<info>        the fields of details.Info in the order of the Go struct, joined by ","
//	<players>     "-" (none) or players joined by ";", each the fields of details.Player in struct order joined by ","
//	<objectives>  "-" (none) or objectives joined by ";", each the fields of details.Objective in struct order joined by ","
//	<dimode>      what is stored in Details.Info (which the REST models must NOT read: they read server.Info):
//	              0 = a copy of Info, 1 = the zero value, 2 = Info with every field changed (strings + "~", ints + 1, bools negated)
//
// field encoding by Go kind: string = hex ("-" empty), int kinds = decimal, bool = 0 | 1.  The structs are filled by
// reflection over their field list, so the position of a value on the line is the position of the field in the struct;
// the Lean driver parses the same positions against the literal field lists pinned to Facts.infoFieldNames etc.

func fillStruct(v reflect.Value, toks []string) error {
	if v.NumField() != len(toks) {
		return fmt.Errorf("%s: %d values for %d fields", v.Type().Name(), len(toks), v.NumField())
	}
	for i := 0; i < v.NumField(); i++ {
		f := v.Field(i)
		switch f.Kind() {
		case reflect.String:
			b, err := core.UnHex(toks[i])
			if err != nil {
				return fmt.Errorf("%s.%s: %w", v.Type().Name(), v.Type().Field(i).Name, err)
			}
			f.SetString(string(b))
		case reflect.Int, reflect.Int8, reflect.Int16, reflect.Int32, reflect.Int64:
			n, err := strconv.ParseInt(toks[i], 10, 64)
			if err != nil {
				return fmt.Errorf("%s.%s: %w", v.Type().Name(), v.Type().Field(i).Name, err)
			}
			f.SetInt(n)
		case reflect.Bool:
			switch toks[i] {
			case "0":
				f.SetBool(false)
			case "1":
				f.SetBool(true)
			default:
				return fmt.Errorf("%s.%s: bool %q", v.Type().Name(), v.Type().Field(i).Name, toks[i])
			}
		default:
			return fmt.Errorf("%s.%s: kind %s", v.Type().Name(), v.Type().Field(i).Name, f.Kind())
		}
	}
	return nil
}

// perturb changes every field of a struct of strings, ints and bools
func perturb(v reflect.Value) {
	for i := 0; i < v.NumField(); i++ {
		f := v.Field(i)
		switch f.Kind() {
		case reflect.String:
			f.SetString(f.String() + "~")
		case reflect.Int, reflect.Int8, reflect.Int16, reflect.Int32, reflect.Int64:
			f.SetInt(f.Int() + 1)
		case reflect.Bool:
			f.SetBool(!f.Bool())
		}
	}
}

func parseRecord(state string) (server.Server, error) {
	bad := func(why string) (server.Server, error) {
		return server.Blank, fmt.Errorf("bad state %q: %s", state, why)
	}
	f := strings.Split(state, ":")
	if !(len(f) == 6 && f[0] == "p") && !(len(f) == 9 && f[0] == "P") {
		return bad("shape")
	}
	ip := net.ParseIP(f[1]).To4()
	port, e1 := strconv.Atoi(f[2])
	status, e2 := strconv.Atoi(f[3])
	qport, e3 := strconv.Atoi(f[4])
	if ip == nil || e1 != nil || e2 != nil || e3 != nil {
		return bad("address / status / query port")
	}
	svr := server.Server{Addr: addr.NewForTesting(ip, port), QueryPort: qport, DiscoveryStatus: ds.DiscoveryStatus(status)}
	if f[0] == "p" {
		host, err := core.UnHex(f[5])
		if err != nil {
			return bad("hostname")
		}
		svr.Info.Hostname = string(host)
		svr.Details.Info.Hostname = string(host)
		return svr, nil
	}
	if err := fillStruct(reflect.ValueOf(&svr.Info).Elem(), strings.Split(f[5], ",")); err != nil {
		return bad(err.Error())
	}
	if f[6] != "-" {
		for _, ptok := range strings.Split(f[6], ";") {
			var p details.Player
			if err := fillStruct(reflect.ValueOf(&p).Elem(), strings.Split(ptok, ",")); err != nil {
				return bad(err.Error())
			}
			svr.Details.Players = append(svr.Details.Players, p)
		}
	}
	if f[7] != "-" {
		for _, otok := range strings.Split(f[7], ";") {
			var o details.Objective
			if err := fillStruct(reflect.ValueOf(&o).Elem(), strings.Split(otok, ",")); err != nil {
				return bad(err.Error())
			}
			svr.Details.Objectives = append(svr.Details.Objectives, o)
		}
	}
	switch f[8] {
	case "0":
		svr.Details.Info = svr.Info
	case "1":
	case "2":
		svr.Details.Info = svr.Info
		perturb(reflect.ValueOf(&svr.Details.Info).Elem())
	default:
		return bad("dimode")
	}
	return svr, nil
}

// plant stores the record through the real servers repository (no validation: addr.NewForTesting, raw entity values).
func plant(p *world.Proc, state string) error {
	if state == "absent" {
		return nil
	}
	svr, err := parseRecord(state)
	if err != nil {
		return err
	}
	_, err = p.Servers.Add(context.Background(), svr, repositories.ServerOnConflictIgnore)
	return err
}

// plantListed: a record for the listing, `<state>@<age>`: refreshed <age> seconds before the request ("z": never).
func plantListed(p *world.Proc, w *world.World, item string) error {
	state, age, ok := strings.Cut(item, "@")
	if !ok {
		return fmt.Errorf("bad listed record %q", item)
	}
	svr, err := parseRecord(state)
	if err != nil {
		return err
	}
	if age != "z" {
		secs, err := strconv.Atoi(age)
		if err != nil {
			return fmt.Errorf("bad age %q", age)
		}
		svr.RefreshedAt = w.Clock.Now().Add(-time.Duration(secs) * time.Second)
	}
	_, err = p.Servers.Add(context.Background(), svr, repositories.ServerOnConflictIgnore)
	return err
}
