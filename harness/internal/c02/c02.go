// Package c02 drives pkg/gamespy/crypt.Encrypt.
package c02

import (
	"math/rand"
	mrand "math/rand"
	"strconv"

	"github.com/sergeii/swat4master/pkg/gamespy/crypt"
	"github.com/sergeii/swat4master/verifharness/internal/core"
)

var swatSecret = []byte("tG3j8c")

func init() {
	core.Register(&core.Prop{ID: "C02", Gen: gen, Exec: exec})
}

func secret(rng *rand.Rand) []byte {
	switch rng.Intn(4) {
	case 0:
		return swatSecret
	case 1: // 7-bit, NUL-free: the property's quantifier
		b := make([]byte, 6)
		for i := range b {
			b[i] = byte(1 + rng.Intn(127))
		}
		return b
	case 2: // edge 7-bit values
		b := make([]byte, 6)
		for i := range b {
			b[i] = []byte{1, 0x7F, 8, 16, 0x40, 0x55}[rng.Intn(6)]
		}
		return b
	default: // any NUL-free byte (8-bit secrets: outside the SDK's char range, still compared)
		b := make([]byte, 6)
		for i := range b {
			b[i] = byte(1 + rng.Intn(255))
		}
		return b
	}
}

func gen(rng *rand.Rand, tier core.Tier, emit core.Emit) {
	n := 400
	big := 2
	if tier == core.Thorough {
		n = 20000
		big = 40
	}
	for i := 0; i < n; i++ {
		var ln int
		switch rng.Intn(5) {
		case 0:
			ln = rng.Intn(4)
		case 1:
			ln = rng.Intn(64)
		case 2:
			ln = 200 + rng.Intn(2000)
		default:
			ln = rng.Intn(600)
		}
		emit("enc", core.Hex(secret(rng)), core.Hex(core.RandBytes(rng, 8)), core.Hex(core.RandBytes(rng, ln)))
	}
	// key setup only (short payloads): about 1 random header in 280 makes shuffle() reach its 12th retry, where the SDK's
	// "u %= limit" fallback applies; enough of them that every run meets that branch many times
	short := 3000
	if tier == core.Thorough {
		short = 30000
	}
	for i := 0; i < short; i++ {
		emit("enc", core.Hex(secret(rng)), core.Hex(core.RandBytes(rng, 8)), core.Hex(core.RandBytes(rng, rng.Intn(3))))
	}
	for i := 0; i < big; i++ {
		emit("enc", core.Hex(secret(rng)), core.Hex(core.RandBytes(rng, 8)), core.Hex(core.RandBytes(rng, 60000+rng.Intn(5536))))
	}
	emit("enc", core.Hex(swatSecret), core.Hex(core.RandBytes(rng, 8)), core.Hex(core.RandBytes(rng, 65536)))
}

func exec(op string, args []string) []string {
	// encs <seed> <secret> <challenge> <plaintext>: the same with the process-wide math/rand source seeded first, so that
	// the 23 header draws of this call are reproducible (corpus cases that reach rare branches of the key setup)
	if (op == "encs" || op == "encscan") && len(args) == 4 {
		seed, err := strconv.ParseInt(args[0], 10, 64)
		if err != nil {
			return []string{"bad-op"}
		}
		mrand.Seed(seed) // nolint: staticcheck
		op, args = "enc", args[1:]
	}
	if op != "enc" || len(args) != 3 {
		return []string{"bad-op"}
	}
	s, c, p := core.MustUnHex(args[0]), core.MustUnHex(args[1]), core.MustUnHex(args[2])
	if len(s) != crypt.GMSL || len(c) != crypt.CCHL {
		return []string{"bad-op"}
	}
	var sk [crypt.GMSL]byte
	var ch [crypt.CCHL]byte
	copy(sk[:], s)
	copy(ch[:], c)
	var out []byte
	if txt, ok := core.Guard(func() { out = crypt.Encrypt(sk, ch, append([]byte{}, p...)) }); !ok {
		return []string{"panic:" + txt}
	}
	return []string{core.Hex(out)}
}
