// Package core: registry and helpers shared by all property harnesses.
//
// A property harness has two halves:
//   - Gen: produces *input* lines "<prop> <op> <args…>" from a seeded PRNG;
//   - Exec: runs the real code from /repo on one input line and returns the output tokens.
//
// `verifharness gen <prop>` prints input lines, `verifharness exec` reads input lines and prints
// "<input> => <output tokens>" — the format the Lean driver consumes.  A replay file is a file
// of input lines.
package core

import (
	"encoding/hex"
	"fmt"
	"math/rand"
	"sort"
	"strings"
)

type Tier int

const (
	Quick Tier = iota
	Thorough
)

type Emit func(op string, args ...string)

type Prop struct {
	ID string
	// Gen emits input cases (without the property prefix).
	Gen func(rng *rand.Rand, tier Tier, emit Emit)
	// Exec runs one case on the real code; must not panic (wrap calls in Guard).
	Exec func(op string, args []string) []string
}

var registry = map[string]*Prop{}

func Register(p *Prop) { registry[p.ID] = p }

func Lookup(id string) *Prop { return registry[id] }

func IDs() []string {
	ids := make([]string, 0, len(registry))
	for id := range registry {
		ids = append(ids, id)
	}
	sort.Strings(ids)
	return ids
}

// Hex encodes bytes for the line protocol ("-" = empty).
func Hex(b []byte) string {
	if len(b) == 0 {
		return "-"
	}
	return hex.EncodeToString(b)
}

func UnHex(s string) ([]byte, error) {
	if s == "-" {
		return []byte{}, nil
	}
	return hex.DecodeString(s)
}

func MustUnHex(s string) []byte {
	b, err := UnHex(s)
	if err != nil {
		panic(fmt.Sprintf("bad hex %q: %v", s, err))
	}
	return b
}

// Guard runs f and maps a panic to ok=false with the panic text.
func Guard(f func()) (panicText string, ok bool) {
	defer func() {
		if r := recover(); r != nil {
			panicText = strings.ReplaceAll(fmt.Sprint(r), " ", "_")
			ok = false
		}
	}()
	f()
	return "", true
}

// RandBytes draws n bytes, biased to edge values.
func RandBytes(rng *rand.Rand, n int) []byte {
	b := make([]byte, n)
	mode := rng.Intn(6)
	for i := range b {
		switch mode {
		case 0:
			b[i] = 0x00
		case 1:
			b[i] = 0xFF
		case 2:
			b[i] = []byte{0x00, 0xFF, 0x5C, 0x01, 0x7F, 0x80}[rng.Intn(6)]
		default:
			b[i] = byte(rng.Intn(256))
		}
	}
	return b
}
