// Package storeops: textual specs of servers, resolvers, filter sets and results shared by the
// store-level harnesses (C09, C10, C11, …), and the scheduler-driven execution of repository calls.
package storeops

import (
	"github.com/sergeii/swat4master/internal/persistence/redis/redislock"
	"github.com/redis/go-redis/v9"
	"github.com/sergeii/swat4master/internal/core/entities/details"
	"encoding/hex"
	"errors"
	"fmt"
	"net"
	"sort"
	"strconv"
	"strings"
	"time"

	"github.com/sergeii/swat4master/internal/core/entities/addr"
	ds "github.com/sergeii/swat4master/internal/core/entities/discovery/status"
	"github.com/sergeii/swat4master/internal/core/entities/filterset"
	"github.com/sergeii/swat4master/internal/core/entities/instance"
	"github.com/sergeii/swat4master/internal/core/entities/probe"
	"github.com/sergeii/swat4master/internal/core/entities/server"
	"github.com/sergeii/swat4master/internal/core/repositories"
	"github.com/sergeii/swat4master/verifharness/internal/world"
)

// Server spec: <ip>:<port>/<queryport>/<status>/<version>/<refreshedNs|z>
func ParseServer(tok string) (server.Server, error) {
	parts := strings.Split(tok, "/")
	// optional sixth part p<K>: the record carries K players (p0 … with scores 0 …) in its details, named after the record (p<j>@<addr>)
	nPlayers := 0
	if len(parts) == 6 && strings.HasPrefix(parts[5], "p") {
		k, err := strconv.Atoi(parts[5][1:])
		if err != nil || k < 0 || k > 64 {
			return server.Blank, fmt.Errorf("bad player count in %q", tok)
		}
		nPlayers = k
		parts = parts[:5]
	}
	if len(parts) != 5 {
		return server.Blank, fmt.Errorf("bad server spec %q", tok)
	}
	host, port, ok := strings.Cut(parts[0], ":")
	if !ok {
		return server.Blank, fmt.Errorf("bad addr %q", parts[0])
	}
	pn, err := strconv.Atoi(port)
	if err != nil {
		return server.Blank, err
	}
	qp, err1 := strconv.Atoi(parts[1])
	st, err2 := strconv.Atoi(parts[2])
	ver, err3 := strconv.Atoi(parts[3])
	if err1 != nil || err2 != nil || err3 != nil {
		return server.Blank, fmt.Errorf("bad numbers in %q", tok)
	}
	s := server.Server{Addr: addr.NewForTesting(net.ParseIP(host), pn), QueryPort: qp, DiscoveryStatus: ds.DiscoveryStatus(st), Version: ver}
	for j := 0; j < nPlayers; j++ {
		s.Details.Players = append(s.Details.Players, details.Player{Name: fmt.Sprintf("p%d@%s", j, parts[0]), Score: j + pn%7})
	}
	if parts[4] != "z" {
		ns, err := strconv.ParseInt(parts[4], 10, 64)
		if err != nil {
			return server.Blank, err
		}
		s.RefreshedAt = time.Unix(0, ns).UTC()
		if qp%2 == 0 { // the same instant as a zoned value: only instants may matter
			s.RefreshedAt = s.RefreshedAt.In(time.FixedZone("verif", -7200))
		}
	} else if qp%2 == 1 {
		// "never refreshed" is the zero INSTANT, whatever its representation: a zero time that went through a zone conversion
		// is still zero (IsZero), though not == time.Time{}
		s.RefreshedAt = time.Time{}.In(time.FixedZone("verif", 3600))
	}
	return s, nil
}

func RenderServer(s server.Server) string {
	r := "z"
	if !s.RefreshedAt.IsZero() {
		r = strconv.FormatInt(s.RefreshedAt.UnixNano(), 10)
	}
	out := fmt.Sprintf("%s/%d/%d/%d/%s", s.Addr.String(), s.QueryPort, int(s.DiscoveryStatus), s.Version, r)
	if len(s.Details.Players) > 0 { // the players a returned record carries: name~score of each, in order
		names := make([]string, len(s.Details.Players))
		for i, pl := range s.Details.Players {
			names[i] = fmt.Sprintf("%x~%d", pl.Name, pl.Score)
		}
		out += "/players=" + strings.Join(names, "+")
	}
	return out
}

// Resolver behaviours (mirrored by Lean `Swat4.Drv.resolverOf`):
//
//	refuse  return false
//	accept  return true, record unchanged
//	merge   existing.QueryPort = caller.QueryPort; existing.status |= caller.status; true
//	over    *existing = caller's record with existing.Version; true
func Resolver(name string, caller server.Server) func(*server.Server) bool {
	switch name {
	case "refuse":
		return func(*server.Server) bool { return false }
	case "accept":
		return func(*server.Server) bool { return true }
	case "merge":
		return func(s *server.Server) bool {
			s.QueryPort = caller.QueryPort
			s.DiscoveryStatus |= caller.DiscoveryStatus
			return true
		}
	case "over":
		return func(s *server.Server) bool {
			v := s.Version
			*s = caller
			s.Version = v
			return true
		}
	}
	panic("unknown resolver " + name)
}

// FilterSet spec: <withStatus>|<noStatus>|<updatedBefore>|<updatedAfter>|<activeBefore>|<activeAfter>, times ns or z
func ParseFilterSet(parts []string) (filterset.ServerFilterSet, error) {
	fs := filterset.NewServerFilterSet()
	if len(parts) != 6 {
		return fs, fmt.Errorf("bad filterset")
	}
	ws, _ := strconv.Atoi(parts[0])
	ns, _ := strconv.Atoi(parts[1])
	// a mask of several bits reaches the filter set either in one call or bit by bit (the builders accumulate): both must
	// mean the same
	add := func(mask int, f func(ds.DiscoveryStatus)) {
		if mask%3 == 0 {
			f(ds.DiscoveryStatus(mask))
			return
		}
		for bit := 1; bit <= mask; bit <<= 1 {
			if mask&bit != 0 {
				f(ds.DiscoveryStatus(bit))
			}
		}
	}
	if ws != 0 {
		add(ws, func(m ds.DiscoveryStatus) { fs = fs.WithStatus(m) })
	}
	if ns != 0 {
		add(ns, func(m ds.DiscoveryStatus) { fs = fs.NoStatus(m) })
	}
	tm := func(s string) time.Time {
		if s == "z" {
			return time.Time{}
		}
		n, _ := strconv.ParseInt(s, 10, 64)
		return time.Unix(0, n).UTC()
	}
	fs = fs.UpdatedBefore(tm(parts[2])).UpdatedAfter(tm(parts[3])).ActiveBefore(tm(parts[4])).ActiveAfter(tm(parts[5]))
	return fs, nil
}

func ParseTime(s string) time.Time {
	if s == "z" {
		return time.Time{}
	}
	n, _ := strconv.ParseInt(s, 10, 64)
	return time.Unix(0, n).UTC()
}

// RenderProbe: <addr>/<port>/<goal>/<retries>/<max>
func RenderProbe(p probe.Probe) string {
	return fmt.Sprintf("%s/%d/%d/%d/%d", p.Addr.String(), p.Port, int(p.Goal), p.Retries, p.MaxRetries)
}

func ErrClass(err error) string {
	switch {
	case err == nil:
		return "ok"
	case errors.Is(err, repositories.ErrServerNotFound):
		return "err:notfound"
	case errors.Is(err, repositories.ErrServerExists):
		return "err:exists"
	case strings.Contains(err.Error(), "injected storage fault"):
		return "err:storage"
	case strings.Contains(err.Error(), "check lock ownership"):
		return "err:locklost"
	case strings.Contains(err.Error(), "lock not acquired after"):
		return "err:exhausted"
	// the same two classes when the messages are worded differently (no sentinel exists for either): the lock key was gone
	// at the ownership check (the GET returned redis.Nil), and the repository gave up after its attempts.  The second is NOT
	// a catch-all: an error that wraps nothing counts as "exhausted" only when its text is still about the lock (it mentions
	// "lock", "attempt" or "acquire", in any case); every other error — a new kind included — is reported as err:other:<text>
	// and so shows up as a disagreement with the model
	case errors.Is(err, redis.Nil):
		return "err:locklost"
	case errors.Is(err, redislock.ErrNotAcquired):
		// the repository gave up after its attempts and says so with the lock manager's own sentinel
		return "err:exhausted"
	case errors.Unwrap(err) == nil && mentionsLocking(err.Error()):
		return "err:exhausted"
	}
	return "err:other:" + strings.ReplaceAll(err.Error(), " ", "_")
}

func mentionsLocking(msg string) bool {
	m := strings.ToLower(msg)
	return strings.Contains(m, "lock") || strings.Contains(m, "attempt") || strings.Contains(m, "acquire")
}

func SortedServers(xs []server.Server) string {
	sort.Slice(xs, func(i, j int) bool {
		a, _ := world.AddrKey(xs[i].Addr.String())
		b, _ := world.AddrKey(xs[j].Addr.String())
		return a < b
	})
	parts := make([]string, len(xs))
	for i, s := range xs {
		parts[i] = RenderServer(s)
	}
	if len(parts) == 0 {
		return "-"
	}
	return strings.Join(parts, ",")
}

// RunCall executes one repository call spec on process p and returns its rendered result.
//
//	add|<srv>|<resolver>   update|<srv>|<resolver>   remove|<srv>|<resolver>   get|<addr>
//	filter|<ws>|<ns>|<ub>|<ua>|<ab>|<aa>   count   countby
func RunCall(p *world.Proc, spec string) string {
	ctx := p.Context()
	parts := strings.Split(spec, "|")
	switch parts[0] {
	case "add", "update", "remove":
		svr, err := ParseServer(parts[1])
		if err != nil {
			return "bad-spec"
		}
		res := Resolver(parts[2], svr)
		switch parts[0] {
		case "add":
			out, err := p.Servers.Add(ctx, svr, res)
			if err != nil {
				return ErrClass(err)
			}
			return "ok:" + RenderServer(out)
		case "update":
			out, err := p.Servers.Update(ctx, svr, res)
			if err != nil {
				return ErrClass(err)
			}
			return "ok:" + RenderServer(out)
		default:
			return ErrClass(p.Servers.Remove(ctx, svr, res))
		}
	case "get":
		host, port, _ := strings.Cut(parts[1], ":")
		pn, _ := strconv.Atoi(port)
		out, err := p.Servers.Get(ctx, addr.NewForTesting(net.ParseIP(host), pn))
		if err != nil {
			return ErrClass(err)
		}
		return "ok:" + RenderServer(out)
	case "filter":
		fs, err := ParseFilterSet(parts[1:])
		if err != nil {
			return "bad-spec"
		}
		out, err := p.Servers.Filter(ctx, fs)
		if err != nil {
			return ErrClass(err)
		}
		return "ok:" + SortedServers(out)
	case "insadd":
		id, err := hex.DecodeString(parts[1])
		if err != nil || len(id) != 4 {
			return "bad-spec"
		}
		host, port, _ := strings.Cut(parts[2], ":")
		pn, _ := strconv.Atoi(port)
		ins, err := instance.New(instance.MustNewID(id), net.ParseIP(host), pn)
		if err != nil {
			return "bad-spec"
		}
		return ErrClass(p.Instances.Add(ctx, ins))
	case "insrm":
		id, err := hex.DecodeString(parts[1])
		if err != nil || len(id) != 4 {
			return "bad-spec"
		}
		return ErrClass(p.Instances.Remove(ctx, instance.MustNewID(id)))
	case "insclear":
		fs := filterset.NewInstanceFilterSet()
		if parts[1] != "z" {
			fs = fs.UpdatedBefore(ParseTime(parts[1]))
		}
		n, err := p.Instances.Clear(ctx, fs)
		if err != nil {
			return ErrClass(err)
		}
		return fmt.Sprintf("ok:%d", n)
	case "penq":
		if len(parts) != 8 {
			return "bad-spec"
		}
		host, port, _ := strings.Cut(parts[1], ":")
		pn, _ := strconv.Atoi(port)
		pp, _ := strconv.Atoi(parts[2])
		goal, _ := strconv.Atoi(parts[3])
		retries, _ := strconv.Atoi(parts[4])
		maxr, _ := strconv.Atoi(parts[5])
		prb := probe.New(addr.NewForTesting(net.ParseIP(host), pn), pp, probe.Goal(goal), maxr)
		prb.Retries = retries
		// the two instants reach the repository in different representations (UTC / a fixed zone), as times that went through
		// different computations do: only the instants may matter
		before := ParseTime(parts[7])
		if !before.IsZero() {
			before = before.In(time.FixedZone("verif", 3600))
		}
		return ErrClass(p.Probes.AddBetween(ctx, prb, ParseTime(parts[6]), before))
	case "ppop":
		n, _ := strconv.Atoi(parts[1])
		prbs, expired, err := p.Probes.PopMany(ctx, n)
		if err != nil {
			return ErrClass(err)
		}
		xs := make([]string, len(prbs))
		for i, x := range prbs {
			xs[i] = RenderProbe(x)
		}
		return fmt.Sprintf("ok:%d:%s", expired, strings.Join(xs, ","))
	case "count":
		n, err := p.Servers.Count(ctx)
		if err != nil {
			return ErrClass(err)
		}
		return fmt.Sprintf("ok:%d", n)
	case "countby":
		m, err := p.Servers.CountByStatus(ctx)
		if err != nil {
			return ErrClass(err)
		}
		parts := make([]string, 0, 9)
		for _, b := range ds.Members() {
			parts = append(parts, strconv.Itoa(m[b]))
		}
		return "ok:" + strings.Join(parts, ",")
	}
	return "bad-spec"
}
