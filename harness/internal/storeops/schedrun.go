package storeops

import (
	"strconv"
	"strings"
	"time"

	"github.com/redis/go-redis/v9"

	"github.com/sergeii/swat4master/verifharness/internal/sched"
	"github.com/sergeii/swat4master/verifharness/internal/world"
)

// SchedResult is what a scheduled run produced.
type SchedResult struct {
	Trace   []string // "<client>:<kind>:<reply>" in execution order
	Results []string // per client: its rendered result, "crashed" or "hung"
	Dump    []string // canonical keyspace after every live client finished
	Hung    bool
}

// RunScheduled runs the clients (each on its own logical process of w) under the event list.
//
//	s<i>   grant client i its next storage command        e      all lock leases expire (miniredis FastForward 1s)
//	t<ns>  advance the fake clock                          cb<i>  crash client i before its next command
//	ca<i>  crash client i after its next command took effect
//	fb<i>  the next command of client i fails without effect    fa<i>  … fails after taking effect (reply lost)
//
// Events naming a finished or crashed client are skipped.  When the list is exhausted the live clients
// are completed round-robin (one command each in turn).
func RunScheduled(w *world.World, clients []func(p *world.Proc) string, events []string) SchedResult {
	return RunScheduledWrap(w, clients, events, nil)
}

// RunScheduledWrap: like RunScheduled; wrap (optional) decorates the repositories of client i's process
// (used to mark repository-call boundaries: entries "<i>:call:<name>" / "<i>:ret:<name>" in the trace).
// Additional event:
//
//	c<i>   client i runs until its current/next repository call has returned (all its storage commands
//	       are granted back to back) — a call-granularity step
func RunScheduledWrap(w *world.World, clients []func(p *world.Proc) string, events []string,
	wrap func(sc *sched.Sched, id int, r world.Repos) world.Repos) SchedResult {
	sc := sched.New()
	procs := make([]*world.Proc, len(clients))
	results := make([]string, len(clients))
	for i := range clients {
		id, hook := sc.AddProc()
		po := world.ProcOpts{Hooks: []redis.Hook{hook}}
		if wrap != nil {
			po.Wrap = func(r world.Repos) world.Repos { return wrap(sc, id, r) }
		}
		procs[i] = w.NewProcOpts(po)
	}
	for i := range clients {
		i := i
		sc.Go(i, func() { results[i] = clients[i](procs[i]) })
	}
	sc.Settle()
	for _, ev := range events {
		if ev == "" || ev == "-" {
			continue
		}
		switch {
		case ev == "e":
			w.ExpireLeases(time.Second)
		case ev[0] == 't':
			ns, _ := strconv.ParseInt(ev[1:], 10, 64)
			w.Advance(time.Duration(ns))
		default:
			var act sched.Action
			var num string
			switch {
			case strings.HasPrefix(ev, "cb"):
				act, num = sched.CrashBefore, ev[2:]
			case strings.HasPrefix(ev, "ca"):
				act, num = sched.CrashAfter, ev[2:]
			case strings.HasPrefix(ev, "fb"):
				act, num = sched.FaultBefore, ev[2:]
			case strings.HasPrefix(ev, "fa"):
				act, num = sched.FaultAfter, ev[2:]
			case ev[0] == 's':
				act, num = sched.Run, ev[1:]
			case ev[0] == 'c':
				i, err := strconv.Atoi(ev[1:])
				if err != nil {
					continue
				}
				before := sc.CountMarks(i, "ret:")
				for sc.Step(i, sched.Run) {
					if sc.CountMarks(i, "ret:") > before || sc.Hung {
						break
					}
				}
				continue
			default:
				continue
			}
			i, err := strconv.Atoi(num)
			if err != nil {
				continue
			}
			sc.Step(i, act)
		}
		if sc.Hung {
			break
		}
	}
	for !sc.Hung {
		progressed := false
		for i := range clients {
			if sc.Step(i, sched.Run) {
				progressed = true
			}
		}
		if !progressed {
			break
		}
	}
	for i := range clients {
		switch {
		case sc.Crashed(i):
			results[i] = "crashed"
		case !sc.Done(i):
			results[i] = "hung"
		}
	}
	res := SchedResult{Trace: append([]string{}, sc.Trace...), Results: results, Dump: w.Dump(), Hung: sc.Hung}
	sc.Finish()
	return res
}
