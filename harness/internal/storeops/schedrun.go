package storeops

import (
	"context"
	"fmt"
	"strconv"
	"strings"
	"time"

	"github.com/redis/go-redis/v9"

	"github.com/sergeii/swat4master/verifharness/internal/sched"
	"github.com/sergeii/swat4master/verifharness/internal/world"
)

// SchedResult is what a scheduled run produced.
type SchedResult struct {
	Trace     []string // "<client>:<kind>:<reply>" in execution order (plus call/ret markers when wrapped)
	Results   []string // per client: its rendered result, "crashed" or "hung"
	Dump      []string // canonical keyspace after every live client finished
	Effective []string // call-granularity events as they actually happened (wrapped runs only), see below
	Timeline  []string // the trace with clock ticks ("t:<ns>") and lease expiries ("e") interleaved where they happened
	Hung      bool
}

// RunScheduled runs the clients (each on its own logical process of w) under the event list.
//
//	s<i>   grant client i its next storage command        e      all lock leases expire (miniredis FastForward 1s)
//	t<ns>  advance the fake clock                          cb<i>  crash client i before its next command
//	ca<i>  crash client i after its next command took effect
//	fb<i>  the next command of client i fails without effect    fa<i>  … fails after taking effect (reply lost)
//
// Events naming a finished or crashed client are skipped.  When the list is exhausted the live clients
// are completed round-robin (one command each in turn).
func RunScheduled(w *world.World, clients []func(p *world.Proc) string, events []string) SchedResult {
	return RunScheduledWrap(w, clients, events, nil)
}

// RunScheduledWrap: like RunScheduled; wrap (optional) decorates the repositories of client i's process
// so that repository-call boundaries appear in the trace as "<i>:call:<name>" / "<i>:ret:<name>".
// Additional call-granularity events (wrapped runs):
//
//	c<i>          client i runs until its current/next repository call has returned
//	xb<i>:<k>     client i dies before the k-th storage command (k = 0, 1, …) of its next repository call
//	xa<i>:<k>     … after that command took effect (reply lost)
//	yb<i>:<k>     the k-th storage command of client i's next repository call fails without effect
//	ya<i>:<k>     … fails after taking effect
//
// If the call has fewer than k+1 commands the event degrades to c<i>.  Completion is round-robin, one
// repository call per turn.  Effective lists what happened at call granularity, in order:
// "c<i>", "crash<i>:<0|1>" (1 = the call's MULTI/EXEC had been executed), "fault<i>:<0|1>" (the call
// returned an error because of the injected fault), "t<ns>", "e".
func RunScheduledWrap(w *world.World, clients []func(p *world.Proc) string, events []string,
	wrap func(sc *sched.Sched, id int, r world.Repos) world.Repos) SchedResult {
	return RunScheduledLazy(w, clients, nil, events, wrap)
}

// RunScheduledLazy: lazy[i] = true delays the start of client i until the first event that names it
// (so that a history of use cases executed one after the other reads the clock when each one starts).
// Additional event:  r<i>  start client i if necessary and run it to completion, call by call.
func RunScheduledLazy(w *world.World, clients []func(p *world.Proc) string, lazy []bool, events []string,
	wrap func(sc *sched.Sched, id int, r world.Repos) world.Repos) SchedResult {
	return runScheduled(w, clients, lazy, events, wrap, false)
}

// RunScheduledShared: like RunScheduled, but the clients are concurrent operations of ONE component: they share
// its redis client (connection pool), lock manager and repositories, as the goroutines of the reporter, the API
// or a prober's worker pool do.  The scheduler tells them apart by the context they call with.
func RunScheduledShared(w *world.World, clients []func(p *world.Proc) string, events []string) SchedResult {
	return runScheduled(w, clients, nil, events, nil, true)
}

func runScheduled(w *world.World, clients []func(p *world.Proc) string, lazy []bool, events []string,
	wrap func(sc *sched.Sched, id int, r world.Repos) world.Repos, shared bool) SchedResult {
	sc := sched.New()
	procs := make([]*world.Proc, len(clients))
	results := make([]string, len(clients))
	for i := range clients {
		id, hook := sc.AddProc()
		if shared && i > 0 {
			q := *procs[0]
			q.Ctx = sched.WithID(context.Background(), id)
			procs[i] = &q
			continue
		}
		po := world.ProcOpts{Hooks: []redis.Hook{hook}}
		if wrap != nil {
			po.Wrap = func(r world.Repos) world.Repos { return wrap(sc, id, r) }
		}
		procs[i] = w.NewProcOpts(po)
		if shared {
			procs[i].Ctx = sched.WithID(context.Background(), id)
		}
	}
	started := make([]bool, len(clients))
	start := func(i int) {
		if i < 0 || i >= len(clients) || started[i] {
			return
		}
		started[i] = true
		sc.Go(i, func() { results[i] = clients[i](procs[i]) })
		sc.Settle()
	}
	for i := range clients {
		if lazy == nil || !lazy[i] {
			started[i] = true
			i := i
			sc.Go(i, func() { results[i] = clients[i](procs[i]) })
		}
	}
	sc.Settle()
	var eff []string
	var timeline []string
	seen := 0
	flushTrace := func() { // copy trace entries produced since the last call into the timeline
		for ; seen < len(sc.Trace); seen++ {
			timeline = append(timeline, sc.Trace[seen])
		}
	}

	// callStep runs client i to the end of its current/next repository call; returns false if not live.
	callStep := func(i int) bool {
		start(i)
		if !sc.Live(i) {
			return false
		}
		before := sc.CountMarks(i, "ret:")
		progressed := false
		for sc.Step(i, sched.Run) {
			progressed = true
			if sc.CountMarks(i, "ret:") > before || sc.Hung {
				break
			}
		}
		return progressed
	}
	// execSince: did client i execute a MULTI/EXEC successfully since trace position from?
	execSince := func(i, from int) bool {
		for _, t := range sc.Trace[from:] {
			if strings.HasPrefix(t, fmt.Sprintf("%d:exec:ok", i)) || strings.HasPrefix(t, fmt.Sprintf("%d:exec:fault-after", i)) {
				return true
			}
		}
		return false
	}
	inCall := func(i int, k int, act sched.Action) {
		start(i)
		if !sc.Live(i) {
			return
		}
		from := len(sc.Trace)
		before := sc.CountMarks(i, "ret:")
		for n := 0; n < k; n++ {
			if !sc.Step(i, sched.Run) || sc.CountMarks(i, "ret:") > before {
				break
			}
		}
		if !sc.Live(i) || sc.CountMarks(i, "ret:") > before {
			eff = append(eff, fmt.Sprintf("c%d", i)) // the call was shorter: completed normally
			return
		}
		sc.Step(i, act)
		switch act {
		case sched.CrashBefore, sched.CrashAfter:
			eff = append(eff, fmt.Sprintf("crash%d:%d", i, b2i(execSince(i, from))))
		default:
			// let the call return; it failed iff its ret marker says so
			for sc.Live(i) && sc.CountMarks(i, "ret:") == before {
				if !sc.Step(i, sched.Run) {
					break
				}
			}
			failed := false
			for _, t := range sc.Trace[from:] {
				if strings.HasPrefix(t, fmt.Sprintf("%d:ret:", i)) && strings.HasSuffix(t, ":err") {
					failed = true
				}
			}
			if failed {
				eff = append(eff, fmt.Sprintf("fault%d:%d", i, b2i(execSince(i, from))))
			} else {
				eff = append(eff, fmt.Sprintf("c%d", i))
			}
		}
	}

	for _, ev := range events {
		if ev == "" || ev == "-" {
			continue
		}
		switch {
		case ev == "e":
			flushTrace()
			timeline = append(timeline, "e")
			w.ExpireLeases(time.Second)
			eff = append(eff, "e")
		case ev[0] == 't':
			flushTrace()
			ns, _ := strconv.ParseInt(ev[1:], 10, 64)
			timeline = append(timeline, fmt.Sprintf("t:%d", ns))
			w.Advance(time.Duration(ns))
			eff = append(eff, ev)
		case ev[0] == 'c' && len(ev) > 1 && ev[1] >= '0' && ev[1] <= '9':
			i, err := strconv.Atoi(ev[1:])
			if err == nil && callStep(i) {
				eff = append(eff, fmt.Sprintf("c%d", i))
			}
		case ev[0] == 'r' && len(ev) > 1:
			i, err := strconv.Atoi(ev[1:])
			if err != nil {
				continue
			}
			for callStep(i) {
				eff = append(eff, fmt.Sprintf("c%d", i))
				if sc.Hung {
					break
				}
			}
		case ev[0] == 'x' || ev[0] == 'y':
			body, ks, ok := strings.Cut(ev[2:], ":")
			i, err1 := strconv.Atoi(body)
			k, err2 := strconv.Atoi(ks)
			if !ok || err1 != nil || err2 != nil || len(ev) < 3 {
				continue
			}
			var act sched.Action
			switch ev[:2] {
			case "xb":
				act = sched.CrashBefore
			case "xa":
				act = sched.CrashAfter
			case "yb":
				act = sched.FaultBefore
			case "ya":
				act = sched.FaultAfter
			default:
				continue
			}
			inCall(i, k, act)
		default:
			var act sched.Action
			var num string
			switch {
			case strings.HasPrefix(ev, "cb"):
				act, num = sched.CrashBefore, ev[2:]
			case strings.HasPrefix(ev, "ca"):
				act, num = sched.CrashAfter, ev[2:]
			case strings.HasPrefix(ev, "fb"):
				act, num = sched.FaultBefore, ev[2:]
			case strings.HasPrefix(ev, "fa"):
				act, num = sched.FaultAfter, ev[2:]
			case ev[0] == 's':
				act, num = sched.Run, ev[1:]
			default:
				continue
			}
			i, err := strconv.Atoi(num)
			if err != nil {
				continue
			}
			start(i)
			before := sc.CountMarks(i, "ret:")
			stepped := sc.Step(i, act)
			if wrap != nil && act == sched.Run && stepped {
				// call-granularity view of a single storage command: the call returned (whole call) or not yet (half)
				if sc.CountMarks(i, "ret:") > before {
					eff = append(eff, fmt.Sprintf("c%d", i))
				} else {
					eff = append(eff, fmt.Sprintf("h%d", i))
				}
			}
		}
		if sc.Hung {
			break
		}
	}
	for i := range clients {
		start(i)
	}
	for !sc.Hung {
		progressed := false
		for i := range clients {
			if wrap == nil {
				if sc.Step(i, sched.Run) {
					progressed = true
				}
				continue
			}
			if callStep(i) {
				progressed = true
				eff = append(eff, fmt.Sprintf("c%d", i))
			}
		}
		if !progressed {
			break
		}
	}
	for i := range clients {
		switch {
		case sc.Crashed(i):
			results[i] = "crashed"
		case !sc.Done(i):
			results[i] = "hung"
		}
	}
	flushTrace()
	res := SchedResult{Trace: append([]string{}, sc.Trace...), Results: results, Dump: w.Dump(), Effective: eff, Timeline: timeline, Hung: sc.Hung}
	sc.Finish()
	return res
}

func b2i(b bool) int {
	if b {
		return 1
	}
	return 0
}
