// Package c13: probe outcomes.  (a) the exhaustive 512 × 2 × 3 status transformation table against the
// real probers' HandleSuccess / HandleRetry / HandleFailure; (b) the real probeserver use case with a
// scripted prober, interleaved at repository-call granularity with one concurrent heartbeat, keepalive
// or second probe.
package c13

import (
	"fmt"
	"math/rand"
	"strconv"
	"strings"

	ds "github.com/sergeii/swat4master/internal/core/entities/discovery/status"
	"github.com/sergeii/swat4master/internal/core/entities/server"
	"github.com/sergeii/swat4master/internal/prober/probers"
	"github.com/sergeii/swat4master/internal/prober/probers/detailsprober"
	"github.com/sergeii/swat4master/internal/prober/probers/portprober"
	"github.com/sergeii/swat4master/verifharness/internal/core"
	"github.com/sergeii/swat4master/verifharness/internal/ucops"
	"github.com/sergeii/swat4master/verifharness/internal/world"
)

func init() {
	core.Register(&core.Prop{ID: "C13", Gen: gen, Exec: exec})
}

func exec(op string, args []string) []string {
	var out []string
	txt, ok := core.Guard(func() {
		switch {
		case op == "table" && len(args) == 3:
			out = table(args[0], args[1], args[2])
		case op == "uc" && len(args) == 3:
			opts := world.DefaultOptions()
			out = ucops.RunUC(opts, args[0], args[1], args[2])
		default:
			out = []string{"bad-op"}
		}
	})
	if !ok {
		return []string{"panic:" + txt}
	}
	return out
}

// table <goal 0|1> <outcome success|retry|failure> <word>  =>  resulting status word
var tableWorld *world.World
var tableProc *world.Proc

func table(goal, outcome, word string) []string {
	if tableWorld == nil { // the table needs no storage: one world per harness process
		tableWorld = world.New(world.DefaultOptions())
		tableProc = tableWorld.NewProc()
	}
	w, p := tableWorld, tableProc
	var pr probers.Prober
	var res any
	det := ucops.DetailsFor("x", 1)
	if goal == "1" {
		pr = portprober.New(portprober.Opts{Offsets: []int{1}}, p.Validate, w.Clock, p.Metrics, p.Logger)
		res = portprober.Result{Details: det, Port: 10481}
	} else {
		pr = detailsprober.New(p.Validate, w.Clock, p.Metrics, p.Logger)
		res = det
	}
	n, _ := strconv.Atoi(word)
	svr := server.Server{DiscoveryStatus: ds.DiscoveryStatus(n)}
	switch outcome {
	case "success":
		svr = pr.HandleSuccess(res, svr)
	case "retry":
		svr = pr.HandleRetry(svr)
	case "failure":
		svr = pr.HandleFailure(svr)
	default:
		return []string{"bad-op"}
	}
	return []string{strconv.Itoa(int(svr.DiscoveryStatus))}
}

const addrA = "1.1.1.1:10480"

func hexs(s string) string { return fmt.Sprintf("%x", s) }

func gen(rng *rand.Rand, tier core.Tier, emit core.Emit) {
	// (a) the whole table, every run
	for g := 0; g < 2; g++ {
		for _, o := range []string{"success", "retry", "failure"} {
			for w := 0; w < 512; w++ {
				emit("table", strconv.Itoa(g), o, strconv.Itoa(w))
			}
		}
	}
	// (b0) every interleaving of the first four repository calls of a probe with the first four of one concurrent
	// use case (70 merges of 4 + 4; what is left runs round-robin), for each kind of concurrent use case and outcome:
	// in particular the concurrent update READS before the outcome commits and WRITES after it (its conflict callback runs)
	var merges [][]string
	var rec func(a, b int, cur []string)
	rec = func(a, b int, cur []string) {
		if a == 0 && b == 0 {
			merges = append(merges, append([]string{}, cur...))
			return
		}
		if a > 0 {
			rec(a-1, b, append(cur, "c0"))
		}
		if b > 0 {
			rec(a, b-1, append(cur, "c1"))
		}
	}
	rec(4, 4, nil)
	base := []string{fmt.Sprintf("report|%s|10481|00000001|%s|3", addrA, hexs("first")), fmt.Sprintf("probe|%s|10481|1|0|2|ok:10481:%s:4", addrA, hexs("probed"))}
	for _, other := range []string{
		fmt.Sprintf("report|%s|10481|00000001|%s|9", addrA, hexs("again")),
		"renew|00000001|1.1.1.1",
		fmt.Sprintf("probe|%s|10481|0|1|2|fail", addrA),
		fmt.Sprintf("remove|00000001|%s", addrA),
	} {
		for goal := 0; goal < 2; goal++ {
			// fail|3|2, fail|0|-1: the budget is already overdrawn (an item left by a run with a larger budget, a negative
			// budget from the command line): the probe has failed for good, it is not queued again
			for _, oc := range []string{"ok:10483:" + hexs("new") + ":6", "fail|0|2", "fail|2|2", "fail|3|2", "fail|0|-1"} {
				outcome, retries, maxr := oc, "0", "2"
				if parts := strings.Split(oc, "|"); len(parts) == 3 {
					outcome, retries, maxr = parts[0], parts[1], parts[2]
				}
				probe := fmt.Sprintf("probe|%s|10481|%d|%s|%s|%s", addrA, goal, retries, maxr, outcome)
				for i, m := range merges {
					if tier != core.Thorough && (i+goal)%2 == 1 && !strings.HasPrefix(other, "renew") {
						continue // quick tier: half of the merges (all of them for the keepalive)
					}
					if (oc == "fail|3|2" || oc == "fail|0|-1") && i%9 != 0 {
						continue // a few merges are enough for the overdrawn budgets
					}
					emit("uc", strings.Join(base, ","), probe+","+other, strings.Join(m, ","))
				}
			}
		}
	}
	// (b) interleavings
	n := 120
	if tier == core.Thorough {
		n = 3000
	}
	for c := 0; c < n; c++ {
		var init []string
		// a reachable initial record: reported, possibly probed before, possibly with arbitrary status planted
		init = append(init, fmt.Sprintf("report|%s|10481|00000001|%s|3", addrA, hexs("first")))
		switch rng.Intn(4) {
		case 0:
			init = append(init, fmt.Sprintf("probe|%s|10481|1|0|2|ok:10481:%s:4", addrA, hexs("probed")))
		case 1:
			init = append(init, fmt.Sprintf("probe|%s|10481|1|0|2|ok:10481:%s:4", addrA, hexs("probed")),
				fmt.Sprintf("probe|%s|10481|0|0|2|ok:10481:%s:5", addrA, hexs("detailed")))
		case 2:
			init = append(init, fmt.Sprintf("probe|%s|10481|1|0|2|fail", addrA))
		}
		if rng.Intn(3) == 0 {
			init = append(init, fmt.Sprintf("adv%d", 256000*(1+rng.Intn(20))))
		}
		goal := rng.Intn(2)
		maxr := rng.Intn(6)
		retries := rng.Intn(maxr + 1)
		switch rng.Intn(12) {
		case 0:
			retries = maxr + 1 + rng.Intn(3)
		case 1:
			maxr, retries = -1-rng.Intn(2), rng.Intn(2)
		}
		outcome := "fail"
		if rng.Intn(2) == 0 {
			outcome = fmt.Sprintf("ok:%d:%s:%d", 10481+rng.Intn(3), hexs("new"+strconv.Itoa(rng.Intn(9))), rng.Intn(16))
		}
		probe := fmt.Sprintf("probe|%s|10481|%d|%d|%d|%s", addrA, goal, retries, maxr, outcome)
		var other string
		switch rng.Intn(4) {
		case 0:
			other = fmt.Sprintf("report|%s|10481|00000001|%s|%d", addrA, hexs("again"), rng.Intn(16))
		case 1:
			other = "renew|00000001|1.1.1.1"
		case 2:
			other = fmt.Sprintf("probe|%s|10481|%d|%d|%d|%s", addrA, rng.Intn(2), rng.Intn(3), 2, []string{"fail", "ok:10482:" + hexs("other") + ":7"}[rng.Intn(2)])
		default:
			other = fmt.Sprintf("remove|00000001|%s", addrA)
		}
		// place the whole concurrent use case after the probe's k-th repository call
		var ev []string
		k := rng.Intn(5)
		for i := 0; i < k; i++ {
			ev = append(ev, "c0")
		}
		if rng.Intn(3) == 0 {
			ev = append(ev, fmt.Sprintf("t%d", 256000*(1+rng.Intn(4))))
		}
		for i := 0; i < 8; i++ {
			ev = append(ev, "c1")
		}
		if rng.Intn(4) == 0 { // or a finer interleaving of calls
			ev = nil
			for i := 0; i < 12; i++ {
				ev = append(ev, fmt.Sprintf("c%d", rng.Intn(2)))
			}
		}
		emit("uc", strings.Join(init, ","), probe+","+other, strings.Join(ev, ","))
	}
}
