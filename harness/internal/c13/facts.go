package c13

import (
	"bytes"
	"fmt"
	"go/ast"
	"go/parser"
	"go/printer"
	"go/token"
	"io"
	"math"
	"path/filepath"
	"strings"
	"time"

	"github.com/sergeii/swat4master/verifharness/internal/facts"
)

// Facts the C13 model relies on, regenerated on every run:
//
//   - retryDelayExprGo: the source text of the right-hand side of `retryDelay := …` in
//     probeserver.UseCase.retry (go/ast + go/printer over /repo's file), so that a change of the formula
//     in the source changes the fact and fails `Swat4.C13.expFloor_matches_go`;
//   - expFloorGo: int64(time.Duration(math.Exp(float64(n)))) for n = 0..20, computed here with exactly the
//     expression and the types of the use case (`retries` is an `int`, the conversion of the float64 to
//     time.Duration = int64 truncates toward zero);
//   - retryDelayGoNs: int64(time.Second * time.Duration(math.Exp(float64(n)))) for the same n: the delay
//     handed to clock.Now().Add.
func init() {
	facts.Add("c13retry", func(w io.Writer, repo string) error {
		expr, err := retryDelayExpr(filepath.Join(repo, "internal", "core", "usecases", "probeserver", "probeserver.go"))
		if err != nil {
			return err
		}
		fmt.Fprintf(w, "def retryDelayExprGo : String := %s\n", facts.LeanStr(expr))

		floors := make([]string, 0, 21)
		delays := make([]string, 0, 21)
		for retries := 0; retries <= 20; retries++ {
			// probeserver.go: retryDelay := time.Second * time.Duration(math.Exp(float64(retries)))
			factor := time.Duration(math.Exp(float64(retries)))
			retryDelay := time.Second * time.Duration(math.Exp(float64(retries)))
			floors = append(floors, fmt.Sprintf("%d", int64(factor)))
			delays = append(delays, fmt.Sprintf("%d", int64(retryDelay)))
		}
		fmt.Fprintf(w, "def expFloorGo : List Int := [%s]\n", strings.Join(floors, ", "))
		fmt.Fprintf(w, "def retryDelayGoNs : List Int := [%s]\n", strings.Join(delays, ", "))
		return nil
	})
}

// retryDelayExpr returns the printed right-hand side of the `retryDelay := …` statement of func retry.
func retryDelayExpr(path string) (string, error) {
	fset := token.NewFileSet()
	file, err := parser.ParseFile(fset, path, nil, 0)
	if err != nil {
		return "", err
	}
	var found []string
	for _, d := range file.Decls {
		fd, ok := d.(*ast.FuncDecl)
		if !ok || fd.Name.Name != "retry" || fd.Body == nil {
			continue
		}
		ast.Inspect(fd.Body, func(n ast.Node) bool {
			as, ok := n.(*ast.AssignStmt)
			if !ok || len(as.Lhs) != 1 || len(as.Rhs) != 1 {
				return true
			}
			if id, ok := as.Lhs[0].(*ast.Ident); ok && id.Name == "retryDelay" {
				var buf bytes.Buffer
				if err := printer.Fprint(&buf, fset, as.Rhs[0]); err == nil {
					found = append(found, buf.String())
				}
			}
			return true
		})
	}
	if len(found) != 1 {
		return "", fmt.Errorf("probeserver.go: expected exactly one `retryDelay :=` in func retry, found %d", len(found))
	}
	return found[0], nil
}
