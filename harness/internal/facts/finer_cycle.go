package facts

// Section "cyclefiner" (C15): the refresher / reviver cycle.  "A probe queued in one cycle expires at the start of the
// next" holds because the ticker period and the probe deadline are built from the SAME configuration field, and the
// deadline travels unchanged through NewRequest → Execute → addProbe → AddBetween(…, before).

import (
	"strings"
	"fmt"
	"go/ast"
	"io"
)

func init() {
	Add("cyclefiner", func(w io.Writer, repo string) error {
		var tickers, defs, reqs, expiry, adds, lastArgs, cycCalls, ctxDerived, runShape [][]string
		for _, c := range []struct{ comp, fn string }{{"refresher", "refresh"}, {"reviver", "revive"}} {
			s, err := loadSrc(repo, "cmd/swat4master/components/"+c.comp+"/"+c.comp+".go")
			if err != nil {
				return err
			}
			runFn, err := s.fn("run")
			if err != nil {
				return err
			}
			cyc, err := s.fn(c.fn)
			if err != nil {
				return err
			}
			for _, fd := range s.funcs() {
				ast.Inspect(fd, func(n ast.Node) bool {
					if call, sel := selCall(n); call != nil {
						switch sel.Sel.Name {
						case "NewTicker", "NewTimer", "Tick", "After", "AfterFunc", "Sleep":
							tickers = append(tickers, []string{s.base(), fd.Name.Name, s.t(sel), s.args(call.Args)})
						case "NewRequest":
							reqs = append(reqs, []string{s.base(), fd.Name.Name, s.t(sel), s.args(call.Args)})
						}
					}
					return true
				})
			}
			// the cycle as the ticker loop calls it, and every derived context of the file: a cycle runs under the component's own
			// context — no wall-clock bound of its own cuts a long cycle short (servers left without their probe)
			ast.Inspect(runFn, func(n ast.Node) bool {
				if call, ok := n.(*ast.CallExpr); ok {
					if id, ok := call.Fun.(*ast.Ident); ok && id.Name == c.fn {
						cycCalls = append(cycCalls, []string{s.base(), "run", id.Name, s.args(call.Args)})
					}
				}
				return true
			})
			// who may end the cycle's context, and when: the `go` statements of the file and every call of `cancel`
			// (deferred or not) in `run`: a cycle in flight when the component is stopped runs to its end
			for _, fd := range s.funcs() {
				ast.Inspect(fd, func(n ast.Node) bool {
					switch x := n.(type) {
					case *ast.GoStmt:
						runShape = append(runShape, []string{s.base(), fd.Name.Name, "go", strings.Join(strings.Fields(s.t(x.Call)), " ")})
					case *ast.DeferStmt:
						if id, ok := x.Call.Fun.(*ast.Ident); ok && id.Name == "cancel" {
							runShape = append(runShape, []string{s.base(), fd.Name.Name, "defer", "cancel()"})
						}
					case *ast.ExprStmt:
						if call, ok := x.X.(*ast.CallExpr); ok {
							if id, ok := call.Fun.(*ast.Ident); ok && id.Name == "cancel" {
								runShape = append(runShape, []string{s.base(), fd.Name.Name, "call", "cancel()"})
							}
						}
					}
					return true
				})
			}
			for _, fd := range s.funcs() {
				ast.Inspect(fd, func(n ast.Node) bool {
					if call, sel := selCall(n); call != nil && s.t(sel.X) == "context" {
						ctxDerived = append(ctxDerived, []string{s.base(), fd.Name.Name, s.t(sel), s.args(call.Args)})
					}
					return true
				})
			}
			// deadline := <base>.Add(<addend>), and the request's last argument
			ast.Inspect(cyc, func(n ast.Node) bool {
				if as, ok := n.(*ast.AssignStmt); ok && len(as.Lhs) == 1 && len(as.Rhs) == 1 {
					if id, ok := as.Lhs[0].(*ast.Ident); ok && id.Name == "deadline" {
						if call, sel := selCall(as.Rhs[0]); call != nil && sel.Sel.Name == "Add" && len(call.Args) == 1 {
							adds = append(adds, []string{s.base(), s.t(sel.X), s.t(call.Args[0])})
						} else {
							adds = append(adds, []string{s.base(), "?", s.t(as.Rhs[0])})
						}
					}
				}
				if call, sel := selCall(n); call != nil && sel.Sel.Name == "NewRequest" && len(call.Args) > 0 {
					lastArgs = append(lastArgs, []string{s.base(), s.t(call.Args[len(call.Args)-1])})
				}
				return true
			})
			for _, name := range []string{"now", "deadline"} {
				for _, h := range s.identHistory(cyc, name) {
					defs = append(defs, []string{s.base(), c.fn, name, h})
				}
			}
		}
		for _, uc := range []string{"refreshservers", "reviveservers"} {
			s, err := loadSrc(repo, "internal/core/usecases/"+uc+"/"+uc+".go")
			if err != nil {
				return err
			}
			for _, f := range []string{"NewRequest", "Execute", "addProbe"} {
				if _, err := s.fn(f); err != nil {
					return err
				}
			}
			for _, fd := range s.funcs() {
				ast.Inspect(fd, func(n ast.Node) bool {
					switch x := n.(type) {
					case *ast.CallExpr:
						if sel, ok := x.Fun.(*ast.SelectorExpr); ok && (sel.Sel.Name == "AddBetween" || sel.Sel.Name == "Add" && s.t(sel.X) == "uc.probeRepo" || sel.Sel.Name == "addProbe") {
							expiry = append(expiry, []string{s.base(), fd.Name.Name, s.t(sel), s.args(x.Args)})
						}
					case *ast.KeyValueExpr:
						if fd.Name.Name == "NewRequest" {
							expiry = append(expiry, []string{s.base(), fd.Name.Name, "Request." + s.t(x.Key), s.t(x.Value)})
						}
					}
					return true
				})
			}
		}
		fmt.Fprintln(w, "/-- every ticker / timer / sleep of refresher.go and reviver.go: (file, function, constructor, arguments) -/")
		fmt.Fprintf(w, "def cycleTickers : %s :=\n  %s\n", leanTupleType(4), leanTuples(tickers))
		fmt.Fprintln(w, "/-- the cycle function as the ticker loop of `run` calls it: (file, function, callee, arguments) -/")
		fmt.Fprintf(w, "def cycleCalls : %s :=\n  %s\n", leanTupleType(4), leanTuples(cycCalls))
		fmt.Fprintln(w, "/-- every call into package `context` in refresher.go / reviver.go (derived contexts, timeouts): (file, function, callee, arguments) -/")
		fmt.Fprintf(w, "def cycleContextCalls : %s :=\n  %s\n", leanTupleType(4), leanTuples(ctxDerived))
		fmt.Fprintln(w, "/-- every `go` statement and every call of `cancel` in refresher.go / reviver.go: (file, function, kind, text) -/")
		fmt.Fprintf(w, "def cycleRunShape : %s :=\n  %s\n", leanTupleType(4), leanTuples(runShape))
		fmt.Fprintln(w, "/-- what gives `now` and `deadline` their value in `refresh` / `revive`: (file, function, identifier, definition) -/")
		fmt.Fprintf(w, "def cycleDeadlineDefs : %s :=\n  %s\n", leanTupleType(4), leanTuples(defs))
		fmt.Fprintln(w, "/-- every `deadline := B.Add(E)` of `refresh` / `revive`, taken apart: (file, B, E) -/")
		fmt.Fprintf(w, "def cycleDeadlineAdd : %s :=\n  %s\n", leanTupleType(3), leanTuples(adds))
		fmt.Fprintln(w, "/-- the last argument of every `NewRequest(…)` call of `refresh` / `revive`: (file, argument) -/")
		fmt.Fprintf(w, "def cycleRequestLastArg : %s :=\n  %s\n", leanTupleType(2), leanTuples(lastArgs))
		fmt.Fprintln(w, "/-- the use-case requests the components build: (file, function, constructor, arguments) -/")
		fmt.Fprintf(w, "def cycleRequests : %s :=\n  %s\n", leanTupleType(4), leanTuples(reqs))
		fmt.Fprintln(w, "/-- how the deadline reaches the queue in the use cases: the fields `NewRequest` fills, the arguments of `addProbe`")
		fmt.Fprintln(w, "and of the probe repository's `AddBetween` / `Add`: (file, function, callee or field, arguments) -/")
		fmt.Fprintf(w, "def cycleExpiryFlow : %s :=\n  %s\n", leanTupleType(4), leanTuples(expiry))
		return nil
	})
}
