package facts

import (
	"bytes"
	"fmt"
	"go/ast"
	"go/parser"
	"go/printer"
	"go/token"
	"io"
	"os"
	"path/filepath"
	"sort"
	"strings"
)

// configwiring: how configuration reaches the components.  Every composite literal of a configuration-like struct
// (type name ending in Config, Settings, Opts, Options) in the non-test sources of cmd/swat4master — the values given to
// fx.Supply in main.go and in each component's command, and the provide* functions that turn a component's Config into
// the options of what it runs — as (file, enclosing function, struct type, field, source text of the value).
// A command-line value wired to the wrong field, a unit conversion or a "sensible" max/min slipped into a literal
// changes this list.
func init() {
	Add("configwiring", func(w io.Writer, repo string) error {
		root := filepath.Join(repo, "cmd", "swat4master")
		var rows [][5]string
		fset := token.NewFileSet()
		err := filepath.Walk(root, func(path string, info os.FileInfo, err error) error {
			if err != nil {
				return err
			}
			if info.IsDir() || !strings.HasSuffix(path, ".go") || strings.HasSuffix(path, "_test.go") {
				return nil
			}
			f, perr := parser.ParseFile(fset, path, nil, 0)
			if perr != nil {
				return perr
			}
			rel, _ := filepath.Rel(root, path)
			for _, decl := range f.Decls {
				var body ast.Node
				name := ""
				switch d := decl.(type) {
				case *ast.FuncDecl:
					if d.Body == nil {
						continue
					}
					body, name = d.Body, d.Name.Name
					if d.Recv != nil && len(d.Recv.List) > 0 {
						name = text(fset, d.Recv.List[0].Type) + "." + name
					}
				case *ast.GenDecl: // package-level variables: `var Module = fx.Module(…)` with its inline providers
					if d.Tok != token.VAR {
						continue
					}
					body, name = d, "var"
					if len(d.Specs) == 1 {
						if vs, ok := d.Specs[0].(*ast.ValueSpec); ok && len(vs.Names) == 1 {
							name = "var " + vs.Names[0].Name
						}
					}
				default:
					continue
				}
				ast.Inspect(body, func(n ast.Node) bool {
					cl, ok := n.(*ast.CompositeLit)
					if !ok || cl.Type == nil {
						return true
					}
					tn := text(fset, cl.Type)
					base := tn
					if i := strings.LastIndex(base, "."); i >= 0 {
						base = base[i+1:]
					}
					if !(strings.HasSuffix(base, "Config") || strings.HasSuffix(base, "Settings") || strings.HasSuffix(base, "Opts") || strings.HasSuffix(base, "Options")) {
						return true
					}
					for _, el := range cl.Elts {
						kv, ok := el.(*ast.KeyValueExpr)
						if !ok {
							rows = append(rows, [5]string{rel, name, tn, "<positional>", text(fset, el)})
							continue
						}
						rows = append(rows, [5]string{rel, name, tn, text(fset, kv.Key), text(fset, kv.Value)})
					}
					return true
				})
			}
			return nil
		})
		if err != nil {
			return err
		}
		sort.SliceStable(rows, func(i, j int) bool {
			if rows[i][0] != rows[j][0] {
				return rows[i][0] < rows[j][0]
			}
			return false
		})
		fmt.Fprintln(w, "/-- (file under cmd/swat4master, function, struct type, field, value expression) of every configuration literal -/")
		fmt.Fprint(w, "def configWiring : List (String × String × String × String × String) := [")
		for i, r := range rows {
			if i > 0 {
				fmt.Fprint(w, ",")
			}
			fmt.Fprintf(w, "\n  (%s, %s, %s, %s, %s)", LeanStr(r[0]), LeanStr(r[1]), LeanStr(r[2]), LeanStr(r[3]), LeanStr(r[4]))
		}
		fmt.Fprintln(w, "]")
		return nil
	})
}

func text(fset *token.FileSet, n ast.Node) string {
	var b bytes.Buffer
	_ = printer.Fprint(&b, fset, n)
	return strings.Join(strings.Fields(b.String()), " ")
}
