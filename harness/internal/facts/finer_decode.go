package facts

// Section "decodefiner" (C09, C11): how a stored record becomes a value again.  The registry model treats decoding as the
// inverse of encoding and as total on everything any release of the program has written: the repositories decode with a
// plain `json.Unmarshal` (unknown members ignored, a decoding error returned to the caller, nothing swallowed, nothing
// rejected beyond what encoding/json rejects).

import (
	"fmt"
	"go/ast"
	"io"
	"strings"
)

func init() {
	Add("decodefiner", func(w io.Writer, repo string) error {
		var calls, body [][]string
		for _, f := range storeFinerFiles[:3] {
			s, err := loadSrc(repo, f.rel)
			if err != nil {
				return err
			}
			for _, fd := range s.funcs() {
				ast.Inspect(fd, func(n ast.Node) bool {
					if call, sel := selCall(n); call != nil && s.t(sel.X) == "json" {
						calls = append(calls, []string{f.short, fd.Name.Name, s.t(sel), s.args(call.Args)})
					}
					return true
				})
			}
			if f.short == "servers" {
				fd, err := s.fn("decodeServer")
				if err != nil {
					return err
				}
				for _, st := range fd.Body.List {
					body = append(body, []string{f.short, "decodeServer", strings.Join(strings.Fields(s.t(st)), " ")})
				}
			}
		}
		fmt.Fprintln(w, "/-- every call into encoding/json of the three repositories: (file, function, callee, arguments) -/")
		fmt.Fprintf(w, "def storeJsonCalls : %s :=\n  %s\n", leanTupleType(4), leanTuples(calls))
		fmt.Fprintln(w, "/-- the statements of `servers.decodeServer`, one per row, white space collapsed: (file, function, statement) -/")
		fmt.Fprintf(w, "def storeDecodeServerBody : %s :=\n  %s\n", leanTupleType(3), leanTuples(body))
		return nil
	})
}
