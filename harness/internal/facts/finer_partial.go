package facts

// Section "partialfiner" (C06, C01, C02): the operations of the browser request path that can panic at run time — explicit
// `panic(…)` calls, index expressions whose index is not an integer literal, slice expressions with a bound that is
// not an integer literal — in internal/browser, pkg/gamespy/crypt and pkg/gamespy/browsing.  The models were written
// against this inventory (each entry is either proved in range or guarded by a length check in the model); a new
// entry is an operation no theorem has looked at.

import (
	"fmt"
	"go/ast"
	"io"
)

func init() {
	Add("partialfiner", func(w io.Writer, repo string) error {
		var rows [][]string
		for _, rel := range []string{
			"internal/browser/browser.go",
			"pkg/gamespy/crypt/crypt.go",
			"pkg/gamespy/crypt/state.go",
			"pkg/gamespy/browsing/browsing.go",
		} {
			s, err := loadSrc(repo, rel)
			if err != nil {
				return err
			}
			if len(s.funcs()) == 0 {
				return fmt.Errorf("finer facts: %s: no function left", rel)
			}
			lit := func(e ast.Expr) bool {
				if e == nil {
					return true
				}
				_, ok := intLit(e)
				return ok
			}
			for _, fd := range s.funcs() {
				ast.Inspect(fd, func(n ast.Node) bool {
					switch x := n.(type) {
					case *ast.IndexExpr:
						if !lit(x.Index) {
							rows = append(rows, []string{s.base(), fd.Name.Name, "index", s.t(x)})
						}
					case *ast.SliceExpr:
						if !lit(x.Low) || !lit(x.High) || !lit(x.Max) {
							rows = append(rows, []string{s.base(), fd.Name.Name, "slice", s.t(x)})
						}
					case *ast.TypeAssertExpr:
						if x.Type != nil {
							rows = append(rows, []string{s.base(), fd.Name.Name, "assert", s.t(x)})
						}
					case *ast.CallExpr:
						if id, ok := x.Fun.(*ast.Ident); ok && id.Name == "panic" {
							rows = append(rows, []string{s.base(), fd.Name.Name, "panic", s.t(x)})
						}
					}
					return true
				})
			}
		}
		fmt.Fprintln(w, "/-- (file, function, panic|index|slice|assert, expression) — see the section comment in finer_partial.go -/")
		fmt.Fprintf(w, "def browserPartialOps : %s :=\n  %s\n", leanTupleType(4), leanTuples(rows))
		return nil
	})
}
