package facts

import (
	"fmt"
	"io"
	"reflect"
	"strings"

	"github.com/sergeii/swat4master/internal/core/entities/details"
	ds "github.com/sergeii/swat4master/internal/core/entities/discovery/status"
)

// kinds of struct fields in declaration order: 0 = int kinds, 1 = bool, 2 = string, 9 = anything else
func fieldKinds(t reflect.Type) (names []string, kinds []string) {
	for i := 0; i < t.NumField(); i++ {
		f := t.Field(i)
		k := "9"
		switch f.Type.Kind() {
		case reflect.Int, reflect.Int8, reflect.Int16, reflect.Int32, reflect.Int64:
			k = "0"
		case reflect.Bool:
			k = "1"
		case reflect.String:
			k = "2"
		}
		names = append(names, f.Name)
		kinds = append(kinds, k)
	}
	return
}

func init() {
	Add("entities", func(w io.Writer, _ string) error {
		for _, x := range []struct {
			name string
			t    reflect.Type
		}{{"info", reflect.TypeOf(details.Info{})}, {"player", reflect.TypeOf(details.Player{})}, {"objective", reflect.TypeOf(details.Objective{})}} {
			names, kinds := fieldKinds(x.t)
			fmt.Fprintf(w, "/-- Go struct fields of details.%s in declaration order -/\n", strings.Title(x.name))
			fmt.Fprintf(w, "def %sFieldNames : List String := %s\n", x.name, LeanStrList(names))
			fmt.Fprintf(w, "/-- their kinds: 0 int, 1 bool, 2 string, 9 other -/\n")
			fmt.Fprintf(w, "def %sFieldKinds : List Nat := [%s]\n", x.name, strings.Join(kinds, ", "))
		}
		var bits, names []string
		for _, m := range ds.Members() {
			bits = append(bits, fmt.Sprint(int(m)))
			names = append(names, m.BitString())
		}
		fmt.Fprintf(w, "/-- ds.Members() values and BitString() names -/\n")
		fmt.Fprintf(w, "def dsMemberValues : List Nat := [%s]\n", strings.Join(bits, ", "))
		fmt.Fprintf(w, "def dsMemberNames : List String := %s\n", LeanStrList(names))
		return nil
	})
}
