package facts

// Sections "browserreadonly" (C06: the browser path never writes state) and "restpreparequery" (C03: the filters
// the REST list handler builds from its six flags).

import (
	"fmt"
	"go/ast"
	"go/token"
	"io"
	"strconv"
	"strings"
)

// storeish: does the declared type of a struct field name a repository or a use case?
func storeish(typ string) bool {
	return strings.Contains(typ, "Repository") || strings.Contains(typ, "repositories.") ||
		strings.Contains(typ, "UseCase") || strings.Contains(typ, "usecases.")
}

// structFields lists (struct, field, type) of every struct type declared in the file, in source order.
func (s *srcFile) structFields() [][]string {
	var out [][]string
	for _, d := range s.file.Decls {
		gd, ok := d.(*ast.GenDecl)
		if !ok || gd.Tok != token.TYPE {
			continue
		}
		for _, sp := range gd.Specs {
			ts, ok := sp.(*ast.TypeSpec)
			if !ok {
				continue
			}
			st, ok := ts.Type.(*ast.StructType)
			if !ok || st.Fields == nil {
				continue
			}
			for _, f := range st.Fields.List {
				if len(f.Names) == 0 {
					out = append(out, []string{ts.Name.Name, "(embedded)", s.t(f.Type)})
				}
				for _, n := range f.Names {
					out = append(out, []string{ts.Name.Name, n.Name, s.t(f.Type)})
				}
			}
		}
	}
	return out
}

// recvOf: the receiver name and the receiver's struct type name of a method declaration ("" for a plain function).
func recvOf(fd *ast.FuncDecl) (name, typ string) {
	if fd.Recv == nil || len(fd.Recv.List) != 1 {
		return "", ""
	}
	f := fd.Recv.List[0]
	if len(f.Names) == 1 {
		name = f.Names[0].Name
	}
	t := f.Type
	if st, ok := t.(*ast.StarExpr); ok {
		t = st.X
	}
	if id, ok := t.(*ast.Ident); ok {
		typ = id.Name
	}
	return name, typ
}

func init() {
	Add("browserreadonly", func(w io.Writer, repo string) error {
		var fields, calls [][]string
		for _, x := range []struct{ rel, fn string }{
			{"internal/core/usecases/listservers/listservers.go", "Execute"},
			{"internal/browser/browser.go", "process"},
		} {
			s, err := loadSrc(repo, x.rel)
			if err != nil {
				return err
			}
			if _, err := s.fn(x.fn); err != nil {
				return err
			}
			// the struct fields of the file; the repository / use-case ones are the anchors
			ftype := map[string]map[string]string{} // struct -> field -> type
			nStore := 0
			for _, r := range s.structFields() {
				fields = append(fields, []string{s.base(), r[0], r[1], r[2]})
				if ftype[r[0]] == nil {
					ftype[r[0]] = map[string]string{}
				}
				ftype[r[0]][r[1]] = r[2]
				if storeish(r[2]) {
					nStore++
				}
			}
			if nStore == 0 {
				return fmt.Errorf("finer facts: %s: no struct field of a repository / use-case type any more", s.rel)
			}
			// every use of `recv.field` for such a field, in every method of the file
			for _, fd := range s.funcs() {
				rn, rt := recvOf(fd)
				if rn == "" || ftype[rt] == nil {
					continue
				}
				// selector nodes that are the receiver of a method call
				callee := map[*ast.SelectorExpr]string{}
				ast.Inspect(fd.Body, func(n ast.Node) bool {
					if c, sel := selCall(n); c != nil {
						if inner, ok := sel.X.(*ast.SelectorExpr); ok {
							callee[inner] = sel.Sel.Name
						}
					}
					return true
				})
				ast.Inspect(fd.Body, func(n ast.Node) bool {
					sel, ok := n.(*ast.SelectorExpr)
					if !ok {
						return true
					}
					id, ok := sel.X.(*ast.Ident)
					if !ok || id.Name != rn {
						return true
					}
					typ, ok := ftype[rt][sel.Sel.Name]
					if !ok || !storeish(typ) {
						return true
					}
					m, isCall := callee[sel]
					if !isCall {
						// the field is read without a method being called on it right there (passed on, assigned,
						// compared …): reported, so that it cannot be missed
						m = "(escapes: not the receiver of a call)"
					}
					calls = append(calls, []string{s.base(), fd.Name.Name, s.t(sel), typ, m})
					return true
				})
			}
		}
		fmt.Fprintln(w, "/-- every struct field declared in listservers.go and browser.go: (file, struct, field, type) -/")
		fmt.Fprintf(w, "def browserPathFields : %s :=\n  %s\n", leanTupleType(4), leanTuples(fields))
		fmt.Fprintln(w, "/-- every use, in a method of those files, of a receiver field whose type names a repository or a use case:")
		fmt.Fprintln(w, "(file, method, receiver expression, field type, method called on it — or a note when the field is used otherwise) -/")
		fmt.Fprintf(w, "def browserPathStoreCalls : %s :=\n  %s\n", leanTupleType(5), leanTuples(calls))
		return nil
	})

	Add("restpreparequery", func(w io.Writer, repo string) error {
		s, err := loadSrc(repo, "internal/rest/api/servers_list.go")
		if err != nil {
			return err
		}
		fd, err := s.fn("prepareQuery")
		if err != nil {
			return err
		}
		if _, err := s.fn("maybeAddFilter"); err != nil {
			return err
		}
		lit := func(e ast.Expr) string {
			if bl, ok := e.(*ast.BasicLit); ok && bl.Kind == token.STRING {
				if u, err := strconv.Unquote(bl.Value); err == nil {
					return u
				}
			}
			return "expr:" + s.t(e)
		}
		var rows [][]string
		var other []string
		for _, st := range fd.Body.List {
			ifs, ok := st.(*ast.IfStmt)
			n := 0
			if ok {
				ast.Inspect(ifs.Body, func(nn ast.Node) bool {
					if c, sel := selCall(nn); c != nil && s.t(sel) == "filter.New" {
						n++
						row := []string{s.t(ifs.Cond), "?", "?", "?"}
						if len(c.Args) == 3 {
							row[1], row[2], row[3] = lit(c.Args[0]), lit(c.Args[1]), s.t(c.Args[2])
						} else {
							row[3] = "(arity " + fmt.Sprint(len(c.Args)) + ") " + s.args(c.Args)
						}
						if ifs.Else != nil {
							row[0] += " (has else)"
						}
						rows = append(rows, row)
					}
					return true
				})
			}
			if n == 0 {
				other = append(other, s.t(st))
			} else if n > 1 {
				other = append(other, "(several filter.New in one branch) "+s.t(st))
			} else {
				// the statements of the branch besides the `f, err := filter.New(…)` itself
				for _, b := range ifs.Body.List {
					if as, ok := b.(*ast.AssignStmt); ok && len(as.Rhs) == 1 {
						if c, sel := selCall(as.Rhs[0]); c != nil && s.t(sel) == "filter.New" {
							continue
						}
					}
					other = append(other, "in `if "+s.t(ifs.Cond)+"`: "+s.t(b))
				}
			}
		}
		if len(rows) == 0 {
			return fmt.Errorf("finer facts: %s: prepareQuery has no `if … { filter.New(…) }` any more", s.rel)
		}
		// filter.New calls anywhere else in the file
		var stray []string
		for _, f := range s.funcs() {
			if f.Name.Name == "prepareQuery" {
				continue
			}
			ast.Inspect(f, func(n ast.Node) bool {
				if c, sel := selCall(n); c != nil && s.t(sel) == "filter.New" {
					stray = append(stray, f.Name.Name+": "+s.t(c))
				}
				return true
			})
		}
		// the form: field, type, struct tag
		var form [][]string
		for _, d := range s.file.Decls {
			gd, ok := d.(*ast.GenDecl)
			if !ok || gd.Tok != token.TYPE {
				continue
			}
			for _, sp := range gd.Specs {
				ts, ok := sp.(*ast.TypeSpec)
				if !ok || ts.Name.Name != "ServerFilterForm" {
					continue
				}
				st, ok := ts.Type.(*ast.StructType)
				if !ok {
					continue
				}
				for _, f := range st.Fields.List {
					tag := ""
					if f.Tag != nil {
						if u, err := strconv.Unquote(f.Tag.Value); err == nil {
							tag = u
						} else {
							tag = f.Tag.Value
						}
					}
					for _, n := range f.Names {
						form = append(form, []string{n.Name, s.t(f.Type), tag})
					}
				}
			}
		}
		if len(form) == 0 {
			return fmt.Errorf("finer facts: %s: type ServerFilterForm no longer exists", s.rel)
		}
		mb, _ := s.fn("maybeAddFilter")
		var mbBody []string
		for _, st := range mb.Body.List {
			mbBody = append(mbBody, s.t(st))
		}
		fmt.Fprintln(w, "/-- servers_list.go `prepareQuery`: every top-level `if cond { f, err := filter.New(field, op, value); … }` in source order:")
		fmt.Fprintln(w, "(condition, field name, operator, value expression); string literals unquoted, anything else as `expr:<source>` -/")
		fmt.Fprintf(w, "def restPrepareQueryCalls : %s :=\n  %s\n", leanTupleType(4), leanTuples(rows))
		fmt.Fprintln(w, "/-- everything else in `prepareQuery`: the other top-level statements, and what each branch does besides the `filter.New` -/")
		fmt.Fprintf(w, "def restPrepareQueryRest : List String :=\n  %s\n", LeanStrList(other))
		fmt.Fprintln(w, "/-- the body of `maybeAddFilter` -/")
		fmt.Fprintf(w, "def restMaybeAddFilter : List String :=\n  %s\n", LeanStrList(mbBody))
		fmt.Fprintln(w, "/-- `filter.New` calls of servers_list.go outside `prepareQuery` -/")
		fmt.Fprintf(w, "def restStrayFilterNew : List String :=\n  %s\n", LeanStrList(stray))
		fmt.Fprintln(w, "/-- `ServerFilterForm`: (Go field, type, struct tag) -/")
		fmt.Fprintf(w, "def restFilterForm : %s :=\n  %s\n", leanTupleType(3), leanTuples(form))
		return nil
	})
}
