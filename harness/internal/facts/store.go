package facts

import (
	"fmt"
	"go/ast"
	"go/parser"
	"go/token"
	"io"
	"path/filepath"
	"strconv"

	"github.com/sergeii/swat4master/internal/persistence/redis/repositories/servers"
)

// stringConsts returns the string constants declared at package level in a Go source file.
func stringConsts(path string) (map[string]string, error) {
	fset := token.NewFileSet()
	f, err := parser.ParseFile(fset, path, nil, 0)
	if err != nil {
		return nil, err
	}
	out := map[string]string{}
	for _, d := range f.Decls {
		gd, ok := d.(*ast.GenDecl)
		if !ok || gd.Tok != token.CONST {
			continue
		}
		for _, sp := range gd.Specs {
			vs := sp.(*ast.ValueSpec)
			for i, n := range vs.Names {
				if i < len(vs.Values) {
					if bl, ok := vs.Values[i].(*ast.BasicLit); ok && bl.Kind == token.STRING {
						if s, err := strconv.Unquote(bl.Value); err == nil {
							out[n.Name] = s
						}
					}
				}
			}
		}
	}
	return out, nil
}

func init() {
	Add("store", func(w io.Writer, repo string) error {
		// the lock options the servers repository starts with (read through the verif hook from a real instance)
		lo := servers.New(nil, nil, nil).VerifLockOpts()
		fmt.Fprintf(w, "def lockMaxAttempts : Nat := %d\ndef lockLeaseMs : Nat := %d\ndef lockBackoffMs : Nat := %d\n",
			lo.MaxAttempts, lo.LeaseDuration.Milliseconds(), lo.RetryBackoff.Milliseconds())
		for _, x := range []struct{ pkg, prefix string }{{"servers", "servers"}, {"instances", "instances"}, {"probes", "probes"}} {
			cs, err := stringConsts(filepath.Join(repo, "internal/persistence/redis/repositories", x.pkg, x.pkg+".go"))
			if err != nil {
				return err
			}
			names := make([]string, 0, len(cs))
			for n := range cs {
				names = append(names, n)
			}
			sortStrings(names)
			for _, n := range names {
				fmt.Fprintf(w, "def %sKey_%s : String := %s\n", x.prefix, n, LeanStr(cs[n]))
			}
		}
		return nil
	})
}

func sortStrings(xs []string) {
	for i := 1; i < len(xs); i++ {
		for j := i; j > 0 && xs[j-1] > xs[j]; j-- {
			xs[j-1], xs[j] = xs[j], xs[j-1]
		}
	}
}
