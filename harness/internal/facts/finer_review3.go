package facts

// Sections "c06udpguard" (C06) and "c17addstatus" (C17): two source facts a third outside review asked for.
//
//   - c06udpguard: the guard of the UDP read loop (pkg/udp/udpserver/server.go, Listen): the condition under which a received
//     datagram is handed to the handler, that the hand-over sits in the BODY of that `if`, and what a failed read does.
//     Model side: `UdpServer.deliver` (lean/Swat4/Model/UdpServer.lean) — its `none` arm is the empty read.
//   - c17addstatus: the error → HTTP status mapping of `api.AddServer` (internal/rest/api/servers_add.go): every response the
//     handler writes, with the guard it sits under and — for a `case errors.Is(err, X)` — the error X.
//     Model side: `RestBridge.addStatus` (lean/Swat4/Lemmas/RestBridge.lean).

import (
	"fmt"
	"go/ast"
	"io"
	"strings"
)

// guardPath lists, outermost first, the conditions a node sits under inside `root`: `if C` (body) → "C", the else branch →
// "else of: C", a `case E1, E2:` of a switch → "case E1, E2" (tag-less switch) or "switch T case …", `default:` → "default".
func guardPath(s *srcFile, stack []ast.Node, n ast.Node) []string {
	var out []string
	chain := append(append([]ast.Node{}, stack...), n)
	for i, a := range chain[:len(chain)-1] {
		child := chain[i+1]
		switch x := a.(type) {
		case *ast.IfStmt:
			switch child {
			case ast.Node(x.Body):
				out = append(out, s.t(x.Cond))
			case x.Else:
				out = append(out, "else of: "+s.t(x.Cond))
			}
		case *ast.CaseClause:
			// the statements of the clause (not its case expressions)
			inBody := false
			for _, st := range x.Body {
				if ast.Node(st) == child {
					inBody = true
				}
			}
			if !inBody {
				continue
			}
			tag := ""
			for j := i - 1; j >= 0; j-- {
				if sw, ok := chain[j].(*ast.SwitchStmt); ok {
					if sw.Tag != nil {
						tag = "switch " + s.t(sw.Tag) + " "
					}
					break
				}
			}
			if x.List == nil {
				out = append(out, tag+"default")
			} else {
				out = append(out, tag+"case "+s.args(x.List))
			}
		}
	}
	return out
}

func endsInReturn(b *ast.BlockStmt) bool {
	if b == nil || len(b.List) == 0 {
		return false
	}
	_, ok := b.List[len(b.List)-1].(*ast.ReturnStmt)
	return ok
}

func init() {
	Add("c06udpguard", func(w io.Writer, repo string) error {
		us, err := loadSrc(repo, "pkg/udp/udpserver/server.go")
		if err != nil {
			return err
		}
		listen, err := us.fn("Listen")
		if err != nil {
			return err
		}
		var reads, dispatch [][]string
		walkStack(listen, func(n ast.Node, stack []ast.Node) {
			switch x := n.(type) {
			case *ast.AssignStmt:
				// `n, raddr, err := s.conn.ReadFromUDP(buffer)` and what follows a failed read
				if len(x.Rhs) != 1 {
					return
				}
				c, sel := selCall(x.Rhs[0])
				if c == nil || !strings.HasPrefix(sel.Sel.Name, "Read") {
					return
				}
				onErr := "(error not checked)"
				// the statement after the read in the same block
				for i := len(stack) - 1; i >= 0; i-- {
					if blk, ok := stack[i].(*ast.BlockStmt); ok {
						for k, st := range blk.List {
							if st == ast.Stmt(x) && k+1 < len(blk.List) {
								if is, ok := blk.List[k+1].(*ast.IfStmt); ok {
									onErr = "if " + us.t(is.Cond) + " " + us.t(is.Body)
								}
							}
						}
						break
					}
				}
				loop := "not in a loop"
				for i := len(stack) - 1; i >= 0; i-- {
					if f, ok := stack[i].(*ast.ForStmt); ok {
						if f.Cond == nil && f.Init == nil && f.Post == nil {
							loop = "for {…}"
						} else {
							loop = "for " + us.t(f.Cond)
						}
						break
					}
				}
				reads = append(reads, []string{"Listen", us.t(x), strings.Join(strings.Fields(onErr), " "), loop})
			case *ast.CallExpr:
				// every call of a method named Handle: the hand-over to the handler
				sel, ok := x.Fun.(*ast.SelectorExpr)
				if !ok || sel.Sel.Name != "Handle" {
					return
				}
				how := "call"
				if len(stack) > 0 {
					switch stack[len(stack)-1].(type) {
					case *ast.GoStmt:
						how = "go"
					case *ast.DeferStmt:
						how = "defer"
					}
				}
				guards := guardPath(us, stack, n)
				dispatch = append(dispatch, []string{"Listen", how, us.t(x), strings.Join(guards, " / ")})
			}
		})
		if len(reads) == 0 {
			return fmt.Errorf("finer facts: %s: Listen: no `… := ….Read…(…)` statement found (the read loop moved?)", us.rel)
		}
		if len(dispatch) == 0 {
			return fmt.Errorf("finer facts: %s: Listen: no call of a `Handle` method found (the dispatch moved?)", us.rel)
		}
		fmt.Fprintln(w, "/-- pkg/udp/udpserver/server.go `Listen`: every socket read — (function, statement, the `if` that follows it, enclosing loop) -/")
		fmt.Fprintf(w, "def udpReadStmts : %s :=\n  %s\n", leanTupleType(4), leanTuples(reads))
		fmt.Fprintln(w, "/-- … and every hand-over to the handler: (function, go/call/defer, call, the conditions it sits under: `if` bodies, outermost first, joined by ` / `) -/")
		fmt.Fprintf(w, "def udpDispatchGuards : %s :=\n  %s\n", leanTupleType(4), leanTuples(dispatch))
		return nil
	})

	Add("c17addstatus", func(w io.Writer, repo string) error {
		s, err := loadSrc(repo, "internal/rest/api/servers_add.go")
		if err != nil {
			return err
		}
		fd, err := s.fn("AddServer")
		if err != nil {
			return err
		}
		// the *gin.Context parameter
		ctx := ""
		for _, f := range fd.Type.Params.List {
			if s.t(f.Type) == "*gin.Context" && len(f.Names) == 1 {
				ctx = f.Names[0].Name
			}
		}
		if ctx == "" {
			return fmt.Errorf("finer facts: %s: AddServer no longer takes one *gin.Context parameter", s.rel)
		}
		writers := map[string]bool{"JSON": true, "Status": true, "AbortWithStatus": true, "AbortWithStatusJSON": true, "AbortWithError": true,
			"String": true, "IndentedJSON": true, "SecureJSON": true, "PureJSON": true, "AsciiJSON": true, "JSONP": true, "XML": true,
			"YAML": true, "TOML": true, "ProtoBuf": true, "Data": true, "DataFromReader": true, "HTML": true, "Redirect": true}
		var rows [][]string
		walkStack(fd.Body, func(n ast.Node, stack []ast.Node) {
			c, sel := selCall(n)
			if c == nil || s.t(sel.X) != ctx || !writers[sel.Sel.Name] || len(c.Args) == 0 {
				return
			}
			guards := guardPath(s, stack, n)
			// the error a `case errors.Is(err, X)` tests, "-" when the response is not under such a case
			errExpr := "-"
			for _, a := range stack {
				cc, ok := a.(*ast.CaseClause)
				if !ok {
					continue
				}
				inBody := false
				for _, st := range cc.Body {
					ast.Inspect(st, func(m ast.Node) bool {
						if m == n {
							inBody = true
						}
						return !inBody
					})
				}
				if !inBody {
					continue
				}
				if len(cc.List) == 1 {
					if ic, isel := selCall(cc.List[0]); ic != nil && s.t(isel) == "errors.Is" && len(ic.Args) == 2 {
						errExpr = s.t(ic.Args[1])
						continue
					}
				}
				errExpr = "(not a single errors.Is: " + s.args(cc.List) + ")"
			}
			rows = append(rows, []string{strings.Join(guards, " / "), errExpr, s.t(sel), s.t(c.Args[0])})
		})
		if len(rows) == 0 {
			return fmt.Errorf("finer facts: %s: AddServer writes no response through %s.JSON / %s.Status / …", s.rel, ctx, ctx)
		}
		// the shape around the rows: every top-level `if` of the handler and whether its body ends in `return`; the switches
		var shape [][]string
		for _, st := range fd.Body.List {
			if is, ok := st.(*ast.IfStmt); ok {
				end := "falls through"
				if endsInReturn(is.Body) {
					end = "returns"
				}
				if is.Else != nil {
					end += " (has else)"
				}
				shape = append(shape, []string{"if", s.t(is.Cond), end})
			}
		}
		ast.Inspect(fd.Body, func(n ast.Node) bool {
			if sw, ok := n.(*ast.SwitchStmt); ok {
				tag, def, nc := "(no tag)", "no default", 0
				if sw.Tag != nil {
					tag = s.t(sw.Tag)
				}
				for _, st := range sw.Body.List {
					if cc, ok := st.(*ast.CaseClause); ok {
						nc++
						if cc.List == nil {
							def = "has default"
						}
						for _, b := range cc.Body {
							if br, ok := b.(*ast.BranchStmt); ok {
								def += "; " + br.Tok.String()
							}
						}
					}
				}
				shape = append(shape, []string{"switch", tag, fmt.Sprintf("%d cases, %s", nc, def)})
			}
			return true
		})
		fmt.Fprintln(w, "/-- internal/rest/api/servers_add.go `AddServer`: every response it writes — (conditions it sits under, the error X of its `case errors.Is(err, X)` or `-`, writer, status expression) -/")
		fmt.Fprintf(w, "def addStatusRows : %s :=\n  %s\n", leanTupleType(4), leanTuples(rows))
		fmt.Fprintln(w, "/-- … and the control flow around them: the handler's top-level `if`s (condition, whether the body ends in `return`) and its switches (tag, cases / default / fallthrough) -/")
		fmt.Fprintf(w, "def addHandlerShape : %s :=\n  %s\n", leanTupleType(3), leanTuples(shape))
		return nil
	})
}
