package facts

// Section "storewrites": a syntactic inventory (go/ast) of how the three Redis repositories and
// redislock talk to Redis — the assumptions that are *built into* the Lean store model
// (Model/Store.lean, Model/StoreMachine.lean) and that no amount of model-level proof can check:
//
//   - every index/record write of a repository is queued on the `pipe` of ONE `TxPipelined` closure
//     (one MULTI … EXEC = one atomic step `saveBatch` / `removeBatch` / `insAddBatch` / …),
//   - in servers.go that `TxPipelined` is called on the `tx *redis.Tx` handed down from
//     `redislock.Guard`'s `Watch` callback (EXEC on the WATCHing connection),
//   - the lock key is built from the server address, the lock is `SET NX` with the lease as TTL and no
//     separate expire call, the token is drawn inside `Guard`.
//
// What is recognised (everything else fails safe, i.e. is reported as a write outside a transaction
// or changes one of the literal lists the Lean theorems pin):
//
//   - a *Redis call* is a call expression `X.M(a, …)` with at least one argument whose method name M is
//     a method of go-redis' `Pipeliner` / `*Tx` / `*Client` (read through reflection from the compiled
//     go-redis version).  M in `storeReadCmdNames` = read command; `Watch`, `Pipelined`, `TxPipelined`,
//     `Pipeline`, `TxPipeline` = transaction plumbing (listed in `storeTxCalls`); every other M = WRITE.
//   - a write site is *inside a transaction* iff its receiver X is an identifier that resolves
//     (parser scope resolution, so shadowing is respected) to a parameter of the innermost enclosing
//     function literal, and that literal is an argument of a call `R.TxPipelined(…)`.  It is then
//     reported in `storeWritesInTx` with the receiver R of that `TxPipelined`; otherwise in
//     `storeWritesOutsideTx` with its own receiver.
//   - receivers / arguments are printed as source text; an identifier that resolves to a function or
//     function-literal parameter is printed with its declared type (`tx *redis.Tx`), so a local alias
//     (`c := r.client`) or a struct field never prints like the parameter.

import (
	"bytes"
	"fmt"
	"go/ast"
	"go/parser"
	"go/printer"
	"go/token"
	"io"
	"path/filepath"
	"reflect"
	"sort"
	"strings"

	"github.com/redis/go-redis/v9"
)

// storeReadCmdNames: go-redis methods that do not modify the keyspace nor the connection's WATCH state.
// Anything not listed here (and not transaction plumbing) counts as a write.
var storeReadCmdNames = map[string]bool{
	"Get": true, "GetRange": true, "MGet": true, "StrLen": true, "Exists": true, "TTL": true, "PTTL": true,
	"Type": true, "Keys": true, "Scan": true, "ScanType": true, "SScan": true, "HScan": true, "ZScan": true,
	"RandomKey": true, "HGet": true, "HMGet": true, "HGetAll": true, "HExists": true, "HKeys": true,
	"HVals": true, "HLen": true, "HRandField": true, "HStrLen": true, "LIndex": true, "LLen": true,
	"LRange": true, "LPos": true, "SCard": true, "SDiff": true, "SInter": true, "SInterCard": true,
	"SIsMember": true, "SMIsMember": true, "SMembers": true, "SMembersMap": true, "SRandMember": true,
	"SRandMemberN": true, "SUnion": true, "ZCard": true, "ZCount": true, "ZLexCount": true, "ZRange": true,
	"ZRangeWithScores": true, "ZRangeByScore": true, "ZRangeByLex": true, "ZRangeByScoreWithScores": true,
	"ZRangeArgs": true, "ZRangeArgsWithScores": true, "ZRank": true, "ZRevRank": true, "ZRevRange": true,
	"ZRevRangeWithScores": true, "ZRevRangeByScore": true, "ZRevRangeByLex": true,
	"ZRevRangeByScoreWithScores": true, "ZScore": true, "ZMScore": true, "ZRandMember": true,
	"ZInter": true, "ZInterWithScores": true, "ZInterCard": true, "ZUnion": true, "ZUnionWithScores": true,
	"ZDiff": true, "ZDiffWithScores": true, "Ping": true, "Echo": true, "Info": true, "Time": true,
	"DBSize": true, "BitCount": true, "BitPos": true, "GetBit": true, "PFCount": true,
}

var storeTxPlumbing = map[string]bool{
	"Watch": true, "Pipelined": true, "TxPipelined": true, "Pipeline": true, "TxPipeline": true,
}

// redisMethodNames: the method sets of go-redis' Pipeliner (⊇ Cmdable, StatefulCmdable), *Tx and *Client.
func redisMethodNames() map[string]bool {
	out := map[string]bool{}
	for _, t := range []reflect.Type{
		reflect.TypeOf((*redis.Pipeliner)(nil)).Elem(),
		reflect.TypeOf((*redis.Tx)(nil)),
		reflect.TypeOf((*redis.Client)(nil)),
	} {
		for i := 0; i < t.NumMethod(); i++ {
			out[t.Method(i).Name] = true
		}
	}
	return out
}

type swFile struct {
	short string // "servers", "instances", "probes", "redislock"
	fset  *token.FileSet
	file  *ast.File
	names map[string]bool
	// declared functions of the file that take a *redis.Tx: name -> index of that parameter
	txParamIdx map[string]int

	fn    string     // enclosing FuncDecl
	stack []ast.Node // ancestors of the node being visited (outermost first)

	writesOut, writesIn, txCalls, txLits, txArgs [][]string
	readsSeen                                    map[string]bool
}

func (s *swFile) text(n ast.Node) string {
	var b bytes.Buffer
	_ = printer.Fprint(&b, s.fset, n)
	// one line, single spaces
	return strings.Join(strings.Fields(b.String()), " ")
}

// paramField returns the parameter declaration an identifier resolves to, or nil.
func paramField(id *ast.Ident) *ast.Field {
	if id == nil || id.Obj == nil {
		return nil
	}
	f, ok := id.Obj.Decl.(*ast.Field)
	if !ok {
		return nil
	}
	return f
}

// annot prints an expression; an identifier that resolves to a parameter is printed with its type.
func (s *swFile) annot(e ast.Expr) string {
	if id, ok := e.(*ast.Ident); ok {
		if f := paramField(id); f != nil {
			return id.Name + " " + s.text(f.Type)
		}
	}
	return s.text(e)
}

func isTxType(s *swFile, t ast.Expr) bool { return s.text(t) == "*redis.Tx" }

func (s *swFile) funcTypeTxIdx(ft *ast.FuncType) int {
	if ft == nil || ft.Params == nil {
		return -1
	}
	i := 0
	for _, f := range ft.Params.List {
		n := len(f.Names)
		if n == 0 {
			n = 1
		}
		if isTxType(s, f.Type) {
			return i
		}
		i += n
	}
	return -1
}

// innermostFuncLit returns the innermost enclosing function literal and its parent node.
func (s *swFile) innermostFuncLit() (*ast.FuncLit, ast.Node) {
	for i := len(s.stack) - 1; i >= 0; i-- {
		if fl, ok := s.stack[i].(*ast.FuncLit); ok {
			var parent ast.Node
			if i > 0 {
				parent = s.stack[i-1]
			}
			return fl, parent
		}
	}
	return nil, nil
}

func fieldIn(ft *ast.FuncType, f *ast.Field) bool {
	if ft == nil || ft.Params == nil {
		return false
	}
	for _, g := range ft.Params.List {
		if g == f {
			return true
		}
	}
	return false
}

func (s *swFile) visitCall(c *ast.CallExpr) {
	// calls that hand a *redis.Tx on: callee declared in this file, or a func-typed parameter
	switch fun := c.Fun.(type) {
	case *ast.Ident:
		if f := paramField(fun); f != nil {
			if ft, ok := f.Type.(*ast.FuncType); ok {
				if idx := s.funcTypeTxIdx(ft); idx >= 0 && idx < len(c.Args) {
					s.txArgs = append(s.txArgs, []string{s.short, s.fn, fun.Name, s.annot(c.Args[idx])})
				}
			}
		} else if idx, ok := s.txParamIdx[fun.Name]; ok && idx < len(c.Args) {
			s.txArgs = append(s.txArgs, []string{s.short, s.fn, fun.Name, s.annot(c.Args[idx])})
		}
	case *ast.SelectorExpr:
		if idx, ok := s.txParamIdx[fun.Sel.Name]; ok && idx < len(c.Args) {
			if _, isLit := c.Args[idx].(*ast.FuncLit); !isLit {
				s.txArgs = append(s.txArgs, []string{s.short, s.fn, s.text(fun), s.annot(c.Args[idx])})
			}
		}
	}
	// function literals taking a *redis.Tx: whom are they passed to, with which other arguments
	for _, a := range c.Args {
		fl, ok := a.(*ast.FuncLit)
		if !ok || s.funcTypeTxIdx(fl.Type) < 0 {
			continue
		}
		var others []string
		for _, b := range c.Args {
			if b != a {
				others = append(others, s.text(b))
			}
		}
		s.txLits = append(s.txLits, []string{s.short, s.fn, s.text(c.Fun), strings.Join(others, ", ")})
	}

	sel, ok := c.Fun.(*ast.SelectorExpr)
	if !ok {
		return
	}
	m := sel.Sel.Name
	if !s.names[m] || len(c.Args) == 0 {
		return
	}
	switch {
	case storeTxPlumbing[m]:
		s.txCalls = append(s.txCalls, []string{s.short, s.fn, s.annot(sel.X), m})
	case storeReadCmdNames[m]:
		s.readsSeen[m] = true
	default:
		// a write: inside a TxPipelined closure?
		if id, ok := sel.X.(*ast.Ident); ok {
			if f := paramField(id); f != nil {
				if fl, parent := s.innermostFuncLit(); fl != nil && fieldIn(fl.Type, f) {
					if pc, ok := parent.(*ast.CallExpr); ok {
						if ps, ok := pc.Fun.(*ast.SelectorExpr); ok && ps.Sel.Name == "TxPipelined" {
							s.writesIn = append(s.writesIn, []string{s.short, s.fn, s.annot(ps.X), m})
							return
						}
					}
				}
			}
		}
		s.writesOut = append(s.writesOut, []string{s.short, s.fn, s.annot(sel.X), m})
	}
}

func (s *swFile) Visit(n ast.Node) ast.Visitor {
	if n == nil {
		s.stack = s.stack[:len(s.stack)-1]
		return nil
	}
	if fd, ok := n.(*ast.FuncDecl); ok {
		s.fn = fd.Name.Name
	}
	if c, ok := n.(*ast.CallExpr); ok {
		s.visitCall(c)
	}
	s.stack = append(s.stack, n)
	return s
}

func scanStoreFile(repo, rel, short string, names map[string]bool) (*swFile, error) {
	fset := token.NewFileSet()
	f, err := parser.ParseFile(fset, filepath.Join(repo, rel), nil, 0)
	if err != nil {
		return nil, err
	}
	s := &swFile{short: short, fset: fset, file: f, names: names, txParamIdx: map[string]int{}, readsSeen: map[string]bool{}}
	for _, d := range f.Decls {
		if fd, ok := d.(*ast.FuncDecl); ok {
			if idx := s.funcTypeTxIdx(fd.Type); idx >= 0 {
				s.txParamIdx[fd.Name.Name] = idx
			}
		}
	}
	for _, d := range f.Decls {
		s.fn = ""
		ast.Walk(s, d)
	}
	return s, nil
}

func leanTuples(rows [][]string) string {
	parts := make([]string, len(rows))
	for i, r := range rows {
		q := make([]string, len(r))
		for j, x := range r {
			q[j] = LeanStr(x)
		}
		parts[i] = "(" + strings.Join(q, ", ") + ")"
	}
	return "[" + strings.Join(parts, ",\n  ") + "]"
}

func leanTupleType(n int) string {
	t := make([]string, n)
	for i := range t {
		t[i] = "String"
	}
	return "List (" + strings.Join(t, " × ") + ")"
}

// funcDeclOf finds a declared function by name.
func funcDeclOf(f *ast.File, name string) *ast.FuncDecl {
	for _, d := range f.Decls {
		if fd, ok := d.(*ast.FuncDecl); ok && fd.Name.Name == name {
			return fd
		}
	}
	return nil
}

// defsOf lists, per enclosing function, every definition / assignment / var declaration of an identifier named `name`.
func defsOf(s *swFile, name string) [][]string {
	var out [][]string
	for _, d := range s.file.Decls {
		fn := ""
		if fd, ok := d.(*ast.FuncDecl); ok {
			fn = fd.Name.Name
		}
		ast.Inspect(d, func(n ast.Node) bool {
			switch x := n.(type) {
			case *ast.AssignStmt:
				for i, l := range x.Lhs {
					if id, ok := l.(*ast.Ident); ok && id.Name == name {
						rhs := "?"
						if len(x.Rhs) == len(x.Lhs) {
							rhs = s.text(x.Rhs[i])
						} else if len(x.Rhs) == 1 {
							rhs = "(multi) " + s.text(x.Rhs[0])
						}
						out = append(out, []string{fn, name, rhs})
					}
				}
			case *ast.ValueSpec:
				for i, id := range x.Names {
					if id.Name == name {
						rhs := "?"
						if i < len(x.Values) {
							rhs = s.text(x.Values[i])
						}
						out = append(out, []string{fn, name, rhs})
					}
				}
			}
			return true
		})
	}
	return out
}

func init() {
	Add("storewrites", func(w io.Writer, repo string) error {
		names := redisMethodNames()
		files := []struct{ rel, short string }{
			{"internal/persistence/redis/repositories/servers/servers.go", "servers"},
			{"internal/persistence/redis/repositories/instances/instances.go", "instances"},
			{"internal/persistence/redis/repositories/probes/probes.go", "probes"},
			{"internal/persistence/redis/redislock/redislock.go", "redislock"},
		}
		var out, in, txc, lits, args [][]string
		reads := map[string]bool{}
		scanned := map[string]*swFile{}
		for _, x := range files {
			s, err := scanStoreFile(repo, x.rel, x.short, names)
			if err != nil {
				return err
			}
			scanned[x.short] = s
			out = append(out, s.writesOut...)
			in = append(in, s.writesIn...)
			txc = append(txc, s.txCalls...)
			lits = append(lits, s.txLits...)
			args = append(args, s.txArgs...)
			for r := range s.readsSeen {
				reads[r] = true
			}
		}
		fmt.Fprintln(w, "/-- Redis WRITE call sites of servers.go / instances.go / probes.go / redislock.go that are NOT `pipe.X(…)` inside a")
		fmt.Fprintln(w, "`R.TxPipelined(ctx, func(pipe) {…})` closure: (file, function, receiver, command) -/")
		fmt.Fprintf(w, "def storeWritesOutsideTx : %s :=\n  %s\n", leanTupleType(4), leanTuples(out))
		fmt.Fprintln(w, "/-- Redis WRITE call sites queued on the `pipe` of a `TxPipelined` closure: (file, function, receiver of that TxPipelined, command) -/")
		fmt.Fprintf(w, "def storeWritesInTx : %s :=\n  %s\n", leanTupleType(4), leanTuples(in))
		fmt.Fprintln(w, "/-- every `Watch` / `Pipelined` / `TxPipelined` / `Pipeline` / `TxPipeline` call: (file, function, receiver, method) -/")
		fmt.Fprintf(w, "def storeTxCalls : %s :=\n  %s\n", leanTupleType(4), leanTuples(txc))
		fmt.Fprintln(w, "/-- every function literal taking a `*redis.Tx`: (file, function, callee it is passed to, the call's other arguments) -/")
		fmt.Fprintf(w, "def storeTxLits : %s :=\n  %s\n", leanTupleType(4), leanTuples(lits))
		fmt.Fprintln(w, "/-- every call that hands a `*redis.Tx` on (callee declared in the file with such a parameter, or a func-typed parameter):")
		fmt.Fprintln(w, "(file, function, callee, the argument in the tx position) -/")
		fmt.Fprintf(w, "def storeTxArgs : %s :=\n  %s\n", leanTupleType(4), leanTuples(args))
		rs := make([]string, 0, len(reads))
		for r := range reads {
			rs = append(rs, r)
		}
		sort.Strings(rs)
		fmt.Fprintln(w, "/-- the method names classified as READ commands that occur in the four files (everything else that is a go-redis method")
		fmt.Fprintln(w, "and not transaction plumbing is classified as a write) -/")
		fmt.Fprintf(w, "def storeReadCmds : List String := %s\n", LeanStrList(rs))

		// ---- the lock key (servers.go)
		sv := scanned["servers"]
		var guardCalls [][]string
		keyArgName := ""
		for _, d := range sv.file.Decls {
			fd, ok := d.(*ast.FuncDecl)
			if !ok {
				continue
			}
			ast.Inspect(fd, func(n ast.Node) bool {
				c, ok := n.(*ast.CallExpr)
				if !ok {
					return true
				}
				if sel, ok := c.Fun.(*ast.SelectorExpr); ok && sel.Sel.Name == "Guard" {
					row := []string{fd.Name.Name, sv.text(sel.X)}
					var as []string
					for _, a := range c.Args {
						if _, isLit := a.(*ast.FuncLit); isLit {
							as = append(as, "func")
						} else {
							as = append(as, sv.annot(a))
						}
					}
					row = append(row, strings.Join(as, ", "))
					guardCalls = append(guardCalls, row)
					if len(c.Args) > 1 {
						if id, ok := c.Args[1].(*ast.Ident); ok {
							keyArgName = id.Name
						}
					}
				}
				return true
			})
		}
		fmt.Fprintln(w, "/-- every call of `….Guard(…)` in servers.go: (function, receiver, arguments; a function literal prints as `func`) -/")
		fmt.Fprintf(w, "def lockGuardCalls : %s :=\n  %s\n", leanTupleType(3), leanTuples(guardCalls))
		var keyDefs [][]string
		if keyArgName != "" {
			keyDefs = defsOf(sv, keyArgName)
		}
		fmt.Fprintln(w, "/-- every definition / assignment of the identifier passed to Guard as the lock key: (function, name, right-hand side) -/")
		fmt.Fprintf(w, "def lockKeyDefs : %s :=\n  %s\n", leanTupleType(3), leanTuples(keyDefs))
		keyExpr := "?"
		if len(keyDefs) == 1 {
			// fmt.Sprintf(lockKeyFmt, <expr>)
			if e, err := parser.ParseExpr(keyDefs[0][2]); err == nil {
				if c, ok := e.(*ast.CallExpr); ok && len(c.Args) == 2 {
					var b1, b2, b3 bytes.Buffer
					fs := token.NewFileSet()
					_ = printer.Fprint(&b1, fs, c.Fun)
					_ = printer.Fprint(&b2, fs, c.Args[0])
					_ = printer.Fprint(&b3, fs, c.Args[1])
					if b1.String() == "fmt.Sprintf" && b2.String() == "lockKeyFmt" {
						keyExpr = b3.String()
					}
				}
			}
		}
		fmt.Fprintln(w, "/-- `E` when the lock key has the single definition `fmt.Sprintf(lockKeyFmt, E)`, else `?` -/")
		fmt.Fprintf(w, "def lockKeyExpr : String := %s\n", LeanStr(keyExpr))
		// the address expressions the record is stored / read under
		var itemFields [][]string
		for _, d := range sv.file.Decls {
			fd, ok := d.(*ast.FuncDecl)
			if !ok {
				continue
			}
			for _, r := range defsOf(sv, "svrAddr") {
				if r[0] == fd.Name.Name {
					itemFields = append(itemFields, r)
				}
			}
		}
		fmt.Fprintln(w, "/-- every definition of `svrAddr` (the hash field / index member the batches write) in servers.go -/")
		fmt.Fprintf(w, "def storeItemFieldDefs : %s :=\n  %s\n", leanTupleType(3), leanTuples(itemFields))

		// ---- redislock.go: SET NX, expiry, token
		rl := scanned["redislock"]
		var setnx, expires, tokGen, tokDefs [][]string
		tokArg := ""
		for _, d := range rl.file.Decls {
			fd, ok := d.(*ast.FuncDecl)
			if !ok {
				continue
			}
			ast.Inspect(fd, func(n ast.Node) bool {
				c, ok := n.(*ast.CallExpr)
				if !ok {
					return true
				}
				sel, ok := c.Fun.(*ast.SelectorExpr)
				if !ok {
					return true
				}
				m := sel.Sel.Name
				if pkg, ok := sel.X.(*ast.Ident); ok && pkg.Obj == nil && (pkg.Name == "uuid" || pkg.Name == "rand") {
					tokGen = append(tokGen, []string{fd.Name.Name, rl.text(c)})
				}
				if !names[m] || len(c.Args) == 0 {
					return true
				}
				if m == "SetNX" {
					var as []string
					for _, a := range c.Args {
						as = append(as, rl.annot(a))
					}
					setnx = append(setnx, []string{fd.Name.Name, rl.annot(sel.X), strings.Join(as, ", ")})
					if len(c.Args) > 2 {
						if id, ok := c.Args[2].(*ast.Ident); ok {
							tokArg = id.Name
						} else {
							tokArg = ""
							tokDefs = append(tokDefs, []string{"?", "?", rl.text(c.Args[2])})
						}
					}
				}
				if strings.Contains(m, "Expire") || strings.Contains(m, "Persist") || (strings.HasPrefix(m, "Set") && m != "SetNX") || m == "GetEx" || m == "GetSet" {
					expires = append(expires, []string{fd.Name.Name, rl.annot(sel.X), m})
				}
				return true
			})
		}
		if tokArg != "" {
			tokDefs = append(tokDefs, defsOf(rl, tokArg)...)
		}
		fmt.Fprintln(w, "/-- every `SetNX` call in redislock.go: (function, receiver, arguments) -/")
		fmt.Fprintf(w, "def lockSetNX : %s :=\n  %s\n", leanTupleType(3), leanTuples(setnx))
		var gp []string
		if g := funcDeclOf(rl.file, "Guard"); g != nil && g.Type.Params != nil {
			for _, f := range g.Type.Params.List {
				for _, n := range f.Names {
					gp = append(gp, n.Name+" "+rl.text(f.Type))
				}
			}
		}
		fmt.Fprintln(w, "/-- the parameters of `Manager.Guard` -/")
		fmt.Fprintf(w, "def lockGuardParams : List String := %s\n", LeanStrList(gp))
		fmt.Fprintln(w, "/-- every other call in redislock.go that can set, change or drop the expiry / value of a key (`*Expire*`, `Persist`, `Set*` ≠ SetNX, `GetEx`, `GetSet`) -/")
		fmt.Fprintf(w, "def lockExpireCalls : %s :=\n  %s\n", leanTupleType(3), leanTuples(expires))
		fmt.Fprintln(w, "/-- every call into package `uuid` / `rand` in redislock.go: (function, call) -/")
		fmt.Fprintf(w, "def lockTokenGen : %s :=\n  %s\n", leanTupleType(2), leanTuples(tokGen))
		fmt.Fprintln(w, "/-- every definition of the identifier passed to SetNX as the value: (function, name, right-hand side) -/")
		fmt.Fprintf(w, "def lockTokenDefs : %s :=\n  %s\n", leanTupleType(3), leanTuples(tokDefs))
		return nil
	})
}
