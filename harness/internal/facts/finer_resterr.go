package facts

// Section "resterrors" (C17): the text of the error member the REST handlers put into a response that carries no server
// data (`gin.H{"error": …}`).  The property fixes status codes, store effects and the hostname members — not this text: the
// model takes it from here, so that rewording the message changes nothing for the check.

import (
	"fmt"
	"go/ast"
	"go/token"
	"io"
	"strconv"
)

func init() {
	Add("resterrors", func(w io.Writer, repo string) error {
		var rows [][]string
		first := ""
		for _, rel := range []string{"internal/rest/api/servers_add.go", "internal/rest/api/servers_view.go"} {
			s, err := loadSrc(repo, rel)
			if err != nil {
				return err
			}
			for _, fd := range s.funcs() {
				ast.Inspect(fd, func(n ast.Node) bool {
					cl, ok := n.(*ast.CompositeLit)
					if !ok || s.t(cl.Type) != "gin.H" {
						return true
					}
					for _, el := range cl.Elts {
						kv, ok := el.(*ast.KeyValueExpr)
						if !ok {
							continue
						}
						k, ok1 := kv.Key.(*ast.BasicLit)
						v, ok2 := kv.Value.(*ast.BasicLit)
						if ok1 && ok2 && k.Kind == token.STRING && v.Kind == token.STRING && k.Value == `"error"` {
							msg, _ := strconv.Unquote(v.Value)
							rows = append(rows, []string{s.base(), fd.Name.Name, msg})
							if first == "" {
								first = msg
							}
						}
					}
					return true
				})
			}
		}
		if len(rows) == 0 {
			return fmt.Errorf("resterrors: no gin.H{\"error\": …} literal found in servers_add.go / servers_view.go")
		}
		for _, r := range rows {
			if r[2] != first {
				return fmt.Errorf("resterrors: the handlers use more than one error message (%q, %q): the model has one", first, r[2])
			}
		}
		fmt.Fprintln(w, "/-- every `gin.H{\"error\": <literal>}` of the add and view handlers: (file, function, message) -/")
		fmt.Fprintf(w, "def restErrorBodies : %s :=\n  %s\n", leanTupleType(3), leanTuples(rows))
		fmt.Fprintln(w, "/-- the one message they all carry -/")
		fmt.Fprintf(w, "def restInvalidAddressMessage : String := %s\n", strconv.Quote(first))
		return nil
	})
}
