package facts

// Section "frontendfiner" (C03, C14, C01): what the two list frontends ask the listservers use case for —
// the liveness window and the discovery status a server must have to be listed.

import (
	"fmt"
	"go/ast"
	"io"
)

func init() {
	Add("frontendfiner", func(w io.Writer, repo string) error {
		var rows [][]string
		for _, x := range []struct{ rel, fn string }{
			{"internal/rest/api/servers_list.go", "ListServers"},
			{"internal/browser/browser.go", "process"},
		} {
			s, err := loadSrc(repo, x.rel)
			if err != nil {
				return err
			}
			if _, err := s.fn(x.fn); err != nil {
				return err
			}
			for _, fd := range s.funcs() {
				ast.Inspect(fd, func(n ast.Node) bool {
					if c, sel := selCall(n); c != nil && s.t(sel) == "listservers.NewRequest" {
						row := []string{s.rel, fd.Name.Name, "?", "?", "?"}
						for i := 0; i < 3 && i < len(c.Args); i++ {
							row[2+i] = s.t(c.Args[i])
						}
						if len(c.Args) != 3 {
							row[4] = "(arity " + fmt.Sprint(len(c.Args)) + ") " + s.args(c.Args)
						}
						rows = append(rows, row)
					}
					return true
				})
			}
		}
		// the use case side: which request field becomes the activity window / the status filter
		s, err := loadSrc(repo, "internal/core/usecases/listservers/listservers.go")
		if err != nil {
			return err
		}
		if _, err := s.fn("Execute"); err != nil {
			return err
		}
		var uc [][]string
		for _, fd := range s.funcs() {
			ast.Inspect(fd, func(n ast.Node) bool {
				switch x := n.(type) {
				case *ast.CallExpr:
					if sel, ok := x.Fun.(*ast.SelectorExpr); ok {
						switch sel.Sel.Name {
						case "ActiveAfter", "ActiveBefore", "UpdatedAfter", "UpdatedBefore", "WithStatus", "NoStatus":
							uc = append(uc, []string{fd.Name.Name, sel.Sel.Name, s.args(x.Args)})
						}
					}
				case *ast.KeyValueExpr:
					if fd.Name.Name == "NewRequest" {
						uc = append(uc, []string{fd.Name.Name, "Request." + s.t(x.Key), s.t(x.Value)})
					}
				}
				return true
			})
		}
		fmt.Fprintln(w, "/-- every `listservers.NewRequest(query, liveness, status)` of the REST list handler and the GameSpy browser:")
		fmt.Fprintln(w, "(file, function, query, liveness, status) -/")
		fmt.Fprintf(w, "def frontendListRequests : %s :=\n  %s\n", leanTupleType(5), leanTuples(rows))
		fmt.Fprintln(w, "/-- listservers.go: the fields `NewRequest` fills and the filter-set calls of the use case: (function, field or method, arguments) -/")
		fmt.Fprintf(w, "def listUseCaseFilter : %s :=\n  %s\n", leanTupleType(3), leanTuples(uc))
		return nil
	})
}
