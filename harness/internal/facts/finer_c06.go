package facts

// Section "c06finer" (C06, C01): the guards that keep one bad client from hurting the service — the per-connection
// deadline of the TCP server, the wiring of the browser's client timeout, gin's recovery middleware, and the sizes of
// the read buffers (what a handler can see of an oversized request).

import (
	"fmt"
	"go/ast"
	"go/token"
	"io"
	"reflect"
	"strconv"
	"strings"
)

func intLit(e ast.Expr) (int, bool) {
	if bl, ok := e.(*ast.BasicLit); ok && bl.Kind == token.INT {
		if v, err := strconv.ParseInt(bl.Value, 0, 64); err == nil && v >= 0 {
			return int(v), true
		}
	}
	return 0, false
}

func init() {
	Add("c06finer", func(w io.Writer, repo string) error {
		// ---- pkg/tcp/tcpserver/server.go
		ts, err := loadSrc(repo, "pkg/tcp/tcpserver/server.go")
		if err != nil {
			return err
		}
		for _, f := range []string{"Listen", "New", "WithTimeout"} {
			if _, err := ts.fn(f); err != nil {
				return err
			}
		}
		var deadlines, timeoutDefs [][]string
		for _, fd := range ts.funcs() {
			walkStack(fd, func(n ast.Node, stack []ast.Node) {
				switch x := n.(type) {
				case *ast.CallExpr:
					if sel, ok := x.Fun.(*ast.SelectorExpr); ok && strings.HasSuffix(sel.Sel.Name, "Deadline") && strings.HasPrefix(sel.Sel.Name, "Set") {
						// what happens when the call fails (the enclosing `if …; err != nil { … }`)
						onErr := "(result not checked)"
						for i := len(stack) - 1; i >= 0; i-- {
							if is, ok := stack[i].(*ast.IfStmt); ok {
								onErr = "on error: " + ts.t(is.Body)
								break
							}
						}
						deadlines = append(deadlines, []string{fd.Name.Name, ts.t(sel), ts.args(x.Args), onErr})
					}
				case *ast.AssignStmt:
					for i, l := range x.Lhs {
						if sel, ok := l.(*ast.SelectorExpr); ok && sel.Sel.Name == "connTimeout" && len(x.Rhs) == len(x.Lhs) {
							timeoutDefs = append(timeoutDefs, []string{fd.Name.Name, ts.t(l), x.Tok.String() + " " + ts.t(x.Rhs[i])})
						}
					}
				case *ast.KeyValueExpr:
					if ts.t(x.Key) == "connTimeout" {
						timeoutDefs = append(timeoutDefs, []string{fd.Name.Name, "connTimeout:", ts.t(x.Value)})
					}
				}
			})
		}
		for _, d := range ts.file.Decls {
			if gd, ok := d.(*ast.GenDecl); ok && gd.Tok == token.CONST {
				for _, sp := range gd.Specs {
					vs := sp.(*ast.ValueSpec)
					for i, n := range vs.Names {
						if n.Name == "defaultConnTimeout" && i < len(vs.Values) {
							timeoutDefs = append(timeoutDefs, []string{"const", n.Name, ts.t(vs.Values[i])})
						}
					}
				}
			}
		}
		// the statement that hands the connection to the handler comes after the deadline is set
		listen, _ := ts.fn("Listen")
		var order []string
		ast.Inspect(listen, func(n ast.Node) bool {
			switch x := n.(type) {
			case *ast.GoStmt:
				if sel, ok := x.Call.Fun.(*ast.SelectorExpr); ok && sel.Sel.Name == "Handle" {
					order = append(order, ts.t(x))
				}
			case *ast.CallExpr:
				if sel, ok := x.Fun.(*ast.SelectorExpr); ok && (sel.Sel.Name == "SetDeadline" || sel.Sel.Name == "AcceptTCP") {
					order = append(order, ts.t(sel))
				}
			}
			return true
		})
		fmt.Fprintln(w, "/-- every `Set…Deadline` call of tcpserver/server.go: (function, callee, argument, what happens when it fails) -/")
		fmt.Fprintf(w, "def tcpDeadlineCalls : %s :=\n  %s\n", leanTupleType(4), leanTuples(deadlines))
		fmt.Fprintln(w, "/-- everything that gives `Server.connTimeout` its value: (function, target, value) -/")
		fmt.Fprintf(w, "def tcpConnTimeoutDefs : %s :=\n  %s\n", leanTupleType(3), leanTuples(timeoutDefs))
		fmt.Fprintln(w, "/-- `Listen`: the order of accept, deadline and hand-over to the handler -/")
		fmt.Fprintf(w, "def tcpAcceptOrder : List String := %s\n", LeanStrList(order))

		// ---- cmd/swat4master/components/browser/browser.go: the timeout option and the flag default
		bc, err := loadSrc(repo, "cmd/swat4master/components/browser/browser.go")
		if err != nil {
			return err
		}
		if _, err := bc.fn("New"); err != nil {
			return err
		}
		var opts [][]string
		for _, fd := range bc.funcs() {
			ast.Inspect(fd, func(n ast.Node) bool {
				if c, sel := selCall(n); c != nil && bc.t(sel.X) == "tcpserver" {
					a := bc.args(c.Args)
					if sel.Sel.Name == "New" || sel.Sel.Name == "WithReadySignal" {
						a = "…"
					}
					opts = append(opts, []string{fd.Name.Name, bc.t(sel), a})
				}
				return true
			})
		}
		fmt.Fprintln(w, "/-- every call into package tcpserver of the browser component: (function, callee, arguments; `…` for New / WithReadySignal) -/")
		fmt.Fprintf(w, "def browserTcpOptions : %s :=\n  %s\n", leanTupleType(3), leanTuples(opts))
		tags, err := flagDefaults(bc, "command")
		if err != nil {
			return err
		}
		fmt.Fprintln(w, "/-- the command-line defaults of the browser component: (field, `default:` tag) -/")
		fmt.Fprintf(w, "def browserFlagDefaults : %s :=\n  %s\n", leanTupleType(2), leanTuples(tags))

		// ---- internal/rest/router.go: the engine constructor and its middleware
		rt, err := loadSrc(repo, "internal/rest/router.go")
		if err != nil {
			return err
		}
		nr, err := rt.fn("NewRouter")
		if err != nil {
			return err
		}
		var eng [][]string
		for _, h := range rt.identHistory(nr, "router") {
			eng = append(eng, []string{"NewRouter", "router", h})
		}
		ast.Inspect(nr, func(n ast.Node) bool {
			if c, sel := selCall(n); c != nil && (sel.Sel.Name == "Use" || rt.t(sel.X) == "gin") {
				if rt.t(sel.X) != "gin" || (sel.Sel.Name != "Default" && sel.Sel.Name != "New") {
					eng = append(eng, []string{"NewRouter", rt.t(sel), rt.args(c.Args)})
				}
			}
			return true
		})
		fmt.Fprintln(w, "/-- internal/rest/router.go: what `router` is (gin.Default() = Logger + Recovery) and every `.Use(…)` / other gin call -/")
		fmt.Fprintf(w, "def restEngine : %s :=\n  %s\n", leanTupleType(3), leanTuples(eng))

		// ---- internal/browser/browser.go: the read buffer
		br, err := loadSrc(repo, "internal/browser/browser.go")
		if err != nil {
			return err
		}
		handle, err := br.fn("Handle")
		if err != nil {
			return err
		}
		bufName, nReads := "", 0
		ast.Inspect(handle, func(n ast.Node) bool {
			if c, sel := selCall(n); c != nil && sel.Sel.Name == "Read" && len(c.Args) == 1 {
				nReads++
				if id, ok := c.Args[0].(*ast.Ident); ok {
					bufName = id.Name
				}
			}
			return true
		})
		if nReads != 1 || bufName == "" {
			return fmt.Errorf("finer facts: %s: Handle: expected exactly one `conn.Read(<identifier>)`, found %d", br.rel, nReads)
		}
		hist := br.identHistory(handle, bufName)
		size := -1
		if len(hist) == 1 {
			ast.Inspect(handle, func(n ast.Node) bool {
				as, ok := n.(*ast.AssignStmt)
				if !ok || len(as.Lhs) != 1 || len(as.Rhs) != 1 {
					return true
				}
				if id, ok := as.Lhs[0].(*ast.Ident); !ok || id.Name != bufName {
					return true
				}
				if c, ok := as.Rhs[0].(*ast.CallExpr); ok && br.t(c.Fun) == "make" && len(c.Args) == 2 && br.t(c.Args[0]) == "[]byte" {
					if v, ok := intLit(c.Args[1]); ok {
						size = v
					}
				}
				return true
			})
		}
		if size < 0 {
			return fmt.Errorf("finer facts: %s: Handle: the buffer %s passed to conn.Read is not a single `make([]byte, <literal>)`: %v", br.rel, bufName, hist)
		}
		fmt.Fprintln(w, "/-- internal/browser/browser.go `Handle`: N of the single `buf := make([]byte, N)` that is passed to the single `conn.Read` -/")
		fmt.Fprintf(w, "def browserReadBuffer : Nat := %d\n", size)

		// ---- the UDP read buffer: the library default and the reporter's command-line default
		us, err := loadSrc(repo, "pkg/udp/udpserver/server.go")
		if err != nil {
			return err
		}
		udpDefault := -1
		for _, d := range us.file.Decls {
			if gd, ok := d.(*ast.GenDecl); ok && gd.Tok == token.CONST {
				for _, sp := range gd.Specs {
					vs := sp.(*ast.ValueSpec)
					for i, n := range vs.Names {
						if n.Name == "defaultBufferSize" && i < len(vs.Values) {
							if v, ok := intLit(vs.Values[i]); ok {
								udpDefault = v
							}
						}
					}
				}
			}
		}
		if udpDefault < 0 {
			return fmt.Errorf("finer facts: %s: const defaultBufferSize is no longer an integer literal", us.rel)
		}
		fmt.Fprintf(w, "def udpServerDefaultBuffer : Nat := %d\n", udpDefault)
		rc, err := loadSrc(repo, "cmd/swat4master/components/reporter/reporter.go")
		if err != nil {
			return err
		}
		rtags, err := flagDefaults(rc, "command")
		if err != nil {
			return err
		}
		repDefault := -1
		for _, r := range rtags {
			if r[0] == "ReporterBufferSize" {
				if v, err := strconv.Atoi(r[1]); err == nil && v >= 0 {
					repDefault = v
				}
			}
		}
		if repDefault < 0 {
			return fmt.Errorf("finer facts: %s: command.ReporterBufferSize has no numeric `default:` tag", rc.rel)
		}
		fmt.Fprintln(w, "/-- the `default:` of the reporter's --reporter-buffer-size flag (the UDP read buffer of the running service) -/")
		fmt.Fprintf(w, "def reporterBufferDefault : Nat := %d\n", repDefault)
		var ropts [][]string
		for _, fd := range rc.funcs() {
			ast.Inspect(fd, func(n ast.Node) bool {
				if c, sel := selCall(n); c != nil && rc.t(sel.X) == "udpserver" && sel.Sel.Name == "WithBufferSize" {
					ropts = append(ropts, []string{fd.Name.Name, rc.t(sel), rc.args(c.Args)})
				}
				return true
			})
		}
		fmt.Fprintln(w, "/-- every `udpserver.WithBufferSize(…)` of the reporter component -/")
		fmt.Fprintf(w, "def reporterBufferOption : %s :=\n  %s\n", leanTupleType(3), leanTuples(ropts))
		return nil
	})
}

// flagDefaults reads the `default:"…"` struct tags of the struct type `typeName`.
func flagDefaults(s *srcFile, typeName string) ([][]string, error) {
	var out [][]string
	found := false
	for _, d := range s.file.Decls {
		gd, ok := d.(*ast.GenDecl)
		if !ok || gd.Tok != token.TYPE {
			continue
		}
		for _, sp := range gd.Specs {
			tsp := sp.(*ast.TypeSpec)
			st, ok := tsp.Type.(*ast.StructType)
			if !ok || tsp.Name.Name != typeName {
				continue
			}
			found = true
			for _, f := range st.Fields.List {
				def := "(none)"
				if f.Tag != nil {
					if raw, err := strconv.Unquote(f.Tag.Value); err == nil {
						if v, ok := reflect.StructTag(raw).Lookup("default"); ok {
							def = v
						}
					}
				}
				for _, n := range f.Names {
					out = append(out, []string{n.Name, def})
				}
			}
		}
	}
	if !found {
		return nil, fmt.Errorf("finer facts: %s: struct type %s no longer exists", s.rel, typeName)
	}
	return out, nil
}
