package facts

// Helpers of the "finer" fact sections (finer_*.go): small go/ast extractors that print the exact source
// expression a model parameter stands for, so that an edit of that expression breaks a `facts_…` theorem.
//
// Convention: the *anchors* an extractor looks for (a file, a function) must exist — a missing anchor is an
// error (non-zero exit of `verifharness facts`, reported as a failed obligation).  The *content* found at
// an anchor is printed as is, possibly empty: every such list is pinned to a non-empty literal by a theorem.

import (
	"fmt"
	"go/ast"
	"go/parser"
	"go/token"
	"path/filepath"
	"strings"
)

type srcFile struct {
	rel  string
	fset *token.FileSet
	file *ast.File
}

func loadSrc(repo, rel string) (*srcFile, error) {
	fset := token.NewFileSet()
	f, err := parser.ParseFile(fset, filepath.Join(repo, rel), nil, 0)
	if err != nil {
		return nil, fmt.Errorf("finer facts: cannot read %s: %w", rel, err)
	}
	return &srcFile{rel, fset, f}, nil
}

func (s *srcFile) t(n ast.Node) string { return text(s.fset, n) }

// base is the file name without directories.
func (s *srcFile) base() string { return filepath.Base(s.rel) }

// fn returns the declared function / method `name`; it is an error if the file has none.
func (s *srcFile) fn(name string) (*ast.FuncDecl, error) {
	if fd := funcDeclOf(s.file, name); fd != nil && fd.Body != nil {
		return fd, nil
	}
	return nil, fmt.Errorf("finer facts: %s: function %s no longer exists", s.rel, name)
}

// funcs lists the declared functions with a body, in source order.
func (s *srcFile) funcs() []*ast.FuncDecl {
	var out []*ast.FuncDecl
	for _, d := range s.file.Decls {
		if fd, ok := d.(*ast.FuncDecl); ok && fd.Body != nil {
			out = append(out, fd)
		}
	}
	return out
}

// annot prints an expression; an identifier that resolves to a parameter is printed with its declared type.
func (s *srcFile) annot(e ast.Expr) string {
	if id, ok := e.(*ast.Ident); ok {
		if f := paramField(id); f != nil {
			return id.Name + " " + s.t(f.Type)
		}
	}
	return s.t(e)
}

func (s *srcFile) args(as []ast.Expr) string {
	out := make([]string, len(as))
	for i, a := range as {
		out[i] = s.t(a)
	}
	return strings.Join(out, ", ")
}

// walkStack visits every node under root together with its ancestors (outermost first).
func walkStack(root ast.Node, f func(n ast.Node, stack []ast.Node)) {
	var st []ast.Node
	ast.Inspect(root, func(n ast.Node) bool {
		if n == nil {
			st = st[:len(st)-1]
			return false
		}
		f(n, st)
		st = append(st, n)
		return true
	})
}

// selCall matches a call `X.M(…)`.
func selCall(n ast.Node) (*ast.CallExpr, *ast.SelectorExpr) {
	c, ok := n.(*ast.CallExpr)
	if !ok {
		return nil, nil
	}
	sel, ok := c.Fun.(*ast.SelectorExpr)
	if !ok {
		return nil, nil
	}
	return c, sel
}

// identHistory: everything in `fd` that gives the identifier `name` its value: its declaration as a parameter,
// every definition / assignment / op-assignment / ++ / -- / var declaration, and every `&name`.
func (s *srcFile) identHistory(fd *ast.FuncDecl, name string) []string {
	var out []string
	if fd.Type.Params != nil {
		for _, f := range fd.Type.Params.List {
			for _, n := range f.Names {
				if n.Name == name {
					out = append(out, "param "+s.t(f.Type))
				}
			}
		}
	}
	ast.Inspect(fd.Body, func(n ast.Node) bool {
		switch x := n.(type) {
		case *ast.AssignStmt:
			for i, l := range x.Lhs {
				if id, ok := l.(*ast.Ident); ok && id.Name == name {
					rhs := "?"
					if len(x.Rhs) == len(x.Lhs) {
						rhs = s.t(x.Rhs[i])
					} else if len(x.Rhs) == 1 {
						rhs = "(multi) " + s.t(x.Rhs[0])
					}
					out = append(out, x.Tok.String()+" "+rhs)
				}
			}
		case *ast.IncDecStmt:
			if id, ok := x.X.(*ast.Ident); ok && id.Name == name {
				out = append(out, x.Tok.String())
			}
		case *ast.UnaryExpr:
			if id, ok := x.X.(*ast.Ident); ok && id.Name == name && x.Op == token.AND {
				out = append(out, "&"+name)
			}
		case *ast.ValueSpec:
			for i, id := range x.Names {
				if id.Name == name {
					rhs := "(zero)"
					if i < len(x.Values) {
						rhs = s.t(x.Values[i])
					}
					out = append(out, "var = "+rhs)
				}
			}
		case *ast.RangeStmt:
			for _, l := range []ast.Expr{x.Key, x.Value} {
				if id, ok := l.(*ast.Ident); ok && id.Name == name {
					out = append(out, "range "+s.t(x.X))
				}
			}
		}
		return true
	})
	return out
}

// mentions reports whether the identifier `name` occurs under n.
func mentions(n ast.Node, name string) bool {
	found := false
	ast.Inspect(n, func(m ast.Node) bool {
		if id, ok := m.(*ast.Ident); ok && id.Name == name {
			found = true
		}
		return !found
	})
	return found
}

// leanStrListList prints a List (String × List String).
func leanStrListRows(rows []struct {
	k  string
	vs []string
}) string {
	parts := make([]string, len(rows))
	for i, r := range rows {
		parts[i] = "(" + LeanStr(r.k) + ", " + LeanStrList(r.vs) + ")"
	}
	return "[" + strings.Join(parts, ",\n  ") + "]"
}
