package facts

// Section "storefiner" (C09, C10, C12, C16): where each Redis command of the repositories is issued and with which
// key, where the stored record is read, the fencing comparison of redislock, and what reaches SetNX / the item id.
// Finer than "storewrites": that section lists writes by command name only.

import (
	"fmt"
	"go/ast"
	"go/token"
	"io"
	"regexp"
	"strings"
)

var storeFinerFiles = []struct{ rel, short string }{
	{"internal/persistence/redis/repositories/servers/servers.go", "servers"},
	{"internal/persistence/redis/repositories/instances/instances.go", "instances"},
	{"internal/persistence/redis/repositories/probes/probes.go", "probes"},
	{"internal/persistence/redis/redislock/redislock.go", "redislock"},
}

// pipeOf: "TxPipelined on <R>" / "Pipelined on <R>" when the receiver of the command is a parameter of the innermost
// enclosing function literal and that literal is an argument of R.TxPipelined / R.Pipelined; "bare" otherwise.
func (s *srcFile) pipeOf(recv ast.Expr, stack []ast.Node) string {
	id, ok := recv.(*ast.Ident)
	if !ok {
		return "bare"
	}
	f := paramField(id)
	if f == nil {
		return "bare"
	}
	for i := len(stack) - 1; i > 0; i-- {
		fl, ok := stack[i].(*ast.FuncLit)
		if !ok {
			continue
		}
		if !fieldIn(fl.Type, f) {
			return "bare"
		}
		if _, ps := selCall(stack[i-1]); ps != nil && (ps.Sel.Name == "TxPipelined" || ps.Sel.Name == "Pipelined") {
			return ps.Sel.Name + " on " + s.annot(ps.X)
		}
		return "bare"
	}
	return "bare"
}

// txScope: does the code at this point have a `*redis.Tx` to talk to (the WATCHing connection)?
func (s *srcFile) txScope(fd *ast.FuncDecl, stack []ast.Node) string {
	hasTx := func(ft *ast.FuncType) bool {
		if ft == nil || ft.Params == nil {
			return false
		}
		for _, f := range ft.Params.List {
			if s.t(f.Type) == "*redis.Tx" {
				return true
			}
		}
		return false
	}
	for i := len(stack) - 1; i > 0; i-- {
		if fl, ok := stack[i].(*ast.FuncLit); ok && hasTx(fl.Type) {
			if c, ok := stack[i-1].(*ast.CallExpr); ok {
				return "in func(tx *redis.Tx) passed to " + s.t(c.Fun)
			}
			return "in func(tx *redis.Tx)"
		}
	}
	if hasTx(fd.Type) {
		return "in function with parameter tx *redis.Tx"
	}
	return "no *redis.Tx in scope"
}

var strLitRe = regexp.MustCompile(`"(\\.|[^"\\])*"`)

// stmtSkeleton: one line per statement of a closure body; log calls (`m.logger.…`) are left out of `if` bodies.
func (s *srcFile) stmtSkeleton(body *ast.BlockStmt) []string {
	var out []string
	for _, st := range body.List {
		if is, ok := st.(*ast.IfStmt); ok {
			var inner []string
			for _, b := range is.Body.List {
				if t := s.t(b); !strings.Contains(t, ".logger.") {
					inner = append(inner, strLitRe.ReplaceAllString(t, `"…"`)) // wording of messages is not pinned
				}
			}
			line := "if " + s.t(is.Cond) + " { " + strings.Join(inner, "; ") + " }"
			if is.Init != nil {
				line = "if " + s.t(is.Init) + "; " + s.t(is.Cond) + " { " + strings.Join(inner, "; ") + " }"
			}
			if is.Else != nil {
				line += " else …"
			}
			out = append(out, line)
			continue
		}
		out = append(out, s.t(st))
	}
	return out
}

func init() {
	Add("storefiner", func(w io.Writer, repo string) error {
		names := redisMethodNames()
		var sites, keys, recReads, fence, setnxDefs, idUses [][]string
		var closures []struct {
			k  string
			vs []string
		}
		for _, x := range storeFinerFiles {
			s, err := loadSrc(repo, x.rel)
			if err != nil {
				return err
			}
			for _, fd := range s.funcs() {
				fn := fd.Name.Name
				walkStack(fd, func(n ast.Node, stack []ast.Node) {
					// the fencing comparisons of redislock: every ==/!= that mentions `token`
					if be, ok := n.(*ast.BinaryExpr); ok && x.short == "redislock" && mentions(be, "token") &&
						(be.Op == token.EQL || be.Op == token.NEQ) {
						where := "outside Watch"
						for i := len(stack) - 1; i > 0; i-- {
							if _, ok := stack[i].(*ast.FuncLit); ok {
								if _, ps := selCall(stack[i-1]); ps != nil && ps.Sel.Name == "Watch" {
									where = "in the closure passed to " + s.t(ps)
								}
								break
							}
						}
						fence = append(fence, []string{fn, where, s.t(be)})
					}
					c, sel := selCall(n)
					if c == nil {
						return
					}
					m := sel.Sel.Name
					// reads of the stored record through the repository's own accessor
					if x.short == "servers" && m == "get" {
						recReads = append(recReads, []string{fn, s.t(sel), s.args(c.Args), s.txScope(fd, stack)})
					}
					// closures handed to Watch
					if x.short == "redislock" && m == "Watch" {
						for _, a := range c.Args {
							if fl, ok := a.(*ast.FuncLit); ok {
								closures = append(closures, struct {
									k  string
									vs []string
								}{fn, s.stmtSkeleton(fl.Body)})
							}
						}
					}
					if !names[m] || len(c.Args) == 0 || storeTxPlumbing[m] {
						return
					}
					kind := "write"
					if storeReadCmdNames[m] {
						kind = "read"
					}
					sites = append(sites, []string{x.short, fn, s.annot(sel.X), m, kind, s.pipeOf(sel.X, stack)})
					key, rest := "", ""
					if len(c.Args) > 1 {
						key, rest = s.t(c.Args[1]), s.args(c.Args[2:])
						if c.Ellipsis.IsValid() {
							rest += "..."
						}
					}
					keys = append(keys, []string{x.short, fn, m, key, rest})
					if m == "SetNX" {
						for _, a := range c.Args[1:] {
							id, ok := a.(*ast.Ident)
							if !ok {
								setnxDefs = append(setnxDefs, []string{fn, s.t(a), "(not an identifier)"})
								continue
							}
							for _, h := range s.identHistory(fd, id.Name) {
								setnxDefs = append(setnxDefs, []string{fn, id.Name, h})
							}
						}
					}
					if x.short == "probes" && fn == "enqueue" {
						for _, a := range c.Args {
							if !mentions(a, "itemID") {
								continue
							}
							if cl, ok := a.(*ast.CompositeLit); ok {
								for _, el := range cl.Elts {
									if mentions(el, "itemID") {
										idUses = append(idUses, []string{fn, m, s.t(el)})
									}
								}
								continue
							}
							idUses = append(idUses, []string{fn, m, s.t(a)})
						}
					}
				})
			}
			// anchors
			switch x.short {
			case "servers":
				for _, f := range []string{"get", "add", "update", "remove", "save", "updateExclusive"} {
					if _, err := s.fn(f); err != nil {
						return err
					}
				}
			case "probes":
				for _, f := range []string{"enqueue", "pop", "PopMany"} {
					if _, err := s.fn(f); err != nil {
						return err
					}
				}
			case "redislock":
				for _, f := range []string{"Guard", "release"} {
					if _, err := s.fn(f); err != nil {
						return err
					}
				}
			}
		}
		fmt.Fprintln(w, "/-- every Redis command call site (reads and writes; not Watch/Pipelined/TxPipelined themselves) of servers.go,")
		fmt.Fprintln(w, "instances.go, probes.go, redislock.go: (file, function, receiver, command, read|write, `TxPipelined on R` / `Pipelined on R`")
		fmt.Fprintln(w, "when it is queued on the pipe of that closure, else `bare` = sent on its own) -/")
		fmt.Fprintf(w, "def storeCmdSites : %s :=\n  %s\n", leanTupleType(6), leanTuples(sites))
		fmt.Fprintln(w, "/-- the same call sites with their arguments: (file, function, command, key expression, remaining arguments) -/")
		fmt.Fprintf(w, "def storeCmdKeys : %s :=\n  %s\n", leanTupleType(5), leanTuples(keys))
		fmt.Fprintln(w, "/-- every call of the record accessor `….get(…)` in servers.go: (function, callee, arguments, whether a `*redis.Tx` —")
		fmt.Fprintln(w, "the connection that WATCHes the lock key — is in scope at the call) -/")
		fmt.Fprintf(w, "def storeRecordReads : %s :=\n  %s\n", leanTupleType(4), leanTuples(recReads))
		fmt.Fprintln(w, "/-- every comparison in redislock.go that mentions `token`: (function, where, expression) -/")
		fmt.Fprintf(w, "def lockFenceChecks : %s :=\n  %s\n", leanTupleType(3), leanTuples(fence))
		fmt.Fprintln(w, "/-- the closures redislock.go passes to `Watch`, statement by statement (log calls left out of `if` bodies): (function, statements) -/")
		fmt.Fprintf(w, "def lockWatchClosures : List (String × List String) :=\n  %s\n", leanStrListRows(closures))
		fmt.Fprintln(w, "/-- for each argument after ctx of every `SetNX` call: everything in the function that gives it a value")
		fmt.Fprintln(w, "(`param T`, `:= e`, `= e`, `+= e`, `++`, `&x`, …): (function, identifier, definition) -/")
		fmt.Fprintf(w, "def lockSetNXArgDefs : %s :=\n  %s\n", leanTupleType(3), leanTuples(setnxDefs))
		fmt.Fprintln(w, "/-- how `itemID` is passed to the Redis commands of probes.go `enqueue`: (function, command, argument / literal field that mentions it) -/")
		fmt.Fprintf(w, "def probeItemIDUses : %s :=\n  %s\n", leanTupleType(3), leanTuples(idUses))
		return nil
	})
}
