package facts

import (
	"fmt"
	"go/ast"
	"go/parser"
	"go/token"
	"io"
	"path/filepath"
)

// probeids: how the probe queue names its items.  The queue's "at most one consumer / nothing lost" rests on every
// enqueued item getting its own key in `probes:items` / `probes:queue`: the expression that produces the item id in
// probes.go `enqueue` (a full random UUID) is part of the model's assumption "ids are fresh" (`QueueSys`: `ids_fresh`).
func init() {
	Add("probeids", func(w io.Writer, repo string) error {
		path := filepath.Join(repo, "internal", "persistence", "redis", "repositories", "probes", "probes.go")
		fset := token.NewFileSet()
		f, err := parser.ParseFile(fset, path, nil, 0)
		if err != nil {
			return err
		}
		var exprs []string
		ast.Inspect(f, func(n ast.Node) bool {
			as, ok := n.(*ast.AssignStmt)
			if !ok || len(as.Lhs) != 1 || len(as.Rhs) != 1 {
				return true
			}
			if id, ok := as.Lhs[0].(*ast.Ident); ok && id.Name == "itemID" {
				exprs = append(exprs, text(fset, as.Rhs[0]))
			}
			return true
		})
		fmt.Fprintln(w, "/-- every expression assigned to `itemID` in probes.go (the id an enqueued probe is stored under) -/")
		fmt.Fprintf(w, "def probeItemIDExprs : List String := %s\n", LeanStrList(exprs))
		return nil
	})
}
