// Package c11: sequential call histories on the real servers repository; every return value and the
// final keyspace are compared with the model and with the versioned-map specification.
package c11

import (
	"encoding/json"
	"fmt"
	"net"
	"reflect"
	"math/rand"
	"strconv"
	"strings"
	"time"

	"github.com/sergeii/swat4master/internal/core/entities/addr"
	"github.com/sergeii/swat4master/verifharness/internal/core"
	"github.com/sergeii/swat4master/verifharness/internal/storeops"
	"github.com/sergeii/swat4master/verifharness/internal/world"
)

func init() {
	core.Register(&core.Prop{ID: "C11", Gen: gen, Exec: exec})
}

// hist <item>,<item>,…   item = <callspec> | t<ns>     output: res=<r>;…  dump=<final dump>
func exec(op string, args []string) []string {
	if op != "hist" || len(args) != 1 {
		return []string{"bad-op"}
	}
	var out []string
	if txt, ok := core.Guard(func() { out = run(strings.Split(args[0], ",")) }); !ok {
		return []string{"panic:" + txt}
	}
	return out
}

func run(items []string) []string {
	w := world.New(world.DefaultOptions())
	defer w.Close()
	p := w.NewProc()
	var results []string
	for _, it := range items {
		if len(it) > 1 && it[0] == 't' && strings.IndexByte(it, '|') < 0 {
			ns, _ := strconv.ParseInt(it[1:], 10, 64)
			w.Advance(time.Duration(ns))
			results = append(results, "-")
			continue
		}
		if len(it) > 1 && it[0] == 'L' && strings.IndexByte(it, '|') < 0 {
			// L<addr>: the stored record of <addr> is rewritten in the format the released program writes — member names as
			// pinned in pinnedJSON below, not whatever the struct tags of the tree under test say now: what a previous run
			// (release) left in the store must still read back as the same server.  Not a repository call.
			host, port, _ := strings.Cut(it[1:], ":")
			pn, _ := strconv.Atoi(port)
			if svr, err := p.Servers.Get(p.Context(), addr.NewForTesting(net.ParseIP(host), pn)); err == nil {
				w.MR.HSet("servers:items", it[1:], string(pinnedJSON(reflect.ValueOf(svr))))
			}
			results = append(results, "-")
			continue
		}
		if len(it) > 1 && (it[0] == 'F' || it[0] == 'R') && strings.IndexByte(it, '|') < 0 {
			// F<addr>: the stored record of <addr> is rewritten as another release of the program would have written it: the same
			// JSON with extra members this release does not know (top level and nested).  R<ns>: time passes in the storage
			// service itself (key time-to-live), not only on the application's clock.  Neither is a repository call: the
			// registry and the queue must behave as if nothing had happened.
			if it[0] == 'F' {
				if raw := w.MR.HGet("servers:items", it[1:]); strings.HasPrefix(raw, "{") {
					raw = `{"ZzRegion":{"code":"eu","n":[1,2]},` + raw[1:]
					raw = strings.Replace(raw, `"Info":{`, `"Info":{"ZzNewField":"x",`, 1)
					raw = strings.Replace(raw, `"Details":{`, `"Details":{"ZzMore":null,`, 1)
					w.MR.HSet("servers:items", it[1:], raw)
				}
			} else {
				ns, _ := strconv.ParseInt(it[1:], 10, 64)
				w.MR.FastForward(time.Duration(ns))
			}
			results = append(results, "-")
			continue
		}
		results = append(results, storeops.RunCall(p, it))
	}
	return []string{"res=" + strings.Join(results, ";"), "dump=" + strings.Join(w.Dump(), ";")}
}

var addrs = []string{"1.1.1.1:10480", "1.1.1.1:10580", "2.2.2.2:10480", "9.9.9.9:1"}

// bigRegistry: a registry of n distinct servers (addresses 10.x.y.z:10480, a status word and a refresh time derived from
// the index), then filters that match all / most / few of them, the counts, and a second round after removing one server.
// A fetch done in batches (HMGET of 100, 128, 256, 300, 512, 1000 … keys at a time) behaves like the single fetch only if
// every boundary is right: the sizes sit on and around such boundaries.
func bigRegistry(rng *rand.Rand, n int, emit core.Emit) {
	epoch := world.Epoch.UnixNano()
	var items []string
	for i := 0; i < n; i++ {
		a := fmt.Sprintf("10.%d.%d.%d:10480", i/65536, i/256%256, i%256)
		st := 2 | 4 // master|info
		if i%3 == 0 {
			st |= 8 // details
		}
		if i%50 == 7 {
			st = 1 // new: matched by few filters
		}
		// every record carries 1–3 players (a fetch that decodes into reused memory mixes up neighbours' lists)
		items = append(items, fmt.Sprintf("add|%s/10481/%d/0/%d/p%d|refuse", a, st, epoch-int64(i%5)*256000, 1+(i*7)%3))
	}
	for i := 0; i < n; i += 1 + n/7 {
		items = append(items, fmt.Sprintf("F10.%d.%d.%d:10480", i/65536, i/256%256, i%256))
	}
	for i := 1; i < n; i += 1 + n/5 {
		items = append(items, fmt.Sprintf("L10.%d.%d.%d:10480", i/65536, i/256%256, i%256))
	}
	items = append(items, "count", "countby", "filter|0|0|z|z|z|z", "filter|2|0|z|z|z|z", "filter|6|0|z|z|z|z", "filter|8|0|z|z|z|z", "filter|0|8|z|z|z|z", "filter|1|0|z|z|z|z",
		fmt.Sprintf("filter|2|0|%d|z|z|z", epoch-2*256000), fmt.Sprintf("filter|0|0|z|%d|z|z", epoch-2*256000))
	victim := rng.Intn(n)
	items = append(items, fmt.Sprintf("remove|10.%d.%d.%d:10480/10481/6/5/z|accept", victim/65536, victim/256%256, victim%256), "filter|2|0|z|z|z|z", "count", "countby")
	emit("hist", strings.Join(items, ","))
}

// bigInstances / bigQueue: the instance table cleared of n outdated entries at once, the probe queue drained of n probes by
// one PopMany — the batch-wise variants of these calls must treat every batch alike.
func bigInstances(n int, emit core.Emit) {
	epoch := world.Epoch.UnixNano()
	var items []string
	for i := 0; i < n; i++ {
		items = append(items, fmt.Sprintf("insadd|%08x|10.%d.%d.%d:10480", i+1, i/65536, i/256%256, i%256))
	}
	items = append(items, "t256000")
	for i := 0; i < 3; i++ {
		items = append(items, fmt.Sprintf("insadd|%08x|9.9.9.%d:10480", 0x7f000000+i, i+1))
	}
	items = append(items, fmt.Sprintf("insclear|%d", epoch+256000), "insclear|z")
	emit("hist", strings.Join(items, ","))
}

func bigQueue(n int, emit core.Emit) {
	epoch := world.Epoch.UnixNano()
	var items []string
	for i := 0; i < n; i++ {
		exp := "z"
		if i%10 == 3 {
			exp = fmt.Sprint(epoch + 256) // expired by the time of the pop
		}
		items = append(items, fmt.Sprintf("penq|10.%d.%d.%d:10480|10481|%d|%d|3|%d|%s", i/65536, i/256%256, i%256, i%2, i%4, epoch-int64(n-i)*256, exp))
	}
	items = append(items, "t512000", "R100000000000000", fmt.Sprintf("ppop|%d", n/2), fmt.Sprintf("ppop|%d", n), "ppop|1")
	emit("hist", strings.Join(items, ","))
}

func gen(rng *rand.Rand, tier core.Tier, emit core.Emit) {
	for _, sz := range []int{99, 100, 101, 255, 256, 257, 499, 500, 501, 999, 1000, 1001, 1023, 1024, 1025, 1500, 2001} {
		bigInstances(sz, emit)
		bigQueue(sz, emit)
	}
	sizes := []int{63, 64, 65, 99, 100, 101, 127, 128, 129, 199, 200, 201, 249, 250, 251, 255, 256, 257, 299, 300, 301, 383, 384, 385, 499, 500, 501, 511, 512, 513,
		599, 600, 601, 767, 768, 769, 999, 1000, 1001, 1023, 1024, 1025}
	if tier == core.Thorough {
		sizes = append(sizes, 1535, 1536, 1537, 2047, 2048, 2049, 4095, 4096, 4097)
		for i := 0; i < 20; i++ {
			sizes = append(sizes, 2+rng.Intn(3000))
		}
	}
	for _, sz := range sizes {
		bigRegistry(rng, sz, emit)
	}
	n, maxLen := 600, 60
	if tier == core.Thorough {
		n, maxLen = 3000, 300
	}
	epoch := world.Epoch.UnixNano()
	for c := 0; c < n; c++ {
		clock := epoch
		vers := map[string]int{}
		var times []int64 // interesting instants: stored refresh/update times
		times = append(times, epoch)
		var items []string
		ln := 1 + rng.Intn(maxLen)
		for i := 0; i < ln; i++ {
			a := addrs[rng.Intn(len(addrs))]
			switch r := rng.Intn(20); {
			case r < 2:
				d := int64(256 * (1 + rng.Intn(4000)))
				clock += d
				times = append(times, clock)
				items = append(items, fmt.Sprintf("t%d", d))
			case r < 9:
				kind := []string{"add", "update", "update", "remove"}[rng.Intn(4)]
				v := vers[a] + rng.Intn(3) - 1 // stale / current / future caller version
				if v < 0 {
					v = 0
				}
				refreshed := "z"
				if rng.Intn(4) != 0 {
					t := times[rng.Intn(len(times))] + int64(rng.Intn(3)-1)*256
					refreshed = fmt.Sprint(t)
					times = append(times, t)
				}
				if rng.Intn(14) == 0 { // a refresh time before 1970 (negative nanoseconds): scores are not bounded below by 0
					refreshed = fmt.Sprint(-256 * int64(1+rng.Intn(1000)))
				}
				res := []string{"refuse", "accept", "merge", "over"}[rng.Intn(4)]
				players := ""
				if rng.Intn(3) == 0 {
					players = fmt.Sprintf("/p%d", rng.Intn(4))
				}
				items = append(items, fmt.Sprintf("%s|%s/%d/%d/%d/%s%s|%s", kind, a, 10000+rng.Intn(5), rng.Intn(512), v, refreshed, players, res))
				vers[a] += 1 // rough upper estimate, only steers the choice of caller versions
			case r < 11:
				if rng.Intn(4) == 0 {
					items = append(items, "F"+a) // the record as another release would have left it (unknown JSON members)
				}
				if rng.Intn(4) == 0 {
					items = append(items, "L"+a) // the record as the released program writes it
				}
				if rng.Intn(40) == 0 {
					items = append(items, "R100000000000000") // more than a day passes in the storage service
				}
				items = append(items, "get|"+a)
			case r < 12:
				items = append(items, []string{"count", "countby"}[rng.Intn(2)])
			default:
				bound := func() string {
					if rng.Intn(3) == 0 {
						return "z"
					}
					if rng.Intn(10) == 0 {
						return []string{"0", "-256", "-256000", "256"}[rng.Intn(4)]
					}
					return fmt.Sprint(times[rng.Intn(len(times))] + int64(rng.Intn(3)-1)*256)
				}
				ws, ns := 0, 0
				if rng.Intn(2) == 0 {
					ws = rng.Intn(512)
					if rng.Intn(2) == 0 {
						ws = 1 << uint(rng.Intn(9))
					}
				}
				if rng.Intn(3) == 0 {
					ns = 1 << uint(rng.Intn(9))
					if rng.Intn(3) == 0 {
						ns = rng.Intn(512)
					}
				}
				items = append(items, fmt.Sprintf("filter|%d|%d|%s|%s|%s|%s", ws, ns, bound(), bound(), bound(), bound()))
			}
		}
		emit("hist", strings.Join(items, ","))
	}
}

// pinnedJSON renders a stored entity in the release's storage format, independently of the struct tags of the tree under
// test: an object member is named after its Go field, except the two members of an address ("ip", "port"); arrays and
// slices are JSON arrays (nil: null), times RFC 3339 with nanoseconds, everything else as encoding/json writes the value.
func pinnedJSON(v reflect.Value) []byte {
	if v.Type() == reflect.TypeOf(time.Time{}) {
		b, _ := json.Marshal(v.Interface())
		return b
	}
	switch v.Kind() {
	case reflect.Struct:
		var sb strings.Builder
		sb.WriteByte('{')
		n := 0
		for i := 0; i < v.NumField(); i++ {
			f := v.Type().Field(i)
			if !f.IsExported() {
				continue
			}
			name := f.Name
			if v.Type() == reflect.TypeOf(addr.Addr{}) {
				name = strings.ToLower(name)
			}
			if n > 0 {
				sb.WriteByte(',')
			}
			n++
			k, _ := json.Marshal(name)
			sb.Write(k)
			sb.WriteByte(':')
			sb.Write(pinnedJSON(v.Field(i)))
		}
		sb.WriteByte('}')
		return []byte(sb.String())
	case reflect.Slice, reflect.Array:
		if v.Kind() == reflect.Slice && v.IsNil() {
			return []byte("null")
		}
		var sb strings.Builder
		sb.WriteByte('[')
		for i := 0; i < v.Len(); i++ {
			if i > 0 {
				sb.WriteByte(',')
			}
			sb.Write(pinnedJSON(v.Index(i)))
		}
		sb.WriteByte(']')
		return []byte(sb.String())
	case reflect.Int, reflect.Int8, reflect.Int16, reflect.Int32, reflect.Int64:
		return []byte(strconv.FormatInt(v.Int(), 10))
	case reflect.Uint, reflect.Uint8, reflect.Uint16, reflect.Uint32, reflect.Uint64:
		return []byte(strconv.FormatUint(v.Uint(), 10))
	default:
		b, _ := json.Marshal(v.Interface())
		return b
	}
}
