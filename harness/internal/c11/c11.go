// Package c11: sequential call histories on the real servers repository; every return value and the
// final keyspace are compared with the model and with the versioned-map specification.
package c11

import (
	"fmt"
	"math/rand"
	"strconv"
	"strings"
	"time"

	"github.com/sergeii/swat4master/verifharness/internal/core"
	"github.com/sergeii/swat4master/verifharness/internal/storeops"
	"github.com/sergeii/swat4master/verifharness/internal/world"
)

func init() {
	core.Register(&core.Prop{ID: "C11", Gen: gen, Exec: exec})
}

// hist <item>,<item>,…   item = <callspec> | t<ns>     output: res=<r>;…  dump=<final dump>
func exec(op string, args []string) []string {
	if op != "hist" || len(args) != 1 {
		return []string{"bad-op"}
	}
	var out []string
	if txt, ok := core.Guard(func() { out = run(strings.Split(args[0], ",")) }); !ok {
		return []string{"panic:" + txt}
	}
	return out
}

func run(items []string) []string {
	w := world.New(world.DefaultOptions())
	defer w.Close()
	p := w.NewProc()
	var results []string
	for _, it := range items {
		if len(it) > 1 && it[0] == 't' && strings.IndexByte(it, '|') < 0 {
			ns, _ := strconv.ParseInt(it[1:], 10, 64)
			w.Advance(time.Duration(ns))
			results = append(results, "-")
			continue
		}
		results = append(results, storeops.RunCall(p, it))
	}
	return []string{"res=" + strings.Join(results, ";"), "dump=" + strings.Join(w.Dump(), ";")}
}

var addrs = []string{"1.1.1.1:10480", "1.1.1.1:10580", "2.2.2.2:10480", "9.9.9.9:1"}

func gen(rng *rand.Rand, tier core.Tier, emit core.Emit) {
	n, maxLen := 600, 60
	if tier == core.Thorough {
		n, maxLen = 3000, 300
	}
	epoch := world.Epoch.UnixNano()
	for c := 0; c < n; c++ {
		clock := epoch
		vers := map[string]int{}
		var times []int64 // interesting instants: stored refresh/update times
		times = append(times, epoch)
		var items []string
		ln := 1 + rng.Intn(maxLen)
		for i := 0; i < ln; i++ {
			a := addrs[rng.Intn(len(addrs))]
			switch r := rng.Intn(20); {
			case r < 2:
				d := int64(256 * (1 + rng.Intn(4000)))
				clock += d
				times = append(times, clock)
				items = append(items, fmt.Sprintf("t%d", d))
			case r < 9:
				kind := []string{"add", "update", "update", "remove"}[rng.Intn(4)]
				v := vers[a] + rng.Intn(3) - 1 // stale / current / future caller version
				if v < 0 {
					v = 0
				}
				refreshed := "z"
				if rng.Intn(4) != 0 {
					t := times[rng.Intn(len(times))] + int64(rng.Intn(3)-1)*256
					refreshed = fmt.Sprint(t)
					times = append(times, t)
				}
				res := []string{"refuse", "accept", "merge", "over"}[rng.Intn(4)]
				items = append(items, fmt.Sprintf("%s|%s/%d/%d/%d/%s|%s", kind, a, 10000+rng.Intn(5), rng.Intn(512), v, refreshed, res))
				vers[a] += 1 // rough upper estimate, only steers the choice of caller versions
			case r < 11:
				items = append(items, "get|"+a)
			case r < 12:
				items = append(items, []string{"count", "countby"}[rng.Intn(2)])
			default:
				bound := func() string {
					if rng.Intn(3) == 0 {
						return "z"
					}
					return fmt.Sprint(times[rng.Intn(len(times))] + int64(rng.Intn(3)-1)*256)
				}
				ws, ns := 0, 0
				if rng.Intn(2) == 0 {
					ws = rng.Intn(512)
					if rng.Intn(2) == 0 {
						ws = 1 << uint(rng.Intn(9))
					}
				}
				if rng.Intn(3) == 0 {
					ns = 1 << uint(rng.Intn(9))
					if rng.Intn(3) == 0 {
						ns = rng.Intn(512)
					}
				}
				items = append(items, fmt.Sprintf("filter|%d|%d|%s|%s|%s|%s", ws, ns, bound(), bound(), bound(), bound()))
			}
		}
		emit("hist", strings.Join(items, ","))
	}
}
