// Package world builds the real system from /repo by hand (no fx): miniredis, a fake clock,
// and per logical process a redis client with repositories, use cases, handlers and REST router.
package world

import (
	"io"
	"context"
	"encoding/json"
	"fmt"
	"net"
	"sort"
	"strconv"
	"strings"
	"time"

	"github.com/alicebob/miniredis/v2"
	"github.com/gin-gonic/gin"
	"github.com/go-playground/validator/v10"
	"github.com/jonboulle/clockwork"
	"github.com/redis/go-redis/v9"
	"github.com/rs/zerolog"

	"github.com/sergeii/swat4master/cmd/swat4master/container"
	"github.com/sergeii/swat4master/internal/browser"
	"github.com/sergeii/swat4master/internal/cleanup/cleaners/instancecleaner"
	"github.com/sergeii/swat4master/internal/cleanup/cleaners/servercleaner"
	"github.com/sergeii/swat4master/internal/core/entities/probe"
	"github.com/sergeii/swat4master/internal/core/entities/server"
	"github.com/sergeii/swat4master/internal/core/repositories"
	"github.com/sergeii/swat4master/internal/core/usecases/addserver"
	"github.com/sergeii/swat4master/internal/core/usecases/getserver"
	"github.com/sergeii/swat4master/internal/core/usecases/listservers"
	"github.com/sergeii/swat4master/internal/core/usecases/probeserver"
	"github.com/sergeii/swat4master/internal/core/usecases/refreshservers"
	"github.com/sergeii/swat4master/internal/core/usecases/removeserver"
	"github.com/sergeii/swat4master/internal/core/usecases/renewserver"
	"github.com/sergeii/swat4master/internal/core/usecases/reportserver"
	"github.com/sergeii/swat4master/internal/core/usecases/reviveservers"
	"github.com/sergeii/swat4master/internal/metrics"
	"github.com/sergeii/swat4master/internal/persistence/redis/redislock"
	"github.com/sergeii/swat4master/internal/persistence/redis/repositories/instances"
	"github.com/sergeii/swat4master/internal/persistence/redis/repositories/probes"
	"github.com/sergeii/swat4master/internal/persistence/redis/repositories/servers"
	"github.com/sergeii/swat4master/internal/reporter"
	"github.com/sergeii/swat4master/internal/reporter/handlers/available"
	"github.com/sergeii/swat4master/internal/reporter/handlers/challenge"
	"github.com/sergeii/swat4master/internal/reporter/handlers/heartbeat"
	"github.com/sergeii/swat4master/internal/reporter/handlers/keepalive"
	"github.com/sergeii/swat4master/internal/rest"
	"github.com/sergeii/swat4master/internal/rest/api"
	"github.com/sergeii/swat4master/internal/settings"
	"github.com/sergeii/swat4master/internal/validation"
	"github.com/sergeii/swat4master/verifharness/internal/canon"
)

// Epoch is the start of the fake clock: 2024-01-01T00:00:00Z.  All times the harness uses are
// Epoch + k·256ns, which float64 (Redis scores) represents exactly in this epoch (A-time).
var Epoch = time.Unix(1704067200, 0).UTC()

type Options struct {
	Liveness        time.Duration // browser + REST liveness
	RevivalRetries  int
	RefreshRetries  int
	CleanRetention  time.Duration
	ZeroLockBackoff bool
	// Start, when set, replaces Epoch as the start of the fake clock (an early date makes every nanosecond an exact float64 score)
	Start time.Time
}

func DefaultOptions() Options {
	return Options{Liveness: 180 * time.Second, RevivalRetries: 2, RefreshRetries: 4, CleanRetention: time.Hour, ZeroLockBackoff: true}
}

type World struct {
	MR    *miniredis.Miniredis
	Clock *clockwork.FakeClock
	Opts  Options
	Procs []*Proc
}

// Repos is the triple of repository interfaces the use cases are built on.
type Repos struct {
	Servers   repositories.ServerRepository
	Instances repositories.InstanceRepository
	Probes    repositories.ProbeRepository
}

// ProcOpts: Hooks are attached to the redis client; Wrap (optional) decorates the repositories handed
// to the use cases (the harness uses it to mark repository-call boundaries in the scheduler's trace).
type ProcOpts struct {
	Hooks []redis.Hook
	Wrap  func(Repos) Repos
}

// Proc is one logical process: its own redis client (hence its own WATCH state) and everything built on it.
type Proc struct {
	// Ctx, when set, is the context the harness passes to the repositories (sched.WithID tags the caller)
	Ctx        context.Context
	W          *World
	Client     *redis.Client
	Logger     *zerolog.Logger
	Metrics    *metrics.Collector
	Validate   *validator.Validate
	Locker     *redislock.Manager
	Servers    *servers.Repository
	Instances  *instances.Repository
	Probes     *probes.Repository
	Repos      Repos // what the use cases see (possibly wrapped)
	Settings   settings.Settings
	UC         container.Container
	Dispatcher *reporter.Dispatcher
	Browser    browser.Handler
	API        *api.API
	Router     *gin.Engine
	SvrCleaner servercleaner.ServerCleaner
	InsCleaner instancecleaner.InstanceCleaner
}

// Context: the context for calls made on behalf of this logical process
func (p *Proc) Context() context.Context {
	if p.Ctx != nil {
		return p.Ctx
	}
	return context.Background()
}

func New(opts Options) *World {
	mr := miniredis.NewMiniRedis()
	if err := mr.Start(); err != nil {
		panic(err)
	}
	start := Epoch
	if !opts.Start.IsZero() {
		start = opts.Start
	}
	clock := clockwork.NewFakeClockAt(start)
	mr.SetTime(start)
	return &World{MR: mr, Clock: clock, Opts: opts}
}

func (w *World) Close() {
	for _, p := range w.Procs {
		_ = p.Client.Close()
	}
	w.MR.Close()
}

// Advance moves the fake clock (and miniredis' notion of now, without expiring TTLs).
func (w *World) Advance(d time.Duration) {
	w.Clock.Advance(d)
	w.MR.SetTime(w.Clock.Now())
}

// ExpireLeases fast-forwards miniredis TTLs by d (lock leases); the fake clock is not moved.
func (w *World) ExpireLeases(d time.Duration) { w.MR.FastForward(d) }

func init() { gin.SetMode(gin.ReleaseMode) }

// NewProc builds a logical process. hooks are attached to its redis client before anything uses it.
func (w *World) NewProc(hooks ...redis.Hook) *Proc {
	return w.NewProcOpts(ProcOpts{Hooks: hooks})
}

func (w *World) NewProcOpts(po ProcOpts) *Proc {
	hooks := po.Hooks
	client := redis.NewClient(&redis.Options{Addr: w.MR.Addr(), MaxRetries: -1, PoolSize: 8,
		// in-memory transport straight into miniredis: no TCP connection per process per case
		Dialer: func(context.Context, string, string) (net.Conn, error) {
			c, s := memPipe()
			w.MR.Server().ServeConn(s)
			return c, nil
		}})
	for _, h := range hooks {
		client.AddHook(h)
	}
	// every log statement is evaluated (its arguments are built and rendered), the output is thrown away: a logging call
	// that panics or blocks is part of the behaviour under test
	logger := zerolog.New(io.Discard).Level(zerolog.TraceLevel)
	p := &Proc{W: w, Client: client, Logger: &logger}
	p.Metrics = metrics.New()
	p.Validate = validation.MustNew()
	p.Locker = redislock.NewManager(client, p.Logger)
	p.Servers = servers.New(client, p.Locker, w.Clock)
	if w.Opts.ZeroLockBackoff {
		lo := p.Servers.VerifLockOpts()
		lo.RetryBackoff = 0
		p.Servers.VerifSetLockOpts(lo)
	}
	p.Instances = instances.New(client, w.Clock)
	p.Probes = probes.New(client, w.Clock)
	rp := Repos{Servers: p.Servers, Instances: p.Instances, Probes: p.Probes}
	if po.Wrap != nil {
		rp = po.Wrap(rp)
	}
	p.Repos = rp
	// use-case options exactly as the application derives them from its settings (cmd/swat4master/container)
	p.Settings = settings.Settings{ServerLiveness: w.Opts.Liveness, DiscoveryRevivalRetries: w.Opts.RevivalRetries, DiscoveryRefreshRetries: w.Opts.RefreshRetries}
	ucc := container.NewUseCaseConfigs(p.Settings)
	p.UC = container.NewContainer(
		addserver.New(rp.Servers, rp.Probes, ucc.AddServerOptions, p.Metrics, p.Logger),
		getserver.New(rp.Servers),
		listservers.New(rp.Servers, w.Clock),
		probeserver.New(rp.Servers, rp.Probes, p.Metrics, w.Clock, p.Logger),
		refreshservers.New(rp.Servers, rp.Probes, ucc.RefreshServersOptions, p.Metrics, p.Logger),
		removeserver.New(rp.Servers, rp.Instances, p.Logger),
		renewserver.New(rp.Instances, rp.Servers, w.Clock),
		reportserver.New(rp.Servers, rp.Instances, rp.Probes, ucc.ReportServerOptions, p.Validate, p.Metrics, w.Clock, p.Logger),
		reviveservers.New(rp.Servers, rp.Probes, ucc.ReviveServersOptions, p.Metrics, p.Logger),
	)
	p.Dispatcher = reporter.NewDispatcher(p.Metrics, w.Clock, p.Logger)
	must2(available.New(p.Dispatcher))
	must2(challenge.New(p.Dispatcher))
	must2(heartbeat.New(p.Dispatcher, p.Metrics, p.UC.ReportServer, p.UC.RemoveServer))
	must2(keepalive.New(p.Dispatcher, p.UC.RenewServer))
	p.Browser = browser.NewHandler(p.Metrics, p.Logger, w.Clock, p.UC.ListServers, browser.HandlerOpts{Liveness: w.Opts.Liveness})
	p.API = api.New(p.Settings, p.Logger, p.UC)
	p.Router = rest.NewRouter(p.API)
	w.Procs = append(w.Procs, p)
	return p
}

func must2[T any](_ T, err error) {
	if err != nil {
		panic(err)
	}
}

// Dispatch sends one reporter datagram through the real dispatcher (verif hook), in-process.
func (p *Proc) Dispatch(src *net.UDPAddr, payload []byte) (resp []byte, err error) {
	resp, _, err = p.Dispatcher.VerifDispatch(context.Background(), payload, src)
	return resp, err
}

// ---------------------------------------------------------------------------- canonical dump

// AddrKey orders "a.b.c.d:port" strings numerically by (ip, port); unparsable strings sort last by text.
func AddrKey(s string) (uint64, bool) {
	host, port, ok := strings.Cut(s, ":")
	if !ok {
		return 0, false
	}
	ip := net.ParseIP(host).To4()
	pn, err := strconv.ParseUint(port, 10, 32)
	if ip == nil || err != nil {
		return 0, false
	}
	return (uint64(ip[0])<<24|uint64(ip[1])<<16|uint64(ip[2])<<8|uint64(ip[3]))*65536 + pn, true
}

func sortAddrs(xs []string) {
	sort.Slice(xs, func(i, j int) bool {
		a, oka := AddrKey(xs[i])
		b, okb := AddrKey(xs[j])
		if oka != okb {
			return oka
		}
		if !oka || a == b {
			return xs[i] < xs[j]
		}
		return a < b
	})
}

var statusNames = []string{"new", "master", "info", "details", "details_retry", "no_details", "port", "port_retry", "no_port"}

// Dump renders the raw keyspace canonically, in this fixed section order (the Lean driver renders
// the model state in the same form, Swat4/Drv/Store.lean):
//
//	SV,<addr>,<queryport>,<status>,<version>,<refreshedNs|z>,<info>,<details>   servers:items, by (ip, port)
//	UP,<addr>,<score>   RF,<addr>,<score>                                       by (ip, port)
//	ST,<bit>,<addr>                                                             bits in ds.Members() order, then (ip, port)
//	LK,<addr>,<ttl|nottl>
//	IN,<idhex>,<ip:port>   IU,<idhex>,<score>                                   by id
//	PI,<n>,<addr>,<port>,<goal>,<retries>,<max>,<expiresNs|z>   PQ,<n>,<score>  n: rank by (score, payload text)
//	XX,<key>                                                                    any other key
func (w *World) Dump() []string {
	mr := w.MR
	keys := mr.Keys()
	sort.Strings(keys)
	has := map[string]bool{}
	for _, k := range keys {
		has[k] = true
	}
	hash := func(k string) map[string]string {
		m := map[string]string{}
		if !has[k] {
			return m
		}
		fs, _ := mr.HKeys(k)
		for _, f := range fs {
			m[f] = mr.HGet(k, f)
		}
		return m
	}
	zset := func(k string) map[string]float64 {
		m := map[string]float64{}
		if !has[k] {
			return m
		}
		ms, _ := mr.ZMembers(k)
		for _, x := range ms {
			s, _ := mr.ZScore(k, x)
			m[x] = s
		}
		return m
	}
	score := func(f float64) string { return strconv.FormatInt(int64(f), 10) }
	var out []string
	// servers
	items := hash("servers:items")
	addrs := make([]string, 0, len(items))
	for f := range items {
		addrs = append(addrs, f)
	}
	sortAddrs(addrs)
	for _, f := range addrs {
		var s server.Server
		if err := json.Unmarshal([]byte(items[f]), &s); err != nil {
			out = append(out, "SV,"+f+",undecodable")
			continue
		}
		out = append(out, fmt.Sprintf("SV,%s,%d,%d,%d,%s,%s,%s", f, s.QueryPort, int(s.DiscoveryStatus), s.Version,
			canon.Time(s.RefreshedAt), canon.Of(s.Info), canon.Of(s.Details)))
		if s.Addr.String() != f {
			out = append(out, "SV-KEY-MISMATCH,"+f+","+s.Addr.String())
		}
	}
	for _, zk := range [][2]string{{"servers:updated", "UP"}, {"servers:refreshed", "RF"}} {
		z := zset(zk[0])
		ms := make([]string, 0, len(z))
		for m := range z {
			ms = append(ms, m)
		}
		sortAddrs(ms)
		for _, m := range ms {
			out = append(out, zk[1]+","+m+","+score(z[m]))
		}
	}
	known := map[string]bool{"servers:items": true, "servers:updated": true, "servers:refreshed": true,
		"instances:items": true, "instances:updated": true, "probes:items": true, "probes:queue": true}
	for _, bit := range statusNames {
		k := "servers:status:" + bit
		known[k] = true
		if !has[k] {
			continue
		}
		ms, _ := mr.SMembers(k)
		sortAddrs(ms)
		for _, m := range ms {
			out = append(out, "ST,"+bit+","+m)
		}
	}
	var locks []string
	for _, k := range keys {
		if strings.HasPrefix(k, "servers:lock:") {
			locks = append(locks, strings.TrimPrefix(k, "servers:lock:"))
			known[k] = true
		}
	}
	sortAddrs(locks)
	for _, a := range locks {
		ttl := mr.TTL("servers:lock:" + a)
		t := "nottl"
		if ttl > 0 {
			t = "ttl"
		}
		out = append(out, "LK,"+a+","+t)
	}
	// instances
	ins := hash("instances:items")
	ids := make([]string, 0, len(ins))
	for f := range ins {
		ids = append(ids, f)
	}
	sort.Strings(ids)
	for _, f := range ids {
		var si struct {
			ID   [4]byte `json:"id"`
			IP   net.IP  `json:"ip"`
			Port int     `json:"port"`
		}
		if err := json.Unmarshal([]byte(ins[f]), &si); err != nil {
			out = append(out, "IN,"+f+",undecodable")
			continue
		}
		out = append(out, fmt.Sprintf("IN,%s,%s:%d", f, si.IP.String(), si.Port))
	}
	iu := zset("instances:updated")
	ids = ids[:0]
	for f := range iu {
		ids = append(ids, f)
	}
	sort.Strings(ids)
	for _, f := range ids {
		out = append(out, "IU,"+f+","+score(iu[f]))
	}
	// probes
	type pi struct {
		payload  string
		score    float64
		hasScore bool
	}
	var pis []pi
	pitems := hash("probes:items")
	pqueue := zset("probes:queue")
	for id, raw := range pitems {
		var it struct {
			Probe   probe.Probe `json:"probe"`
			Expires time.Time   `json:"expires"`
		}
		payload := "undecodable"
		if err := json.Unmarshal([]byte(raw), &it); err == nil {
			payload = fmt.Sprintf("%s,%d,%d,%d,%d,%s", it.Probe.Addr.String(), it.Probe.Port, int(it.Probe.Goal), it.Probe.Retries, it.Probe.MaxRetries, canon.Time(it.Expires))
		}
		s, ok := pqueue[id]
		pis = append(pis, pi{payload: payload, score: s, hasScore: ok})
	}
	for id, s := range pqueue {
		if _, ok := pitems[id]; !ok {
			pis = append(pis, pi{payload: "", score: s, hasScore: true})
		}
	}
	sort.Slice(pis, func(i, j int) bool {
		a, b := pis[i], pis[j]
		if a.hasScore != b.hasScore {
			return a.hasScore
		}
		if a.score != b.score {
			return a.score < b.score
		}
		return a.payload < b.payload
	})
	for n, x := range pis {
		if x.payload != "" {
			out = append(out, fmt.Sprintf("PI,%d,%s", n, x.payload))
		}
		if x.hasScore {
			out = append(out, fmt.Sprintf("PQ,%d,%s", n, score(x.score)))
		}
	}
	for _, k := range keys {
		if !known[k] {
			out = append(out, "XX,"+k)
		}
	}
	return out
}
