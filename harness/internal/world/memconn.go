package world

import (
	"io"
	"net"
	"sync"
	"time"
)

// memConn is an in-memory, unbounded-buffer duplex connection (net.Pipe is synchronous and would
// deadlock on pipelines larger than the server's read buffer).  It lets every logical process talk
// to miniredis without TCP sockets, so thousands of cases per minute leave no TIME-WAIT sockets behind.
type memHalf struct {
	mu     sync.Mutex
	cond   *sync.Cond
	buf    []byte
	closed bool
}

func newHalf() *memHalf {
	h := &memHalf{}
	h.cond = sync.NewCond(&h.mu)
	return h
}

func (h *memHalf) read(p []byte) (int, error) {
	h.mu.Lock()
	defer h.mu.Unlock()
	for len(h.buf) == 0 && !h.closed {
		h.cond.Wait()
	}
	if len(h.buf) == 0 {
		return 0, io.EOF
	}
	n := copy(p, h.buf)
	h.buf = h.buf[n:]
	return n, nil
}

func (h *memHalf) write(p []byte) (int, error) {
	h.mu.Lock()
	defer h.mu.Unlock()
	if h.closed {
		return 0, io.ErrClosedPipe
	}
	h.buf = append(h.buf, p...)
	h.cond.Broadcast()
	return len(p), nil
}

func (h *memHalf) close() {
	h.mu.Lock()
	h.closed = true
	h.cond.Broadcast()
	h.mu.Unlock()
}

type memConn struct{ r, w *memHalf }

type memAddr struct{}

func (memAddr) Network() string { return "mem" }
func (memAddr) String() string  { return "mem" }

func (c *memConn) Read(p []byte) (int, error)       { return c.r.read(p) }
func (c *memConn) Write(p []byte) (int, error)      { return c.w.write(p) }
func (c *memConn) Close() error                     { c.r.close(); c.w.close(); return nil }
func (c *memConn) LocalAddr() net.Addr              { return memAddr{} }
func (c *memConn) RemoteAddr() net.Addr             { return memAddr{} }
func (c *memConn) SetDeadline(time.Time) error      { return nil }
func (c *memConn) SetReadDeadline(time.Time) error  { return nil }
func (c *memConn) SetWriteDeadline(time.Time) error { return nil }

func memPipe() (net.Conn, net.Conn) {
	a, b := newHalf(), newHalf()
	return &memConn{r: a, w: b}, &memConn{r: b, w: a}
}
