// Package c08 drives the real gs1.Query with well-formed status responses in every dialect,
// fragmentation and delivery order, and the real port prober with scripted responders on several
// loopback ports (DESIGN.md §5 C08 "Correspondence").
//
//	C08 dec <dialect> <fields> <players> <objectives> <cuts> <order> <dgrams>
//	    the abstract status, its encoding (checked against the Lean encoder by the driver) and the
//	    delivery order (indices into <dgrams>, duplicates allowed); players = kvs|kvs|… with the indexes 0,1,2,…
//	    => resp <ver> <fields> <players> <objectives> | timeout | err:…
//	C08 decw <dialect> <fields> <players> <objectives> <wire> <cuts> <order> <dgrams>
//	    the same with explicit player indexes (players = id=kvs|id=kvs|…: gaps, any listing order) and the
//	    order in which the pairs are sent (<wire>: indexes into the canonical pair list): the pairs of
//	    different players, the server fields and the objectives interleaved
//	    => as for dec
//	C08 probe <gameport> <responder>;<responder>;…
//	    responder = x (closed port) | <delay_ms>/<dgrams> (answers after the delay)
//	    => chosen <k> <ver> res:<class> | failed      (k = index of the responder whose answer was kept)
package c08

import (
	"bytes"
	"context"
	"encoding/json"
	"errors"
	"math/rand"
	"net"
	"strconv"
	"strings"
	"sync"
	"time"

	"github.com/go-playground/validator/v10"
	"github.com/jonboulle/clockwork"
	"github.com/rs/zerolog"

	"github.com/sergeii/swat4master/internal/core/entities/addr"
	"github.com/sergeii/swat4master/internal/metrics"
	"github.com/sergeii/swat4master/internal/prober/probers/portprober"
	"github.com/sergeii/swat4master/internal/validation"
	"github.com/sergeii/swat4master/verifharness/internal/core"
	u "github.com/sergeii/swat4master/verifharness/internal/gs1util"
)

func init() {
	core.Register(&core.Prop{ID: "C08", Gen: gen, Exec: exec})
}

const queryTimeout = 150 * time.Millisecond

func exec(op string, args []string) []string {
	switch op {
	case "dec", "decw":
		k := 5
		if op == "decw" {
			k = 6
		}
		if len(args) != k+2 {
			return []string{"bad-op"}
		}
		order, err := u.ParseInts(args[k])
		if err != nil {
			return []string{"bad-op"}
		}
		ds, err := u.SplitDgrams(args[k+1])
		if err != nil {
			return []string{"bad-op"}
		}
		seq := make([][]byte, 0, len(order))
		for _, i := range order {
			if i < 0 || i >= len(ds) {
				return []string{"bad-op"}
			}
			seq = append(seq, ds[i])
		}
		return u.RunQuery(seq, queryTimeout, false)
	case "probe":
		if len(args) != 2 {
			return []string{"bad-op"}
		}
		gp, err := strconv.Atoi(args[0])
		if err != nil {
			return []string{"bad-op"}
		}
		specs := strings.Split(args[1], ";")
		out := probe(gp, specs)
		// "nothing answered" although a responder was scripted: under heavy machine load the 600 ms of wall time can pass
		// before a delayed answer is read; a real defect fails the second time as well
		if len(out) == 1 && out[0] == "failed" {
			for _, sp := range specs {
				if sp != "x" && sp != "w" {
					return probe(gp, specs)
				}
			}
		}
		return out
	}
	return []string{"bad-op"}
}

// ---------------------------------------------------------------- port prober

var (
	sharedOnce     sync.Once
	sharedMetrics  *metrics.Collector
	sharedValidate *validator.Validate
)

func shared() {
	sharedOnce.Do(func() {
		sharedMetrics = metrics.New()
		sharedValidate = validation.MustNew()
	})
}

func probe(gamePort int, specs []string) []string {
	shared()
	ports := make([]int, len(specs))
	var responders []*u.Responder
	defer func() {
		for _, r := range responders {
			r.Close()
		}
	}()
	for i, sp := range specs {
		if sp == "w" {
			// game port + offset beyond 65535: the prober converts to uint16 (it wraps to a low, closed port)
			ports[i] = 65536 + 7 + i
			continue
		}
		if sp == "x" {
			ports[i] = u.ClosedPort()
			continue
		}
		delayS, dg, ok := strings.Cut(sp, "/")
		if !ok {
			return []string{"bad-op"}
		}
		delay, err := strconv.Atoi(delayS)
		if err != nil {
			return []string{"bad-op"}
		}
		ds, err := u.SplitDgrams(dg)
		if err != nil {
			return []string{"bad-op"}
		}
		// a game port just below the top of the port range: the candidates are the very last ports, 65535 included
		// (the i-th responder listens on game port + 1 + i)
		at := 0
		if gamePort >= 65000 && gamePort+1+i <= 65535 {
			at = gamePort + 1 + i
		}
		r, err := u.NewResponderAt(at, ds, time.Duration(delay)*time.Millisecond, false)
		if err != nil {
			return []string{"harness-error:listen"}
		}
		responders = append(responders, r)
		ports[i] = r.Port()
	}
	offsets := make([]int, len(ports))
	for i, p := range ports {
		offsets[i] = p - gamePort
	}
	var buf bytes.Buffer
	logger := zerolog.New(zerolog.SyncWriter(&buf)).Level(zerolog.DebugLevel)
	prober := portprober.New(portprober.Opts{Offsets: offsets}, sharedValidate, clockwork.NewFakeClock(), sharedMetrics, &logger)
	svrAddr := addr.NewForTesting(net.IPv4(127, 0, 0, 1), gamePort)
	var res any
	var perr error
	if txt, ok := core.Guard(func() { res, perr = prober.Probe(context.Background(), svrAddr, gamePort, 600*time.Millisecond) }); !ok {
		return []string{"panic:" + txt}
	}
	// which answer was kept: the prober's own debug line
	chosenPort, chosenVer := -1, ""
	for _, line := range strings.Split(buf.String(), "\n") {
		if !strings.Contains(line, "Selected preferred response") {
			continue
		}
		var m map[string]any
		if json.Unmarshal([]byte(line), &m) == nil {
			if p, ok := m["port"].(float64); ok {
				chosenPort = int(p)
			}
			if v, ok := m["version"].(string); ok {
				chosenVer = v
			}
		}
	}
	// the port is the prober's RESULT; its debug line is only consulted for the dialect tag, which the result does not carry
	// ("?" when the line is not there: the wording of a log message is no part of any property)
	if r, ok := res.(portprober.Result); ok && perr == nil {
		if chosenPort != r.Port {
			chosenPort, chosenVer = r.Port, "?"
		}
	}
	if chosenVer == "" && chosenPort >= 0 {
		chosenVer = "?" // the debug line is there but its dialect member is not a string any more, or has another name
	}
	if errors.Is(perr, portprober.ErrPortDiscoveryFailed) {
		return []string{"failed"}
	}
	cls := "res:ok"
	switch {
	case errors.Is(perr, portprober.ErrParseFailed):
		cls = "res:err-parse"
	case errors.Is(perr, portprober.ErrValidationFailed):
		cls = "res:err-validate"
	case perr != nil:
		cls = "res:err-other"
	default:
		if r, ok := res.(portprober.Result); !ok || r.Port != chosenPort {
			cls = "res:port-mismatch"
		}
	}
	k := -1
	for i, p := range ports {
		if p == chosenPort {
			k = i
		}
	}
	return []string{"chosen", strconv.Itoa(k), chosenVer, cls}
}

// ---------------------------------------------------------------- generators

func fits(ds [][]byte) bool {
	for _, d := range ds {
		if len(d) > u.MaxDgram {
			return false
		}
	}
	return true
}

func isFragmenting(d string) bool { return d != "vanilla" && d != "vanillaq" }

// encoded draws a status and a fragmentation that fits the read buffer
func encoded(rng *rand.Rand, dialect string, nPlayers, nObjs, nFrag int) (u.Status, []int, [][]byte) {
	for {
		s := u.RandStatus(rng, nPlayers, nObjs)
		if rng.Intn(3) != 0 { // explicit indexes (gaps, out of order) and an interleaved wire order
			s = u.RandWire(rng, s)
		}
		flat := s.Flat()
		var cuts []int
		if isFragmenting(dialect) {
			cuts = u.RandCuts(rng, len(flat), nFrag, dialect == "gs1" && rng.Intn(2) == 0)
		}
		ds := u.Encode(dialect, s, cuts)
		if fits(ds) {
			return s, cuts, ds
		}
		if nPlayers > 0 {
			nPlayers--
		}
		if isFragmenting(dialect) && nFrag < 8 {
			nFrag++
		}
	}
}

func emitDec(emit core.Emit, dialect string, s u.Status, cuts []int, order []int, ds [][]byte) {
	if s.HasWire() {
		st := s.TokensW()
		emit("decw", dialect, st[0], st[1], st[2], st[3], u.IntsTok(cuts), u.IntsTok(order), u.JoinDgrams(ds))
		return
	}
	st := s.Tokens()
	emit("dec", dialect, st[0], st[1], st[2], u.IntsTok(cuts), u.IntsTok(order), u.JoinDgrams(ds))
}

func perms(n int, f func([]int)) {
	a := make([]int, n)
	for i := range a {
		a[i] = i
	}
	var rec func(k int)
	rec = func(k int) {
		if k == n {
			f(append([]int{}, a...))
			return
		}
		for i := k; i < n; i++ {
			a[k], a[i] = a[i], a[k]
			rec(k + 1)
			a[k], a[i] = a[i], a[k]
		}
	}
	rec(0)
}

func gen(rng *rand.Rand, tier core.Tier, emit core.Emit) {
	k := 3
	if tier == core.Thorough {
		k = 24
	}
	// (1) every dialect, 0..16 players, 0..12 objectives, 1..8 fragments, random order with duplicates
	for i := 0; i < 260*k; i++ {
		d := u.Dialects[rng.Intn(len(u.Dialects))]
		np, no := rng.Intn(17), rng.Intn(13)
		if rng.Intn(4) == 0 {
			np, no = rng.Intn(3), rng.Intn(2)
		}
		s, cuts, ds := encoded(rng, d, np, no, 1+rng.Intn(8))
		n := len(ds)
		order := rng.Perm(n)
		for j := rng.Intn(3); j > 0; j-- { // duplicates anywhere
			pos := rng.Intn(len(order) + 1)
			order = append(order[:pos], append([]int{rng.Intn(n)}, order[pos:]...)...)
		}
		emitDec(emit, d, s, cuts, order, ds)
	}
	// (1b) heavy retransmission: every fragment but the last arrives many times before the last one does (33 … 100 datagrams
	// in all): the response is complete when every fragment has arrived, however many datagrams that took
	for i := 0; i < 4*k; i++ {
		d := []string{"gs1", "am", "amq", "amn"}[rng.Intn(4)]
		s, cuts, ds := encoded(rng, d, 2+rng.Intn(4), rng.Intn(3), 3+rng.Intn(3))
		n := len(ds)
		if n < 2 {
			continue
		}
		var order []int
		reps := 11 + rng.Intn(15)
		for r := 0; r < reps; r++ {
			for j := 0; j < n-1; j++ {
				order = append(order, j)
			}
		}
		order = append(order, n-1)
		emitDec(emit, d, s, cuts, order, ds)
	}
	// (2) all permutations for 2..4 fragments (5 in the thorough tier)
	for i := 0; i < 5*k; i++ {
		d := []string{"gs1", "am", "amq", "amn"}[rng.Intn(4)]
		want := 2 + rng.Intn(3)
		if tier == core.Thorough && rng.Intn(4) == 0 {
			want = 5
		}
		s, cuts, ds := encoded(rng, d, 2+rng.Intn(4), rng.Intn(3), want)
		perms(len(ds), func(p []int) { emitDec(emit, d, s, cuts, p, ds) })
	}
	// (3) a fragment missing: the query must not complete (costs the timeout each)
	for i := 0; i < 10*k; i++ {
		d := []string{"gs1", "am", "amq", "amn"}[rng.Intn(4)]
		s, cuts, ds := encoded(rng, d, 1+rng.Intn(4), rng.Intn(3), 2+rng.Intn(4))
		if len(ds) < 2 {
			continue
		}
		miss := rng.Intn(len(ds))
		if rng.Intn(2) == 0 {
			miss = len(ds) - 1 // the final one
		}
		var order []int
		for _, j := range rng.Perm(len(ds)) {
			if j != miss {
				order = append(order, j)
				if rng.Intn(3) == 0 {
					order = append(order, j)
				}
			}
		}
		emitDec(emit, d, s, cuts, order, ds)
	}
	// (4) port discovery: 1..4 candidate ports, every kind of answer, every arrival order
	for i := 0; i < 30*k; i++ {
		genProbe(rng, emit)
	}
	genProbeHigh(rng, emit)
	// (5) every candidate port answers at once, each in a different dialect: whatever the real arrival order and however
	// quickly the probing goroutines finish, the most capable dialect must be kept (many repetitions: the window is narrow)
	for i := 0; i < 400*k; i++ {
		gamePort := 10480
		ds := []string{"vanilla", "am", "gs1"}
		rng.Shuffle(len(ds), func(a, b int) { ds[a], ds[b] = ds[b], ds[a] })
		specs := make([]string, len(ds))
		for j, d := range ds {
			s := detailsStatus(rng, strconv.Itoa(gamePort), true)
			specs[j] = "0/" + u.JoinDgrams(u.Encode(d, s, nil))
		}
		emit("probe", strconv.Itoa(gamePort), strings.Join(specs, ";"))
	}
}

func detailsStatus(rng *rand.Rand, hostport string, withHostport bool) u.Status {
	kv := func(k, v string) u.KV { return u.KV{K: []byte(k), V: []byte(v)} }
	s := u.Status{Fields: []u.KV{
		kv("hostname", "Swat4 Server "+strconv.Itoa(rng.Intn(100))), kv("numplayers", "1"), kv("maxplayers", "16"),
		kv("gametype", "VIP Escort"), kv("gamevariant", "SWAT 4"), kv("mapname", "Fairfax Residence"),
		kv("password", "0"), kv("gamever", "1.1"),
	}}
	if withHostport {
		pos := rng.Intn(len(s.Fields) + 1)
		s.Fields = append(s.Fields[:pos], append([]u.KV{kv("hostport", hostport)}, s.Fields[pos:]...)...)
	}
	if rng.Intn(2) == 0 {
		s.Players = [][]u.KV{{kv("player", "P\xe9pe"), kv("score", "3"), kv("ping", "55")}}
	}
	return s
}

func genProbe(rng *rand.Rand, emit core.Emit) {
	genProbeAt(rng, emit, 10480, 1+rng.Intn(4), false)
}

// genProbeHigh: servers whose game port is 65531 … 65534: their query candidates end at 65535, the last legal port
func genProbeHigh(rng *rand.Rand, emit core.Emit) {
	for gp := 65531; gp <= 65534; gp++ {
		genProbeAt(rng, emit, gp, 65535-gp, false)
		genProbeAt(rng, emit, gp, 65535-gp, true) // only the listener on 65535 answers
	}
}

func genProbeAt(rng *rand.Rand, emit core.Emit, gamePort int, n int, onlyLast bool) {
	delays := rng.Perm(n)
	specs := make([]string, n)
	for i := 0; i < n; i++ {
		r := rng.Intn(10)
		if onlyLast {
			r = 5
			if i < n-1 {
				r = 0
			}
		}
		switch {
		case r == 0:
			specs[i] = []string{"x", "x", "w"}[rng.Intn(3)]
		case r == 1: // answers garbage
			specs[i] = strconv.Itoa(delays[i]*40) + "/" + u.JoinDgrams([][]byte{[]byte("\\hostname\\x\\final\\")})
		default:
			d := u.Dialects[rng.Intn(len(u.Dialects))]
			hp := strconv.Itoa(gamePort)
			with := true
			v := rng.Intn(8)
			if onlyLast {
				v = 7
			}
			switch v {
			case 0:
				hp = strconv.Itoa(gamePort + 1 + rng.Intn(3))
			case 1:
				with = false
			case 2:
				hp = "+" + hp // Atoi accepts a sign
			}
			s := detailsStatus(rng, hp, with)
			var cuts []int
			if isFragmenting(d) {
				cuts = u.RandCuts(rng, len(s.Flat()), 1+rng.Intn(3), d == "gs1" && rng.Intn(2) == 0)
			}
			ds := u.Encode(d, s, cuts)
			rng.Shuffle(len(ds), func(a, b int) { ds[a], ds[b] = ds[b], ds[a] })
			specs[i] = strconv.Itoa(delays[i]*40) + "/" + u.JoinDgrams(ds)
		}
	}
	emit("probe", strconv.Itoa(gamePort), strings.Join(specs, ";"))
}
