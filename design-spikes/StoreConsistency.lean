import Std.Data.ExtTreeMap
import Std.Data.ExtTreeSet
open Std

structure Rec where
  status : Nat
  refreshed : Option Int     -- none = zero time
  version : Nat
  deriving DecidableEq, Repr

structure Store where
  items     : ExtTreeMap String Rec
  updated   : ExtTreeMap String Int
  refreshed : ExtTreeMap String Int
  master    : ExtTreeSet String      -- one status set, for the spike

def Store.save (st : Store) (a : String) (r : Rec) (now : Int) : Store :=
  { items := st.items.insert a r
    updated := st.updated.insert a now
    refreshed := match r.refreshed with
      | none => st.refreshed.erase a
      | some t => st.refreshed.insert a t
    master := if r.status &&& 2 = 2 then st.master.insert a else st.master.erase a }

def Store.remove (st : Store) (a : String) : Store :=
  { items := st.items.erase a, updated := st.updated.erase a,
    refreshed := st.refreshed.erase a, master := st.master.erase a }

structure Consistent (st : Store) : Prop where
  upd : ∀ a : String, a ∈ st.updated ↔ a ∈ st.items
  ref : ∀ (a : String) (t : Int), st.refreshed[a]? = some t ↔ ∃ r : Rec, st.items[a]? = some r ∧ r.refreshed = some t
  mas : ∀ a : String, a ∈ st.master ↔ ∃ r : Rec, st.items[a]? = some r ∧ r.status &&& 2 = 2

theorem save_consistent (st : Store) (h : Consistent st) (a : String) (r : Rec) (now : Int) :
    Consistent (st.save a r now) := by
  refine ⟨?_, ?_, ?_⟩
  · intro b
    simp only [Store.save, ExtTreeMap.mem_insert, h.upd b]
  · intro b t
    by_cases hab : a = b
    · subst hab
      cases hr : r.refreshed with
      | none => simp [Store.save, hr]
      | some t' => simp [Store.save, hr]
    · have := h.ref b t
      cases hr : r.refreshed <;>
        simp [Store.save, hr, ExtTreeMap.getElem?_insert, ExtTreeMap.getElem?_erase, hab, this]
  · intro b
    by_cases hab : a = b
    · subst hab
      by_cases hm : r.status &&& 2 = 2 <;> simp [Store.save, hm]
    · have := h.mas b
      by_cases hm : r.status &&& 2 = 2 <;>
        simp [Store.save, hm, ExtTreeMap.getElem?_insert, hab, this, ExtTreeSet.mem_insert, ExtTreeSet.mem_erase]

theorem remove_consistent (st : Store) (h : Consistent st) (a : String) : Consistent (st.remove a) := by
  refine ⟨?_, ?_, ?_⟩
  · intro b; simp [Store.remove, ExtTreeMap.mem_erase, h.upd b]
  · intro b t
    by_cases hab : a = b
    · subst hab; simp [Store.remove]
    · have := h.ref b t; simp [Store.remove, ExtTreeMap.getElem?_erase, hab, this]
  · intro b
    by_cases hab : a = b
    · subst hab; simp [Store.remove]
    · have := h.mas b; simp [Store.remove, ExtTreeMap.getElem?_erase, ExtTreeSet.mem_erase, hab, this]

#print axioms save_consistent
#eval (({ items := ∅, updated := ∅, refreshed := ∅, master := ∅ } : Store).save "1.1.1.1:10480" ⟨3, some 5, 1⟩ 7).updated.toList
