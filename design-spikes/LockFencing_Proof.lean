import LockFencing_Model  -- (was Lk.Basic in the scratch project)

theorem cstep_clients (s : Sys) (c : Client) : (cstep s c).1.clients = s.clients := by
  unfold cstep touch
  cases c.pc <;> simp <;> (try split) <;> (try split) <;> simp

theorem step_clients_get (s : Sys) (i : Nat) (c : Client) (h : s.clients[i]? = some c) (j : Nat) :
    (step s (.step i)).clients[j]? = if j = i then some (cstep s c).2 else s.clients[j]? := by
  have hlt : i < s.clients.length := by
    rcases Nat.lt_or_ge i s.clients.length with hl | hl
    · exact hl
    · simp [List.getElem?_eq_none hl] at h
  simp only [step, h, cstep_clients]
  rw [List.getElem?_set]
  by_cases hji : j = i
  · subst hji; simp [hlt]
  · have : ¬ i = j := fun e => hji e.symm
    simp [hji, this]

theorem inv_expire (s : Sys) (h : SysInv s) : SysInv (step s .expire) := by
  simp only [step]
  split
  · -- touch s none
    refine ⟨h.tokLt, h.tokInj, ?_, ?_, ?_, ?_, ?_⟩
    · intro t ht; simp [touch] at ht
    · simp [touch]
    · intro i c v hi hv; have := h.verLe i c v hi hv; simp [touch]; omega
    · intro i c hi hcl
      exfalso
      have hv : ∀ v, c.pc.ver? = some v → v ≤ s.lockVer := fun v hv => h.verLe i c v hi hv
      unfold Clean at hcl
      cases hpc : c.pc <;> simp [hpc, touch, PC.ver?] at hcl hv <;> omega
    · intro i c v ex hi hpc hv
      exfalso
      have := h.verLe i c v hi (by simp [hpc, PC.ver?])
      simp [touch] at hv; omega
  · exact h

/-- Frame: a step that leaves lock cell, row and nextTok alone and moves client `i` to a state that is
    not clean keeps the invariant, provided its token is unchanged. -/
theorem inv_of_quiet (s s' : Sys) (h : SysInv s) (i : Nat) (c c' : Client)
    (hc : s.clients[i]? = some c)
    (hcl : ∀ j, s'.clients[j]? = if j = i then some c' else s.clients[j]?)
    (hval : s'.lockVal = s.lockVal) (hver : s'.lockVer = s.lockVer) (hlw : s'.lastW = s.lastW)
    (hrow : s'.row = s.row) (hnt : s'.nextTok = s.nextTok) (htok : c'.tok = c.tok)
    (hver' : ∀ v, c'.pc.ver? = some v → v ≤ s.lockVer)
    (hclean' : Clean s' c' → s.lastW = some c.tok)
    (hread' : ∀ v ex, c'.pc = .read v ex → v = s.lockVer → ex = s.row) : SysInv s' := by
  refine ⟨?_, ?_, ?_, ?_, ?_, ?_, ?_⟩
  · intro j d hj; rw [hcl] at hj; rw [hnt]
    split at hj
    · cases hj; rw [htok]; exact h.tokLt i c hc
    · exact h.tokLt j d hj
  · intro j k dj dk hj hk ht; rw [hcl] at hj hk
    split at hj <;> split at hk
    · omega
    · cases hj; rename_i hji _; subst hji; rw [htok] at ht; exact h.tokInj _ _ _ _ hc hk ht
    · cases hk; rename_i _ hki; subst hki; rw [htok] at ht; exact h.tokInj _ _ _ _ hj hc ht
    · exact h.tokInj _ _ _ _ hj hk ht
  · intro t ht; rw [hlw] at ht; rw [hnt]; exact h.lastLt t ht
  · rw [hval, hlw]; exact h.valLast
  · intro j d v hj hv; rw [hcl] at hj; rw [hver]
    split at hj
    · cases hj; exact hver' v hv
    · exact h.verLe j d v hj hv
  · intro j d hj hcd; rw [hcl] at hj; rw [hlw]
    split at hj
    · cases hj; rw [htok]; exact hclean' hcd
    · have : Clean s d := by
        unfold Clean at hcd ⊢; rw [hver] at hcd; exact hcd
      exact h.cleanOwn j d hj this
  · intro j d v ex hj hpc hv; rw [hcl] at hj; rw [hrow]; rw [hver] at hv
    split at hj
    · cases hj; exact hread' v ex hpc hv
    · exact h.readCur j d v ex hj hpc hv

theorem notClean_of_ver_lt {s : Sys} {c : Client} (h : ∀ v, c.pc.ver? = some v → v < s.lockVer) : ¬ Clean s c := by
  intro hc; unfold Clean at hc
  cases hpc : c.pc <;> simp [hpc, PC.ver?] at hc h <;> omega

/-- Any touch of the lock cell by client `i` (SETNX success writes its token, DEL writes none). -/
theorem inv_of_touch (s s' : Sys) (h : SysInv s) (i : Nat) (c c' : Client) (w : Option Nat)
    (hc : s.clients[i]? = some c)
    (hcl : ∀ j, s'.clients[j]? = if j = i then some c' else s.clients[j]?)
    (hval : s'.lockVal = w) (hver : s'.lockVer = s.lockVer + 1) (hlw : s'.lastW = w)
    (hw : ∀ t, w = some t → t = c.tok)
    (hrow : s'.row = s.row) (hnt : s'.nextTok = s.nextTok) (htok : c'.tok = c.tok)
    (hnover : c'.pc.ver? = none) : SysInv s' := by
  have notClean : ∀ (j : Nat) (d : Client), s'.clients[j]? = some d → ¬ Clean s' d := by
    intro j d hj; rw [hcl] at hj
    apply notClean_of_ver_lt
    intro v hv; rw [hver]
    split at hj
    · cases hj; simp [hnover] at hv
    · have := h.verLe j d v hj hv; omega
  refine ⟨?_, ?_, ?_, ?_, ?_, ?_, ?_⟩
  · intro j d hj; rw [hcl] at hj; rw [hnt]
    split at hj
    · cases hj; rw [htok]; exact h.tokLt i c hc
    · exact h.tokLt j d hj
  · intro j k dj dk hj hk ht; rw [hcl] at hj hk
    split at hj <;> split at hk
    · omega
    · cases hj; rename_i hji _; subst hji; rw [htok] at ht; exact h.tokInj _ _ _ _ hc hk ht
    · cases hk; rename_i _ hki; subst hki; rw [htok] at ht; exact h.tokInj _ _ _ _ hj hc ht
    · exact h.tokInj _ _ _ _ hj hk ht
  · intro t ht; rw [hlw] at ht; rw [hnt, hw t ht]; exact h.tokLt i c hc
  · rw [hval, hlw]; exact Or.inr rfl
  · intro j d v hj hv; rw [hcl] at hj; rw [hver]
    split at hj
    · cases hj; simp [hnover] at hv
    · have := h.verLe j d v hj hv; omega
  · intro j d hj hcd; exact absurd hcd (notClean j d hj)
  · intro j d v ex hj hpc hv; rw [hcl] at hj; rw [hver] at hv
    split at hj
    · cases hj; simp [hpc, PC.ver?] at hnover
    · have := h.verLe j d v hj (by simp [hpc, PC.ver?]); omega

theorem inv_step (s : Sys) (h : SysInv s) (e : Ev) : SysInv (step s e) := by
  cases e with
  | expire => exact inv_expire s h
  | step i =>
    cases hc : s.clients[i]? with
    | none => simp [step, hc]; exact h
    | some c =>
      have hcl := step_clients_get s i c hc
      rcases c with ⟨tok, pc, op, att⟩
      cases pc with
      | start =>
        cases hlv : s.lockVal with
        | none =>
          apply inv_of_touch s _ h i _ _ (some tok) hc hcl <;>
            simp [step, hc, cstep, hlv, touch, PC.ver?]
        | some t =>
          by_cases ha : att = 0
          · apply inv_of_quiet s _ h i _ _ hc hcl <;>
              simp [step, hc, cstep, hlv, ha, PC.ver?, Clean]
          · -- retry with a fresh token
            have hs : step s (.step i) = { s with nextTok := s.nextTok + 1, clients := s.clients.set i ⟨s.nextTok, .start, op, att - 1⟩ } := by
              simp [step, hc, cstep, hlv, ha]
            have hcl' : ∀ j, (step s (.step i)).clients[j]? =
                if j = i then some ⟨s.nextTok, .start, op, att - 1⟩ else s.clients[j]? := by
              intro j; rw [hcl]; simp [cstep, hlv, ha]
            refine ⟨?_, ?_, ?_, ?_, ?_, ?_, ?_⟩
            · intro j d hj; rw [hcl'] at hj; rw [hs]; simp only
              split at hj
              · cases hj; simp
              · have := h.tokLt j d hj; omega
            · intro j k dj dk hj hk ht; rw [hcl'] at hj hk
              split at hj <;> split at hk
              · omega
              · cases hj; have := h.tokLt k dk hk; simp at ht; omega
              · cases hk; have := h.tokLt j dj hj; simp at ht; omega
              · exact h.tokInj _ _ _ _ hj hk ht
            · intro t ht; rw [hs] at ht ⊢; simp only at ht ⊢; have := h.lastLt t ht; omega
            · rw [hs]; exact h.valLast
            · intro j d v hj hv; rw [hcl'] at hj; rw [hs]; simp only
              split at hj
              · cases hj; simp [PC.ver?] at hv
              · exact h.verLe j d v hj hv
            · intro j d hj hcd; rw [hcl'] at hj
              split at hj
              · cases hj; simp [Clean] at hcd
              · rw [hs]; simp only
                have : Clean s d := by unfold Clean at hcd ⊢; rw [hs] at hcd; exact hcd
                exact h.cleanOwn j d hj this
            · intro j d v ex hj hpc hv; rw [hcl'] at hj
              split at hj
              · cases hj; simp at hpc
              · rw [hs] at hv ⊢; exact h.readCur j d v ex hj hpc hv
      | acquired =>
        apply inv_of_quiet s _ h i _ _ hc hcl <;> simp [step, hc, cstep, PC.ver?, Clean]
      | watched v =>
        have hv := h.verLe i _ v hc (by simp [PC.ver?])
        by_cases hown : s.lockVal = some tok
        · apply inv_of_quiet s _ h i _ _ hc hcl <;> simp [step, hc, cstep, hown, PC.ver?, Clean]
          · exact hv
          · intro _; rcases h.valLast with hn | hl
            · rw [hn] at hown; cases hown
            · rw [← hl, hown]
        · apply inv_of_quiet s _ h i _ _ hc hcl <;> simp [step, hc, cstep, hown, PC.ver?, Clean]
      | verified v =>
        have hv := h.verLe i _ v hc (by simp [PC.ver?])
        apply inv_of_quiet s _ h i _ _ hc hcl <;> simp [step, hc, cstep, PC.ver?, Clean]
        · exact hv
        · intro hvv; exact h.cleanOwn i _ hc (by simp [Clean, hvv])
      | read v ex =>
        by_cases hvv : v = s.lockVer
        · -- EXEC commits: the row changes; every other client in `read` state is stale
          have hex := h.readCur i _ v ex hc rfl hvv
          have hs : step s (.step i) = { s with row := op ex, log := s.log ++ [(s.row, op ex)], clients := s.clients.set i ⟨tok, .rel0, op, att⟩ } := by
            simp [step, hc, cstep, hvv]
          have hcl' : ∀ j, (step s (.step i)).clients[j]? =
              if j = i then some ⟨tok, .rel0, op, att⟩ else s.clients[j]? := by
            intro j; rw [hcl]; simp [cstep, hvv]
          have hiclean : Clean s ⟨tok, .read v ex, op, att⟩ := by simp [Clean, hvv]
          refine ⟨?_, ?_, ?_, ?_, ?_, ?_, ?_⟩
          · intro j d hj; rw [hcl'] at hj; rw [hs]; simp only
            split at hj
            · cases hj; exact h.tokLt i ⟨tok, .read v ex, op, att⟩ hc
            · exact h.tokLt j d hj
          · intro j k dj dk hj hk ht; rw [hcl'] at hj hk
            split at hj <;> split at hk
            · omega
            · cases hj; rename_i hji _; subst hji; exact h.tokInj _ _ _ _ hc hk ht
            · cases hk; rename_i _ hki; subst hki; exact h.tokInj _ _ _ _ hj hc ht
            · exact h.tokInj _ _ _ _ hj hk ht
          · rw [hs]; exact h.lastLt
          · rw [hs]; exact h.valLast
          · intro j d w hj hw; rw [hcl'] at hj; rw [hs]; simp only
            split at hj
            · cases hj; simp [PC.ver?] at hw
            · exact h.verLe j d w hj hw
          · intro j d hj hcd; rw [hcl'] at hj
            split at hj
            · cases hj; simp [Clean] at hcd
            · rw [hs]; simp only
              have : Clean s d := by unfold Clean at hcd ⊢; rw [hs] at hcd; exact hcd
              exact h.cleanOwn j d hj this
          · intro j d w ex' hj hpc hw; rw [hcl'] at hj
            split at hj
            · cases hj; simp at hpc
            · -- another client clean in `read` state would contradict uniqueness
              rename_i hji
              exfalso
              rw [hs] at hw; simp only at hw
              have hdclean : Clean s d := by simp [Clean, hpc, hw]
              exact hji (clean_unique h hj hc hdclean hiclean)
        · apply inv_of_quiet s _ h i _ _ hc hcl <;> simp [step, hc, cstep, hvv, PC.ver?, Clean]
      | rel0 => apply inv_of_quiet s _ h i _ _ hc hcl <;> simp [step, hc, cstep, PC.ver?, Clean]
      | rel1 => apply inv_of_quiet s _ h i _ _ hc hcl <;> simp [step, hc, cstep, PC.ver?, Clean]
      | rel2 own =>
        by_cases hd : own = true ∧ s.lockVal.isSome = true
        · apply inv_of_touch s _ h i _ _ none hc hcl <;> simp [step, hc, cstep, hd, touch, PC.ver?]
        · apply inv_of_quiet s _ h i _ _ hc hcl <;> simp [step, hc, cstep, hd, PC.ver?, Clean]
      | done => apply inv_of_quiet s _ h i _ _ hc hcl <;> simp [step, hc, cstep, PC.ver?, Clean]

theorem inv_run (s : Sys) (h : SysInv s) (es : List Ev) : SysInv (run s es) := by
  induction es generalizing s with
  | nil => exact h
  | cons e es ih => exact ih _ (inv_step s h e)

#print axioms inv_run
