/-! Spike (design phase): the GOA stream cipher's per-byte step and the round-trip law.
    Compiled with plain `lean` (core only); `dec_enc` depends on `propext`, `Quot.sound`. -/
structure CS where
  cards : Vector UInt8 256
  rotor : UInt8
  ratchet : UInt8
  avalanche : UInt8
  lastPlain : UInt8
  lastCipher : UInt8

@[inline] def CS.card (s : CS) (i : UInt8) : UInt8 := s.cards[i.toNat]'(UInt8.toNat_lt i)
@[inline] def setCard (v : Vector UInt8 256) (i x : UInt8) : Vector UInt8 256 := v.set i.toNat x (UInt8.toNat_lt i)

/-- common shuffle; returns the new state (lastPlain/lastCipher not yet updated) and the keystream byte c ^^^ d -/
def CS.advance (s : CS) : CS × UInt8 :=
  let ratchet := s.ratchet + s.card s.rotor
  let rotor := s.rotor + 1
  let swaptemp := s.card s.lastCipher
  let c1 := setCard s.cards s.lastCipher (s.cards[ratchet.toNat]'(UInt8.toNat_lt _))
  let c2 := setCard c1 ratchet (c1[s.lastPlain.toNat]'(UInt8.toNat_lt _))
  let c3 := setCard c2 s.lastPlain (c2[rotor.toNat]'(UInt8.toNat_lt _))
  let c4 := setCard c3 rotor swaptemp
  let avalanche := s.avalanche + (c4[swaptemp.toNat]'(UInt8.toNat_lt _))
  let g (i : UInt8) : UInt8 := c4[i.toNat]'(UInt8.toNat_lt _)
  let c := g (g avalanche + g rotor)
  let d := g (g (g s.lastPlain + g s.lastCipher + g ratchet))
  ({ s with cards := c4, rotor, ratchet, avalanche }, c ^^^ d)

def CS.encByte (s : CS) (b : UInt8) : CS × UInt8 :=
  let (s', k) := s.advance
  let o := b ^^^ k
  ({ s' with lastCipher := o, lastPlain := b }, o)

def CS.decByte (s : CS) (b : UInt8) : CS × UInt8 :=
  let (s', k) := s.advance
  let o := b ^^^ k
  ({ s' with lastPlain := o, lastCipher := b }, o)

def CS.enc (s : CS) : List UInt8 → List UInt8
  | [] => []
  | b :: bs => let (s', o) := s.encByte b; o :: s'.enc bs

def CS.dec (s : CS) : List UInt8 → List UInt8
  | [] => []
  | b :: bs => let (s', o) := s.decByte b; o :: s'.dec bs

theorem xor_cancel (b k : UInt8) : (b ^^^ k) ^^^ k = b := by
  rw [UInt8.xor_assoc, UInt8.xor_self, UInt8.xor_zero]

theorem dec_enc (s : CS) (bs : List UInt8) : s.dec (s.enc bs) = bs := by
  induction bs generalizing s with
  | nil => rfl
  | cons b bs ih =>
    simp only [CS.enc, CS.dec, CS.encByte, CS.decByte, xor_cancel]
    rw [ih]

/-- Go's `(uint8(i) * secret[i%6]) % 8` equals the SDK's `(i * secret[..]) & 7` on ints, because 8 ∣ 256. -/
theorem mulmod (a b : UInt8) : ((a * b) % 8).toNat = (a.toNat * b.toNat) % 8 := by
  rw [UInt8.toNat_mod, UInt8.toNat_mul]
  show a.toNat * b.toNat % 256 % 8 = _
  exact Nat.mod_mod_of_dvd _ (by decide)

#print axioms dec_enc
#print axioms mulmod
