/-! Spike: SETNX + WATCH + GET + HGET + EXEC fencing, arbitrary clients, arbitrary schedules, lease expiry. -/


abbrev Row := Option Nat

inductive PC where
  | start                         -- about to SETNX
  | acquired                      -- SETNX ok, about to WATCH
  | watched (v : Nat)             -- WATCH done at lock version v, about to GET
  | verified (v : Nat)            -- GET returned own token, about to HGET
  | read (v : Nat) (ex : Row)     -- HGET done, about to EXEC
  | rel0                          -- op over (committed or not); about to WATCH for release
  | rel1                          -- about to GET for release
  | rel2 (own : Bool)             -- about to DEL if own
  | done
  deriving DecidableEq, Repr

structure Client where
  tok : Nat
  pc  : PC
  op  : Row → Row                 -- decision applied to what was read
  attempts : Nat

structure Sys where
  lockVal : Option Nat
  lockVer : Nat
  lastW   : Option Nat            -- ghost: what the last touch of the lock cell wrote
  row     : Row
  clients : List Client
  nextTok : Nat
  log     : List (Row × Row)      -- ghost: (rowBefore, rowAfter) at each successful EXEC

inductive Ev where
  | step (i : Nat)
  | expire
  deriving Repr

def touch (s : Sys) (v : Option Nat) : Sys := { s with lockVal := v, lockVer := s.lockVer + 1, lastW := v }

/-- one atomic storage command of client `c`; returns new system (without clients updated) and new client -/
def cstep (s : Sys) (c : Client) : Sys × Client :=
  match c.pc with
  | .start =>
    match s.lockVal with
    | none   => (touch s (some c.tok), { c with pc := .acquired })
    | some _ => -- not acquired: retry with a fresh token or give up
      if c.attempts = 0 then (s, { c with pc := .done })
      else ({ s with nextTok := s.nextTok + 1 }, { c with tok := s.nextTok, attempts := c.attempts - 1 })
  | .acquired => (s, { c with pc := .watched s.lockVer })
  | .watched v =>
    if s.lockVal = some c.tok then (s, { c with pc := .verified v }) else (s, { c with pc := .rel0 })
  | .verified v => (s, { c with pc := .read v s.row })
  | .read v ex =>
    if v = s.lockVer then
      ({ s with row := c.op ex, log := s.log ++ [(s.row, c.op ex)] }, { c with pc := .rel0 })
    else (s, { c with pc := .rel0 })       -- EXEC aborted (retry elided in the spike)
  | .rel0 => (s, { c with pc := .rel1 })
  | .rel1 => (s, { c with pc := .rel2 (s.lockVal = some c.tok) })
  | .rel2 own => if own ∧ s.lockVal.isSome then (touch s none, { c with pc := .done }) else (s, { c with pc := .done })
  | .done => (s, c)

def step (s : Sys) : Ev → Sys
  | .expire => if s.lockVal.isSome then touch s none else s
  | .step i =>
    match s.clients[i]? with
    | none => s
    | some c => let (s', c') := cstep s c; { s' with clients := s'.clients.set i c' }

def run (s : Sys) (es : List Ev) : Sys := es.foldl step s

/-- client is inside its fenced window and still clean -/
def Clean (s : Sys) (c : Client) : Prop :=
  match c.pc with
  | .verified v => v = s.lockVer
  | .read v _   => v = s.lockVer
  | _ => False

def PC.ver? : PC → Option Nat
  | .watched v => some v | .verified v => some v | .read v _ => some v | _ => none

structure SysInv (s : Sys) : Prop where
  tokLt    : ∀ (i : Nat) (c : Client), s.clients[i]? = some c → c.tok < s.nextTok
  tokInj   : ∀ (i j : Nat) (ci cj : Client), s.clients[i]? = some ci → s.clients[j]? = some cj → ci.tok = cj.tok → i = j
  lastLt   : ∀ t, s.lastW = some t → t < s.nextTok
  valLast  : s.lockVal = none ∨ s.lockVal = s.lastW
  verLe    : ∀ (i : Nat) (c : Client) (v : Nat), s.clients[i]? = some c → c.pc.ver? = some v → v ≤ s.lockVer
  cleanOwn : ∀ (i : Nat) (c : Client), s.clients[i]? = some c → Clean s c → s.lastW = some c.tok
  readCur  : ∀ (i : Nat) (c : Client) (v : Nat) (ex : Row), s.clients[i]? = some c → c.pc = .read v ex → v = s.lockVer → ex = s.row

theorem clean_unique {s : Sys} (h : SysInv s) {i j : Nat} {ci cj : Client}
    (hi : s.clients[i]? = some ci) (hj : s.clients[j]? = some cj)
    (ci_clean : Clean s ci) (cj_clean : Clean s cj) : i = j := by
  have h1 := h.cleanOwn i ci hi ci_clean
  have h2 := h.cleanOwn j cj hj cj_clean
  rw [h1] at h2
  exact h.tokInj i j ci cj hi hj (by injection h2)
