# Per-property configuration of bin/check.  Pure data + tiny predicates; no logic about verdicts.
#
# theorems : fully-qualified Lean names audited with `#print axioms` (the proof obligations)
# module   : Lean module holding them
# shards   : (quick, thorough) number of parallel generator shards
# nontrivial(input_tokens) -> bool : rule used for evidence.distinct_nontrivial
# rule     : text describing generation and the non-triviality rule
# assumptions / trusted_base : copied into the evidence file

ALLOWED_AXIOMS = {"propext", "Quot.sound", "Classical.choice"}

COMMON_TRUSTED = [
    "Lean 4.33.0 kernel (axioms allowed: propext, Quot.sound, Classical.choice)",
    "hand-written Lean model; tied to /repo by the differential correspondence run (finite)",
    "Go harness + line protocol + Lean driver (compiled with leanc); the driver's oracles and replay scripts (lean/Swat4/Drv) are "
    "not covered by theorems: a wrong oracle can make a check too quiet or too loud, never a theorem false (DESIGN.md section 8)",
    "the fact extractors harness/internal/facts/*.go (reflection + go/ast over /repo's current source; they exit non-zero when an "
    "anchor file or function is gone) are trusted to print what they read; the facts_* theorems pin what was printed",
]



PROPS = {}


def _load():
    import importlib.util, os, re
    d = os.path.join(os.path.dirname(os.path.abspath(__file__)), "propcfg")
    for fn in sorted(os.listdir(d)):
        if re.fullmatch(r"C\d\d\.py", fn):
            spec = importlib.util.spec_from_file_location("propcfg_" + fn[:-3], os.path.join(d, fn))
            m = importlib.util.module_from_spec(spec)
            spec.loader.exec_module(m)
            PROPS[fn[:-3]] = m.CFG


_load()
