# Per-property configuration of bin/check.  Pure data + tiny predicates; no logic about verdicts.
#
# theorems : fully-qualified Lean names audited with `#print axioms` (the proof obligations)
# module   : Lean module holding them
# shards   : (quick, thorough) number of parallel generator shards
# nontrivial(input_tokens) -> bool : rule used for evidence.distinct_nontrivial
# rule     : text describing generation and the non-triviality rule
# assumptions / trusted_base : copied into the evidence file

ALLOWED_AXIOMS = {"propext", "Quot.sound", "Classical.choice"}

COMMON_TRUSTED = [
    "Lean 4.33.0 kernel (axioms allowed: propext, Quot.sound, Classical.choice)",
    "hand-written Lean model; tied to /repo by the differential correspondence run (finite)",
    "Go harness + line protocol + Lean driver (compiled with leanc)",
]


def _c02_nontrivial(t):
    # enc secret chal plaintext: non-empty plaintext
    return len(t) >= 5 and t[4] != "-"


PROPS = {
    "C02": {
        "module": "Swat4.Properties.C02",
        "theorems": [
            "Swat4.C02.C02_main",
            "Swat4.C02.encrypt_total",
            "Swat4.C02.encrypt_length",
            "Swat4.C02.dec_enc_stream",
            "Swat4.C02.key_agree",
            "Swat4.C02.schedule_agree",
            "Swat4.C02.facts_ok",
            "Swat4.C02.C02_swat4",
        ],
        "shards": (1, 16),
        "nontrivial": _c02_nontrivial,
        "rule": "random (secret, challenge, plaintext) triples: secrets from {SWAT4 key, random 7-bit, edge 7-bit, "
                "random 8-bit NUL-free}, challenges and plaintexts biased to 00/FF/5C runs, lengths 0..64KiB; "
                "Go crypt.Encrypt output compared byte-for-byte with the Lean model (random header bytes recovered "
                "from the output) and decoded by the independent SDK-style reference decoder; non-trivial = plaintext non-empty",
        "assumptions": [
            "the SDK reference decoder (Spec/GOA.lean) is a transcription of the GameSpy SDK algorithm from knowledge of it; the SDK sources are not available offline",
            "secrets are NUL-free (C string); for 8-bit secrets the SDK's signed char arithmetic is not modelled (outside the property's 7-bit quantifier)",
        ],
        "trusted_base": COMMON_TRUSTED,
    },
}
