from props import COMMON_TRUSTED


def _c02_nontrivial(t):
    # enc secret chal plaintext: non-empty plaintext
    return len(t) >= 5 and t[4] != "-"


CFG = {
    "module": "Swat4.Properties.C02",
    "theorems": [
        # audited headline: secrets of six non-zero 7-bit bytes, for which the unsigned-byte reference GOA is the SDK
        "Swat4.C02.C02_main_ascii",
        "Swat4.C02.C02_main",
        "Swat4.C02.encrypt_total",
        "Swat4.C02.encrypt_length",
        "Swat4.C02.dec_enc_stream",
        # the converse round trip and its consequence: no two plaintexts share a reply
        "Swat4.C02.enc_dec_stream",
        "Swat4.C02.encrypt_injective",
        "Swat4.C02.reply_header",
        "Swat4.C02.reply_header_plain_independent",
        "Swat4.C02.key_agree",
        "Swat4.C02.schedule_agree",
        "Swat4.C02.facts_ok",
        "Swat4.C02.C02_swat4",
        # cryptKey[keypos] (state.go:49), the one data-dependent key index: in range at every read (no panic; `% 8` in Crypt.kget is the identity)
        "Swat4.C02.keypos_in_range",
        "Swat4.C02.encrypt_checked",
        # the driver-only reconstruction of the random header draws from the reply
        "Swat4.C02.recoverRnd_encrypt",
        "Swat4.C02.recoverRnd_agrees",
        "Swat4.C02.recoverRnd_encrypt_bytes",
        "Swat4.C02.recoverRnd_encrypt_exact",
        "Swat4.C02.recoverRnd_dead_position",
    ],
    "shards": (1, 16),
    "nontrivial": _c02_nontrivial,
    "rule": "random (secret, challenge, plaintext) triples: secrets from {SWAT4 key, random 7-bit, edge 7-bit, "
            "random 8-bit NUL-free}, challenges and plaintexts biased to 00/FF/5C runs, lengths 0..64KiB; "
            "Go crypt.Encrypt output compared byte-for-byte with the Lean model (random header bytes recovered "
            "from the output) and decoded by the independent SDK-style reference decoder; non-trivial = plaintext non-empty",
    "assumptions": [
        "the SDK reference decoder (Spec/GOA.lean) is a transcription of the GameSpy SDK algorithm from knowledge of it; the SDK sources are not available offline",
        "secrets are NUL-free (C string); for 8-bit secrets the SDK's signed char arithmetic is not modelled (outside the property's 7-bit quantifier): "
        "the audited headline is C02_main_ascii (every secret byte non-zero and below 128). C02_main and the generator's 8-bit NUL-free secrets "
        "(a quarter of the cases; the driver's inScope is still `all (· ≠ 0)`) are compared with the Lean model and decoded by the unsigned-byte "
        "reference Spec/GOA.lean only -- for secret bytes >= 128 that agreement is measured against the model's own reading of the algorithm, "
        "not against the SDK's signed-char behaviour",
        "Spec/GOA.lean and Model/Crypt.lean are structurally near-identical apart from the mask schedule, the mixKey arithmetic and strlen; "
        "their agreement shows those differences are immaterial, not that both read the SDK correctly",
    ],
    "trusted_base": COMMON_TRUSTED,
    "manifest": {
        "text": "Lean theorem C02_main_ascii (the audited headline: every secret byte non-zero and below 128, the range in which the unsigned-byte reference is known to be the SDK's signed-char cipher) and C02_main (the same for every 6-byte NUL-free secret, against the unsigned-byte reference only): for every such secret, 8-byte challenge, 23 header draws and plaintext of any length, the independently written SDK reference decoder applied to the model of crypt.Encrypt returns the plaintext; encrypt_length: ciphertext = plaintext + 23 bytes; encrypt_total: the shuffle loop always terminates; enc_dec_stream / encrypt_injective: the stream cipher is a bijection on every length (encrypting a decryption gives the ciphertext back) and, for one secret, challenge and header draws, two plaintexts with the same reply are equal; reply_header / reply_header_plain_independent: the first 23 bytes of every reply are the header, a function of secret, challenge and draws only; C02_swat4: the instance for the game key read from the source. recoverRnd_encrypt / recoverRnd_agrees / recoverRnd_encrypt_bytes: the driver-only recoverRnd (the 23 header draws read back from the reply) returns, on the output of Encrypt for unknown draws rnd, a vector of the right length that equals rnd at each of the 19 positions that reach the output, and the model run with it returns exactly that output, so comparing 'model with recovered draws' with the reply loses nothing; recoverRnd_encrypt_exact: it returns rnd itself when the four overwritten positions (0, 1, 2, 8) hold the canonical values; recoverRnd_dead_position: the unrestricted equation is false because those draws never reach the output. The model is tied to crypt.go/state.go by byte-for-byte comparison of Go Encrypt output with the model on generated inputs, and the SDK decoder is also run on the Go bytes.",
        "level_note": "Trusted: Lean kernel; axioms propext, Quot.sound, Classical.choice; the SDK reference (Spec/GOA.lean) as the definition of 'stock client'; the finite differential run as evidence that Model/Crypt.lean behaves like crypt.go; generated Facts.lean (constants, game key) via the harness' facts extractor.",
        "technique": "Lean 4 proof (round-trip by induction; SDK-vs-Go key-schedule refinement) + differential correspondence",
        "design_ref": "DESIGN.md §5 C02",
    },
}
