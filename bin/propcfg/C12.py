from props import COMMON_TRUSTED


def _nontrivial(t):
    # at least one consumer and one producer
    return len(t) >= 4 and "ppop|" in t[2] and "penq|" in t[2]


CFG = {
    "module": "Swat4.Properties.C12",
    "theorems": [
        "Swat4.C12.never_queued",
        "Swat4.C12.enqueue_one_batch",
        "Swat4.C12.no_leak",
        "Swat4.C12.pop_nonpositive",
        "Swat4.C12.ghost_faithful",
        "Swat4.C12.ghost_popped",
        "Swat4.C12.batch_is_log",
        "Swat4.C12.ids_fresh",
        "Swat4.C12.enqueue_uses_fresh",
        "Swat4.C12.conservation",
        "Swat4.C12.integrity",
        "Swat4.C12.at_most_once",
        "Swat4.C12.batch_size",
        "Swat4.C12.not_early",
        "Swat4.C12.not_late",
        "Swat4.C12.no_leak_run",
        "Swat4.C12.no_leak_finish",
        "Swat4.C12.batch_unsorted_witness",
    ],
    "shards": (1, 16),
    "nontrivial": _nontrivial,
    "rule": "(a) sequential histories of AddBetween / PopMany(n) / clock advance on the real probes repository with ready and expiry times before, "
            "at and after the clock (+-256ns); (b) a pre-filled queue, then two PopMany consumers and one producer interleaved storage command by "
            "storage command (ZRANGEBYSCORE / MULTI-EXEC granularity) with clock ticks and a consumer death before/after a command; every probe "
            "carries a unique port (identity), ready times are pairwise distinct (Redis orders equal scores by member text); compared: command "
            "trace, returned batches and expired counts, raw probes:* keys; oracle on the implementation's outputs: conservation of probes, "
            "at-most-once, batch size, not-early/not-late, never-queued, batch order (violations classified: late-past-ready = known finding), "
            "keyspace consistency",
    "assumptions": [
        "a client reads the clock when it arrives at a storage command (the scheduler only moves the clock while every client is blocked at a command)",
        "probe identity = unique port number chosen by the generator (the repository's UUIDs are renamed canonically in dumps)",
        "equal ready times are ordered by UUID text in Redis: generated ready times are pairwise distinct",
    ],
    "trusted_base": COMMON_TRUSTED,
    "manifest": {
        "text": "Lean theorems so far: never_queued (explicit ready >= expiry: no storage command is issued), enqueue_one_batch (payload and ordering entry are "
                "written by one atomic batch under one fresh id), no_leak (every command of every queue call keeps the key sets of probes:items and "
                "probes:queue equal — instance of the C10 invariant), pop_nonpositive. The interleaving-level statements (conservation, at-most-once, "
                "timing, batch order under the side condition) are decided by the correspondence run and its oracle on all generated interleavings of two "
                "consumers and a producer; the unordered-batch case is a recorded known finding (late-past-ready).",
        "level_note": "Partial as a proof: conservation / at-most-once over all interleavings are not yet Lean theorems about QueueSys. Trusted: Lean kernel; the "
                      "command-level queue model validated by the differential run; the oracle in the driver.",
        "technique": "Lean 4 proof (atomic-batch lemmas, C10 invariant) + exhaustive-style interleaving correspondence with an independent conservation oracle",
        "design_ref": "DESIGN.md §5 C12",
    },
}
