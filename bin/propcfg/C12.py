from props import COMMON_TRUSTED


def _nontrivial(t):
    # at least one consumer and one producer
    return len(t) >= 4 and "ppop|" in t[2] and "penq|" in t[2]


CFG = {
    "module": "Swat4.Properties.C12",
    "theorems": [
        "Swat4.C12.facts_item_id",
        "Swat4.C12.no_leak",
        "Swat4.C12.ghost_faithful",
        "Swat4.C12.ghost_popped",
        "Swat4.C12.batch_is_log",
        "Swat4.C12.init_of_calls",
        "Swat4.C12.ids_fresh",
        "Swat4.C12.conservation",
        "Swat4.C12.integrity",
        "Swat4.C12.at_most_once",
        "Swat4.C12.batch_size",
        "Swat4.C12.not_early",
        "Swat4.C12.not_late",
        "Swat4.C12.no_leak_run",
        "Swat4.C12.no_leak_finish",
        "Swat4.C12.ghost_faithful_finish",
        "Swat4.C12.conservation_final",
        "Swat4.C12.timing_final",
        "Swat4.C12.batch_sorted_inv",
        "Swat4.C12.batch_sorted_all",
        "Swat4.C12.batch_sorted_all_final",
        "Swat4.C12.batch_sorted_seq",
        "Swat4.C12.fetch_sorted_conc",
        "Swat4.C12.batch_is_fetch_order",
        "Swat4.C12.witness_init",
        "Swat4.C12.witness_pops",
        "Swat4.C12.fetch_order_unsorted_witness",
        "Swat4.C12.delivered_if_live",
        "Swat4.C12.delivered_if_live_final",
        "Swat4.C12.handed_at_most_one",
        "Swat4.C12.lost_if_dies",
        "Swat4.C12.witnessOne_init",
        "Swat4.C12.lost_if_dies_done",
        "Swat4.C12.queued_otherwise",
        "Swat4.C12.implicit_ready_always_queued",
        "Swat4.C12.pastExpiry_init",
        "Swat4.C12.implicit_ready_past_expiry_is_queued",
        "Swat4.C12.implicit_ready_past_expiry_dropped_witness",
        "Swat4.C12.implicit_ready_past_expiry_never_delivered",
        "Swat4.C12.ready_eq_expiry_only_at_instant",
        "Swat4.C12.ready_eq_expiry_delivered_witness",
        "Swat4.C12.popMany_command_progress",
        "Swat4.C12.popMany_own_commands_bounded",
        "Swat4.C12.live_step_executes",
        "Swat4.C12.fed_init",
        "Swat4.C12.popMany_fed_witness",
        "Swat4.C12.never_queued_explicit_sys",
        "Swat4.C12.ready_past_expiry_only_implicit",
        "Swat4.C12.facts_item_id_uses",
        "Swat4.C12.facts_pop_atomic",
    ],
    # proved in the Lean files and used by other proofs, but NOT audited as property theorems: each is a
    # read-back of a definition, glue between two names, true by type, or a corollary of an audited theorem
    "supporting": [
        {"name": "Swat4.C12.never_queued", "why": "read-back of the definition (`QOp.begin` unfolded; the system-level statements are never_queued_explicit / never_queued_explicit_sys)"},
        {"name": "Swat4.C12.enqueue_one_batch", "why": "read-back of the definition (`qstep` on `.enqueue … .start` by `rfl`)"},
        {"name": "Swat4.C12.enqueue_uses_fresh", "why": "read-back of the definition (`qstep` / `enqueueBatch` by `rfl`; the reachable-state statement is ids_fresh)"},
        {"name": "Swat4.C12.pop_nonpositive", "why": "read-back of the definition (`QOp.begin` unfolded)"},
        {"name": "Swat4.C12.never_queued_explicit", "why": "read-back of the definition (`QOp.begin` by cases on the two bounds); the system-level statement is never_queued_explicit_sys (audited)"},
    ],
    "shards": (4, 16),
    "nontrivial": _nontrivial,
    "rule": "(a) sequential histories of AddBetween / PopMany(n) / clock advance on the real probes repository with ready and expiry times before, "
            "at and after the clock (+-256ns); (b) a pre-filled queue, then two PopMany consumers and one producer interleaved storage command by "
            "storage command (ZRANGEBYSCORE / MULTI-EXEC granularity) with clock ticks and a consumer death before/after a command; every probe "
            "carries a unique port (identity; the oracle still compares the WHOLE payload - address, port, goal, retries, max, and for queued items the expiry - with the enqueued probe of that port), ready times are pairwise distinct (Redis orders equal scores by member text); compared: command "
            "trace, returned batches and expired counts, raw probes:* keys; oracle on the implementation's outputs: conservation of probes, "
            "at-most-once, batch size, not-early/not-late, never-queued, WHICH probes vanished (each vanished probe is attributable to a consumer's expired count: "
            "ready and past its expiry at that consumer's clock - no unexpired probe vanishes), batch order (every returned batch sorted by ready time; a violation is "
            "classified late-past-ready = regression of PopMany's final sort, or batch-unsorted), keyspace consistency; a case the scheduler gave up on (HUNG) fails with sig=hung",
    "assumptions": [
        "a client reads the clock when it arrives at a storage command (the scheduler only moves the clock while every client is blocked at a command)",
        "probe identity = unique port number chosen by the generator (the repository's UUIDs are renamed canonically in dumps)",
        "equal ready times are ordered by UUID text in Redis: generated ready times are pairwise distinct (the model orders equal scores "
        "within a round by id; PopMany's final sort is stable, so ties keep fetch order: round by round, Redis order within a round)",
    ],
    "trusted_base": COMMON_TRUSTED + [
        "driver-implemented oracle semantics in lean/Swat4/Drv/C12.lean (not Model/ or Spec/ definitions): `oracle` computes everything from the case's "
        "client specs and the implementation's timeline / results / dump - `timed` (clock value of every timeline entry), readyOf / expiryOfPayload (from the "
        "penq specs), amo, known, neverQueued, conservation, sizeOk, timingOk, unsorted / latePast, and `vanishOk` with `assignVanished` (the probes that are "
        "neither queued nor delivered, identified by port, can be distributed over the live consumers so that each gets exactly the number it counted as "
        "expired, each such probe ready and strictly past its expiry by the clock at which that consumer's call finished; leftovers only with a consumer that "
        "died, at most its batch size of them unexpired); only `consistentB` (keyspace consistency) is a Model definition",
    ],
    "manifest": {
        "text": "Lean theorems over ALL event lists (any number of producers and consumers, any interleaving of storage commands, ticks, deaths "
                "before/after a command) from any initial state with a consistent store and an empty probe queue, stated on a ghost-augmented system "
                "(QSys + log of accepted enqueues + log of popped entries) that provably projects onto the validated model (ghost_faithful, "
                "ghost_faithful_finish, ghost_popped, batch_is_log): ids_fresh (k-th accepted enqueue gets id fresh0+k; stored ids < counter), "
                "conservation (enqueued ids = queued ids + popped ids, disjoint, no duplicates), integrity (a pop record carries probe, expiry and "
                "ready time of its enqueue), at_most_once, batch_size (<= n at every pc), not_early (monotone clock: ready <= clock at the pop "
                "batch), not_late (returned => no expiry or expiry >= clock at the pop batch; otherwise counted), no_leak_run / no_leak_finish "
                "(C10 invariant at every reachable state), conservation_final / timing_final (same in the state after the driver's completion "
                "phase). The clause 'a probe whose ready time is not earlier than its expiry is never queued' "
                "is FALSE of model and code for an implicit ready time: never_queued_explicit [supporting read-back of QOp.begin, not audited] (the call issues no command IFF both bounds are explicit and after >= before), "
                "never_queued_explicit_sys / ready_past_expiry_only_implicit (every interleaving: each accepted enqueue record is attributed to its producing call enqueue probe after expires, and an explicit after is the record's ready time and strictly before an explicit expiry; "
                "hence a queued probe with ready >= expiry can only stem from an implicit ready time), "
                "implicit_ready_always_queued / implicit_ready_past_expiry_is_queued (enqueue p none (some b) is queued whatever the clock, e.g. clock 100 >= b 50: checked witness; probes.go tests "
                "!after.IsZero() first and reads clock.Now() afterwards), implicit_ready_past_expiry_never_delivered (ready > expiry: every pop record of that id is counted expired, "
                "handed to nobody; from not_early + not_late, monotone clock), ready_eq_expiry_only_at_instant / ready_eq_expiry_delivered_witness (ready = expiry: queued AND delivered, "
                "exactly at clock = expiry, since isItemExpired is strict). Termination of PopMany under interference: there is no retry loop, but rounds repeat while only expired entries are found; "
                "popMany_command_progress (every command of a live call raises a potential, for every store/clock), popMany_own_commands_bounded (in every interleaving the commands a PopMany n "
                "executes are at most 2*(n + expired entries it dropped) + 2), live_step_executes, popMany_fed_witness (no bound in n alone: fed one expired entry per round a PopMany 1 executes 7 commands). "
                "Exactly one consumer: delivered_if_live / "
                "delivered_if_live_final (every accepted enqueue is either still queued, or in exactly one pop record of exactly one started PopMany "
                "consumer with the same probe/expiry/ready time; if that record is unexpired at the clock of its pop batch it was appended to the "
                "batch, its id occurs exactly once among all returned records - once in that consumer's, in no other's - the consumer holds the "
                "payload at every later pc, and if the consumer is not dead and has finished, the entry has been handed to it and to nobody else; "
                "stated on records/ids because batches are payload lists and payloads may repeat), handed_at_most_one; the hypothesis 'no consumer "
                "dies while holding it' is necessary: lost_if_dies / lost_if_dies_done (consumer dies right after its pop batch: the probe is in the "
                "pop log and in nobody's returned batch). Batch order: batch_sorted_all / batch_sorted_all_final / batch_sorted_inv - "
                "for every event list (all interleavings of any number of consumers and producers, ticks of either sign, deaths), from every "
                "admissible initial state (batch_sorted_inv: from every ghost state satisfying the system invariant GInv), every batch a finished "
                "PopMany returned is the payload list of a rearrangement of the entries that consumer took out and did not drop as expired, in "
                "which ready times (the ones the entries were enqueued with = the scores they were popped with) are non-decreasing; no side "
                "condition on producers or on the clock. The model mirrors the repaired code: ZRANGEBYSCORE WITHSCORES, every item keeps its "
                "score through the rounds, the items of all rounds are stably sorted by score before the call returns (batch_is_log: what is "
                "returned is that sort of the log's batch records, a permutation of the fetch order). Kept about the fetch order (the order of "
                "the rounds, which is what the call returned before the repair): fetch_order_unsorted_witness (a checked 4-event schedule "
                "fetching ready times [50, 10]; the call now returns [10, 50]), batch_sorted_seq (no enqueue executes during the call) and "
                "fetch_sorted_conc (every enqueue during the call has ready >= clock when it executes, monotone clock): the fetch order is "
                "sorted, and then the returned batch is the fetch order itself (batch_is_fetch_order). The correspondence run decides that the "
                "model is the code and evaluates the same predicates on the implementation's outputs, batch order included.",
        "level_note": "Proved for the command-level model of enqueue/PopMany under arbitrary interleaving, batch order included (full strength). "
                      "Ghost logs live in a wrapper system proved to erase "
                      "to the model; ties between equal scores are ordered by id in the model (by UUID text in Redis). Trusted: Lean kernel; the "
                      "command-level queue model validated by the differential run; the oracle in the driver.",
        "technique": "Lean 4 proof (atomic-batch lemmas, C10 invariant) + exhaustive-style interleaving correspondence with an independent conservation oracle",
        "design_ref": "DESIGN.md §5 C12",
    },
}
