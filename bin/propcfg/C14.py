from props import COMMON_TRUSTED


def _nontrivial(t):
    # seq: at least one clock step and a listing/cleanup; race: the concurrent refresh is placed among the pass's calls
    return len(t) >= 5 and ((t[1] == "seq" and ",t" in "," + t[4]) or (t[1] == "race" and "r1" in t[4]))


CFG = {
    "module": "Swat4.Properties.C14",
    "theorems": [
        "Swat4.C14.facts_config_wiring",
        "Swat4.C14.listed_iff_live",
        "Swat4.C14.remove_refused_when_refreshed",
        "Swat4.C14.remove_erases_unchanged",
        "Swat4.C14.remove_other_key",
        "Swat4.C14.remove_keyed",
        "Swat4.C14.C14_race",
        "Swat4.C14.C14_window",
        "Swat4.C14.clean_instances_count",
        "Swat4.C14.clean_complete",
        "Swat4.C14.clean_complete2",
        "Swat4.C14.cleanServers2_run_eq",
        "Swat4.C14.clean_keeps_refreshed",
        "Swat4.C14.exec_refLeUpd",
        "Swat4.C14.usecases_write_refLeNow",
        "Swat4.C14.refLeUpd_preserved",
        "Swat4.C14.refreshed_not_scanned_inv",
        "Swat4.C14.refreshed_survives_pass",
        "Swat4.C14.clean_instances_state",
        "Swat4.C14.refreshedAt_changes_only_by",
        "Swat4.C14.report_rejected_unchanged",
        "Swat4.C14.renew_rejected_unchanged",
        "Swat4.C14.facts_frontend_status",
        "Swat4.C14.facts_frontend_liveness",
        # RefLeUpd as an invariant of the system model (reviewer item 8)
        "Swat4.C14.usecases_walk_on_moving_clock",
        "Swat4.C14.usecases_walk_on_moving_clock_more",
        "Swat4.C14.refLeUpd_usys",
        "Swat4.TimedInv.usys_inv",
        # the cleanup pass inside the system model: C14_race's premise derived from the run
        "Swat4.C14.clean_race_run",
        "Swat4.C14.clean_race_run_lazy",
        "Swat4.CleanRace.removing_established_lazy",
        "Swat4.CleanRace.fetch_pending",
        "Swat4.CleanRace.remove_step",
        "Swat4.CleanRace.removing_established",
        "Swat4.CleanRace.removing_run",
        "Swat4.CleanRace.removing_spares",
        "Swat4.C14.clean_removes_index_entries",
        # the cleaner component (Model/CleanerComponent.lean: what the driver runs for a `cleaner` case) satisfies the driver's oracle
        "Swat4.C14.cleaner_healthy_pass_complete",
        "Swat4.C14.cleaner_pass_instances",
        "Swat4.C14.cleaner_last_pass_complete",
    ],
    # proved in the Lean files and used by other proofs, but NOT audited as property theorems: each is a
    # read-back of a definition, glue between two names, true by type, or a corollary of an audited theorem
    "supporting": [
        {"name": "Swat4.C14.scan_selects_stale", "why": "read-back of the definition (`AbsState.filter` / `FilterSet.pred` unfolded for `updatedBefore`; the pass-level statement is clean_complete)"},
        {"name": "Swat4.C14.guard_drops_refreshed", "why": "read-back of the definition (membership in the `List.filter` that defines `guarded`)"},
        {"name": "Swat4.C14.cleanServers2_shape", "why": "read-back of the definition (`rfl`)"},
        {"name": "Swat4.C14.refreshed_not_scanned", "why": "read-back of the definition (`FilterSet.pred` unfolded, per-row hypothesis `t ≤ updatedAt` assumed; the statement without it is refreshed_not_scanned_inv)"},
    ],
    "shards": (4, 16),
    "nontrivial": _nontrivial,
    "rule": "(seq) histories of 3..20 real use-case executions over 4 servers (report, keepalive, probe success/failure, list with the master "
            "status, server cleanup, instance cleanup) with clock steps landing at a liveness/retention boundary and +-256ns, liveness and retention "
            "from 1s..2h, each use case started when scheduled; (race) 1..4 servers reported long ago, one real cleanup pass interleaved at "
            "repository-call granularity with one re-report or keepalive of one of them placed after the pass's k-th call (before the scan, "
            "between scan and delete, between deletes) or after the FIRST STORAGE COMMAND of the scan (between the index read and the record fetch), retention boundary at +0/+256/+512ns; compared: repository calls, results, keyspace; "
            "oracle: an independent bookkeeping simulator (exists / last refresh / last write per address; address / last write per instance) for listings, "
            "server removals, instance removals (the final instance table, and keepalives succeed iff instance and server are still stored), and "
            "'the refreshed server survives, the stale ones are removed' for races (a refresh that found the server already removed - err:notfound - is accepted only with the server gone; any other or unparsable result fails); (fault) a storage fault at one removal: at most one outdated server per fault survives, every survivor is one of the OUTDATED planted servers, no fresh one is removed",
    "assumptions": [
        "each repository call is atomic at its commit (C09); the race is generated at call granularity",
        "refreshedAt <= updatedAt for every stored record is now a theorem (refLeUpd_preserved: invariant of every use case run at a clock value not before any stored update time, i.e. on a monotone clock; a backward clock step breaks it — witness in Properties/C14.lean); it is still checked on every dump by the correspondence (UP >= RF)",
        "refLeUpd_usys: refreshedAt <= updatedAt <= clock is an invariant of every USys run (any clients whose programs walk on a moving clock - usecases_walk_on_moving_clock: the eleven use-case programs report, renew, remove, probe, refresh, revive, addServer, cleanServers, cleanServers2, cleanInstances, listServers; usecases_walk_on_moving_clock_more: Heartbeat6.renewIP [the dg6 keepalive] and the prober runner UC.proberRunWith / UC.proberRun [the pop client]; a client built from other calls is not covered -, any interleaving of calls, crashes, faults, and ticks with NON-NEGATIVE advance)",
        "clean_race_run quantifies over interleavings in which every client other than the cleaner never issues a Remove (heartbeat, keepalive, probes, REST submission, refresh, revival, listing) and the cleaner neither crashes nor meets a storage fault; with a removing client the statement is false in the model AND in the code: remove + re-registration restarts the version counter, and the cleaner's Remove with its stale copy (stored version not newer: servers.go:184) deletes the fresh registration without consulting the conflict callback (witness in Properties/C14.lean)",
        "rows sit under their own address key (Keyed: hypothesis of clean_complete / refreshedAt_changes_only_by; invariant by C16 keyed_preserved and refLeUpd_preserved)",
        "instance cleanup uses an inclusive bound where server cleanup uses an exclusive one (as coded; both mirrored)",
    ],
    "trusted_base": COMMON_TRUSTED + [
        "driver-implemented oracle semantics in lean/Swat4/Drv/C14.lean (not Model/ or Spec/ definitions): the bookkeeping simulator `Sim` / `Sim.touch` / "
        "`Sim.apply` (per address: exists, last refresh, last write; per instance id: address, ip, last write = the report that stored it; report / keepalive / "
        "probe / list / clean / cleanins rules: a listing = the servers refreshed since clock - liveness, clean removes servers with last write < clock - retention, "
        "cleanins removes instances with last write <= clock - retention (inclusive, as coded), a keepalive succeeds iff its instance and the server it names are "
        "both still stored), the final comparison of the SV and IN/IU dump lines with the bookkeeping (svAddrs, inAddrs, inWrites), `othersBy` (race op) and "
        "`handleCleaner` (evaluation, on the implementation's dump lines, of the Model predicates CleanerComponent.staleServer / staleInstance at the final clock of "
        "the Model run CleanerComponent.cleanerPasses: no stale server after a healthy last pass, no stale instance after any last pass; the component's behaviour itself - "
        "ticker, pass order, scan fault - is no longer driver code, and cleaner_last_pass_complete proves the oracle of the Model's own final state)",
    ],
    "manifest": {
        "text": "Lean theorems: listed_iff_live (a listing is exactly status AND refreshedAt >= now - liveness, with no dependence on cleanup), "
                "C14_race (for every list of scanned copies, a server whose stored "
                "record is newer than the scanned copy and refreshed after the cutoff is still stored unchanged after the whole pass — the refresh may "
                "commit between scan and delete), C14_window (a refresh committing between the scan's index read and its record fetch: the repaired guard drops the fetched copy), refreshed_not_scanned_inv (a refresh before the scan keeps it out of the scan), remove_erases_unchanged, "
                "clean_instances_count; clean_complete / clean_complete2 (a pass — atomic form, and the scan/fetch/delete form the driver runs — removes exactly the rows with "
                "updatedAt < now - retention, leaves every other row and the instances and queue unchanged and reports their number), clean_instances_state (which instances remain), "
                "refLeUpd_preserved (refreshedAt <= updatedAt is an invariant of every use case, complete runs and every crash/fault prefix, on a monotone clock), "
                "refreshed_survives_pass (the race theorem from an invariant-satisfying start, no per-row hypothesis), refreshedAt_changes_only_by (a stored refresh time "
                "changes only to `now` and only under the key of an accepted heartbeat, an owner-checked keepalive or a successful probe; retry, failure, refresh, revival, "
                "REST submission, removal and the cleaners leave it alone). Tied to listservers.go, servercleaner.go, instancecleaner.go by sequential histories on a fake clock with "
                "boundary-aligned steps and by all placements of one refresh among the cleanup pass's repository calls. "
                "Round 6: refLeUpd_usys (Keyed and refreshedAt <= updatedAt <= clock hold in every reachable state of the system model USys: any clients, any interleaving, "
                "crashes, faults, non-negative ticks - the clock may now move between the calls of one use case); clean_race_run / clean_race_run_lazy (the scan/fetch/guarded-remove "
                "pass interleaved with arbitrary non-removing clients in USys: the premise of C14_race - every pending copy is the stored record or strictly older - is derived "
                "from the run (CleanRace.Pending, established by the fetch, kept by every event), no step of the cleaner removes a row that is at that moment refreshed after the "
                "cutoff, and a pending copy that is still the stored record is removed at its turn); clean_removes_index_entries (through C10's removeBatch_consistent and C11's "
                "rel_remove: the removal batch deletes the record together with its updated / refreshed scores and all nine status-set memberships). "
                "Cleaner component (Model/CleanerComponent.lean: pass = clock += interval; cleanServers2 unless the scan is faulted; cleanInstances - the definition the driver runs for `cleaner` cases): "
                "cleaner_healthy_pass_complete (after a healthy pass from a Keyed, RefLeUpd store no server with updatedAt < clock - retention and no instance with write time <= clock - retention remains, and "
                "every non-outdated server is stored unchanged - corollary of clean_complete2 / clean_instances_state), cleaner_pass_instances (the instance clause after any pass, no hypothesis), "
                "cleaner_last_pass_complete (over any script of healthy / faulted passes with interval >= 0 from a RefInv state: exactly the driver's oracle - healthy last pass => no stale server; no stale instance).",
        "level_note": "Trusted: Lean kernel (propext, Quot.sound, Classical.choice); atomic repository calls (C09/C11); Prog models of the cleaners and "
                      "the listing validated by the differential run; the bookkeeping oracle in the driver.",
        "technique": "Lean 4 proof (induction over the cleanup pass with a per-key frame lemma) + differential correspondence on a fake clock",
        "design_ref": "DESIGN.md §5 C14",
    },
}
