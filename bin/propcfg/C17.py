from props import COMMON_TRUSTED


def _hex_has(tok, needles):
    if tok in ("-", "~"):
        return False
    pairs = {tok[i:i + 2] for i in range(0, len(tok) - 1, 2)}
    return any(n in pairs for n in needles)


def _c17_nontrivial(t):
    # t = ["C17", op, args…]
    if len(t) < 3:
        return False
    op = t[1]
    if op in ("html", "clean"):
        # a hostname with at least one bracket or HTML metacharacter
        return _hex_has(t[2], ("5b", "5d", "3c", "3e", "26", "22", "27"))
    if op in ("add", "add-ip", "view"):
        return len(t) >= 4 and t[3] != "-"
    if op == "addr":
        return t[2] != "-"
    return False


def _c17_extra(results):
    """distribution of HTTP statuses per operation, number of inputs outside the modelled subset"""
    dist, planted = {}, 0
    for inp, out, v, src in results:
        t = inp.split()
        if len(t) >= 3 and t[1] in ("add", "add-ip", "view"):
            k = t[1] + ":" + (out.split() or ["?"])[0]
            dist[k] = dist.get(k, 0) + 1
            if t[2] != "absent":
                planted += 1
    return {"http_status_distribution": dist, "requests_with_planted_record": planted}


CFG = {
    "module": "Swat4.Properties.C17",
    "theorems": [
        "Swat4.C17.accepted_is_routable",
        "Swat4.C17.routable_is_accepted",
        "Swat4.C17.accepted_iff_routable",
        "Swat4.C17.add_table",
        "Swat4.C17.view_table",
        "Swat4.C17.never_private_stored",
        "Swat4.C17.add_body_quad",
        "Swat4.C17.add_body_table",
        "Swat4.C17.view_string_table",
        "Swat4.C17.toHTML_inert",
        "Swat4.C17.clean_loop_terminates",
        "Swat4.C17.clean_no_codes",
        "Swat4.C17.view_body",
        "Swat4.C17.add_body",
        "Swat4.C17.view_body_inert",
        "Swat4.C17.knownOf_spec",
        "Swat4.C17.knownOf_go",
        "Swat4.C17.knownOf_bits",
        "Swat4.C17.facts_ok",
    ],
    "shards": (1, 4),
    "nontrivial": _c17_nontrivial,
    "extra_evidence": _c17_extra,
    "rule": "requests through httptest on the real gin router (real use cases and repositories over miniredis), optionally "
            "after planting the addressed record through the real repository with any of the 512 status words: "
            "POST bodies {ip,port} over every class boundary ±1 (0/8, 10/8, 127/8, 169.254/16, 172.16/12, 192.168/16, 224/4, "
            "240/4, broadcast), ports -70000..2^31 incl. 0/1024/1025/65535/65536 and a sweep of 0..70000, malformed dotted "
            "quads (leading zeros, 256, missing/extra fields, spaces, signs), IPv6 and IPv4-mapped literals, raw JSON bodies "
            "(wrong types, null, duplicates, case variants, trailing data, truncated/damaged bytes, random bytes); GET addresses "
            "likewise plus Atoi edge ports and random bytes; pure calls of styles.ToHTML / styles.Clean / addr.NewFromString; "
            "hostnames up to 64 code points over SWAT codes ([c=…], [C=…], [\\c], [b], [\\b], [u], unterminated and nested brackets), "
            "HTML metacharacters, quotes, entities, white space, non-ASCII incl. U+017F/U+212A (the two code points Go's (?i)\\w "
            "contains beyond ASCII); thorough: exhaustive to length 4 over the 12-symbol alphabet "
            "{[c=ff0000],[\\c],[b],[,],c,=,<,&,\",x,space} for both functions. Compared: status, hostname_html, hostname_plain, "
            "store/queue effect. Oracle on the implementation's output: status in the table and <500, the row the reference "
            "parser selects, no store effect on 400, every stored/queued address routable by the RFC ranges, Inert(hostname_html), "
            "NoCodes(hostname_plain). non-trivial = hostname with a bracket or metacharacter / request with a non-empty argument",
    "assumptions": [
        "hostnames are valid UTF-8 (heartbeat values pass bytes.ToValidUTF8, probe values are latin-1 decoded); the model works on code points",
        "storage is healthy (miniredis answers every command); unmapped use-case errors are outside the statement",
        "IP literals that reach netip.parseIPv6 (first of . : % is ':'), JSON strings with escapes and nested JSON values inside the body "
        "are not modelled: they are not compared, only passed through the oracle",
        "address strings containing '/' or empty are answered by the router (404 / 301), not by the handler: only 'no 5xx' is checked for them",
        "Go accepts ports written with a leading '+' and leading zeros (strconv.Atoi); the reference parser tolerates the same",
    ],
    "trusted_base": COMMON_TRUSTED + [
        "re-modelled rather than verified: Go regexp (the four expressions of styles.go as hand-written scanners, incl. simple case folding of \\w), "
        "html.EscapeString, strings.TrimSpace/unicode.IsSpace, net.ParseIP for dotted quads, net.IP class predicates, strconv.Atoi, "
        "encoding/json for {IP string; Port int}, validator tags required/ipv4/gte/lte, gin routing and binding",
        "reference definitions in Spec/RestSpec.lean (RFC ranges, status table, Inert tokenizer, NoCodes)",
        "generated facts (binding tags, status bits, string literals of styles.go) via the harness' extractor",
    ],
    "manifest": {
        "text": "Lean theorems: accepted_iff_routable — addr.New∘NewPublicAddr accepts four bytes and a port iff the address is in none of "
                "10/8, 172.16/12, 192.168/16, 127/8, 169.254/16, 224/4, 0.0.0.0, 255.255.255.255 (ranges written from the RFCs, proved "
                "equal to Go's mask tests over all 2^32 addresses by byte reasoning) and the port is in 1..65535; add_table / view_table — "
                "the handlers' status is the row of the statement's table, one of 400/202/410/200 resp. 400/404/204/200, below 500, a 400 "
                "has no store effect, every effect names the requested address; add_body_table / view_string_table — the same from any "
                "decoded JSON body / any address string; never_private_stored — an excluded address gets 400 and no store or queue change; "
                "toHTML_inert — for every hostname the reference tokenizer accepts ToHTML's output (only colour spans, the five entities, "
                "no raw < > & quotes); clean_no_codes — Clean's output contains no style code, and its loop terminates; view_body / add_body — "
                "on every route of the model a 200 comes only from a stored record with the details bit, its hostname_html / hostname_plain "
                "are ToHTML / Clean of the hostname stored in that record and nothing is stored or queued, and every other status carries "
                "neither member (of model.Server only these two members are modelled and compared; the other 25 and players/objectives are "
                "not); view_body_inert — hence every 200 has inert hostname_html and code-free hostname_plain; knownOf_spec / knownOf_go / "
                "knownOf_bits — the columns of the reference table are exactly the bit tests 8, 128-or-16, 256 of the status word, in the "
                "form server.go computes them and bit by bit, in the order addserver.go / getserver.go test them. The model is tied "
                "to the code by differential runs through the real router and by facts_ok (binding tags, status bits and the regular "
                "expressions' source text are read from the source on every run).",
        "level_note": "Trusted: Lean kernel; axioms propext, Quot.sound, Classical.choice; the hand-written scanners as the meaning of Go's "
                      "regexp on the four expressions and the other re-modelled library functions (finite differential evidence, incl. "
                      "exhaustive short hostnames); IPv6/IPv4-mapped literals, JSON escapes and nested values are outside the model and "
                      "covered by the oracle only. Beyond the property's exclusions Go accepts 0.x.y.z (x.y.z≠0) and 240/4 below broadcast; "
                      "balance of spans is not claimed.",
        "technique": "Lean 4 proof (decision tables; byte-level case analysis; inductive token invariant preserved by the regexp passes; "
                     "fuelled loop with a strict length measure) + differential correspondence through httptest",
        "design_ref": "DESIGN.md §5 C17",
    },
}
