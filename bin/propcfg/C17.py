from props import COMMON_TRUSTED


def _c17_nontrivial(t):
    return len(t) >= 3


CFG = {
    "module": "Swat4.Properties.C17",
    "theorems": ["Swat4.C17.placeholder"],
    "shards": (1, 4),
    "nontrivial": _c17_nontrivial,
    "rule": "wip",
    "assumptions": [],
    "trusted_base": COMMON_TRUSTED,
    "manifest": {"text": "wip", "level_note": "wip", "technique": "wip", "design_ref": "DESIGN.md §5 C17"},
}
