from props import COMMON_TRUSTED


def _hex_has(tok, needles):
    if tok in ("-", "~"):
        return False
    pairs = {tok[i:i + 2] for i in range(0, len(tok) - 1, 2)}
    return any(n in pairs for n in needles)


def _c17_nontrivial(t):
    # t = ["C17", op, args…]
    if len(t) < 3:
        return False
    op = t[1]
    if op in ("html", "clean"):
        # a hostname with at least one bracket or HTML metacharacter
        return _hex_has(t[2], ("5b", "5d", "3c", "3e", "26", "22", "27"))
    if op in ("add", "add-ip", "view"):
        return len(t) >= 4 and t[3] != "-"
    if op == "list":
        return len(t) >= 3 and t[2] != "-"
    if op == "addr":
        return t[2] != "-"
    return False


def _c17_extra(results):
    """distribution of HTTP statuses per operation, number of inputs outside the modelled subset"""
    dist, planted, full, full200, listed = {}, 0, 0, 0, 0
    for inp, out, v, src in results:
        t = inp.split()
        if len(t) >= 3 and t[1] in ("add", "add-ip", "view", "list"):
            o = out.split() or ["?"]
            k = t[1] + ":" + o[0]
            dist[k] = dist.get(k, 0) + 1
            if t[1] == "list":
                if len(o) >= 5 and o[4].startswith("[{"):
                    listed += 1
                continue
            if t[2] != "absent":
                planted += 1
            if t[2].startswith("P:"):
                full += 1
                if o[0] == "200":
                    full200 += 1
    return {"http_status_distribution": dist, "requests_with_planted_record": planted,
            "requests_with_full_record": full, "of_these_answered_200": full200, "non_empty_listings": listed}


CFG = {
    "module": "Swat4.Properties.C17",
    "theorems": [
        "Swat4.C17.facts_config_wiring",
        "Swat4.C17.facts_harness_settings_wiring",
        "Swat4.C17.facts_add_status_map",
        "Swat4.C17.accepted_is_routable",
        "Swat4.C17.routable_is_accepted",
        "Swat4.C17.accepted_iff_routable",
        "Swat4.C17.add_table",
        "Swat4.C17.view_table",
        "Swat4.C17.never_private_stored",
        "Swat4.C17.add_body_quad",
        "Swat4.C17.add_body_table",
        "Swat4.C17.view_string_table",
        "Swat4.C17.toHTML_inert",
        "Swat4.C17.clean_loop_terminates",
        "Swat4.C17.clean_no_codes",
        "Swat4.C17.view_body",
        "Swat4.C17.add_body",
        "Swat4.C17.view_body_inert",
        "Swat4.C17.view_body_full",
        "Swat4.C17.add_body_full",
        "Swat4.C17.detail_members",
        "Swat4.C17.enum_strings",
        "Swat4.C17.enum_slugs",
        "Swat4.C17.server_spec_agrees",
        "Swat4.C17.player_spec_agrees",
        "Swat4.C17.objective_spec_agrees",
        "Swat4.C17.queryMatch_prepareQuery",
        "Swat4.C17.list_body_full",
        "Swat4.C17.list_elements",
        "Swat4.C17.bindBool_table",
        "Swat4.C17.bindBool_iff",
        "Swat4.C17.knownOf_spec",
        "Swat4.C17.knownOf_go",
        "Swat4.C17.facts_ok",
        "Swat4.C17.facts_json_ok",
        "Swat4.C17.facts_enum_ok",
        "Swat4.C17.slug_facts_ok",
        "Swat4.C17.addExecute_abstracts",
        "Swat4.C17.addServer_no_5xx",
        "Swat4.C17.addServer_5xx_reachable",
        "Swat4.C17.viewExecute_abstracts",
        "Swat4.C17.listExecute_abstracts",
        # the probe fields the driver prints for a `discover` effect (Rest.discoveryProbe) are those of the item UC.addServer queues
        "Swat4.RestBridge.addExecute_probe",
        "Swat4.RestBridge.discoveryItem_probe",
    ],
    # proved in the Lean files and used by other proofs, but NOT audited as property theorems: each is a
    # read-back of a definition, glue between two names, true by type, or a corollary of an audited theorem
    "supporting": [
        {"name": "Swat4.C17.server_members", "why": "read-back of the definition (`rfl` on `serverJsonOf … .members`; the comparison with the independent table is server_spec_agrees)"},
        {"name": "Swat4.C17.server_fields", "why": "read-back of the definition (27 projections of `serverJsonOf`, `rfl` each)"},
        {"name": "Swat4.C17.player_members", "why": "read-back of the definition (`playerJsonOf … .members` unfolded; the comparison with the independent table is player_spec_agrees)"},
        {"name": "Swat4.C17.objective_members", "why": "read-back of the definition (`rfl`; the comparison with the independent table is objective_spec_agrees)"},
        {"name": "Swat4.C17.knownOf_bits", "why": "read-back of the definition (`knownOf` evaluated on 11 sample words by `rfl`; the quantified statements are knownOf_spec / knownOf_go)"},
    ],
    "shards": (1, 4),
    "nontrivial": _c17_nontrivial,
    "extra_evidence": _c17_extra,
    "rule": "requests through httptest on the real gin router (real use cases and repositories over miniredis), optionally "
            "after planting the addressed record through the real repository with any of the 512 status words: "
            "POST bodies {ip,port} over every class boundary ±1 (0/8, 10/8, 127/8, 169.254/16, 172.16/12, 192.168/16, 224/4, "
            "240/4, broadcast), ports -70000..2^31 incl. 0/1024/1025/65535/65536 and a sweep of 0..70000, malformed dotted "
            "quads (leading zeros, 256, missing/extra fields, spaces, signs), IPv6 and IPv4-mapped literals, raw JSON bodies "
            "(wrong types, null, duplicates, case variants, trailing data, truncated/damaged bytes, random bytes); GET addresses "
            "likewise plus Atoi edge ports and random bytes; pure calls of styles.ToHTML / styles.Clean / addr.NewFromString; "
            "hostnames up to 64 code points over SWAT codes ([c=…], [C=…], [\\c], [b], [\\b], [u], unterminated and nested brackets), "
            "HTML metacharacters, quotes, entities, white space, non-ASCII incl. U+017F/U+212A (the two code points Go's (?i)\\w "
            "contains beyond ASCII); thorough: exhaustive to length 4 over the 12-symbol alphabet "
            "{[c=ff0000],[\\c],[b],[,],c,=,<,&,\",x,space} for both functions; full records (extended state: every field of "
            "details.Info, 0-16 players with every field, 0-9 objectives; mostly valid values, distinct from field to field so "
            "that a swap shows, plus empty strings, int edges up to +-2^63, negative time left, Latin-1 / non-Latin-1 / astral "
            "text, slug special cases, team / coop status / objective status from -2 to 6 and far out of range, Details.Info "
            "equal to / zero / different from Info) through view and add; listings of 0-6 such records with status words, "
            "refresh ages around the liveness limit and the six filter parameters (matching, near-miss, ParseBool spellings, "
            "bad flags). Compared: status, hostname_html, hostname_plain, store/queue effect, and the WHOLE body as a canonical "
            "token (every member in document order; an unmodelled slug member matches anything). Oracle on the implementation's "
            "output: status in the table and <500, the row the reference parser selects, no store effect on 400, every "
            "stored/queued address routable by the RFC ranges, Inert(hostname_html), NoCodes(hostname_plain), and for a 200 the "
            "body has exactly the members of RestSpec.serverWants / playerWants / objectiveWants in order, each equal to (or, for "
            "the derived ones, a slug / code-free / inert rendering of) the field of the PLANTED record the table names, players "
            "and objectives in stored order, null for none; a listing contains exactly the records the reference selection "
            "expects. non-trivial = hostname with a bracket or metacharacter / request with a non-empty argument",
    "assumptions": [
        "hostnames are valid UTF-8 (heartbeat values pass bytes.ToValidUTF8, probe values are latin-1 decoded); the model works on code points",
        "storage is healthy (miniredis answers every command); unmapped use-case errors are outside the statement",
        "IP literals that reach netip.parseIPv6 (first of . : % is ':'), JSON strings with escapes and nested JSON values inside the body "
        "are not modelled: they are not compared, only passed through the oracle",
        "address strings containing '/' or empty are answered by the router (404 / 301), not by the handler: only 'no 5xx' is checked for them",
        "Go accepts ports written with a leading '+' and leading zeros (strconv.Atoi); the reference parser tolerates the same",
        "the effect token of the driver: the probe fields are Model/Rest.lean `Effect.probe` = `discoveryProbe` (address, game port, goal 1, "
        "0 retries, maximum = the harness world's DiscoveryRevivalRetries 2, a literal of Drv/C17.lean) - RestBridge.addExecute_probe proves this is the "
        "probe of the one item UC.addServer appends to the queue; the 400 body is Model/Rest.lean `Resp.errorMessage` "
        "({\"error\": \"Invalid server address\"} for add/view, no body for the listing)",
        "stored strings are valid UTF-8 (the repository stores json.Marshal of the record); slug.Make is modelled for ASCII, Latin-1, "
        "the five code points of slug's defaultSub and code points >= U+10000; a slug member of a string with another code point "
        "(unidecode's table beyond Latin-1) is not compared, only checked for the shape of a slug",
        "the listing's query string is taken as split by url.ParseQuery / gin (first value per parameter); the order of the "
        "listing is the iteration order of a Go map (pkg/slice.Intersection): elements are compared as a multiset (sorted)",
        "encoding/json round trip of the response (Marshal by gin, Decode by the harness with UseNumber) is the identity on "
        "strings, ints and bools",
    ],
    "trusted_base": COMMON_TRUSTED + [
        "re-modelled rather than verified: Go regexp (the four expressions of styles.go as hand-written scanners, incl. simple case folding of \\w), "
        "html.EscapeString, strings.TrimSpace/unicode.IsSpace, net.ParseIP for dotted quads, net.IP class predicates, strconv.Atoi, "
        "encoding/json for {IP string; Port int}, validator tags required/ipv4/gte/lte, gin routing and binding",
        "reference definitions in Spec/RestSpec.lean (RFC ranges, status table, Inert tokenizer, NoCodes)",
        "generated facts (binding tags, status bits, string literals of styles.go, json / form tags and kinds of the response "
        "structs, String() of the three enumerations for -2..8, slug.Make per Latin-1 character) via the harness' extractor",
        "re-modelled: gosimple/slug v1.15.0 Make (en) and gosimple/unidecode v1.0.1 (Latin-1 rows of its table), fmt %d, "
        "strconv.ParseBool, gin's query binding of string / bool fields",
    ],
    "manifest": {
        "text": "Lean theorems: addExecute_abstracts / addServer_no_5xx / viewExecute_abstracts / listExecute_abstracts — 'never 5xx' bridged to the "
                "use-case PROGRAMS (UC.addServer, the Prog over repository calls that can end in unableToCreate / unableToDiscover = HTTP 500): on a healthy, "
                "well-keyed store a fault-free run of addserver.Execute gives exactly the status, body and store effect the table function Rest.addExecute "
                "computes (one non-expiring discovery probe queued, one row written with port_retry, or nothing), hence never a 500; a 500 under any fault "
                "placement implies a fault; addServer_5xx_reachable — what does reach the 500 branch: one storage error at ANY of its repository calls, and, "
                "WITHOUT any fault, two simultaneous submissions of the same new address (second Add -> ErrServerExists -> ErrUnableToCreateServer) or a cleaner "
                "removing the record between the Get and the marking Update (ErrUnableToDiscoverServer): 'never 5xx' is about one use case run alone on a working "
                "Redis; getserver / listservers likewise (a storage error on view is the unmapped ErrUnableToObtainServer = empty 200; on list it is the 500 of "
                "servers_list.go:49-53). accepted_iff_routable — addr.New∘NewPublicAddr accepts four bytes and a port iff the address is in none of "
                "10/8, 172.16/12, 192.168/16, 127/8, 169.254/16, 224/4, 0.0.0.0, 255.255.255.255 (ranges written from the RFCs, proved "
                "equal to Go's mask tests over all 2^32 addresses by byte reasoning) and the port is in 1..65535; add_table / view_table — "
                "the handlers' status is the row of the statement's table, one of 400/202/410/200 resp. 400/404/204/200, below 500, a 400 "
                "has no store effect, every effect names the requested address; add_body_table / view_string_table — the same from any "
                "decoded JSON body / any address string; never_private_stored — an excluded address gets 400 and no store or queue change; "
                "toHTML_inert — for every hostname the reference tokenizer accepts ToHTML's output (only colour spans, the five entities, "
                "no raw < > & quotes); clean_no_codes — Clean's output contains no style code, and its loop terminates; view_body / add_body — "
                "on every route of the model a 200 comes only from a stored record with the details bit, its hostname_html / hostname_plain "
                "are ToHTML / Clean of the hostname stored in that record and nothing is stored or queued, and every other status carries "
                "no server data; view_body_full / add_body_full - the whole body of a 200 is NewServerDetailFromDomain resp. "
                "NewServerFromDomain of exactly the stored record; detail_members - info is the model.Server of the record, players and "
                "objectives in stored order, nothing read from Details.Info; server_spec_agrees / player_spec_agrees / "
                "objective_spec_agrees - the JSON documents member by member: name, order and the stored field each equals "
                "(player_num = Info.NumPlayers, player_max = Info.MaxPlayers, round_max = Info.NumRounds, time_round = Info.TimeLeft, "
                "vip_captures = VIPArrests, team / coop_status / status = the String() renderings with their numeral fallback, the four "
                "slugs): the model's choice of stored field per member is the one the independent reference tables "
                "name (the literal member lists server_members / player_members / objective_members are supporting read-backs, not audited); list_body_full / list_elements - the listing answers 400 exactly on an unparsable flag, else 200 with "
                "NewServerFromDomain of exactly the records with the info status, refreshed within the liveness window and passing "
                "the six filters (queryMatch_prepareQuery), up to order; facts_json_ok / facts_enum_ok / slug_facts_ok - json tags, "
                "field kinds, form tags, entity field lists, String() values and slug.Make per Latin-1 character as read from the "
                "source on every run; view_body_inert — hence every 200 has inert hostname_html and code-free hostname_plain; knownOf_spec / knownOf_go "
                "— the columns of the reference table are exactly the bit tests 8, 128-or-16, 256 of the status word, in the "
                "form server.go computes them and bit by bit, in the order addserver.go / getserver.go test them. The model is tied "
                "to the code by differential runs through the real router, by facts_add_status_map (go/ast: every response api.AddServer writes with its guard and errors.Is error; equal row by row to RestBridge.addStatus on the five AddEnds, 400 for the two address errors; both ifs return, the switch has no default) and by facts_ok (binding tags, status bits and the regular "
                "expressions' source text are read from the source on every run).",
        "level_note": "Trusted: Lean kernel; axioms propext, Quot.sound, Classical.choice; the hand-written scanners as the meaning of Go's "
                      "regexp on the four expressions and the other re-modelled library functions (finite differential evidence, incl. "
                      "exhaustive short hostnames); IPv6/IPv4-mapped literals, JSON escapes and nested values are outside the model and "
                      "covered by the oracle only. Beyond the property's exclusions Go accepts 0.x.y.z (x.y.z≠0) and 240/4 below broadcast; "
                      "balance of spans is not claimed.",
        "technique": "Lean 4 proof (decision tables; byte-level case analysis; inductive token invariant preserved by the regexp passes; "
                     "fuelled loop with a strict length measure) + differential correspondence through httptest",
        "design_ref": "DESIGN.md §5 C17",
    },
}
