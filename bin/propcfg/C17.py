from props import COMMON_TRUSTED


def _c17_nontrivial(t):
    return len(t) >= 3


CFG = {
    "module": "Swat4.Properties.C17",
    "theorems": [
        "Swat4.C17.accepted_is_routable",
        "Swat4.C17.routable_is_accepted",
        "Swat4.C17.accepted_iff_routable",
        "Swat4.C17.add_table",
        "Swat4.C17.view_table",
        "Swat4.C17.never_private_stored",
        "Swat4.C17.add_body_quad",
        "Swat4.C17.add_body_table",
        "Swat4.C17.view_string_table",
        "Swat4.C17.toHTML_inert",
        "Swat4.C17.facts_ok",
    ],
    "shards": (1, 4),
    "nontrivial": _c17_nontrivial,
    "rule": "wip",
    "assumptions": [],
    "trusted_base": COMMON_TRUSTED,
    "manifest": {"text": "wip", "level_note": "wip", "technique": "wip", "design_ref": "DESIGN.md §5 C17"},
}
