from props import COMMON_TRUSTED


def _c01_nontrivial(t):
    # reply … <servers>: a structured request against a non-empty registry;
    # req <payload>: any payload of at least the minimum request length
    if len(t) >= 11 and t[1] == "reply":
        return t[10] != "_"
    if len(t) >= 3 and t[1] == "req":
        return len(t[2]) >= 52
    return False


def _c01_extra(results):
    replies = closed = stored = filtered = declared = oversize = over_reply = unlistable = 0
    for inp, out, v, src in results:
        t = inp.split()
        if len(t) >= 2 and t[1] in ("reply", "replyraw"):
            o = out.split()
            if t[1] == "reply":
                sent = o[0] if o else "-"
                if len(t) >= 8 and t[7] != "-":
                    filtered += 1
                if len(t) >= 12 and t[11].startswith("q:"):
                    declared += 1
            else:
                sent = t[3] if len(t) >= 4 else "-"
            big = sent != "-" and len(sent) // 2 > 2048
            if o and o[-1] == "closed":
                closed += 1
                oversize += big
            elif o:
                replies += 1
                over_reply += big
            if len(o) >= 6 and o[-2] != "_":
                for r in o[-2].split(","):
                    stored += 1
                    f = r.split(":")
                    if len(f) > 3 and "@" in f[3]:
                        st, rf = f[3].split("@", 1)
                        try:
                            live = rf != "z" and int(rf) >= int(o[-4]) - int(o[-3])
                            unlistable += not (int(st) & 2 and live)
                        except ValueError:
                            pass
    return {"handler_replies": replies, "handler_closed_without_reply": closed, "stored_records": stored,
            "stored_records_stale_or_without_master": unlistable, "reply_cases_with_filter": filtered,
            "reply_cases_with_declared_clauses": declared, "requests_over_2048_bytes_no_reply": oversize,
            "requests_over_2048_bytes_replied_declared_length_within_buffer": over_reply}


CFG = {
    "module": "Swat4.Properties.C01",
    "theorems": [
        "Swat4.C01.C01_main",
        "Swat4.C01.C01_main_bounded",
        "Swat4.C01.C01_oversize_no_reply",
        "Swat4.C01.sdkDecode_pack",
        "Swat4.C01.sdkDecode_pack_marshalled",
        "Swat4.C01.parse_encodeReq",
        "Swat4.C01.parse_encodeReq_cfg",
        "Swat4.C01.parse_total",
        "Swat4.C01.parse_total_cfg",
        "Swat4.C01.consumeString_total",
        "Swat4.C01.facts_ok",
        "Swat4.C01.facts_parse_ok",
        "Swat4.C01.known_nulFree",
        "Swat4.BrowserReqBridge.newRequest_eq",
        "Swat4.BrowserReqBridge.facts_agree",
        # C01 ∘ C03: the handler as one function of the request bytes and the registry
        "Swat4.C01.browser_end_to_end",
        "Swat4.C01.browser_end_to_end_any_order",
        "Swat4.C01.browser_end_to_end_listing",
        "Swat4.C01.browser_lists_only_matching",
        "Swat4.C01.browser_lists_all_matching",
        "Swat4.C01.browser_malformed_filter_lists_all_live",
        "Swat4.C01.keeps_eq_matching",
        "Swat4.C01.listing_eq_matching",
        "Swat4.C01.listing_perm_matching",
        "Swat4.C01.clausesOf_parsed",
        "Swat4.C01.clausesOf_text",
        "Swat4.C01.clausesOf_malformed",
        "Swat4.BrowserE2E.schemas_agree",
        "Swat4.BrowserE2E.wellTyped_infoVals",
        "Swat4.BrowserE2E.paramValue_infoVals",
        "Swat4.BrowserE2E.entryOf_eq",
        "Swat4.BrowserE2E.listStored_row",
        "Swat4.BrowserE2E.listStored_perm",
        "Swat4.C01.E2EExample.plaintext_decodes",
        # "integers in decimal": Browsing.decimal (shared with the reference renderer) characterised on its own
        "Swat4.C01.decimal_spec",
        "Swat4.C01.decimal_atoi",
        "Swat4.C01.decimal_bytes",
        "Swat4.C01.decimal_no_plus",
        "Swat4.C01.decimal_eq_renderInt",
        "Swat4.C01.facts_browser_read_buffer",
        "Swat4.C01.facts_partial_ops_browser",
        "Swat4.C01.recoverRnd_reply",
    ],
    # proved in the Lean files and used by other proofs, but NOT audited as property theorems: each is a
    # read-back of a definition, glue between two names, true by type, or a corollary of an audited theorem
    "supporting": [
        {"name": "Swat4.C01.gameKey_eq", "why": "read-back of the definition (`rfl`: two names of the same constant)"},
        {"name": "Swat4.C01.readBuffer_eq", "why": "read-back of the definition (`rfl`: two spellings of the read-buffer size)"},
        {"name": "Swat4.C01.expectedList_entries", "why": "read-back of the definition (unfolds `expectedList`; used by browser_lists_only/all_matching)"},
        {"name": "Swat4.C01.selected_blank", "why": "read-back of the definition (`FilterSpec.selected` unfolded for the empty clause list)"},
        {"name": "Swat4.BrowserE2E.browserHandle_ok", "why": "glue (unfolds `browserHandle` under the hypothesis that the payload parses)"},
        {"name": "Swat4.BrowserE2E.browserHandle_error", "why": "glue (unfolds `browserHandle` under the hypothesis that the payload is rejected)"},
        {"name": "Swat4.BrowserE2E.listServers_eq_filter_keeps", "why": "glue (`Filter.listServers` rewritten as one `List.filter`; used by keeps_eq_matching)"},
        {"name": "Swat4.C01.E2EExample.reply_decodes", "why": "redundant: instance of the audited `browser_end_to_end` on the sample registry (derived from the theorem, not evaluated; the evaluated witness is `plaintext_decodes`)"},
        {"name": "Swat4.C01.E2EExample.reply_decodes_malformed", "why": "redundant: instance of the audited `browser_end_to_end` on the sample registry with a malformed filter (derived, not evaluated)"},
    ],
    "shards": (4, 16),
    "nontrivial": _c01_nontrivial,
    "extra_evidence": _c01_extra,
    "rule": "ops: `req` = browsing.NewRequest on well-formed (encodeReq) and malformed payloads (length prefix off by a little, "
            "truncation, trailing bytes, bad option words, short challenge, NUL in names, missing leading backslash, random bytes, "
            "byte flips/removals, minimum length and one below); `reply` = structured requests (1..25 raw fields in random order "
            "with unknown names mixed in, random challenges incl. 00/FF runs, both option words, random header/game names) sent over "
            "a loopback TCP connection to the real browser.Handler, with empty, well-formed (1..3 clauses around values the registry "
            "stores, over gametype/gamevariant/gamever/numplayers/password and every other queryable field, with the clauses "
            "declared to the driver), malformed and random filter strings, one request in 25 padded by a long filter or many "
            "fields to 2047/2048/2049/2050/4000 bytes (the handler reads 2048 once), against registries of 0..N records planted "
            "through the real servers repository - mostly live master records, one in seven without the master bit, a third "
            "refreshed at/one tick before/one tick after now-liveness, long ago, never (zero time) or ahead of the clock, and one "
            "registry per run with exactly 300 selected servers (strings from ASCII, UTF-8/latin-1 text, SWAT markup, bytes 00/FF/5C and end-marker look-alikes, "
            "empty, 1-2 KiB; ints incl. negative and 64-bit extremes; query ports beyond 16 bits; server IPs incl. x.255.255.255); "
            "`replyraw` = malformed payloads through the same handler, incl. requests followed by bytes beyond the read buffer "
            "with the declared length inside or outside it. Compared: parser outcome; the full encrypted reply bytes against "
            "BrowserE2E.browserHandle (the function of browser_end_to_end: 2048-byte cut, NewRequest, filter string -> query, "
            "listing with status master and the harness's clock and liveness over the stored registry, packServers, Encrypt) "
            "with `order` = the order the reply lists the servers in and the header draws recovered from the reply. Oracle: "
            "SDK reference decryption + SDK framing decoder on the implementation's bytes equals the promised list (entries as a "
            "multiset) for the stored servers that FilterSpec.selected accepts under the declared clauses (the model's reading "
            "when none is declared); a well-formed request over 2048 bytes gets no reply. non-trivial = a structured request against a non-empty registry, or a parser payload of >= 26 bytes",
    "assumptions": [
        "the SDK server-list framing rules (Spec/ServerList.lean) and the SDK cipher (Spec/GOA.lean) are transcriptions from knowledge of the GameSpy SDK; its sources are not available offline",
        "no listed server has the address 255.255.255.255 (the SDK's end-of-list marker); addr.New rejects it (C17)",
        "C01_main takes the selected list as a parameter; browser_end_to_end composes it with C03's selection (BrowserE2E.browserHandle: parse, filter string -> query, listservers over a registry of Stored servers, pack, encrypt). The C01 driver runs browserHandle itself (Drv/C01.lean imports Lemmas/BrowserEndToEnd.lean) on registries with stale, never-refreshed and non-master records and non-empty filters; the clock of the C01 harness does not move and its liveness is the default 180 s (C03's `blist`/`list` streams vary both)",
        "browser_end_to_end: a stored server is BrowserE2E.Stored = the filter model's Record (status, refreshedAt, named Info; addr an opaque key) plus Addr.IP, Addr.Port, QueryPort; the Info values packServers renders are computed from the record the filter is evaluated on (infoVals), assuming the record has the details.Info shape (Shaped Facts.infoSchema: Go's typing) — the filter model's and the browser model's schemas are proved equal (schemas_agree)",
        "the handler's single Read into a 2048-byte buffer is modelled as 'the first 2048 bytes sent' (C01_main_bounded / C01_oversize_no_reply; exercised over loopback TCP with requests of 2047..4000 bytes written in one piece - when the handler closes with unread bytes the kernel resets the connection, which the harness reads as end of stream); TCP segmentation (a request delivered in several segments is cut at the first by the same code), IPv6 peers and JSON storage of info strings (invalid UTF-8 is coerced on storage; the check reads the registry back before the request) are outside the model",
        "listing order is Go map order: the model is run in the order the reply lists the servers; the oracle compares entries as multisets. In browser_end_to_end_any_order and the corollaries the order is a parameter `order` assumed only to permute the repository's result; browser_end_to_end is the instance order = id (registry order, the filter model's order)",
    ],
    "trusted_base": COMMON_TRUSTED + [
        "Spec/ServerList.lean (sdkDecode, encodeReq/WfReq) and Spec/ServerListExpected.lean (expectedList) as the meaning of 'decodes to exactly the selected servers'",
        "Spec/FilterSpec.lean (`selected`, `sat`, `Clause`) as the meaning of 'the servers the request's filter selects' in browser_end_to_end (shared with C03)",
        "generated Facts.lean section `browsing` (whitelist via go/ast cross-checked against the compiled filter.IsQueryField, field cap, minimum length, Info schema via reflection with params.GetParamName)",
    ],
    "manifest": {
        "text": "Lean theorem C01_main: for every well-formed list request (encodeReq/WfReq) with 1..MaxAllowedNumberOfFields known fields, every requester address, every list of selected servers (well-typed records, none with the all-ones address) and every 23 cipher header draws, the model of Handler.process replies, and the reply decrypted by the SDK reference cipher (C02) and decoded by the independently written SDK framing decoder is exactly the promised list: requester IPv4 and port mod 65536, the known fields in request order, one entry per selected server with IPv4, uint16 query port and the stored value of every declared field (ints decimal, bools 0/1, empty for a missing field, NUL bytes dropped), end marker, nothing after it. C01_main_bounded: the same with the handler's 2048-byte read explicit, for requests of at most 2048 bytes; C01_oversize_no_reply: a well-formed request longer than 2048 bytes fails NewRequest's length test (ErrInvalidRequestFormat) and gets no reply. sdkDecode_pack: the same for packServers alone, any <=255 NUL-free field names and any schema with distinct names; sdkDecode_pack_marshalled: without the typing hypothesis (servers whose Info does not marshal are skipped). parse_encodeReq: NewRequest on a well-formed request filters through the whitelist before the cap, in request order. parse_total: NewRequest never indexes/slices out of range and its field loop terminates, for every input. BrowserReqBridge.newRequest_eq: the model of NewRequest used here and the independently written one used by C06 (BrowserReq06.newRequest) return the same outcome class and field list on every byte string. browser_end_to_end (C01 composed with C03; Lemmas/BrowserEndToEnd.lean: browserHandle = 2048-byte read, NewRequest, query of the request's filter string (blank when empty or rejected), listservers with status master over a registry of stored servers, packServers, Encrypt): for every well-formed request r of at most 2048 bytes with 1..MaxAllowedNumberOfFields known fields, every registry, clock, liveness, requester and header draws (matching records of the details.Info shape, none with the all-ones address) the handler replies and the reply decrypts+decodes to exactly expectedList for the requester, r's known fields in order and the stored servers recs.filter(matching) — status master, refreshed at or after now-liveness, every clause of r.filter satisfied (C03's `selected`) — in registry order, with the stored field values (entryOf_eq: looked up by name in the record the filter read). browser_end_to_end_any_order: the same for any order the repository returns its result in (Go map iteration): the listing is a permutation of recs.filter(matching). Corollaries for any order: browser_lists_only_matching (every decoded entry is the entry of a matching stored server), browser_lists_all_matching (every matching server's entry is present, the entry count equals the number of matching servers, entry multiplicities agree, exactly once when matching servers have distinct entries), browser_malformed_filter_lists_all_live (a rejected filter string lists all live master servers). E2EExample.*: a concrete four-server registry and filtered request evaluated by the kernel (plaintext decode computed; the cipher step via the theorem). recoverRnd_reply: the driver-only reconstruction of the 23 cipher header draws from the reply (Drv.C01.recoverRnd under the game key and the parsed challenge) succeeds on every reply the handler model produces for unknown draws and the handler model run with the reconstructed draws answers exactly that reply (C02.recoverRnd_encrypt lifted to browserHandle). facts_ok/facts_parse_ok: the side conditions on the generated whitelist, cap, minimum length and Info schema. The model is tied to the code by differential runs of browsing.NewRequest and of the real browser.Handler over loopback TCP against registries planted through the real repository (the driver runs browserHandle itself: non-empty filters, stale, never-refreshed and non-master records, requests up to 4000 bytes against the 2048-byte read); the SDK decoder is also run on the Go bytes.",
        "level_note": "Trusted: Lean kernel; axioms propext, Quot.sound, Classical.choice; the SDK framing/cipher references as the definition of 'stock client'; the finite differential run as evidence that Model/Browsing.lean behaves like the Go code; generated Facts.lean.",
        "technique": "Lean 4 proof (round-trip by structural induction with scanner lemmas; composition with C02) + differential correspondence",
        "design_ref": "DESIGN.md §5 C01",
    },
}
