from props import COMMON_TRUSTED


def _c01_nontrivial(t):
    # reply … <servers>: a structured request against a non-empty registry;
    # req <payload>: any payload of at least the minimum request length
    if len(t) >= 11 and t[1] == "reply":
        return t[10] != "_"
    if len(t) >= 3 and t[1] == "req":
        return len(t[2]) >= 52
    return False


def _c01_extra(results):
    replies = closed = entries = 0
    for inp, out, v, src in results:
        t = inp.split()
        if len(t) >= 2 and t[1] in ("reply", "replyraw"):
            o = out.split()
            if o and o[-1] == "closed":
                closed += 1
            elif o:
                replies += 1
                if len(o) >= 2 and o[-2] != "_":
                    entries += o[-2].count(",") + 1
    return {"handler_replies": replies, "handler_closed_without_reply": closed, "listed_entries_decoded": entries}


CFG = {
    "module": "Swat4.Properties.C01",
    "theorems": [
        "Swat4.C01.C01_main",
        "Swat4.C01.C01_main_bounded",
        "Swat4.C01.C01_oversize_no_reply",
        "Swat4.C01.sdkDecode_pack",
        "Swat4.C01.sdkDecode_pack_marshalled",
        "Swat4.C01.parse_encodeReq",
        "Swat4.C01.parse_encodeReq_cfg",
        "Swat4.C01.parse_total",
        "Swat4.C01.parse_total_cfg",
        "Swat4.C01.consumeString_total",
        "Swat4.C01.facts_ok",
        "Swat4.C01.facts_parse_ok",
        "Swat4.C01.known_nulFree",
        "Swat4.C01.gameKey_eq",
        "Swat4.BrowserReqBridge.newRequest_eq",
        "Swat4.BrowserReqBridge.facts_agree",
    ],
    "shards": (4, 16),
    "nontrivial": _c01_nontrivial,
    "extra_evidence": _c01_extra,
    "rule": "ops: `req` = browsing.NewRequest on well-formed (encodeReq) and malformed payloads (length prefix off by a little, "
            "truncation, trailing bytes, bad option words, short challenge, NUL in names, missing leading backslash, random bytes, "
            "byte flips/removals, minimum length and one below); `reply` = structured requests (1..25 raw fields in random order "
            "with unknown names mixed in, random challenges incl. 00/FF runs, both option words, random header/game names) sent over "
            "a loopback TCP connection to the real browser.Handler, against registries of 0..N records planted through the real "
            "servers repository (strings from ASCII, UTF-8/latin-1 text, SWAT markup, bytes 00/FF/5C and end-marker look-alikes, "
            "empty, 1-2 KiB; ints incl. negative and 64-bit extremes; query ports beyond 16 bits; server IPs incl. x.255.255.255); "
            "`replyraw` = malformed payloads through the same handler. Compared: parser outcome; the full encrypted reply bytes "
            "(model run on the stored registry in the order the reply lists it, header draws recovered from the reply). Oracle: "
            "SDK reference decryption + SDK framing decoder on the implementation's bytes equals the promised list (entries as a "
            "multiset). non-trivial = a structured request against a non-empty registry, or a parser payload of >= 26 bytes",
    "assumptions": [
        "the SDK server-list framing rules (Spec/ServerList.lean) and the SDK cipher (Spec/GOA.lean) are transcriptions from knowledge of the GameSpy SDK; its sources are not available offline",
        "no listed server has the address 255.255.255.255 (the SDK's end-of-list marker); addr.New rejects it (C17)",
        "the selection (live, master status, filter) is property C03: C01_main takes the selected list as a parameter; the harness plants only fresh master-status records and sends an empty filter",
        "the handler's single Read into a 2048-byte buffer is modelled as 'the first 2048 bytes sent' (C01_main_bounded / C01_oversize_no_reply); TCP segmentation (a request delivered in several segments is cut at the first by the same code), IPv6 peers and JSON storage of info strings (invalid UTF-8 is coerced on storage; the check reads the registry back before the request) are outside the model",
        "listing order is Go map order: the model is run in the order the reply lists the servers; the oracle compares entries as multisets",
    ],
    "trusted_base": COMMON_TRUSTED + [
        "Spec/ServerList.lean (sdkDecode, encodeReq/WfReq) and Spec/ServerListExpected.lean (expectedList) as the meaning of 'decodes to exactly the selected servers'",
        "generated Facts.lean section `browsing` (whitelist via go/ast cross-checked against the compiled filter.IsQueryField, field cap, minimum length, Info schema via reflection with params.GetParamName)",
    ],
    "manifest": {
        "text": "Lean theorem C01_main: for every well-formed list request (encodeReq/WfReq) with 1..MaxAllowedNumberOfFields known fields, every requester address, every list of selected servers (well-typed records, none with the all-ones address) and every 23 cipher header draws, the model of Handler.process replies, and the reply decrypted by the SDK reference cipher (C02) and decoded by the independently written SDK framing decoder is exactly the promised list: requester IPv4 and port mod 65536, the known fields in request order, one entry per selected server with IPv4, uint16 query port and the stored value of every declared field (ints decimal, bools 0/1, empty for a missing field, NUL bytes dropped), end marker, nothing after it. C01_main_bounded: the same with the handler's 2048-byte read explicit, for requests of at most 2048 bytes; C01_oversize_no_reply: a well-formed request longer than 2048 bytes fails NewRequest's length test (ErrInvalidRequestFormat) and gets no reply. sdkDecode_pack: the same for packServers alone, any <=255 NUL-free field names and any schema with distinct names; sdkDecode_pack_marshalled: without the typing hypothesis (servers whose Info does not marshal are skipped). parse_encodeReq: NewRequest on a well-formed request filters through the whitelist before the cap, in request order. parse_total: NewRequest never indexes/slices out of range and its field loop terminates, for every input. BrowserReqBridge.newRequest_eq: the model of NewRequest used here and the independently written one used by C06 (BrowserReq06.newRequest) return the same outcome class and field list on every byte string. facts_ok/facts_parse_ok: the side conditions on the generated whitelist, cap, minimum length and Info schema. The model is tied to the code by differential runs of browsing.NewRequest and of the real browser.Handler over loopback TCP against registries planted through the real repository; the SDK decoder is also run on the Go bytes.",
        "level_note": "Trusted: Lean kernel; axioms propext, Quot.sound, Classical.choice; the SDK framing/cipher references as the definition of 'stock client'; the finite differential run as evidence that Model/Browsing.lean behaves like the Go code; generated Facts.lean.",
        "technique": "Lean 4 proof (round-trip by structural induction with scanner lemmas; composition with C02) + differential correspondence",
        "design_ref": "DESIGN.md §5 C01",
    },
}
