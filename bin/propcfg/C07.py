import os
import re

from props import COMMON_TRUSTED

# inventory of partial operations of gs1.go the model was written against (function, kind, operand text);
# regenerated into Gen/Facts.lean on every run, compared in the evidence (DESIGN.md §4: drift is reported, not a violation)
_EXPECTED_PARTIAL_OPS = [
    "getResponse slice buffer[:n]",
    "collectPayload index ordered[inspected.order]",
    "collectPayload index ordered[i]",
    "expandPayload slice param.Name[4:]",
    "expandPayload slice param.Name[i+1:]",
    "expandPayload index playersByID[id]",
    "expandPayload index playersByID[id]",
    "expandPayload index playersByID[id][string(param.Name[:i])]",
    "expandPayload index playersByID[id]",
    "expandPayload slice param.Name[:i]",
    "expandPayload index fields[string(param.Name)]",
    "parseParams index fields[i-1]",
    "parseParams index fields[i]",
    "collectPlayers index playersByID[id]",
    "consumeField slice payload[1:]",
    "consumeField slice consumed[:i]",
    "consumeField slice consumed[i:]",
    "consumeFieldFromRight slice consumed[i+1:]",
    "consumeFieldFromRight slice consumed[:i]",
]

# the same for the post-query stage of the details prober (detailsprober.go, details/*.go, params/encode.go, utils.go,
# validation.go, validators/*.go): file, function, kind, operand text
_EXPECTED_DETAILS_PARTIAL_OPS = [
    "detailsprober.go HandleSuccess assert result.(details.Details)",
    "detailsprober.go HandleSuccess panic",
    "details.go MustNewDetailsFromParams panic",
    "details.go NewDetailsFromParams index players[i]",
    "details.go NewDetailsFromParams index details.Players[i]",
    "details.go NewDetailsFromParams index objectives[i]",
    "details.go NewDetailsFromParams index details.Objectives[i]",
    "info.go MustNewInfoFromParams panic",
    "encode.go unmarshal index params[paramName]",
    "validation.go MustNew panic",
]


def _c07_nontrivial(t):
    # q/flood/dp timeout dgrams: at least one non-empty datagram
    return len(t) >= 4 and t[3] not in ("_", "-")


def _c07_extra(results):
    classes = {}
    late = 0
    for inp, out, v, src in results:
        toks = out.split()
        k = toks[0] if toks else "none"
        if k.startswith("panic:"):
            k = "panic"
        elif k.startswith("err:other"):
            k = "err:other"
        elif k.startswith("err-other"):
            k = "err-other"
        elif k.startswith("ok:"):
            k = "ok"
        if inp.split()[1:2] == ["dp"]:
            k = "dp:" + k
        classes[k] = classes.get(k, 0) + 1
        if "late" in toks:
            late += 1
    facts = os.path.join(os.path.dirname(os.path.dirname(os.path.abspath(__file__))), "..", "lean", "Swat4", "Gen", "Facts.lean")
    drift = None
    ddrift = None
    try:
        text = open(facts).read()
        m = re.search(r"def gs1PartialOps : List String := \[(.*)\]", text)
        got = re.findall(r'"((?:[^"\\]|\\.)*)"', m.group(1)) if m else None
        drift = None if got is None else (got != _EXPECTED_PARTIAL_OPS)
        m = re.search(r"def detailsPartialOps : List String := \[(.*)\]", text)
        got = re.findall(r'"((?:[^"\\]|\\.)*)"', m.group(1)) if m else None
        ddrift = None if got is None else (got != _EXPECTED_DETAILS_PARTIAL_OPS)
    except OSError:
        pass
    return {"impl_result_classes": classes, "late_returns": late, "partial_op_inventory_drift": drift,
            "details_partial_op_inventory_drift": ddrift}


CFG = {
    "module": "Swat4.Properties.C07",
    "theorems": [
        "Swat4.C07.feed_total",
        "Swat4.C07.feed_terminates",
        "Swat4.C07.feed_cases",
        "Swat4.C07.runQuery_classes",
        "Swat4.C07.empty_datagram",
        "Swat4.C07.inspect_total",
        "Swat4.C07.collect_total",
        "Swat4.C07.collect_within_cap",
        "Swat4.C07.parse_total",
        "Swat4.C07.expand_total",
        "Swat4.C07.facts_ok",
        # the driver's finite stand-in for a flooding responder (Drv/C07 `ds ++ ds ++ ds`) is exact
        "Swat4.C07.flood_stabilises",
        "Swat4.C07.flood_three_suffice",
        "Swat4.C07.flood_single_stabilises",
        "Swat4.C07.flood_one_pass_not_enough",
        "Swat4.C07.details_facts_ok",
        # detailsOf_total is no longer audited: DetailsProbe.Outcome has exactly the three constructors it lists, so it holds of any
        # function into that type (proof = cases); it stays in the file because probe_classes cites it. probe_total stays: ProbeResult
        # does have panic/hang constructors and the proof rests on runQuery_classes (only its details-stage half is by construction).
        "Swat4.C07.probe_classes",
        "Swat4.C07.probe_total",
        "Swat4.C07.accepted_sound",
        "Swat4.C07.probe_ok_accepted",
        "Swat4.C07.ratioOk_iff_spec",
        "Swat4.C07.ratioSpec_iff_spec",
        "Swat4.C07.ratio_rejects_two_slashes",
        "Swat4.C07.ratio_tag_rejects_two_slashes",
        "Swat4.C07.accepted_hostport",
        "Swat4.C07.accepted_ratios",
        "Swat4.C07.accepted_players",
        "Swat4.C07.accepted_objectives",
        # completeness of the details stage (a stage that rejects everything fails these)
        "Swat4.C07.details_cover_ok",
        "Swat4.C07.unmarshal_iff_reads",
        "Swat4.C07.detailsOf_complete",
        "Swat4.C07.detailsOf_ok_iff",
        "Swat4.C07.detailsOf_errValidate_iff",
        "Swat4.C07.details_params_nodup",
        "Swat4.C07.detailsOf_encode",
    ],
    # proved in the Lean files (and built with the module) but NOT audited as property theorems: each is a read-back of a
    # definition, glue between two names, true by type, or a restatement of an audited theorem
    "supporting": [
        {"name": "Swat4.C07.detailsOf_total", "why": "true by type: `DetailsProbe.Outcome` has exactly the three constructors the statement lists (proof = cases); cited by probe_classes"},
    ],
    "shards": (8, 16),
    "nontrivial": _c07_nontrivial,
    "extra_evidence": _c07_extra,
    "rule": "datagram sequences delivered by a scripted UDP responder on 127.0.0.1 to the real gs1.Query (150 ms timeout): "
            "protocol-flavoured arbitrary bytes; valid vanilla/AdminMod/GS1 responses from the encoder and from the repository's "
            "captured fixtures, as they are, shuffled, every truncation of the fragment delivered last, single-byte "
            "replace/insert/delete mutations biased to the framing at both ends; names and values of length 0..3 (incl. o, ob, obj, "
            "obj_, _, a_, _1) at the very end of the reassembled payload in every dialect and in two-fragment orders; empty datagrams "
            "at every position; duplicate, missing, zero, negative, signed, huge (2^63-1, 2^63, 2^64) and non-numeric fragment "
            "numbers with finals anywhere; all permutations of 2..4-fragment responses plus a duplicate; mixed dialects; datagrams "
            "longer than the 2048-byte read buffer; a responder that floods a never-completing fragment. Compared: result class "
            "(response/err:incomplete/err:malformed/timeout) and the canonical decoded content; oracle on the implementation's "
            "output: no panic (recovered on the calling goroutine), returned within timeout+1.5 s. "
            "Op dp runs the real DetailsProber.Probe (gs1.Query -> details.NewDetailsFromParams -> Details.Validate with the ratio validator) "
            "against the same responder: statuses the prober accepts (0..16 players, 0..7 objectives, optional fields left out at random) in all "
            "six dialects, 1..7 fragments, shuffled at random; every value of targeted pools once per kind of field and then one or two random "
            "mutations per case - ratio fields: empty, 0/0, 1/2, 1/2/3, 0/0/0, 1//2, /1, 1/, /, //, signed parts (-1/2, +1/2, 1/-2, -0/5, +0/+0), "
            "padded, non-ASCII digits, 2^63-1, 2^63 and 20-digit parts, leading zeros, 0x, _; int fields: empty, signs, hex, exponent, padded, "
            "2^31, 2^63-1, 2^63, -2^63, -2^63-1; bool fields: 1 0 true false TRUE yes empty 2 ...; team/coopstatus/objective status: -1..6, +1, 01, -0; "
            "required fields missing or empty (incl. hostport, player name); unknown and misplaced names; plus every 10th stream of op q. Compared: "
            "result class (ok/err-timeout/err-query/err-parse/err-validate) and the canonical rendering of the returned details.Details; oracle "
            "on the implementation's output: no panic, returned within timeout+1.5 s, and a returned details value satisfies every validated "
            "constraint (DetailsSpec.accepted, read back from the rendering). non-trivial = at least one non-empty datagram",
    "assumptions": [
        "the read-deadline goroutine of gs1.Query (conn.SetReadDeadline on context expiry) is runtime behaviour: measured (never `late`), not proved; the model's `timeout` outcome stands for it",
        "the model's slice bound is len (Go's is cap for s[:hi]): the model panics at least whenever the code would",
        "datagrams longer than 2048 bytes are cut by the read (Linux recvfrom semantics), modelled as take 2048",
        "the inventory of index/slice expressions of gs1.go the model was written against is regenerated into Gen/Facts.lean; drift is reported in the evidence (partial_op_inventory_drift), not a violation",
        "post-query stage: the struct schemas (field order, param names, kinds, validate tags of details.Info/Player/Objective and the tags of details.Details) are regenerated from the compiled packages on every run; details_facts_ok (by decide) is everything the model and the theorems assume about them",
        "validator semantics modelled, not proved (go-playground/validator v10.26.0 as vendored in the module cache; tied by the differential run): `required` on the non-pointer struct field Info is skipped (validator.New() without WithRequiredStructEnabled) and the nested struct is validated; `dive` validates every slice element, an empty slice passes; `required` = non-zero value; `oneof` on an int compares strconv.FormatInt with the space-separated items; a custom validator is run on empty strings too; the result is an error iff any tag of any field fails",
        "the inventory of partial operations of the post-query stage (Facts.detailsPartialOps) is reported in the evidence when it drifts (details_partial_op_inventory_drift), not a violation; a panic inside a validator or Unmarshal is caught by the differential run as the output panic:<text>",
        "the panic is recovered on the goroutine that calls Probe (in production a proberunner worker without recover); Probe starts no goroutine of its own besides gs1.Query's deadline watcher",
    ],
    "trusted_base": COMMON_TRUSTED + [
        "go-playground/validator v10.26.0 semantics of required/gt/gte/oneof/dive as modelled in Model/Details.lean and Model/Heartbeat.lean (tied by the differential run of op dp)",
        "struct schemas read by reflection from the compiled details package into Gen/Facts.lean",
    ],
    "manifest": {
        "text": "Lean theorems over the model of gs1.go (every index/slice expression a checked operation with outcome panic, the scan loop on fuel with outcome hang): feed_total/feed_terminates — processing any datagram after any received prefix neither panics nor loops; feed_cases/runQuery_classes — every datagram sequence ends in response, error (incomplete/malformed) or timeout; empty_datagram; per-function totality (inspect_total, collect_total, parse_total, expand_total); collect_within_cap — the buffer capacity is the sum over all inspected fragments. The model is tied to the code by running the real gs1.Query against a scripted UDP responder on hostile sequences and comparing result class and decoded content; panics are recovered and reported, latency beyond timeout+slack is reported as late. "
                "Post-query stage of the details prober (Model/Details.lean = details.NewDetailsFromParams + Details.Validate over the generated struct schemas, composed with runQuery as DetailsProbe.probe): "
                "probe_classes/probe_total - every datagram sequence ends in a details value, err-timeout, err-query, err-parse or err-validate, never panic or hang (the details stage's own totality, detailsOf_total, is true by the type of its outcome and is not audited); detailsOf_complete/detailsOf_ok_iff/detailsOf_errValidate_iff - completeness: a response whose entries parse field by field (unmarshal_iff_reads) to a value satisfying DetailsSpec.accepted is accepted with exactly that value, and the stage returns d iff NewDetailsFromParams yields d and accepted d (details_cover_ok: every validate tag of the generated schemas is backed by a constraint of the spec); detailsOf_encode - every accepted value of the Go types' shape is returned on its own encoding; "
                "accepted_sound/probe_ok_accepted - a returned details value satisfies the independently written DetailsSpec.accepted (host port > 0, required strings non-empty, gte=0 counters >= 0, "
                "team in 0..2, co-op status in 0..4, objective status in 0..2, both ratio fields in RatioSpec), with accepted_hostport/_ratios/_players/_objectives as field-by-field readings; "
                "ratioOk_iff_spec - the model's ValidateRatio accepts exactly RatioSpec (empty, or number/number under strconv.Atoi's sign rules); ratio_rejects_two_slashes/ratio_tag_rejects_two_slashes - "
                "every value with two or more '/' is rejected; details_facts_ok - the assumptions about the generated schemas. Tied to the code by op dp: the real DetailsProber.Probe against the responder, "
                "class and canonical details rendering compared, DetailsSpec.accepted evaluated on the value the implementation returned.",
        "level_note": "Trusted: Lean kernel; axioms propext, Quot.sound, Classical.choice; the finite differential run as evidence that Model/GS1.lean behaves like gs1.go; generated Facts.lean (FINAL/EOF, buffer size, dialect order; struct schemas of details.Info/Player/Objective/Details); the modelled semantics of go-playground/validator v10.26.0 (required on a struct field, dive, oneof, required) as far as the differential run exercises them. Partial by nature: 'never outlives its deadline' is measured by the harness (timeout/flood responders), not proved; worker goroutines without recover are covered only in so far as gs1.Query itself cannot panic (this property) and the outcome handlers are total (C13).",
        "technique": "Lean 4 proof (totality of an explicit-partiality model) + differential correspondence over a real UDP socket",
        "design_ref": "DESIGN.md §5 C07",
    },
}
