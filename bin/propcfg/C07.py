import os
import re

from props import COMMON_TRUSTED

# inventory of partial operations of gs1.go the model was written against (function, kind, operand text);
# regenerated into Gen/Facts.lean on every run, compared in the evidence (DESIGN.md §4: drift is reported, not a violation)
_EXPECTED_PARTIAL_OPS = [
    "getResponse slice buffer[:n]",
    "collectPayload index ordered[inspected.order]",
    "collectPayload index ordered[i]",
    "expandPayload slice param.Name[4:]",
    "expandPayload slice param.Name[i+1:]",
    "expandPayload index playersByID[id]",
    "expandPayload index playersByID[id]",
    "expandPayload index playersByID[id][string(param.Name[:i])]",
    "expandPayload index playersByID[id]",
    "expandPayload slice param.Name[:i]",
    "expandPayload index fields[string(param.Name)]",
    "parseParams index fields[i-1]",
    "parseParams index fields[i]",
    "collectPlayers index playersByID[id]",
    "consumeField slice payload[1:]",
    "consumeField slice consumed[:i]",
    "consumeField slice consumed[i:]",
    "consumeFieldFromRight slice consumed[i+1:]",
    "consumeFieldFromRight slice consumed[:i]",
]


def _c07_nontrivial(t):
    # q/flood timeout dgrams: at least one non-empty datagram
    return len(t) >= 4 and t[3] not in ("_", "-")


def _c07_extra(results):
    classes = {}
    late = 0
    for inp, out, v, src in results:
        toks = out.split()
        k = toks[0] if toks else "none"
        if k.startswith("panic:"):
            k = "panic"
        elif k.startswith("err:other"):
            k = "err:other"
        classes[k] = classes.get(k, 0) + 1
        if "late" in toks:
            late += 1
    facts = os.path.join(os.path.dirname(os.path.dirname(os.path.abspath(__file__))), "..", "lean", "Swat4", "Gen", "Facts.lean")
    drift = None
    try:
        m = re.search(r"def gs1PartialOps : List String := \[(.*)\]", open(facts).read())
        got = re.findall(r'"((?:[^"\\]|\\.)*)"', m.group(1)) if m else None
        drift = None if got is None else (got != _EXPECTED_PARTIAL_OPS)
    except OSError:
        pass
    return {"impl_result_classes": classes, "late_returns": late, "partial_op_inventory_drift": drift}


CFG = {
    "module": "Swat4.Properties.C07",
    "theorems": [
        "Swat4.C07.feed_total",
        "Swat4.C07.feed_terminates",
        "Swat4.C07.feed_cases",
        "Swat4.C07.runQuery_classes",
        "Swat4.C07.empty_datagram",
        "Swat4.C07.inspect_total",
        "Swat4.C07.collect_total",
        "Swat4.C07.collect_within_cap",
        "Swat4.C07.parse_total",
        "Swat4.C07.expand_total",
        "Swat4.C07.facts_ok",
    ],
    "shards": (8, 16),
    "nontrivial": _c07_nontrivial,
    "extra_evidence": _c07_extra,
    "rule": "datagram sequences delivered by a scripted UDP responder on 127.0.0.1 to the real gs1.Query (150 ms timeout): "
            "protocol-flavoured arbitrary bytes; valid vanilla/AdminMod/GS1 responses from the encoder and from the repository's "
            "captured fixtures, as they are, shuffled, every truncation of the fragment delivered last, single-byte "
            "replace/insert/delete mutations biased to the framing at both ends; names and values of length 0..3 (incl. o, ob, obj, "
            "obj_, _, a_, _1) at the very end of the reassembled payload in every dialect and in two-fragment orders; empty datagrams "
            "at every position; duplicate, missing, zero, negative, signed, huge (2^63-1, 2^63, 2^64) and non-numeric fragment "
            "numbers with finals anywhere; all permutations of 2..4-fragment responses plus a duplicate; mixed dialects; datagrams "
            "longer than the 2048-byte read buffer; a responder that floods a never-completing fragment. Compared: result class "
            "(response/err:incomplete/err:malformed/timeout) and the canonical decoded content; oracle on the implementation's "
            "output: no panic (recovered on the calling goroutine), returned within timeout+1.5 s. non-trivial = at least one non-empty datagram",
    "assumptions": [
        "the read-deadline goroutine of gs1.Query (conn.SetReadDeadline on context expiry) is runtime behaviour: measured (never `late`), not proved; the model's `timeout` outcome stands for it",
        "the model's slice bound is len (Go's is cap for s[:hi]): the model panics at least whenever the code would",
        "datagrams longer than 2048 bytes are cut by the read (Linux recvfrom semantics), modelled as take 2048",
        "the inventory of index/slice expressions of gs1.go the model was written against is regenerated into Gen/Facts.lean; drift is reported in the evidence (partial_op_inventory_drift), not a violation",
    ],
    "trusted_base": COMMON_TRUSTED,
    "manifest": {
        "text": "Lean theorems over the model of gs1.go (every index/slice expression a checked operation with outcome panic, the scan loop on fuel with outcome hang): feed_total/feed_terminates — processing any datagram after any received prefix neither panics nor loops; feed_cases/runQuery_classes — every datagram sequence ends in response, error (incomplete/malformed) or timeout; empty_datagram; per-function totality (inspect_total, collect_total, parse_total, expand_total); collect_within_cap — the buffer capacity is the sum over all inspected fragments. The model is tied to the code by running the real gs1.Query against a scripted UDP responder on hostile sequences and comparing result class and decoded content; panics are recovered and reported, latency beyond timeout+slack is reported as late.",
        "level_note": "Trusted: Lean kernel; axioms propext, Quot.sound, Classical.choice; the finite differential run as evidence that Model/GS1.lean behaves like gs1.go; generated Facts.lean (FINAL/EOF, buffer size, dialect order). Partial by nature: 'never outlives its deadline' is measured by the harness (timeout/flood responders), not proved; worker goroutines without recover are covered only in so far as gs1.Query itself cannot panic (this property) and the outcome handlers are total (C13).",
        "technique": "Lean 4 proof (totality of an explicit-partiality model) + differential correspondence over a real UDP socket",
        "design_ref": "DESIGN.md §5 C07",
    },
}
