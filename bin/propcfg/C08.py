from props import COMMON_TRUSTED


def _c08_nontrivial(t):
    # dec: at least one field/player/objective and at least one delivered datagram; probe: at least one responder answers
    if len(t) >= 9 and t[1] == "dec":
        return (t[3] != "." or t[4] != "." or t[5] != ".") and t[7] != "."
    if len(t) >= 10 and t[1] == "decw":
        return (t[3] != "." or t[4] != "." or t[5] != ".") and t[8] != "."
    if len(t) >= 4 and t[1] == "probe":
        return any(r != "x" for r in t[3].split(";"))
    return False


def _c08_extra(results):
    dialects, frags, outs, dup, perm_sets = {}, {}, {}, 0, 0
    wire = {"decw": 0, "index_gaps": 0, "players_listed_out_of_order": 0, "players_sent_out_of_order": 0,
            "pairs_of_players_interleaved": 0}
    for inp, out, v, src in results:
        t = inp.split()
        if (len(t) >= 9 and t[1] == "dec") or (len(t) >= 10 and t[1] == "decw"):
            k = 7 if t[1] == "dec" else 8
            dialects[t[2]] = dialects.get(t[2], 0) + 1
            n = len(t[k + 1].split(","))
            frags[n] = frags.get(n, 0) + 1
            order = t[k].split(",")
            if len(order) != len(set(order)):
                dup += 1
        if len(t) >= 10 and t[1] == "decw":
            wire["decw"] += 1
            ids, cls = [], []
            if t[4] != ".":
                for p in t[4].split("|"):
                    i, kvs = p.split("=")
                    ids.append(int(i))
                    cls += [int(i)] * len(kvs.split(";"))
            nf = 0 if t[3] == "." else len(t[3].split(";"))
            if ids and sorted(ids) != list(range(len(ids))):
                wire["index_gaps"] += 1
            if ids != sorted(ids):
                wire["players_listed_out_of_order"] += 1
            if t[6] != ".":
                w = [int(x) for x in t[6].split(",")]
                sent = [cls[j - nf] for j in w if nf <= j < nf + len(cls)]
                first = []
                for i in sent:
                    if i not in first:
                        first.append(i)
                if first != sorted(first):
                    wire["players_sent_out_of_order"] += 1
                runs = sum(1 for a, b in zip(sent, sent[1:]) if a != b) + (1 if sent else 0)
                if runs > len(set(sent)):
                    wire["pairs_of_players_interleaved"] += 1
        k = " ".join(out.split()[:1]) if out.split() and out.split()[0] != "chosen" else "chosen " + out.split()[2]
        outs[k] = outs.get(k, 0) + 1
    return {"dec_by_dialect": dialects, "dec_by_fragment_count": {str(k): frags[k] for k in sorted(frags)},
            "dec_with_duplicate_delivery": dup, "wire_orders": wire, "impl_result_classes": outs}


CFG = {
    "module": "Swat4.Properties.C08",
    "theorems": [
        "Swat4.C08.accepted_iff",
        "Swat4.C08.acceptedOf_eq",
        "Swat4.C08.best_response",
        "Swat4.C08.best_response_max",
        "Swat4.C08.best_response_none",
        "Swat4.C08.best_response_perm",
        "Swat4.C08.collect_perm",
        "Swat4.C08.collect_dup",
        "Swat4.C08.collect_complete_iff",
        "Swat4.C08.collect_complete_all_arrived",
        "Swat4.C08.parse_render",
        "Swat4.C08.parse_concat",
        "Swat4.C08.expand_concat",
        "Swat4.C08.inspect_encode",
        "Swat4.C08.C08_collect",
        "Swat4.C08.C08_decode",
        "Swat4.C08.C08_decode_own_order",
        "Swat4.C08.C08_keeps_reading",
        "Swat4.C08.C08_players_sorted",
        "Swat4.C08.C08_players_perm",
        "Swat4.C08.C08_players_listing",
        # the helpers toResponse/mkMap share with the model (GS1.latin1, GS1.insertKV), characterised on their own
        "Swat4.C08.latin1_spec",
        "Swat4.C08.latin1_bytes",
        "Swat4.C08.latin1_codePoint",
        "Swat4.C08.insertKV_lookup",
        "Swat4.C08.mkMap_mem",
    ],
    "shards": (8, 16),
    "nontrivial": _c08_nontrivial,
    "extra_evidence": _c08_extra,
    "rule": "dec: random well-formed statuses (realistic SWAT4 field/player/objective names mixed with random names, latin-1 values, "
            "0..16 players, 0..12 objectives, duplicate field names, repeated keys of one player); in two thirds of the cases (`decw`) the players carry explicit "
            "indexes — contiguous, with gaps (0, 2, 7), or up to MaxInt64 — listed ascending, descending or shuffled, and the pairs are sent in a random wire order "
            "(canonical / player pairs mingled / server fields, player pairs and objectives all mingled, each keeping only its own relative order); "
            "encoded by the generator in the dialects vanilla, vanillaq, gs1, am, amq, amn "
            "(the driver checks that the wire order is one of the status, GS1Spec.wireOfB, re-encodes with the Lean encodeWire and insists on byte equality), cut into 1..8 fragments (GS1 between pairs, "
            "AdminMod anywhere, also between a name and its value), delivered by a scripted UDP responder to the real gs1.Query in random order "
            "with duplicates, in every permutation for 2..4 fragments (5 in the thorough tier), and with one fragment withheld (must time out); "
            "compared: result class and canonical decoded content against the model, oracle: equals toResponse(status), whose players are ascending by index. "
            "probe: 1..4 scripted responders (closed port, garbage, any dialect, hostport equal/different/missing/signed) behind the real "
            "portprober.Probe, answers spaced 40 ms apart in every arrival order; compared: which responder's answer was kept (from the prober's own "
            "debug log), its dialect and the class of the prober's result; oracle: kept answer is accepted and of maximal dialect, and the result class is the one the kept answer's details give (DetailsProbe.detailsOf: res:ok iff they parse and validate; res:port-mismatch / res:err-other never accepted). non-trivial = non-empty status delivered / at least one responder answers",
    "assumptions": [
        "well-formedness of a status stream is defined by Spec/GS1Spec.lean (WfStatus, WireOf, WfCuts, encodeWire); the Go generator's encoder is checked against it on every case",
        "player indexes on the wire are plain decimals below 2^63 (what the game servers send); other strconv.Atoi spellings (+1, 01, -1) and non-numeric or out-of-range suffixes are outside the quantifier — the model mirrors them (examples at the end of Properties/C08.lean)",
        "arrival order at the port prober is controlled by responder delays 40 ms apart on loopback",
        "datagrams are at most 2048 bytes (longer ones are cut by the read and are outside the property's quantifier)",
    ],
    "trusted_base": COMMON_TRUSTED,
    "manifest": {
        "text": "Lean theorems over the model of gs1.go and of the port prober's choice. C08_decode: for every well-formed status (Spec/GS1Spec.lean: WfStatus; players carry explicit, pairwise different indexes with gaps and in any listing order) sent in ANY wire order (WireOf: the pairs of different players, the server fields and the objectives interleaved at will) in the vanilla, vanilla-with-non-numeric-queryid, GS1 mod and three AdminMod variants, cut anywhere between fields (also between a name and its value), delivered in any order with duplicates, the modelled query returns exactly toResponse (fields, players ascending by index with their keys, objectives in order, latin-1 as UTF-8, dialect tag) once every fragment has arrived, and the timeout if one is missing (C08_decode_own_order: the instance for the servers' own order); C08_players_sorted: the players of the answer are the maps of THE strictly ascending-by-index rearrangement of the status's players (a permutation, sorted, unique), whatever the wire order; C08_players_perm / C08_players_listing: statuses that give every index the same pairs up to order (keys pairwise different) decode to the same players, and the listing order of the players is irrelevant; C08_collect / C08_keeps_reading: reassembly completes exactly when all fragments are there, never earlier; inspect_encode, expand_concat, parse_render/parse_concat: the codec steps; collect_perm / collect_dup: order and duplication independence for any consistent stream; collect_complete_iff / collect_complete_all_arrived: completion = final seen and number of distinct fragment numbers = final's number, which under in-range numbering means all of 1..n arrived. accepted_iff / acceptedOf_eq: an answer is accepted iff strconv.Atoi (the reporter model's independent definition) of its hostport field (core List.lookup, missing = empty string) equals the game port; best_response / best_response_max / best_response_none / best_response_perm — the kept answer is an accepted one (hostport = game port) of maximal dialect (GS1 mod > AdminMod > vanilla), ties go to the latest arrival, discovery fails iff nothing is accepted, and the kept dialect is independent of arrival order.",
        "level_note": "Trusted: Lean kernel; axioms propext, Quot.sound, Classical.choice; Spec/GS1Spec.lean as the definition of a well-formed status stream and of the faithful decoding; the finite differential run (real UDP sockets, real portprober.Probe) as evidence that Model/GS1.lean behaves like gs1.go and portprober.go.",
        "technique": "Lean 4 proof (fold/permutation algebra, codec round trip) + differential correspondence over real UDP sockets",
        "design_ref": "DESIGN.md §5 C08",
    },
}
