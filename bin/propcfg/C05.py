from props import COMMON_TRUSTED


def _srcs(t):
    ips = set()
    for i, tok in enumerate(t):
        if tok == "dg" and i + 1 < len(t):
            ips.add(t[i + 1])
    return ips


def _c05_nontrivial(t):
    # at least two distinct source IPs in the history
    return len(_srcs(t)) >= 2


def _c05_extra(results):
    dgs = changed = 0
    nsrc = {}
    for inp, out, v, src in results:
        k = len(_srcs(inp.split()))
        nsrc[k] = nsrc.get(k, 0) + 1
        o = out.split()
        for i in range(0, len(o) - 1, 2):
            dgs += 1
            if o[i + 1] != "=":
                changed += 1
    return {"datagrams": dgs, "datagrams_changing_the_store": changed, "histories_by_number_of_source_ips": nsrc}


CFG = {
    "module": "Swat4.Properties.C05",
    "theorems": [
        "Swat4.C05.reporter_touches_only_source_ip",
        "Swat4.C05.dispatch_safe",
        "Swat4.C05.C05_main",
        "Swat4.C05.C05_steps",
        "Swat4.C05.inv_reachable",
        "Swat4.C05.keepalive_foreign_instance_rejected",
        "Swat4.C05.removal_foreign_instance_rejected",
        "Swat4.C05.instances_change_only_for_presented_id",
        "Swat4.C05.parseAddr_ok",
        "Swat4.C05.facts_ok",
    ],
    "shards": (4, 16),
    "nontrivial": _c05_nontrivial,
    "extra_evidence": _c05_extra,
    "rule": "one line = one whole history on a fresh world: 2..40 (thorough: up to 200) datagrams through the real reporter "
            "dispatcher from 2..4 source IPv4 addresses sharing a pool of 3-4 instance ids and 3 host ports (deliberate "
            "collisions), heartbeats carrying another participant's IP in localip0/localip1, keepalives and removals replaying "
            "a foreign instance id, plus adversarial scripts (B registers; A replays B's id in keepalive/removal/re-report). "
            "After EVERY datagram the outcome and the full canonical store dump are compared with the Lean model; the oracle "
            "checks on the implementation's consecutive dumps that every server line (SV/UP/RF/ST) of an IP other than the "
            "datagram's source is unchanged, and that a keepalive/removal presenting an instance bound to another IP is "
            "answered err with no server line changed; non-trivial = history has >= 2 distinct source IPs",
    "assumptions": [
        "repository calls are atomic and storage healthy (C09); the theorem is per call, so it covers interleavings of calls of different datagrams",
        "the store invariant Rep.Inv (rows stored under their own address key, ports 1..65535) holds initially; it is proved preserved by every datagram and holds for the empty store",
        "source addresses are IPv4 (the UDP server listens on udp4)",
    ],
    "trusted_base": COMMON_TRUSTED + [
        "generated Facts.lean section `reporter`",
        "miniredis as the meaning of the Redis commands; world.Dump as the canonical observation of the keyspace",
    ],
    "manifest": {
        "text": "Lean theorem reporter_touches_only_source_ip: for every state satisfying the store invariant, every payload and source, each server row that differs before/after Heartbeat.dispatch has an address with the source IP; proved per repository call (Rep.Safe): report writes addr.New(sourceIP, hostport), renew writes inst.Addr only after the IP check, remove only (sourceIP, hostport); lifted to histories (C05_main, C05_steps, inv_reachable); keepalive/removal with a foreign instance id are rejected with the state unchanged (with a concrete two-party state satisfying all hypotheses of the removal theorem); instances_change_only_for_presented_id: the instance table changes only at the id a heartbeat-type datagram presents - which does NOT exclude that a report from A rebinds an id currently bound to B's server (documented by an example: B's record is untouched, B's next keepalive is rejected until B reports again).",
        "level_note": "Trusted: Lean kernel; axioms propext, Quot.sound, Classical.choice; the differential run as evidence that Model/Heartbeat.lean + UseCases/Reporter.lean behave like the Go code (full dump after every datagram); generated Facts.lean.",
        "technique": "Lean 4 proof (frame condition per repository call + store invariant, induction over histories) + differential correspondence with a frame oracle on the implementation's dumps",
        "design_ref": "DESIGN.md §5 C05",
    },
}
