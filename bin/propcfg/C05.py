from props import COMMON_TRUSTED


def _srcs(t):
    ips = set()
    for i, tok in enumerate(t):
        if tok == "dg" and i + 1 < len(t):
            ips.add(t[i + 1])
    return ips


def _c05_nontrivial(t):
    # at least two distinct source IPs in the history
    return len(_srcs(t)) >= 2


def _c05_extra(results):
    dgs = changed = 0
    nsrc = {}
    for inp, out, v, src in results:
        k = len(_srcs(inp.split()))
        nsrc[k] = nsrc.get(k, 0) + 1
        o = out.split()
        for i in range(0, len(o) - 1, 2):
            dgs += 1
            if o[i + 1] != "=":
                changed += 1
    return {"datagrams": dgs, "datagrams_changing_the_store": changed, "histories_by_number_of_source_ips": nsrc}


CFG = {
    "module": "Swat4.Properties.C05",
    "theorems": [
        "Swat4.C05.reporter_touches_only_source_ip",
        "Swat4.C05.dispatch_safe",
        "Swat4.C05.C05_main",
        "Swat4.C05.C05_steps",
        "Swat4.C05.inv_reachable",
        "Swat4.C05.keepalive_foreign_instance_rejected",
        "Swat4.C05.removal_foreign_instance_rejected",
        "Swat4.C05.instances_change_only_for_presented_id",
        "Swat4.C05.reporter_enqueues_only_for_source_ip",
        "Swat4.C05.dispatch_queue",
        "Swat4.C05.reporter_keeps_queued",
        "Swat4.C05.parseAddr_ok",
        "Swat4.C05.ipv6_source_touches_no_server",
        "Swat4.C05.ipv6_source_changes_nothing",
        "Swat4.C05.ipv6_keepalive_rejected",
        "Swat4.C05.ipv6_heartbeat_rejected",
        "Swat4.C05.dispatch6_non_ipv4",
        "Swat4.C05.dispatch6_mapped",
        "Swat4.C05.to4_none_iff",
        "Swat4.C05.facts_ok",
    ],
    "shards": (4, 16),
    "nontrivial": _c05_nontrivial,
    "extra_evidence": _c05_extra,
    "rule": "one line = one whole history on a fresh world: 2..40 (thorough: up to 200) datagrams through the real reporter "
            "dispatcher from 2..4 source IPv4 addresses sharing a pool of 3-4 instance ids and 3 host ports (deliberate "
            "collisions), heartbeats carrying another participant's IP in localip0/localip1, keepalives and removals replaying "
            "a foreign instance id, plus adversarial scripts (B registers; A replays B's id in keepalive/removal/re-report). "
            "After EVERY datagram the outcome and the full canonical store dump are compared with the Lean model; the oracle "
            "checks on the implementation's consecutive dumps that every server line (SV/UP/RF/ST) of an IP other than the "
            "datagram's source is unchanged, and that a keepalive/removal presenting an instance bound to another IP is "
            "answered err with no server line changed; the adversarial scripts also send the attacker's datagrams from IPv6 sources (op dg6: "
            "2001:db8::15, fe80::1, ::1, and addresses whose low 32 bits spell the victim's IPv4 address) - the driver runs the model "
            "function Heartbeat6.dispatch6 on the 16 source bytes and compares outcome and dump; non-trivial = history has >= 2 distinct source IPs",
    "assumptions": [
        "repository calls are atomic and storage healthy (C09); the theorem is per call, so it covers interleavings of calls of different datagrams",
        "the store invariant Rep.Inv (rows stored under their own address key, ports 1..65535) holds initially; it is proved preserved by every datagram and holds for the empty store",
        "the source of a datagram is either an IPv4 address (a number below 2^32: Heartbeat.dispatch, theorems reporter_touches_only_source_ip .. "
        "instances_change_only_for_presented_id) or a net.IP byte slice with To4() == nil, i.e. 16 bytes that are not IPv4-mapped "
        "(Heartbeat6.dispatch6, theorems ipv6_*): the reporter address is resolved as udp4 but net.ListenUDP(\"udp\", wildcard) is dual-stack on Linux, "
        "so IPv6 sources do arrive; an IPv4-mapped source (::ffff:a.b.c.d) is the IPv4 case (dispatch6_mapped, under the typing hypothesis "
        "InstanceIpsFit: stored instance addresses are four-byte addresses)",
        "net.IP.To4 and net.IP.Equal are modelled from the Go 1.23 standard library source (Heartbeat6.to4, ipEqual): Equal of a 4-byte and a nil slice is false",
    ],
    "trusted_base": COMMON_TRUSTED + [
        "generated Facts.lean section `reporter`",
        "miniredis as the meaning of the Redis commands; world.Dump as the canonical observation of the keyspace",
    ],
    "manifest": {
        "text": "Lean theorem reporter_touches_only_source_ip: for every state satisfying the store invariant, every payload and source, each server row that differs before/after Heartbeat.dispatch has an address with the source IP; proved per repository call (Rep.Safe): report writes addr.New(sourceIP, hostport), renew writes inst.Addr only after the IP check, remove only (sourceIP, hostport); lifted to histories (C05_main, C05_steps, inv_reachable); keepalive/removal with a foreign instance id are rejected with the state unchanged (with a concrete two-party state satisfying all hypotheses of the removal theorem); instances_change_only_for_presented_id: the instance table changes only at the id a heartbeat-type datagram presents - which does NOT exclude that a report from A rebinds an id currently bound to B's server (documented by an example: B's record is untouched, B's next keepalive is rejected until B reports again). reporter_enqueues_only_for_source_ip / dispatch_queue: the probe queue after a datagram is the queue before, or the queue before plus ONE appended port-discovery probe whose address carries the source IP (nothing is removed or reordered), so every probe a datagram enqueues is for a server of its own source IP. IPv6 sources: Heartbeat.dispatch takes the source as a number and cannot express a source with To4() == nil; Heartbeat6.dispatch6 takes connAddr.IP as bytes and mirrors addr.New / To4 / IP.Equal; ipv6_source_touches_no_server / ipv6_source_changes_nothing: for every state and payload a datagram from such a source leaves servers - and instances and the probe queue - exactly as they were (heartbeats and removals are stopped by addr.New before any use case runs, so not even the instance id is rebound); ipv6_keepalive_rejected: a keepalive from such a source is answered err with the state unchanged whatever instance id it presents, including when the low 32 bits of the source equal the bound server's IPv4 address (the owner check compares the stored 4 bytes with To4() == nil, and IP.Equal is false for lengths 4 and 0; witnessed on 2001:db8::1.1.1.1 and ::1.1.1.1 against a server of 1.1.1.1, with ::ffff:1.1.1.1 accepted as 1.1.1.1); dispatch6_non_ipv4: the complete behaviour (challenge/availability answered as from IPv4, everything else err without effect) - the expression the driver used to hard-code; dispatch6_mapped: on a source with an IPv4 form dispatch6 equals dispatch.",
        "level_note": "Trusted: Lean kernel; axioms propext, Quot.sound, Classical.choice; the differential run as evidence that Model/Heartbeat.lean + Model/Heartbeat6.lean + UseCases/Reporter.lean behave like the Go code (full dump after every datagram); generated Facts.lean.",
        "technique": "Lean 4 proof (frame condition per repository call + store invariant, induction over histories) + differential correspondence with a frame oracle on the implementation's dumps",
        "design_ref": "DESIGN.md §5 C05",
    },
}
