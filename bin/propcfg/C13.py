from props import COMMON_TRUSTED


def _nontrivial(t):
    # uc cases: an interleaving with a concurrent client; table cases are counted once each (distinct anyway)
    return len(t) >= 2 and (t[1] == "table" or (t[1] == "uc" and "c1" in t[-1]))


CFG = {
    "module": "Swat4.Properties.C13",
    "theorems": [
        "Swat4.C13.facts_ok",
        "Swat4.C13.outcome_table",
        "Swat4.C13.specWord_is_model",
        "Swat4.C13.retry_keeps_listing",
        "Swat4.C13.final_failure_marks",
        "Swat4.C13.success_marks",
        "Swat4.C13.update_applies_to_latest",
        "Swat4.C13.expFloor_matches_go",
        "Swat4.C13.expFloor_brackets_exp",
        "Swat4.C13.probe_retry_run",
        "Swat4.C13.probe_failure_run",
        "Swat4.C13.probe_success_run",
        "Swat4.C13.probe_missing_run",
        "Swat4.C13.probe_retry_race",
        "Swat4.C13.probe_failure_race",
        "Swat4.C13.probe_success_race",
        "Swat4.C13.probe_retry_race_removed",
        "Swat4.C13.keepalive_survives_probe_retry",
        "Swat4.C13.aba_overwrites_fresh_registration",
        "Swat4.C13.aba_witness",
        "Swat4.C13.renew_conflict_refreshes_latest",
        "Swat4.C13.retry_mark_survives_keepalive",
        "Swat4.C13.report_conflict_applies_to_latest",
        "Swat4.C13.report_conflict_on_first_registration",
        "Swat4.C13.discover_conflict_refuses_when_marked",
        "Swat4.C13.discover_conflict_marks_latest",
        "Swat4.C13.discover_refuses_after_port_success",
        "Swat4.C13.C13_retry_after_concurrent_commit",
        "Swat4.C13.C13_failure_after_concurrent_commit",
        "Swat4.C13.C13_success_after_concurrent_commit",
        # hmono discharged (reviewer W1): versions only grow under every repository call / use case / USys run
        "Swat4.C13.exec_keeps_row",
        "Swat4.C13.usecases_callbacks_stable",
        "Swat4.C13.usecases_callbacks_stable_more",
        "Swat4.C13.usecases_more_key_preserving",
        "Swat4.VerMono.exec_rowLe",
        "Swat4.VerMono.run_mono",
        "Swat4.VerMono.usys_run_mono",
        "Swat4.C13.probe_retry_race_any",
        "Swat4.C13.probe_failure_race_any",
        "Swat4.C13.probe_success_race_any",
        # every placement of the concurrent activity, any activity of the others
        "Swat4.C13Run.probe_retry_slots",
        "Swat4.C13Run.probe_failure_slots",
        "Swat4.C13Run.probe_success_slots",
        "Swat4.C13.probe_retry_race_at",
        "Swat4.C13.probe_failure_race_others",
        "Swat4.C13.probe_success_race_at",
        "Swat4.C13.raceRun_at_call",
        "Swat4.C13.others_usecase",
        "Swat4.C13Run.others_usys",
        # bridge to the system model the driver replays
        "Swat4.C13Run.usys_probe_retry_any",
        "Swat4.C13Run.usys_two_clients_retry",
        "Swat4.C13Run.usys_two_clients_retry_iff",
        "Swat4.C13.usys_matches_raceRun_no_tick",
        "Swat4.C13Run.usys_two_clients_success",
        "Swat4.C13Run.usys_two_clients_failure",
        "Swat4.C13.usys_success_matches_raceRun_no_tick",
        # delay table: scope
        "Swat4.C13.expFloor_in_scope",
        "Swat4.C13.expFloor_out_of_scope",
        "Swat4.C13.retry_delay_in_scope",
        "Swat4.C13.usecases_enqueue_within_budget",
        "Swat4.C13.queued_within_budget",
    ],
    # proved in the Lean files and used by other proofs, but NOT audited as property theorems: each is a
    # read-back of a definition, glue between two names, true by type, or a corollary of an audited theorem
    "supporting": [
        {"name": "Swat4.C13.transient_never_delists", "why": "read-back of the definition (`retryStatus` by `rfl` per goal; the property statement is retry_keeps_listing / outcome_table)"},
        {"name": "Swat4.C13.budget", "why": "read-back of the definition (`probeRetry` unfolded under `retries ≥ maxRetries`; the property statements are usecases_enqueue_within_budget / queued_within_budget)"},
        {"name": "Swat4.C13.expFloor_values", "why": "read-back of the definition (six rows of the literal table `expFloor`; the ties to Go and to e^n are expFloor_matches_go / expFloor_brackets_exp)"},
        {"name": "Swat4.C13.handleSuccess_fields", "why": "read-back of the definition (projections of `handleSuccess`, `rfl` each)"},
        {"name": "Swat4.C13.handleRetry_only_status", "why": "read-back of the definition (`rfl`)"},
        {"name": "Swat4.C13.handleFailure_only_status", "why": "read-back of the definition (`rfl`)"},
        {"name": "Swat4.C13Run.usys_retry_bridge", "why": "glue: equates the system model's run with the Prog-level race history (`raceRun`) step by step; the content — the retry race under ANY concurrent call, in the system model — is usys_probe_retry_any (audited)"},
        {"name": "Swat4.C13.exec_version_mono", "why": "wrapper: VerMono.exec_rowLe (audited) restated per address (`getRow a`) with the disjuncts swapped"},
        {"name": "Swat4.C13.prog_version_mono", "why": "wrapper: VerMono.run_mono (audited) restated per address"},
    ],
    "shards": (1, 16),
    "nontrivial": _nontrivial,
    "rule": "(a) the complete 512 x 2 x 3 table: real detailsprober/portprober HandleSuccess/HandleRetry/HandleFailure on every status word, "
            "compared with the model; (b) the real probeserver use case with a scripted prober (success with generated details / failure; "
            "retries 0..max, max 0..5) on reachable registries (built by real reports and probes), interleaved at repository-call "
            "granularity with one concurrent report, keepalive, second probe or removal placed after the probe's k-th call, with clock ticks; "
            "compared: completion order of repository calls, results, full keyspace dump; oracle: the final status word is the fold of the "
            "clients' outcome transformations in observed commit order (at the address of the probe under test), and the re-queue discipline: the final queue is "
            "the initial queue plus, per probe client that ended `retried`, one item with the same address/port/goal/max, retries+1 <= max, no expiry and a ready time "
            "(its PQ score) of a clock value of the run + floor(e^(retries+1)) s; `outofretries` only with retries >= max; no other re-queued item; non-trivial = table "
            "case or an interleaving in which the concurrent client runs",
    "assumptions": [
        "each repository call is atomic at its commit (C09) — interleavings are generated at call granularity",
        "the network result of a probe is an input (scripted prober wrapping the real prober's Handle* methods)",
        "floor(e^n) for n <= 20 is a table in the model; it is tied to Go's math.Exp by the regenerated fact c13retry (harness/internal/c13/facts.go: "
        "the source text of `retryDelay := ...` in probeserver.retry, and int64(time.Duration(math.Exp(float64(n)))) / the full delay in ns computed by Go "
        "for n = 0..20; theorem expFloor_matches_go) and, for n <= 5, to the real number e^n by expFloor_brackets_exp (Mathlib bounds on e); "
        "math.Exp is evaluated on the machine that runs the check (amd64/arm64 assembly or pure Go give the same truncated values for these arguments)",
        "versions are monotone while a record is not removed: formerly the hypothesis `hmono` of update_applies_to_latest and of the *_race theorems, now a theorem "
        "(VerMono.exec_rowLe, restated per address as exec_version_mono [supporting]: every repository call of the model whose conflict callback leaves address and "
        "version alone - usecases_callbacks_stable: all of them - leaves a stored row unchanged or with a strictly larger version). probe_*_race_any / usys_probe_retry_any "
        "(ONE arbitrary concurrent call, Remove included) need no version hypothesis. The `_at` theorems (probe_retry_race_at, probe_success_race_at, "
        "probe_failure_race_others) are NOT hypothesis-free: they assume `Others F` of the concurrent activity F - from every state, F keeps `Keyed` (rows under their own "
        "keys) and leaves every row stored, unchanged or with a strictly larger version; this is discharged (others_call / others_run / others_usys) for single calls, whole "
        "use cases and USys interleavings WITHOUT Remove, and for their compositions - an activity containing a Remove is outside these theorems; what remains an "
        "assumption is its scope: remove + re-add restarts the counter (ABA), outside the property's quantifier: there the model - and servers.go:143 "
        "`existing.Version > svr.Version`, which behaves the same - stores the transformation of the STALE copy over the fresh registration "
        "(aba_overwrites_fresh_registration, aba_witness); the multi-call theorems therefore quantify over activities without Remove (VerMono.ProgStable, Others)",
        "retry budgets above 20 are outside the model (expFloor returns 0 there; the driver reports such a case as unmodelled): expFloor_in_scope / expFloor_out_of_scope; "
        "the configured retry maxima are >= 0 (hypothesis of usecases_enqueue_within_budget)",
        "the Prog-level race histories (raceRun / raceRunL) and the system model the driver replays (USys) agree: usys_retry_bridge [supporting glue; its content in the system model is usys_probe_retry_any] (always, with Get and the clock read "
        "at the same clock value) and usys_two_clients_retry_iff (with the history of probe_retry_race exactly when no tick separates the calls) for the retry "
        "branch; usys_two_clients_success (= raceRun ... 2 ..., any ticks; = the history of probe_success_race when no tick separates the calls) and "
        "usys_two_clients_failure (= the history of probe_failure_race, any ticks) for the other two; in these bridges the concurrent client performs ONE call",
        "run-level theorems assume the store invariant that a record is stored under its own address key (`haddr`)",
    ],
    "trusted_base": COMMON_TRUSTED + [
        "driver-implemented oracle semantics in lean/Swat4/Drv/C13.lean (not Model/ or Spec/ definitions): statusIntent (which status transformation a "
        "committed add/update of each client kind applies; built from Model successStatus/retryStatus/failureStatus), svStatus / queueItems / runClocks "
        "(parsing of the SV, PI and PQ dump lines and of the run's clock values) and requeueCheck (new queue items with a retry count >= 1 answer exactly the "
        "probe clients that ended `retried`, retries+1 <= max, no expiry, ready time = a clock value of the run + Model expFloor(item's retry count) seconds); "
        "the initial status word and initial queue are taken from the model's run of the init items",
    ],
    "manifest": {
        "text": "Lean theorems: outcome_table (all 512 x 2 x 3 cases by kernel evaluation against a per-bit declarative spec, Spec/ProbeOutcome.lean; specWord_is_model: the same as whole "
                "words - specWord is what the driver's `table` oracle compares the real probers' word with, the model side of that verdict being UC.*Status), retry_keeps_listing, "
                "update_applies_to_latest (Update(f stale, resolver f) stores f(latest) at version+1 whenever versions are monotone) and its three "
                "instances for retry / final failure / success; run-level, as equations on the whole result state of the executed use case: "
                "probe_retry_run / probe_failure_run / probe_success_run / probe_missing_run (sequential run) and probe_*_race (Get, one arbitrary "
                "committed call of another client, rest of the run): stored record = the outcome's transformation of the LATEST record one version up, "
                "queue = old queue plus exactly the same probe with retries+1 ready at now + floor(e^(retries+1)) s without expiry (retry only), "
                "nothing else changed; usecases_enqueue_within_budget / queued_within_budget (retries = max: "
                "no re-queue, failure transformation); expFloor_matches_go (table = Go's math.Exp expression, regenerated fact) and expFloor_brackets_exp "
                "(= floor of the real e^n, n <= 5); the conflict callbacks of the other use cases on the same history (renew_conflict_refreshes_latest, "
                "report_conflict_applies_to_latest, discover_conflict_refuses_when_marked / _marks_latest); aba_overwrites_fresh_registration: across "
                "remove + re-add the stale copy overwrites the fresh registration (model and servers.go alike). Tied to probeserver.go and the probers by the "
                "exhaustive table run on the real probers and by call-granularity interleavings of the real use case with one concurrent commit. "
                "Round 6: the version premise `hmono` is now a theorem (VerMono.exec_rowLe / VerMono.run_mono; exec_version_mono and prog_version_mono are their per-address restatements, supporting; for every repository call whose conflict callback leaves address and "
                "version alone; usecases_callbacks_stable: the eleven use-case programs listed by hand - report, renew, probe, addServer, refresh, revive, cleanInstances, listServers ProgStable; remove, cleanServers, cleanServers2 with stable callbacks but removing -; usecases_callbacks_stable_more: the two client programs that list left out, Heartbeat6.renewIP [dg6 keepalive] and the prober runner UC.proberRunWith / UC.proberRun [pop client], both ProgStable; usecases_more_key_preserving: hence KeyPreserving - the C09 hypothesis - for those two), the race theorems are restated without it for an arbitrary concurrent call "
                "(probe_*_race_any, including Remove), for an arbitrary activity of the others at every placement between the probe's calls "
                "(probe_retry_race_at k=1..3, probe_success_race_at k=1..2, probe_failure_race_others; hypothesis `Others F`: F keeps Keyed and every row unchanged-or-newer, discharged for calls, whole use cases and USys interleavings without Remove), "
                "and bridged to the system model the driver replays (usys_probe_retry_any, usys_two_clients_* [usys_retry_bridge: supporting glue]: equal to raceRun ... 2 ... always, to the raceRun ... 1 ... "
                "history of probe_retry_race iff no tick separates the calls); expFloor = floor(e^n) on the whole table n <= 20 and = 0 (unmodelled) beyond; "
                "every queued probe has 0 <= retries <= max (queued_within_budget, USys invariant).",
        "level_note": "Trusted: Lean kernel (propext, Quot.sound, Classical.choice); atomicity of repository calls (C09/C11 theorems about the Redis-level model); "
                      "the scripted prober; the expFloor table vs math.Exp by a regenerated fact (Go evaluates its own expression at check time) and the differential run; Prog model of probeserver validated by the correspondence run.",
        "technique": "Lean 4 proof (exhaustive kernel-decided table + refinement lemma on the versioned map) + differential correspondence under a controlled scheduler",
        "design_ref": "DESIGN.md §5 C13",
    },
}
