from props import COMMON_TRUSTED


def _nontrivial(t):
    # uc cases: an interleaving with a concurrent client; table cases are counted once each (distinct anyway)
    return len(t) >= 2 and (t[1] == "table" or (t[1] == "uc" and "c1" in t[-1]))


CFG = {
    "module": "Swat4.Properties.C13",
    "theorems": [
        "Swat4.C13.facts_ok",
        "Swat4.C13.outcome_table",
        "Swat4.C13.transient_never_delists",
        "Swat4.C13.retry_keeps_listing",
        "Swat4.C13.final_failure_marks",
        "Swat4.C13.success_marks",
        "Swat4.C13.update_applies_to_latest",
        "Swat4.C13.probe_success_shape",
        "Swat4.C13.retry_requeue",
        "Swat4.C13.budget",
        "Swat4.C13.expFloor_values",
        "Swat4.C13.C13_retry_after_concurrent_commit",
        "Swat4.C13.C13_failure_after_concurrent_commit",
        "Swat4.C13.C13_success_after_concurrent_commit",
    ],
    "shards": (1, 16),
    "nontrivial": _nontrivial,
    "rule": "(a) the complete 512 x 2 x 3 table: real detailsprober/portprober HandleSuccess/HandleRetry/HandleFailure on every status word, "
            "compared with the model; (b) the real probeserver use case with a scripted prober (success with generated details / failure; "
            "retries 0..max, max 0..5) on reachable registries (built by real reports and probes), interleaved at repository-call "
            "granularity with one concurrent report, keepalive, second probe or removal placed after the probe's k-th call, with clock ticks; "
            "compared: completion order of repository calls, results, full keyspace dump; oracle: the final status word is the fold of the "
            "clients' outcome transformations in observed commit order, and the re-queue discipline of a retried probe; non-trivial = table "
            "case or an interleaving in which the concurrent client runs",
    "assumptions": [
        "each repository call is atomic at its commit (C09) — interleavings are generated at call granularity",
        "the network result of a probe is an input (scripted prober wrapping the real prober's Handle* methods)",
        "floor(e^n) for n <= 20 is a table in the model; it is tied to Go's math.Exp only by the correspondence run (retry ready times in the queue dump)",
        "versions are monotone while a record is not removed (update_applies_to_latest hypothesis `hmono`); remove + re-add restarts the counter (ABA), outside the property's quantifier",
    ],
    "trusted_base": COMMON_TRUSTED,
    "manifest": {
        "text": "Lean theorems: outcome_table (all 512 x 2 x 3 cases by kernel evaluation against a per-bit declarative spec), transient_never_delists, "
                "update_applies_to_latest (Update(f stale, resolver f) stores f(latest) at version+1 whenever versions are monotone) and its three "
                "instances for retry / final failure / success, retry_requeue (retries+1 <= max, ready = now + floor(e^retries) s, same addr/port/goal/max, "
                "no expiry, enqueue before mark), budget (retries = max: no re-queue, failure transformation). Tied to probeserver.go and the probers by the "
                "exhaustive table run on the real probers and by call-granularity interleavings of the real use case with one concurrent commit.",
        "level_note": "Trusted: Lean kernel (propext, Quot.sound, Classical.choice); atomicity of repository calls (C09/C11 theorems about the Redis-level model); "
                      "the scripted prober; the expFloor table vs math.Exp by differential run only; Prog model of probeserver validated by the correspondence run.",
        "technique": "Lean 4 proof (exhaustive kernel-decided table + refinement lemma on the versioned map) + differential correspondence under a controlled scheduler",
        "design_ref": "DESIGN.md §5 C13",
    },
}
