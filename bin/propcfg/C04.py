from props import COMMON_TRUSTED


def _c04_nontrivial(t):
    # a history is non-trivial when it holds at least one heartbeat datagram (type byte 03) with a body
    return any(tok.startswith("03") and len(tok) > 40 for tok in t[2:])


def _c04_extra(results):
    dgs = outcomes = changed = 0
    kinds = {}
    for inp, out, v, src in results:
        o = out.split()
        for i in range(0, len(o) - 1, 2):
            dgs += 1
            k = o[i].split(":")[0]
            kinds[k] = kinds.get(k, 0) + 1
            if o[i + 1] != "=":
                changed += 1
    return {"datagrams": dgs, "datagram_outcomes": kinds, "datagrams_changing_the_store": changed,
            "compared_per_datagram": "outcome + full canonical store dump"}


CFG = {
    "module": "Swat4.Properties.C04",
    "theorems": [
        "Swat4.C04.reply_bytes",
        "Swat4.C04.challenge_reply",
        "Swat4.C04.available_reply",
        "Swat4.C04.keepalive_silent",
        "Swat4.C04.keepalive_owner_refreshes",
        "Swat4.C04.removal_silent",
        "Swat4.C04.parse_encodeHeartbeat",
        "Swat4.C04.heartbeat_refines",
        "Swat4.C04.step_refines",
        "Swat4.C04.history_is_fold",
        "Swat4.C04.heartbeat_post_abs",
        "Swat4.C04.heartbeat_post",
        "Swat4.C04.removal_post",
        "Swat4.C04.infoOf_field",
        "Swat4.C04.infoOf_named",
        "Swat4.C04.schema_params_pinned",
        "Swat4.C04.facts_ok",
        "Swat4.C04.msg_facts",
        # which heartbeats are accepted (the postconditions above are conditional on a reply; these say when there is one)
        "Swat4.C04.heartbeat_accepted_iff",
        "Swat4.C04.heartbeat_accepted_if",
        "Swat4.C04.heartbeat_accepted_only_if",
        "Swat4.C04.heartbeat_without_localport_dropped",
    ],
    # proved in the Lean files (and built with the module) but NOT audited as property theorems: each is a read-back of a
    # definition, glue between two names, true by type, or a restatement of an audited theorem
    "supporting": [
        {"name": "Swat4.C04.accepts_def", "why": "`Iff.rfl`: the definition of `Rep.Accepts` spelled out for the reader; the content is heartbeat_accepted_iff"},
    ],
    "shards": (4, 16),
    "nontrivial": _c04_nontrivial,
    "extra_evidence": _c04_extra,
    "rule": "one line = one whole history on a fresh world (miniredis, fake clock, one logical process): 1..40 datagrams sent "
            "through the real reporter dispatcher (verif hook) from 1..3 source IPv4 addresses (public, private, loopback, "
            "some non-routable), mixing first report, re-report with changed values/instance id, keepalive, removal, "
            "re-registration, challenge, available, and a few malformed datagrams; values from {ASCII, UTF-8, invalid UTF-8, "
            "SWAT markup, long}; hostport/localport in and out of range, ill-formed numbers, unknown/duplicated keys; clock "
            "advances in multiples of 256 ns.  After EVERY datagram the outcome (reply bytes | none | err | panic) and the "
            "full canonical store dump are compared with the Lean model; the oracle replays ReporterSpec.absStep on every "
            "observed transition whose datagram decodes as a well-formed message; non-trivial = history holds a heartbeat",
    "assumptions": [
        "storage is healthy (no injected faults) and one logical process runs at a time: repository calls are atomic (that is C09's theorem)",
        "JSON (de)serialisation of stored records is the identity on what the reporter stores (valid UTF-8 after ToValidUTF8)",
        "clock values are Epoch + k*256ns so that float64 scores are exact (A-time)",
        "the reading of info values (Heartbeat.infoOf: Atoi, 0/1/true/false, validator tags required/gt/gte/ratio) is shared by model and spec; "
        "what it does is pinned independently of that sharing: infoOf_field/infoOf_named (every value of an accepted info is the reading, by the "
        "field's kind, of what was reported under the field's own param key; zero value when absent) and schema_params_pinned (the generated "
        "field<->key table equals a literal list written from info.go: a swapped param tag breaks the proof); the validator tags themselves "
        "(which reports are REJECTED) remain shared and are tied to the code by the differential run only",
    ],
    "trusted_base": COMMON_TRUSTED + [
        "generated Facts.lean section `reporter` (reflection over details.Info, go/ast over isReportableField / IsQueryField)",
        "miniredis as the meaning of the Redis commands; world.Dump as the canonical observation of the keyspace",
    ],
    "manifest": {
        "text": "Lean model of the reporter dispatcher, the four handlers, the heartbeat scanner, addr.New, params.Unmarshal + validator over the generated details.Info schema, composed with the report/renew/remove use cases over the abstract registry; theorems about reply bytes, scanner round trip and refinement of ReporterSpec.absStep, plus the registry postcondition of an accepted heartbeat stated directly (heartbeat_post / Rep.HeartbeatPost: server row at (source IP, hostport) with the reported info, master|info set, new cleared, refreshedAt = updatedAt = now, instance id bound to it at now, port probe <addr, addr.port, port, 0, maxRetries> queued with ready = now unless port/port_retry was set, every other server and instance entry unchanged) and the value-by-value reading of the reported info (infoOf_field, infoOf_named, schema_params_pinned); a concrete heartbeat is shown accepted from the empty store (one server, one instance, one probe); tied to the code by comparing outcome and full canonical store dump after every datagram of generated histories.",
        "level_note": "Trusted: Lean kernel; axioms propext, Quot.sound, Classical.choice; ReporterSpec (encodeHeartbeat/WfHeartbeat/absStep) as the reading of the property text; the finite differential run as evidence that Model/Heartbeat.lean + UseCases/Reporter.lean behave like the Go code; generated Facts.lean.",
        "technique": "Lean 4 proof (refinement of an abstract registry step, scanner round trip, direct postcondition, field-by-field info reading) + differential correspondence on histories",
        "design_ref": "DESIGN.md §5 C04",
    },
}
