from props import COMMON_TRUSTED


def _c06_nontrivial(t):
    # any case with a non-empty payload
    if len(t) < 3:
        return False
    if t[1] == "tcp":
        return len(t) >= 4 and t[3] not in ("none", "-")
    return True


def _c06_extra(results):
    dgs = tcp = udpsrv = alive = 0
    kinds, tcpk = {}, {}
    for inp, out, v, src in results:
        t = inp.split()
        o = out.split()
        if t[1] == "hist":
            for i in range(0, len(o) - 1, 2):
                dgs += 1
                k = o[i].split(":")[0]
                kinds[k] = kinds.get(k, 0) + 1
        elif t[1] == "tcp":
            tcp += 1
            k = o[0].split(":")[0] if o else "?"
            tcpk[k] = tcpk.get(k, 0) + 1
        elif t[1] == "udpsrv":
            udpsrv += 1
            alive += sum(1 for x in o if x == "alive")
    return {"udp_datagrams_in_process": dgs, "udp_outcomes": kinds, "tcp_connections": tcp, "tcp_outcomes": tcpk,
            "MEASUREMENT_udpserver_streams": udpsrv, "MEASUREMENT_udpserver_alive_after_datagram": alive,
            "note": "the udpsrv stream (real udpserver on 127.0.0.1, thorough tier) is a liveness measurement plus a per-datagram reply comparison with the model, not a proof obligation"}


CFG = {
    "module": "Swat4.Properties.C06",
    "theorems": [
        "Swat4.C06.facts_config_wiring",
        "Swat4.C06.udp_total",
        "Swat4.C06.udp_never_panics_checked",
        "Swat4.C06.udp_checked_panics_iff",
        "Swat4.HeartbeatChecked.dispatchChecked_eq",
        "Swat4.HeartbeatChecked.collapse_dispatchChecked",
        "Swat4.C06.tcp_total",
        "Swat4.C06.tcp_handle_total",
        "Swat4.C06.tcp_pipeline_total",
        "Swat4.C06.tcp_pipeline_never_panics",
        "Swat4.C06.tcp_pipeline_refines_handle",
        "Swat4.BrowserPipeline.packServersChecked_eq",
        "Swat4.BrowserReqBridge.newRequest_eq",
        "Swat4.C06.rejected_no_effect",
        "Swat4.C06.unreached_no_effect",
        "Swat4.C06.only_heartbeat_keepalive_mutate",
        "Swat4.C06.mutation_implies_decodable",
        "Swat4.C06.reaches_implies_decodable",
        "Swat4.C06.acts_as_wellformed",
        "Swat4.C06.facts_ok",
        "Swat4.C06.udp_socket_never_panics", "Swat4.C06.udp_socket_delivers",
        "Swat4.C06.facts_tcp_deadline",
        "Swat4.C06.facts_rest_recovery",
        "Swat4.C06.facts_browser_read_buffer",
        "Swat4.C06.facts_udp_read_buffer",
        "Swat4.C06.facts_udp_buffer_is_model",
        "Swat4.C06.facts_partial_ops_browser",
        "Swat4.C06.facts_browser_reads_only",
        "Swat4.C06.facts_udp_empty_read_guard",
    ],
    # proved in the Lean files and used by other proofs, but NOT audited as property theorems: each is a
    # read-back of a definition, glue between two names, true by type, or a corollary of an audited theorem
    "supporting": [
        {"name": "Swat4.C06.malformed_no_effect", "why": "read-back of the definition (`WellFormedMutating` is defined as 'reached a use case and did not answer err'; repackages rejected_no_effect + unreached_no_effect, as its own doc comment says)"},
        {"name": "Swat4.C06.udp_empty_panics", "why": "read-back of the definition (`rfl`: the unguarded model evaluated on the empty payload; a witness for the known finding, not a clause of the property)"},
    ],
    "shards": (4, 8),
    "nontrivial": _c06_nontrivial,
    "extra_evidence": _c06_extra,
    "rule": "UDP half, in-process through the real dispatcher (whole histories on a fresh world): random bytes 1..2048; every "
            "message-type byte 00..FF with a valid heartbeat body, a random body, alone and with an id; truncation of valid "
            "heartbeats/removals at EVERY offset after a registration; missing terminators, duplicated keys, oversize fields, "
            "flipped bytes, mixed into histories with valid traffic - outcome and full store dump compared with the model after "
            "every datagram; oracle: no panic, dump unchanged unless a heartbeat/keepalive reaches its use case and is not "
            "answered err.  TCP half: real loopback TCP connections handed to browser.Handler.Handle with 0..3 registered servers: "
            "nothing, random bytes 0..2048, valid requests, length-prefix lies (+-1, +-256, 0, 65535), truncation at EVERY offset, "
            "missing terminators, bad option masks, oversize field lists - outcome class (reply length on an empty registry) compared "
            "with BrowserReq06; oracle: no panic, store dump unchanged.  Thorough tier adds a MEASUREMENT: malformed streams through "
            "the real udpserver on 127.0.0.1, an `available` request must be answered after every datagram, and the replies received per datagram "
            "must be exactly the model's (Heartbeat.dispatch from 127.0.0.1:<client port>): at most one per datagram, none for a datagram the model "
            "leaves unanswered; non-trivial = non-empty payload",
    "assumptions": [
        "udpserver only hands datagrams with n > 0 bytes to the dispatcher (pkg/udp/udpserver/server.go) - no longer only an assumption: facts_udp_empty_read_guard pins the guard `n > 0 && s.handler != nil` around the single hand-over (go/ast on every run) and ties it to UdpServer.deliver's `none` arm; udp_empty_panics (supporting lemma, not audited: the model evaluated on the empty payload) shows the guard is needed",
        "healthy storage. TCP: BrowserReq06.handle (what the differential stream compares with the code) covers browsing.NewRequest only; "
        "tcp_pipeline_total covers the whole handler goroutine by composing the checked models of the other stages - query.NewFromString "
        "(C03.filter_parse_never_panics), packServers (packServersChecked_eq), crypt.Encrypt (C02.encrypt_total) - with the listing use case as "
        "a parameter (any function from the parsed query to a server list or an error): listservers.Execute itself (repository Filter + Query.Match) "
        "is not transcribed with checked operations - Query.Match is C03's queryMatch, total by construction (type switches with default branches), "
        "the repository is C09/C10",
        "UDP: Model/Heartbeat.lean is total by construction except payload[0]; udp_never_panics_checked is about Model/HeartbeatChecked.lean, "
        "which transcribes the path up to the use-case call and the reply construction with checked index/slice/assignment operations; NOT "
        "transcribed there (taken as total): bytes.ToValidUTF8, strconv.Atoi, map operations, append/make, addr.New on a 4-byte IP, params.Unmarshal, "
        "validator, the logger, and the use cases themselves (C04/C09)",
        "'returns promptly' and 'the process keeps running' are run-time facts: measured (udpsrv stream, TCP deadlines), not proved",
        "'sends at most one reply' is NOT a proof obligation: the model's Outcome/TcpOutcome types cannot express two replies, so "
        "at_most_one_reply/tcp_at_most_one_reply hold for any function and were removed from the audited list; the clause is covered by the "
        "harness only (udpsrv stream: the harness lists, per datagram sent to the real udpserver, the reply datagrams received on the client "
        "socket in that datagram's window; oracle Drv/C06.handleUdpSrv: every reply received is the one reply Heartbeat.dispatch gives a datagram "
        "sent so far and not yet answered (source 127.0.0.1:<client port>, payload cut at the 2048-byte read buffer) - never early, repeated or "
        "different - and every expected reply arrives; a reply that arrives LATE, in a later datagram's window, is tolerated because handlers run on "
        "their own goroutines; in-process the single response slice and for TCP the total bytes written are compared with the model)",
        "'well-formed' is ReporterSpec.decode? (independent strict decoder) up to three documented parser leniencies (ReporterSpec.Quirk: "
        "keepalive with trailing bytes, heartbeat whose last string lacks its NUL, unknown strings not in name/value pairs); "
        "malformed_no_effect is definitional and therefore not in the audited list (supporting; WellFormedMutating is defined from the model: 'reaches a use case and is not answered err'); "
        "rejected_no_effect (error => nothing written) and unreached_no_effect (control flow) are facts about the model, not well-formedness statements",
        "the REST port is parsed by net/http + gin (Recovery installed); no repo code below the handlers to model - see C17",
    ],
    "trusted_base": COMMON_TRUSTED + [
        "driver-implemented oracle semantics in lean/Swat4/Drv/C06.lean (not Model/ or Spec/ definitions; `reaches` is no longer one of them: it and C06.reachesUseCase are both names of Heartbeat.reachesUseCase in Model/ReporterReach.lean): "
        "`oracleStep` / `oracle` (hist: no panic, state unchanged unless the datagram reaches a use case and is not answered err), `handleTcp` (no panic, "
        "connection closed, store unchanged), `handleStall`, and `handleUdpSrv` with `udpBufferSize` = 2048 (the per-datagram matching of received replies "
        "against Model Heartbeat.dispatch run from 127.0.0.1:<client port> over the datagrams cut at the read buffer; attribution of a reply to a datagram "
        "is by the harness's receive window, harness/internal/c06/c06.go runUDPServer)",
        "generated Facts.lean section `reporter` (message bytes, whitelists, MinRequestPayloadLength, MaxAllowedNumberOfFields)",
        "the inventory of partial operations modelled. UDP (Model/HeartbeatChecked.lean): payload[0] (twice: Handle's log line, dispatch); "
        "payload[1:5], payload[5:] (guarded by len<5); unparsed[0] in the loop condition and in the missing-value test of parseHeartbeatParams "
        "(behind the short-circuit on len); data[i], data[:i], data[i+1:] of binutils.ConsumeString; clientAddr[1:5], clientAddr[5:7], resp[:3], "
        "resp[3:7], resp[7:13], resp[13:27]; b[1], b[0]=, b[1]= of PutUint16; hextable[v>>4], hextable[v&0x0f], dst[j]=, dst[j+1]= of hex.Encode. "
        "TCP request (BrowserReq06 / Browsing): data[:2], data[9:dataLen], unparsed[:8], unparsed[8:], fields[0], fields[1:], Uint16, Uint32, ConsumeString. "
        "TCP filters (Model/Filter.lean, checked): s[:i], s[i+5:], filterBytes[i:j], filterBytes[i:], rawVal[0], rawVal[len-1], rawVal[1:len-1]. "
        "TCP packer (Model/BrowserPipeline.lean): payload[:4], payload[4:6], fields[:255], serverAddr[0]=, serverAddr[1:5], serverAddr[5:7], PutUint16",
        "that the transcriptions in Model/HeartbeatChecked.lean and Model/BrowserPipeline.lean list EVERY partial operation of the Go path (read against "
        "the source; the differential run compares Heartbeat.dispatch / BrowserReq06.handle with the code, and the theorems tie the checked "
        "transcriptions to those)",
    ],
    "manifest": {
        "text": "Lean theorems udp_total (Heartbeat.dispatch never panics on a non-empty datagram - by construction except for payload[0]) and udp_never_panics_checked / HeartbeatChecked.dispatchChecked_eq (the honest version: HeartbeatChecked.dispatchChecked transcribes Dispatcher.Handle, dispatch, ParseInstanceID, the parseHeartbeatParams loop with binutils.ConsumeCString, and the reply construction with PutUint16 and hex.Encode expression by expression with CHECKED index/slice/assignment operations and a fuelled loop; it is .panic exactly on the empty datagram and otherwise .ok of exactly the state and outcome of Heartbeat.dispatch), tcp_total/tcp_handle_total (the browser request parser never panics), tcp_pipeline_total (the whole handler goroutine - NewRequest, query.NewFromString, listing as an arbitrary function of the parsed query, packServers with its slice expressions checked, crypt.Encrypt - ends in one reply or a close without reply for every byte string read (any length, so in particular <= 2048), every requester, every listing and every cipher draws: never panic or hang; composed from C01.parse_total, C03.filter_parse_never_panics, packServersChecked_eq, C02.encrypt_total) with tcp_pipeline_refines_handle (it replies/closes exactly when BrowserReq06.handle says so, via BrowserReqBridge.newRequest_eq: the C06 request model is the outcome class of the C01 one), rejected_no_effect (an error outcome leaves registry, instances and queue unchanged), mutation_implies_decodable (a datagram that changes the state is accepted by the independent decoder ReporterSpec.decode? as a heartbeat/removal/keepalive, or exhibits one of three documented leniencies of the real parsers - keepalive with trailing bytes, last string unterminated, unknown string without a value - each witnessed on the model and confirmed on the real dispatcher), acts_as_wellformed (every such datagram has exactly the effect and outcome of the encoding of a well-formed message); 'at most one reply' is not a theorem (the outcome types cannot express two replies): it is covered by the harness's reply count only; tied to the code by outcome + full-dump comparison on malformed streams and by real TCP connections to browser.Handler.Handle; liveness of the real udpserver is measured. facts_browser_reads_only - the browser path never writes state: go/ast inventory (harness/internal/facts/finer_readonly.go) of every struct field of browser.go and listservers.go and of every method called on a repository / use-case field: the handler holds one use case and calls only Execute, the use case holds one repository and calls only Filter; every Redis command of servers.Filter and its helpers is a read and every write site of servers.go sits in save / remove (from the C09/C10 store inventory).",
        "level_note": "Trusted: Lean kernel; axioms propext, Quot.sound, Classical.choice; the inventory of partial Go operations the model makes explicit; the differential run as evidence that the models behave like the code; generated Facts.lean. Promptness/liveness are measurements.",
        "technique": "Lean 4 proof (totality by case analysis over explicit partial operations; checked transcriptions proved equal to the total models; composition of the per-stage totality theorems of C01/C02/C03; frame by 'error => no write' per use case) + differential correspondence + socket-level measurement",
        "design_ref": "DESIGN.md §5 C06",
    },
}
