from props import COMMON_TRUSTED


def _c10_nontrivial(t):
    # C10 hist <items>: at least one call of the history is cut by a client death (@cb<c> / @ca<c>)
    return len(t) >= 3 and "@c" in t[2]


CFG = {
    "module": "Swat4.Properties.C10",
    "theorems": [
        "Swat4.C10.consistent_atomic_step",
        "Swat4.C10.consistent_atomic_steps",
        "Swat4.C10.wstep_consistent",
        "Swat4.C10.wstep_atomic",
        "Swat4.C10.qstep_consistent",
        "Swat4.C10.runQ_consistent",
        "Swat4.C10.runWriter_consistent",
        "Swat4.C10.runQs_consistent",
        "Swat4.C10.C10_main",
        "Swat4.C10.C10_world",
        "Swat4.C10.C10_reachable",
        "Swat4.C10.C10_crash",
        "Swat4.C10.lock_ttl",
        "Swat4.C10.consistentB_sound",
        "Swat4.C10.consistentB_iff",
        "Swat4.C10.driver_runCall_consistent",
        "Swat4.C10.driver_expire_consistent",
        "Swat4.C10.facts_batches_atomic",
        "Swat4.C10.facts_lock_ttl",
        "Swat4.C10.expire_frees",
        "Swat4.C10.holder_death_unblocks",
        "Swat4.C10.holder_death_unblocks_writer",
        "Swat4.C10.blocked_while_held",
        "Swat4.C10.lockExpire_respects_ttl",
        "Swat4.C10.holder_death_unblocks_of_ttl",
        "Swat4.C10.no_ttl_blocks_forever",
        "Swat4.C10.expire_no_ttl",
        "Swat4.C10.expire_reachable_removes",
        "Swat4.C10.facts_batches_atomic_sites",
        "Swat4.C10.facts_batch_keys",
        "Swat4.C10.facts_lock_ttl_defs",
    ],
    # proved in the Lean files and used by other proofs, but NOT audited as property theorems: each is a
    # read-back of a definition, glue between two names, true by type, or a corollary of an audited theorem
    "supporting": [
        {"name": "Swat4.C10.stKey_inj", "why": "glue (re-export of the encoding lemma `RStore.stKey_inj`; not a clause of the property)"},
        {"name": "Swat4.C10.mem_setStatus", "why": "glue (re-export of the encoding lemma `RStore.mem_setStatus`)"},
        {"name": "Swat4.C10.mem_clearStatus", "why": "glue (re-export of the encoding lemma `RStore.mem_clearStatus`)"},
        {"name": "Swat4.C10.stKey_mem_setStatus", "why": "glue (re-export of the encoding lemma `RStore.stKey_mem_setStatus`)"},
        {"name": "Swat4.C10.stKey_mem_clearStatus", "why": "glue (re-export of the encoding lemma `RStore.stKey_mem_clearStatus`)"},
        {"name": "Swat4.C10.rstep_store", "why": "read-back of the definition (`Sys.step` unfolded on a reader client)"},
        {"name": "Swat4.C10.facts_no_bare_pipeline_in_writer", "why": "redundant: read off the literal lists that `facts_batches_atomic` already pins"},
        {"name": "Swat4.C10.lock_ttl_needs_positive_lease", "why": "`Consistent.ttl` applied to the inserted cell (one projection); the content is lock_ttl / the facts pin of the lease"},
    ],
    "shards": (4, 16),
    "nontrivial": _c10_nontrivial,
    "rule": "random histories of 2..12 items over 3 addresses / 3 instance ids on the real repositories (servers add/update/remove "
            "with all 512 status words, refresh times incl. zero, 4 resolver behaviours; instances add/remove/clear; probes "
            "enqueue/pop-many; lease expiry `e`; clock advance `t<ns>`); one third of the calls are cut by a client death before "
            "(`@cb<c>`) or after (`@ca<c>`, reply lost) their c-th storage command (go-redis hook parks the goroutine, no deferred "
            "code runs); thorough adds every crash position 0..10 x before/after for one call of each kind after a fixed prefix. "
            "After every item the raw miniredis keyspace (hash fields, zset members+scores, set members, lock TTL flags) is dumped. "
            "Compared with the Lean model: per-item results, per-command traces, every dump. Oracle on the implementation's dumps: "
            "each parses and satisfies RStore.consistentB (proved equivalent to Consistent + no junk status members). "
            "non-trivial = the history contains at least one injected crash",
    "assumptions": [
        "JSON (de)serialisation of stored server records is the identity (json.Marshal / json.Unmarshal round trip of server.Server); the model stores the record itself",
        "miniredis 2.x stands for Redis: MULTI/EXEC batches are atomic, SET NX EX sets a TTL, expiry removes the key; no redis-server binary is available offline",
        "all harness timestamps are world.Epoch + k*256 ns, hence exactly representable as float64 zset scores (the model uses Int scores)",
        "probe ready times are distinct in generated histories: Redis orders equal scores by member text (random UUIDs), the model by insertion id",
        "a client death cuts a call only between two storage commands (before a command, or after it took effect with the reply lost): a TCP connection either delivers a whole MULTI...EXEC to the server or not",
    ],
    "trusted_base": COMMON_TRUSTED + [
        "harness/internal/world (miniredis + fake clock wiring), harness/internal/storeops (call specs, scheduler hook) and the dump parser Drv/StoreRun.lean:parseDump",
        "harness/internal/facts/storewrites.go (go/ast extractor behind facts_batches_atomic / facts_lock_ttl, trusted to report call sites faithfully): "
        "a Redis call = X.M(args) with >= 1 argument and M in the method set of go-redis' Pipeliner / *Tx / *Client (reflection); M in a fixed read-only "
        "list = read, Watch / Pipelined / TxPipelined / Pipeline / TxPipeline = plumbing (all listed), every other M = WRITE; a write counts as inside a "
        "MULTI..EXEC only if its receiver is an identifier resolving to a parameter of the innermost enclosing function literal and that literal is an "
        "argument of R.TxPipelined(...); parameters print with their type ('tx *redis.Tx'), everything else as source text. Any unrecognised shape (alias, "
        "nested closure, helper function, write on tx / r.client directly, bare Pipelined) is reported as a write outside a transaction, i.e. fails safe. "
        "For the lock: every SetNX call with its argument texts, Guard's parameter list, every call named *Expire* / Persist / Set* / GetEx / GetSet in "
        "redislock.go, every Guard call of servers.go. Not covered: writes from other files, Lua scripts, build-tag variants",
    ],
    "manifest": {
        "text": "Lean theorems over the Redis-level model of the three repositories (Model/Store.lean, StoreMachine.lean, QueueMachine.lean): "
                "consistent_atomic_step - each of the eleven atomic steps (save / remove batch, instance add / remove / clear batch, probe "
                "enqueue / pop batch, SET NX EX, DEL, lease expiry with or without watcher invalidation, lock-version touch) preserves "
                "Consistent (servers:updated, servers:refreshed, the nine status sets agree with servers:items; instances:updated with "
                "instances:items; probes:queue with probes:items; every lock cell has a TTL) for arbitrary arguments; wstep_consistent / "
                "qstep_consistent - every storage command of a registry write or queue/instance call does, for an arbitrary machine state, "
                "and wstep_atomic - its store effect is nothing or exactly one atomic step; C10_main / C10_world - invariant along every "
                "event list (any number of clients, any interleaving, expiry events, queue commands); C10_crash - hence after every prefix, "
                "i.e. after a client death at any command boundary (a corollary of C10_main: the prefix hypothesis is not needed); lock_ttl - every "
                "lock cell in every reachable state carries an expiry: lockSetNX writes ttl := leaseHasTTL = decide (0 < Facts.lockLeaseMs), the lease read from a real repository on every run (lock_ttl_needs_positive_lease [supporting, not audited: `Consistent.ttl` applied]: a cell with the flag off breaks Consistent); tied to the code syntactically by facts_lock_ttl; "
                "the flag is READ by the model: lockExpire removes only a cell whose ttl flag is set (a Redis key without TTL never expires), so 'no crash can block a server forever' depends on it: "
                "blocked_while_held (while the cell exists another call's SET NX on that address changes nothing), holder_death_unblocks / holder_death_unblocks_writer (in every reachable state, after Ev.expire k, "
                "whoever held the cell and whether or not it is alive, the next SET NX on k by any client succeeds; premise 'the cell has a TTL' discharged by lock_ttl; holder_death_unblocks_of_ttl / expire_frees are the single step with the premise explicit); "
                "no_ttl_blocks_forever / expire_no_ttl (the premise is needed: a cell without TTL survives any number of expiry events and keeps refusing SET NX); "
                "lockExpire_respects_ttl / expire_reachable_removes (on reachable stores the expiry removes the cell exactly as the model did before the flag was read, so differential behaviour is unchanged); "
                "facts_batches_atomic - the regenerated go/ast inventory of every Redis write call site of the three repositories and redislock: each "
                "batch of the model is the set of pipe.X calls of exactly one TxPipelined closure, the only writes outside such a closure are Guard's "
                "SetNX and release's Del (atomic steps of their own in the model), no writer uses a bare Pipelined; facts_lock_ttl - one SetNX whose TTL "
                "argument is Guard's ttl parameter = the positive lease option, no Expire/PExpire/Persist/Set call in redislock.go; "
                "consistentB_sound / consistentB_iff - the driver's executable oracle is the invariant (plus: no status-set member with a bit index outside 0..8); driver_runCall_consistent - every model state the driver itself produces (calls cut anywhere) is consistent. That the real code issues exactly "
                "these atomic steps is established by the source facts above (syntactic: which writes sit in which MULTI..EXEC) and by the differential run: results, per-command traces and the raw keyspace after "
                "every item (with crashes injected at command boundaries) are compared with the model, and the oracle is evaluated on the "
                "implementation's own dumps.",
        "level_note": "Proved: invariant preservation for the model, for all states, arguments and schedules. Compared only (finite): "
                      "model = code (command sequence, batch contents, keyspace). Trusted: Lean kernel; axioms propext, Quot.sound, "
                      "Classical.choice; miniredis as Redis; identity JSON; the harness' crash hook (a parked goroutine = a dead client). "
                      "Crashes inside a MULTI...EXEC are impossible by Redis semantics and are not modelled.",
        "technique": "Lean 4 proof (inductive invariant over atomic steps, machines and event lists; fold lemmas for the nine SADD/SREM by induction over the bit list) + differential correspondence with injected crashes",
        "design_ref": "DESIGN.md §5 C10",
    },
}
