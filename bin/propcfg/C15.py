from props import COMMON_TRUSTED


def _nontrivial(t):
    # a registry of at least two planted servers
    return len(t) >= 6 and t[4].count("call|add!") >= 2


CFG = {
    "module": "Swat4.Properties.C15",
    "theorems": [
        "Swat4.C15.facts_config_wiring",
        "Swat4.C15.enqueue_view",
        "Swat4.C15.enqueue_dropped",
        "Swat4.C15.enqueueAll_run",
        "Swat4.C15.refresh_exact",
        "Swat4.C15.revive_exact",
        "Swat4.C15.enqueueAll_run_general",
        "Swat4.C15.revive_overlong",
        "Swat4.C15.revive_overlong_count",
        "Swat4.C15.revive_ready_window",
        "Swat4.C15.revive_empty_window",
        "Swat4.C15.mem_filter",
        "Swat4.C15.refresh_pred",
        "Swat4.C15.revive_pred",
        "Swat4.C15.added_view",
        "Swat4.C15.added_count",
        "Swat4.C15.refresh_one_per_server",
        "Swat4.C15.revive_one_per_server",
        "Swat4.C15.revive_at_most_one_per_server",
        "Swat4.C15.overlongState_keyed",
        "Swat4.C15.facts_cycle_deadline",
        "Swat4.C15.facts_deadline_is_next_tick",
        "Swat4.C15.facts_cycle_context",
        "Swat4.C15.facts_cycle_not_cancelled_in_flight",
    ],
    "shards": (4, 16),
    "nontrivial": _nontrivial,
    "rule": "registries of 0..12 servers planted through the real repository with arbitrary status words (all 512 reachable) and refresh "
            "times around now-scope and now-interval (at the bound and +-256ns) or never refreshed, optionally a pre-queued probe; one real "
            "refreshservers / reviveservers cycle invoked exactly as the refresher / reviver components do, for interval 1..600s, scope 0..1h "
            "incl. scope <= interval, countdown 0..300s incl. 0 and countdown > interval, retry budgets 0..5; the random countdown draw of each "
            "server is recovered from the queue; compared: repository calls, reported count, whole keyspace dump; oracle: exact expected probe "
            "set computed from the planted registry; non-trivial = at least two planted servers",
    "assumptions": [
        "the filtered query returns exactly the predicate's selection (C11 filter_eq_pred ties the index-based query to the predicate)",
        "the random draw is a parameter with 0 <= draw < countdown (math/rand.Intn); dropped probes (ready >= expiry, only when countdown > interval) leave no trace from which the draw could be recovered, any draw >= interval reproduces them",
        "clock and cycle parameters are multiples of 256 ns (exact float64 scores)",
    ],
    "trusted_base": COMMON_TRUSTED,
    "manifest": {
        "text": "Lean theorems refresh_exact and revive_exact: running the use case on any registry and queue appends exactly one probe per selected "
                "server (selection = the declarative predicate: refresh_pred / revive_pred), with exactly the stated fields, ready and expiry times, "
                "leaves the registry untouched and reports the number selected (= enqueued when countdown <= interval); revive_overlong (any countdown, in particular countdown > interval, no hypotheses: the queue grows by exactly the selected "
                "servers whose drawn ready time is before the deadline while the reported count is the number selected; concrete instance with count 1 and nothing queued); revive_empty_window (scope <= "
                "interval: nothing), refresh_one_per_server / revive_one_per_server (under Keyed - every registry row stored under the key of its own address, the C09/C10 invariant - "
                "for EVERY address a the number of appended probes addressed to a is exactly 1 if a selected server has that address and 0 otherwise, and the appended items are as many as the selected servers; "
                "revive_at_most_one_per_server for any countdown), revive_ready_window (ready in [now, now+countdown), = now for countdown 0). Unbounded registry size, by induction "
                "over the selection. Tied to refreshservers.go / reviveservers.go and the components' request construction by full-queue comparison on "
                "generated registries and settings.",
        "level_note": "Trusted: Lean kernel (propext, Quot.sound, Classical.choice); the abstract registry/queue as the meaning of the repositories (C10/C11); "
                      "the Prog model of the two use cases validated by the differential run; random draws as parameters.",
        "technique": "Lean 4 proof (induction over the selected servers on the abstract queue) + differential correspondence with full queue comparison",
        "design_ref": "DESIGN.md §5 C15",
    },
}
