from props import COMMON_TRUSTED


def _c11_nontrivial(t):
    # C11 hist <items>: a history of at least 5 items
    return len(t) >= 3 and len(t[2].split(",")) >= 5


CFG = {
    "module": "Swat4.Properties.C11",
    "theorems": [
        "Swat4.C11.rel_iff",
        "Swat4.C11.rel_unique",
        "Swat4.C11.rel_empty",
        "Swat4.C11.write_refines",
        "Swat4.C11.add_refines",
        "Swat4.C11.update_refines",
        "Swat4.C11.remove_refines",
        "Swat4.C11.mem_zrangeBy",
        "Swat4.C11.mem_sinter",
        "Swat4.C11.mem_sunion",
        "Swat4.C11.mem_intersection",
        "Swat4.C11.mem_difference",
        "Swat4.C11.mem_filterKeys",
        "Swat4.C11.nodup_filterKeys",
        "Swat4.C11.filter_eq_pred",
        "Swat4.C11.get_refines",
        "Swat4.C11.count_refines",
        "Swat4.C11.countByStatus_refines",
        "Swat4.C11.C11_step",
        "Swat4.C11.C11_main",
        "Swat4.C11.C11_from",
        "Swat4.C11.driver_write_refines",
        "Swat4.C11.relQ_iff",
        "Swat4.C11.relQ_find",
        "Swat4.C11.relI_unique",
        "Swat4.C11.relIQ_empty",
        "Swat4.C11.insAdd_refines",
        "Swat4.C11.insRemove_refines",
        "Swat4.C11.insGet_refines",
        "Swat4.C11.insClear_refines",
        "Swat4.C11.insClear_spec",
        "Swat4.C11.insCount_refines",
        "Swat4.C11.enqueue_refines",
        "Swat4.C11.enqueue_dropped",
        "Swat4.C11.zrange_eq_ready",
        "Swat4.C11.popMany_refines_set",
        "Swat4.C11.popMany_refines_perm",
        "Swat4.C11.qCount_refines",
        "Swat4.C11.C11_queue_step",
        "Swat4.C11.C11_queue_main",
        "Swat4.C11.C11_queue_from",
        "Swat4.C11.C11_queue_no_hung",
        "Swat4.C11.driver_queue_refines",
        "Swat4.C11.update_refused",
        "Swat4.C11.update_refused_machine",
        "Swat4.C11.add_fresh",
        "Swat4.C11.add_refused",
        "Swat4.C11.add_resolved",
        "Swat4.C11.update_missing",
        "Swat4.C11.update_current",
        "Swat4.C11.update_equal_version",
        "Swat4.C11.update_newer_resolved",
        "Swat4.C11.update_resolver_exactly_when_newer",
        "Swat4.C11.remove_missing",
        "Swat4.C11.remove_current",
        "Swat4.C11.remove_defended",
        "Swat4.C11.remove_newer_resolved",
        "Swat4.C11.add_fresh_machine",
        "Swat4.C11.add_refused_machine",
        "Swat4.C11.update_missing_machine",
        "Swat4.C11.update_current_machine",
        "Swat4.C11.update_newer_resolved_machine",
        "Swat4.C11.remove_defended_machine",
        "Swat4.C11.remove_current_machine",
        "Swat4.C11.driver_reads_refine",
        "Swat4.C11.facts_decode_plain",
        "Swat4.C11.sortByKey_perm",
        "Swat4.C11.sortByKey_sorted",
        "Swat4.C11.sortByKey_order_independent",
        "Swat4.C11.renderServers_order_independent",
        "Swat4.C11.hmget_keys_nodup",
        "Swat4.C11.filter_render_eq",
    ],
    # proved in the Lean files (and built with the module) but NOT audited as property theorems: each is a read-back of a
    # definition, glue between two names, true by type, or a restatement of an audited theorem
    "supporting": [
        {"name": "Swat4.C11.driver_reads_are_model", "why": "`rfl` glue: the four read arms of `Drv.runCall` unfolded (runCall_get / _filter / _count: `rfl`); the content is driver_reads_refine / get_refines / filter_eq_pred / count_refines / countByStatus_refines"},
    ],
    "shards": (4, 16),
    "nontrivial": _c11_nontrivial,
    "rule": "random sequential call histories of 1..60 (thorough 1..300) items over 4 addresses on the real servers repository: "
            "add/update/remove with stale / current / future caller versions, all 512 status words, refresh times incl. zero and "
            "+-256 ns around stored instants, resolvers {refuse, accept, merge, overwrite}; get; count; countby; filter with arbitrary "
            "or single-bit with/no-status masks and bounds 256 ns before / at / after stored update and refresh times; clock advances. "
            "Every return value (filter results sorted by address) and the final raw keyspace are compared with the Redis-level Lean "
            "model; oracle on the implementation's results: they equal the results of the versioned-map specification "
            "(AbsState.add/update/remove/get/filter/count/countByStatus) folded over the same history, and the final dump equals the "
            "specification state's dump. non-trivial = history of at least 5 items",
    "assumptions": [
        "JSON (de)serialisation of stored server records is the identity (json.Marshal / json.Unmarshal round trip of server.Server); the model stores the record itself",
        "miniredis 2.x stands for Redis (ZRANGEBYSCORE with exclusive/inclusive bounds, SINTER, SUNION, HMGET, HLEN, SCARD, MULTI/EXEC); no redis-server binary is available offline",
        "all harness timestamps are world.Epoch + k*256 ns, hence exactly representable as float64 zset scores (the model uses Int scores and Int comparisons)",
        "probe ready times are distinct in generated histories (Redis orders equal scores by member text); not relevant to the registry calls of C11 but shared by the store drivers",
        "Addr.String() is injective on the addresses used (model key = ip*65536 + port); histories are sequential (interleavings are C09's subject)",
    ],
    "trusted_base": COMMON_TRUSTED + [
        "harness/internal/world, harness/internal/storeops (call specs, resolver behaviours) and the renderers in Drv/Store.lean / Drv/StoreRun.lean",
        "the theorems' history runner (Lemmas/StoreRefine.lean: stepM / runHistM) re-states the driver's runCall (Drv/StoreRun.lean); for writes their agreement is proved (driver_write_refines), likewise for instance / queue calls with at most 98 queued probes (driver_queue_refines: runQC = runQ + trace labels), the read arms are proved to render getM / hmgetItems (filterKeys .) / items.size / countByM (driver_reads_are_model, driver_reads_refine; Lemmas/StoreDrvReads.lean); not proved: that the driver's sorting of Filter results by address is permutation-invariant, and the string renderers",
    ],
    "manifest": {
        "text": "Lean theorems relating the Redis-level model of repositories/servers (Model/Store.lean + the lock/WATCH writer machine) "
                "to the versioned-map specification Spec/Registry.lean via Rel (row of k = stored record of k + its servers:updated score): "
                "write_refines / add_refines / update_refines / remove_refines - a write call run alone from a store with no lock cell on "
                "its key finishes within 16 commands with the specification's result (ok record equal; exists / not-found errors "
                "correspond), in a consistent store related to the specification's next state, with the lock released, for every record, "
                "version and resolver function (no address-preservation needed); mem_filterKeys / filter_eq_pred - on a consistent store "
                "ZRANGEBYSCORE / SINTER / SUNION + slice.Intersection / slice.Difference + 'no include criterion => all' + HMGET return, "
                "without duplicates and up to order, exactly the records satisfying FilterSet.pred (all with-bits, no no-bit, refresh and "
                "update time in half-open ranges, never-refreshed records fail every active bound); get_refines, count_refines, "
                "countByStatus_refines; update_refused / update_refused_machine - an Update whose resolver refuses (stored version newer) returns the "
                "stored record with no error and changes nothing, at both levels, as servers.go does (return existing, nil); the prose sub-clauses of the statement as equations on the specification and, through the refinement theorems, on the writer machine with hypotheses on the store: add_fresh (absent address: caller's record stored at version+1 with update time now, reply = stored record), add_refused (existing address, resolver refuses: 'exists', nothing changes; add never compares versions), add_resolved, update_missing (not-found, no row created), update_current / update_equal_version (stored version <= caller's, equal included: caller's record at version+1, resolver not consulted), update_newer_resolved (stored version newer: the resolver gets the stored record and its result is stored at its version+1), update_resolver_exactly_when_newer, remove_missing / remove_current, remove_defended (stored version newer and resolver refuses: nothing changes, reply is still nil - success), remove_newer_resolved (erases the resolved record's key), and *_machine corollaries; C11_main - by induction over any history of calls from the empty keyspace the model's results equal "
                "the specification's item by item; driver_write_refines - the driver's own call runner (Drv.runCall) has this property for writes; driver_reads_are_model [supporting `rfl` glue, not audited] / driver_reads_refine - its read arms render exactly getM, the list of filter_eq_pred, HLEN and countByM, hence the specification's get / filter (up to order) / count / countByStatus; sortByKey_perm / sortByKey_sorted / sortByKey_order_independent / renderServers_order_independent - the driver-only insertion sort behind renderServers is a permutation of its input, ascending in the address key, and for lists with pairwise distinct keys independent of the input order, so rendered listings are compared exactly up to order; hmget_keys_nodup / filter_render_eq - every Filter result on a consistent store has distinct keys, hence its rendering is the same string as the rendering of the specification's filter. "
                "The same is proved for the other two repositories via RelI (instances:items / updated vs AbsState.instances) and RelQ (probes:items / queue vs "
                "AbsState.queue read as a finite map id -> item, nextId strictly above every stored id): insAdd_refines / insRemove_refines / insGet_refines / "
                "insClear_refines (inclusive bound at both levels, HDEL reply = rows removed) / insCount_refines, enqueue_refines (incl. the dropped case), "
                "popMany_refines_set (all rounds, within 2*ZCARD+1 commands, the returned probes as equal lists since both levels order by (ready, id), equal "
                "expired count), qCount_refines, and C11_queue_main - by induction over any history of instance / queue calls from the empty keyspace the "
                "machine's replies equal those of Call.exec on the specification state, which is what the use-case programs of C04, C05, C12-C16 run on; driver_queue_refines - Drv.runCall computes that machine call. The model is tied to the Go code by comparing every return value and the final keyspace "
                "of generated histories; the specification's results are also compared with the code's directly.",
        "level_note": "Proved: model refines specification, all states / records / filter sets / histories (sequential). Compared only "
                      "(finite): model = code and specification = code on generated histories. Trusted: Lean kernel; axioms propext, "
                      "Quot.sound, Classical.choice; miniredis as Redis; identity JSON; float64-exact scores; Filter's result order is "
                      "unspecified (Go map iteration) and compared as a sorted list / proved as a permutation.",
        "technique": "Lean 4 proof (simulation via an abstraction relation; symbolic run of the writer machine; membership characterisation of the index reads using C10's invariant; Perm via nodup + extensionality) + differential correspondence",
        "design_ref": "DESIGN.md §5 C11",
    },
}
