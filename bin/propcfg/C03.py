from props import COMMON_TRUSTED


def _c03_nontrivial(t):
    # parse/match: a non-empty filter string; listings: at least one planted server
    if len(t) < 3:
        return False
    op = t[1]
    if op in ("parse", "match"):
        return t[2] != "-"
    if op == "list":
        return len(t) > 7
    if op == "blist":
        return len(t) > 6
    if op == "rest":
        return len(t) > 10
    return False


def _c03_extra(results):
    nonempty = 0
    listings = 0
    boundary = {"parse_err": 0, "parse_ok": 0}
    for inp, out, v, src in results:
        t = inp.split()
        o = out.split()
        if len(t) > 1 and t[1] in ("list", "blist", "rest"):
            listings += 1
            if len(o) == 2 and o[1] != "-":
                nonempty += 1
        if len(t) > 1 and t[1] == "parse" and o:
            boundary["parse_ok" if o[0] == "ok" else "parse_err"] += 1
    return {"listings": listings, "listings_nonempty": nonempty, **boundary}


CFG = {
    "module": "Swat4.Properties.C03",
    "theorems": [
        "Swat4.C03.facts_ok",
        "Swat4.C03.required_in_scope",
        "Swat4.C03.parse_total",
        "Swat4.C03.loop_terminates",
        "Swat4.C03.malformed_is_blank",
        "Swat4.C03.wellformed_is_used",
        "Swat4.C03.match_sat",
        "Swat4.C03.query_match_sat",
        "Swat4.C03.selection_eq_filter",
        "Swat4.C03.boundary_inclusive",
        "Swat4.C03.rest_flags",
        "Swat4.C03.rest_listing",
        "Swat4.C03.browser_listing_malformed",
    ],
    "shards": (1, 16),
    "nontrivial": _c03_nontrivial,
    "extra_evidence": _c03_extra,
    "rule": "TODO",
    "assumptions": [],
    "trusted_base": COMMON_TRUSTED,
    "manifest": {
        "text": "TODO",
        "level_note": "TODO",
        "technique": "Lean 4 proof (decision logic + scanner round trip) + differential correspondence",
        "design_ref": "DESIGN.md §5 C03",
    },
}
