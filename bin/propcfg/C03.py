from props import COMMON_TRUSTED


def _c03_nontrivial(t):
    # parse/match: a non-empty filter string; listings: at least one planted server
    if len(t) < 3:
        return False
    op = t[1]
    if op in ("parse", "match"):
        return t[2] != "-"
    if op == "list":
        return len(t) > 7
    if op == "blist":
        return len(t) > 6
    if op == "rest":
        return len(t) > 10
    return False


def _c03_extra(results):
    nonempty = 0
    listings = 0
    boundary = {"parse_err": 0, "parse_ok": 0}
    for inp, out, v, src in results:
        t = inp.split()
        o = out.split()
        if len(t) > 1 and t[1] in ("list", "blist", "rest"):
            listings += 1
            if len(o) == 2 and o[1] != "-":
                nonempty += 1
        if len(t) > 1 and t[1] == "parse" and o:
            boundary["parse_ok" if o[0] == "ok" else "parse_err"] += 1
    return {"listings": listings, "listings_nonempty": nonempty, **boundary}


CFG = {
    "module": "Swat4.Properties.C03",
    "theorems": [
        "Swat4.C03.facts_ok",
        "Swat4.C03.required_in_scope",
        "Swat4.C03.loop_terminates",
        "Swat4.C03.malformed_is_blank",
        "Swat4.C03.wellformed_is_used",
        "Swat4.C03.match_sat",
        "Swat4.C03.query_match_sat",
        "Swat4.C03.selection_eq_filter",
        "Swat4.C03.boundary_inclusive",
        "Swat4.C03.rest_flags",
        "Swat4.C03.rest_listing",
        "Swat4.C03.browser_listing_malformed",
        "Swat4.C03.parse_render",
        "Swat4.C03.plus_sign_accepted",
        "Swat4.C03.C03_main",
        "Swat4.C03.filter_parse_never_panics",
        "Swat4.C03.filter_parse_outcome",
        "Swat4.C03.scanFilter_never_panics",
        "Swat4.C03.filterParse_never_panics",
        "Swat4.C03.parseRawFilterValue_never_panics",
        "Swat4.C03.parse_sound",
        "Swat4.C03.parse_complete",
        "Swat4.C03.accepted_language",
        "Swat4.C03.C03_lenient",
        "Swat4.C03.toFilter_ofFilter",
        "Swat4.C03.ofFilter_toFilter",
        "Swat4.C03.browser_listing_parsed",
        "Swat4.C03.browser_listing_any",
        "Swat4.C03.facts_frontend_status",
        "Swat4.C03.facts_frontend_liveness",
        "Swat4.C03.facts_rest_prepare_query",
        "Swat4.C03.facts_rest_prepare_query_model",
    ],
    # proved in the Lean files and used by other proofs, but NOT audited as property theorems: each is a
    # read-back of a definition, glue between two names, true by type, or a corollary of an audited theorem
    "supporting": [
        {"name": "Swat4.C03.parse_total", "why": "true by type (an `Except` is `ok` or `error`) plus one definitional case (`[]` is mapped to `error empty` by `newFromString` itself)"},
    ],
    "shards": (1, 16),
    "nontrivial": _c03_nontrivial,
    "extra_evidence": _c03_extra,
    "rule": "five operations against the real code: parse (query.NewFromString: result class + parsed clauses read by reflection), "
            "match (NewFromString + Query.Match on a real details.Info), list (listservers.Execute over the real redis repository on "
            "miniredis with a fake clock, servers planted through Repository.Add), blist (the real browser handler over loopback TCP, "
            "reply decrypted and decoded), rest (GET /api/servers through the gin router). Generators: the full table "
            "field (11 query fields + non-whitelisted/unknown/empty/case-changed) x operator (4 + malformed runs of ! = < >) x value kind "
            "(ints incl. negative, signed, leading zeros, int64 limits and overflow; quoted strings incl. empty, quotes/operator bytes/' and ' "
            "inside, unterminated; field references incl. bool and non-whitelisted; garbage) against records drawn from pools that make "
            "clauses match about as often as not; random 1..4-clause queries (half built to be satisfied by a planted record); malformed "
            "strings (fixed list, random bytes, grammar-alphabet soup, truncations and one-byte corruptions of valid queries); registries "
            "of 0..10 servers with 9-bit status words biased around the required mask and refresh times at now-liveness-256ns, exactly "
            "at it, +256ns, far on either side, and never refreshed; liveness 180s, 0, 1 tick, negative, random; required status master, "
            "info, none, combinations, random 9-bit, and bits without an index set; all 64 presence combinations of the six REST flags with "
            "drawn spellings of booleans. Structured cases carry the generator's declared reading (clauses or 'does not parse'), which the "
            "driver validates against the specification's render/WfClause before using it as the oracle's input; non-trivial = non-empty "
            "filter string (parse/match) or at least one planted server (listings)",
    "assumptions": [
        "A-time: all harness timestamps are Epoch + k*256ns, which float64 sorted-set scores represent exactly; the model compares integers (DESIGN.md section 4)",
        "now - liveness is never the Go zero time (year 1), so the ActiveAfter bound is always present",
        "a stored record's Info survives the repository's JSON encoding unchanged (listing cases use ASCII strings); addresses in the registry are distinct",
        "required status words only have bits with an index set (ds.Members(), 9 bits) - theorem hypothesis, true of both frontends (required_in_scope); other masks are compared with the model only",
        "gin's query binding of the three bool flags is the REST model's (Model/Rest.lean: bindBool / parseBool = strconv.ParseBool table, absent or empty = false; bindListQuery fails => listServers answers 400), called by the driver's `rest` op; the C03 theorems do not speak about it (C17's do)",
        "the listing is compared as a multiset: Go map iteration order is not modelled",
    ],
    "trusted_base": COMMON_TRUSTED,
    "manifest": {
        "text": "Lean theorems over a byte-level model of filter.Parse/New/parseRawFilterValue (incl. strconv.Atoi), query.NewFromString/scanFilter, Filter.Match/Query.Match over the reflected Info schema, the browser's parse-error-to-blank-query rule, prepareQuery and listservers.Execute over servers.Filter: selection_eq_filter (for every registry, clock, liveness, 9-bit required status and clause list the listing is exactly the records with status & required = required, refreshedAt non-zero and >= now - liveness, and every clause satisfied), boundary_inclusive, match_sat (Match of any clause on any record = the declarative meaning sat: ints and 0/1-bools under = != < >, strings under = != only, field references by the right-hand field's type, everything else false), parse_render (NewFromString reads back the rendering of any non-empty list of well-formed clauses), malformed_is_blank (any parse error gives the blank query, which matches everything), rest_flags/rest_listing (six REST flags = the specified clauses), facts_rest_prepare_query / facts_rest_prepare_query_model (go/ast inventory of servers_list.go prepareQuery: the six `if cond { filter.New(field, op, value) }` rows with their conditions, the rest of the function, maybeAddFilter and the form's struct tags are pinned literally, and the field / operator literals as bytes are the constants the model's prepareQuery passes to newFilter, in the same order), C03_main (browser listing for a grammar string = specification's selection), browser_listing_parsed / browser_listing_any (the same for EVERY string the parser accepts, canonical or not, resp. every byte string: the listing is the specification's selection for the clauses the parser returned), parse_sound (converse of parse_render: an accepted string is a spelling, in the lenient grammar QueryText - optional sign and leading zeros, any bytes between the outer quotes, optional trailing ' and ' - of exactly the clauses returned), parse_complete / accepted_language (conversely every such spelling is accepted and read as spelt, so QueryText is exactly the accepted language), C03_lenient (listing = specification's selection for every spelling), filter_parse_never_panics (the checked form of scanFilter/filter.Parse/parseRawFilterValue/NewFromString, with every Go index and slice expression explicit on the string the source applies it to and a panic outcome, equals the total form on every byte string: no out-of-range index, no endless loop). Lemmas/FilterLeniency.lean pins ~120 edge-case strings to the answers the real Go parser gave when they were written (frozen text); the same strings are in harness/corpus/C03/parse-examples.case, so every check compares the real parser with the model on each of them again. The model is tied to the code by differential runs of parse, match, listservers.Execute on the real repository, the real browser handler over TCP and GET /api/servers; the oracle is the specification's predicate evaluated on the implementation's listing.",
        "level_note": "Trusted: Lean kernel; axioms propext, Quot.sound, Classical.choice; the specification Spec/FilterSpec.lean (sat, render, WfClause, selected, flagClauses) as the reading of the property text; the finite differential run as evidence that Model/Filter.lean behaves like the Go code (the scanner is modelled twice: in takeWhile/dropWhile form, and expression by expression with checked index/slice operations; the two are proved equal, the second is a hand transcription of the Go source); generated Facts.lean (Info schema by reflection through params.GetParamName, IsQueryField via go/ast + the compiled predicate, ds.Members()); miniredis for ZRANGEBYSCORE/SINTER; JSON round trip of stored records; float64 score exactness under A-time; gin query binding.",
        "technique": "Lean 4 proof (decision logic + scanner round trip) + differential correspondence",
        "design_ref": "DESIGN.md §5 C03",
    },
}
