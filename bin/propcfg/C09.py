from props import COMMON_TRUSTED


def _c09_nontrivial(t):
    # C09 sched <init> <clients> <events>: both of the first two clients are scheduled
    return len(t) >= 5 and "s0" in t[4].split(",") and "s1" in t[4].split(",")


CFG = {
    "module": "Swat4.Properties.C09",
    "theorems": [
        "Swat4.C09.inv_init",
        "Swat4.C09.inv_step",
        "Swat4.C09.inv_run",
        "Swat4.C09.inv_reachable",
        "Swat4.C09.clean_unique",
        "Swat4.C09.C09_commit_atomic",
        "Swat4.C09.C09_rows_change_only_by_commit",
        "Swat4.C09.C09_replay",
        "Swat4.C09.C09_linearizable",
        "Swat4.C09.C09_committed_result",
        "Swat4.C09.C09_no_effect_unless_committed",
        "Swat4.C09.C09_error_no_effect",
        "Swat4.C09.C09_measure_decreases",
        "Swat4.C09.C09_bounded_measure",
        "Swat4.C09.C09_bounded",
        "Swat4.C09.C09_finishes",
        "Swat4.C09.C09_listing",
        "Swat4.C09.C09_reader_finishes",
        "Swat4.C09.Example.init_s0",
        "Swat4.C09.facts_ok",
        "Swat4.C09.C09_refines_spec",
        "Swat4.C09.C09_committed_result_spec",
        "Swat4.C09.C09_committedOps_length",
        "Swat4.C09.C09_listing_committed",
        "Swat4.C09.Example.init_s1",
        "Swat4.C09.facts_writes_fenced",
        "Swat4.C09.facts_tx_calls",
        "Swat4.C09.facts_tx_provenance",
        "Swat4.C09.facts_lock_key",
        "Swat4.C09.facts_lock_setnx",
        "Swat4.C09.Example.init_s2",
        "Swat4.C09.Example.listing_skips_removed_witness",
        "Swat4.C09.C09_listing_total",
        "Swat4.C09.C09_log_prefix",
        "Swat4.C09.facts_record_reads_fenced",
        "Swat4.C09.facts_fence_check",
        "Swat4.C09.facts_write_keys",
        "Swat4.C09.facts_decode_plain",
        "Swat4.C09.usecases_resolvers_addr_preserving",
        "Swat4.C09.usecases_resolvers_key_preserving",
        "Swat4.C09.resAP_of_calls",
    ],
    # proved in the Lean files and used by other proofs, but NOT audited as property theorems: each is a
    # read-back of a definition, glue between two names, true by type, or a corollary of an audited theorem
    "supporting": [
        {"name": "Swat4.C09.start_attempts", "why": "read-back of the definition (`rfl` on `Writer.start`)"},
        {"name": "Swat4.C09.facts_writers_exec_on_tx", "why": "redundant: read off the literal list that `facts_tx_calls` already pins"},
    ],
    "shards": (4, 16),
    "nontrivial": _c09_nontrivial,
    "rule": "random command-level schedules of 2-3 registry calls (add/update/remove x refuse/accept/merge/over resolvers x "
            "stale/current/future caller versions, optionally a Filter reader) on one or two addresses (the first two "
            "calls always contend for the same address) over the real servers repository (miniredis) under the gating go-redis hook, with lease-expiry (e) and clock (t) events; compared with "
            "the Lean Sys model: per-client command trace (kind + reply class), call results, final canonical keyspace; "
            "oracle on the implementation's output: final rows = fold of the observed exec:ok commits, each applied "
            "atomically to the then-current registry, commit results = the atomic calls' results, an uncommitted call reports a lock error or a "
            "no-effect result, every record a concurrent reader reports = the replayed record of that address at the instant of its HMGET; non-trivial = the schedule steps both client 0 and client 1",
    "assumptions": [
        "resolvers are key-preserving (KeyPreserving: applied to a record stored under the caller's address they return a record "
        "for that address; implied by AddrPreserving); the onConflict callbacks in the source mutate the stored record in place and "
        "no production code assigns Server.Addr; the four harness resolvers are key-preserving",
        "stored records are keyed by their own address in the initial keyspace (Init.keyed; maintained afterwards: Inv.keyed)",
        "lock tokens are never reused (redislock draws 16 random bytes; the model hands out a counter) - Init.tokInj/tokLt",
        "one storage command = one atomic step (Redis executes commands and MULTI/EXEC batches without interleaving); "
        "WATCH observes exactly the modifications of the lock key (SET NX, DEL, and - per Sys.dirties - expiry)",
        "the protocol shape the machine hard-codes - all row writes of save/remove queued in ONE TxPipelined closure, that "
        "TxPipelined called on the tx of Guard's Watch callback, lock key = Sprintf(lockKeyFmt, svr.Addr.String()) = the "
        "address the rows are written under, one SetNX carrying the lease as TTL and no separate expire, token drawn inside "
        "Guard, release = GET then a separate DEL - is no longer an unchecked assumption: it is regenerated from the Go source "
        "on every run (Gen/Facts.lean, section storewrites) and pinned literally by facts_writes_fenced, facts_tx_calls, "
        "facts_tx_provenance, facts_lock_key, facts_lock_setnx; what remains assumed is that the "
        "syntactic shape means what it says (go-redis: TxPipelined on a *redis.Tx sends MULTI..EXEC on the WATCHing connection)",
        "real time (1 s lease, 100 ms backoff) is abstracted to nondeterministic expire/tick events; crashes = a client that is "
        "never scheduled again (all theorems hold for every schedule, so also for those)",
        "the theorems quantify over every number of clients, addresses and schedule length; the differential run samples "
        "2-3 clients on one address",
    ],
    "trusted_base": COMMON_TRUSTED + [
        "driver-implemented oracle semantics in lean/Swat4/Drv/C09.lean (not Model/ definitions; built on Spec/Registry AbsState.add/update/remove): "
        "`oracle` (replay of the trace's exec:ok entries as atomic calls, commit-result comparison, final-rows comparison via svCore/absCore), "
        "`noEffectResult` + `idle` (a writer that never committed reports err:locklost / err:exhausted or the result of a no-effect atomic call on one of "
        "the registries the replay passes through) and `readersOk` (a reader reports ok, no address twice, and every record it reports equals, field for "
        "field, the replayed registry's record of that address at the trace position of its hmget; completeness of a listing is not checked by the oracle, "
        "only by the comparison with the model)",
        "Model/StoreMachine.lean wstep/rstep/Sys.step as the meaning of 'the repository code' (validated: trace, results and "
        "final keyspace agree with the real repository on every generated schedule)",
        "harness/internal/facts/storewrites.go (go/ast extractor, trusted to report call sites faithfully). It recognises: a Redis "
        "call = a call expression X.M(args) with at least one argument whose method name M belongs to the method set of go-redis' "
        "Pipeliner / *Tx / *Client (read by reflection from the compiled go-redis); M in a fixed read-only list (Get, HGet, HMGet, "
        "ZRange..., SInter, SCard, ...; the names that actually occur are pinned by facts_writes_fenced) = read; Watch / Pipelined / "
        "TxPipelined / Pipeline / TxPipeline = transaction plumbing (all listed in storeTxCalls); every other M = WRITE. A write is "
        "'inside a transaction' only if its receiver is an identifier that resolves (go/parser scope resolution) to a parameter of "
        "the innermost enclosing function literal and that literal is an argument of a call R.TxPipelined(...); it is then listed "
        "with R. Identifiers that resolve to a parameter are printed with their declared type ('tx *redis.Tx'), anything else as "
        "source text, so an alias or a field never prints like the parameter. Every unrecognised shape - a write through an alias, "
        "in a nested closure or helper function, on tx / r.client directly, under Pipelined - is reported as a write OUTSIDE a "
        "transaction (fails safe: the literal lists in the theorems change). Not covered: writes issued from other files/packages "
        "(Lua scripts, other repositories touching servers:* keys), methods reached through an interface value whose name is not a "
        "go-redis method, and build-tag variants of the four files",
    ],
    "manifest": {
        "text": "Lean theorems over the interleaved system Sys (any number of writers/readers, any addresses, any event list incl. "
                "lease expiry under both 'expiry invalidates WATCH' and 'does not'): inv_step/inv_run - Inv is inductive; "
                "clean_unique - at most one call per address has passed Guard's ownership check with a still-valid WATCH; "
                "C09_commit_atomic - at the instant an EXEC is accepted the queued batch and the result to be returned are "
                "exactly decide(op, record stored now), the batch writes only the caller's address; "
                "C09_rows_change_only_by_commit / C09_replay - servers:items/updated/refreshed/status change only at accepted "
                "EXECs and the final rows are the logged batches replayed in order; C09_linearizable - from any Init state, "
                "every logged commit decided on the row of the sequential replay of the commits before it, its call returns "
                "that decision's result, and every call commits at most once; C09_error_no_effect - a call that returned an "
                "error committed nothing; C09_bounded/C09_finishes - a call executes at "
                "most 75 (<= 5*16) storage commands in any schedule and has returned once scheduled 80 times; C09_listing - "
                "Filter's HMGET step cannot fail and returns only records stored at that instant; C09_listing_committed - each of "
                "them is an initial row or exactly the record saved by a logged commit; listing_skips_removed_witness - a checked run in which a Remove commits "
                "between the reader's index read and its HMGET: the reader skips the vanished key and returns the other record; C09_listing_total - from any "
                "well-formed initial system with a Filter call about to start, after ANY schedule the call is still a reader, has finished once it was "
                "scheduled twice, and every record it finished with is a committed version (initial row or record saved by a logged commit; C09_log_prefix: the log only grows). C09_refines_spec / C09_committed_result_spec - "
                "through C11's abstraction relation Rel: from an initial store standing for specification state a0, after any schedule "
                "the store stands for a0 with the committed operations folded in commit order by the SPECIFICATION's add/update/remove "
                "(Spec/Registry.lean), and the n-th committed call returns the specification's result on the state after the first n. "
                "facts_writes_fenced / facts_tx_calls / facts_tx_provenance / facts_lock_key / facts_lock_setnx - the protocol shape the "
                "machine hard-codes (writes only inside the TxPipelined closure on Guard's tx, lock key expression, SetNX with the lease "
                "as TTL, token drawn in Guard, separate DEL in release) equals the shape regenerated from servers.go / redislock.go by a "
                "go/ast inventory of every Redis write call site. usecases_resolvers_addr_preserving / usecases_resolvers_key_preserving - the hypothesis "
                "KeyPreserving (Init.resAP: the conflict callback returns a record of the address it was given, so the lock of the caller's address protects "
                "the record the batch writes - the semantic link behind facts_lock_key) holds for the registry write of EVERY Add / Update / Remove call "
                "that the program tree of EVERY modelled use case can issue, whatever the earlier replies (report, keepalive, probe success/retry/failure, REST "
                "create/discover, refresh, revival, instance cleanup, listing, removal, both server cleaners - precisely the eleven programs UC.report, UC.renew, UC.probe, UC.addServer, UC.refresh, UC.revive, cleanInstances, listServers, UC.remove, cleanServers, cleanServers2; the two further client programs of the drivers, Heartbeat6.renewIP [dg6 keepalive] and the prober runner UC.proberRunWith / UC.proberRun [pop client], are NOT in this theorem: for them the same statement is Swat4.C13.usecases_more_key_preserving [Properties/C13.lean, audited under C13; from ProgStable by KeyPres.of_progStable]); resAP_of_calls - hence Init.resAP for any system whose writers perform such calls. The model is tied to "
                "servers.go / redislock by replaying generated command-level schedules on the real repository under a go-redis "
                "hook and comparing traces, results and final keyspace.",
        "level_note": "Trusted: Lean kernel; axioms propext, Quot.sound, Classical.choice; Model/Store.lean + Model/StoreMachine.lean "
                      "as a transcription of servers.Repository + redislock.Guard at storage-command granularity (differentially "
                      "validated, finite); Redis command atomicity and WATCH semantics as modelled; JSON (de)serialisation of "
                      "stored records taken as the identity; the go/ast fact extractor (storewrites.go) as a faithful report of call "
                      "sites, and go-redis' TxPipelined-on-Tx = MULTI..EXEC on the WATCHing connection. Not proved here: "
                      "fairness/real-time liveness (a call that is never scheduled never returns).",
        "technique": "Lean 4 proof (inductive invariant over all interleavings, ghost lock-version / last-writer state, "
                     "termination measure) + differential correspondence at storage-command granularity",
        "design_ref": "DESIGN.md §5 C09",
    },
}
