from props import COMMON_TRUSTED


def _nontrivial(t):
    # a crash / fault is injected inside a repository call, or a prober runs between another client's calls
    return len(t) >= 5 and any(x in t[4] for x in ("xb", "xa", "yb", "ya", "r1"))


CFG = {
    "module": "Swat4.Properties.C16",
    "theorems": [
        "Swat4.C16.backed_enqueue",
        "Swat4.C16.reported_adds_no_mark",
        "Swat4.C16.outcomes_clear_mark",
        "Swat4.C16.marked_are_skipped",
        "Swat4.C16.discover_order",
        "Swat4.C16.submission_order",
        "Swat4.C16.retry_order",
        "Swat4.C16.report_backed",
        "Swat4.C16.addServer_backed",
        "Swat4.C16.probe_backed",
        "Swat4.C16.probeRetry_backed",
        "Swat4.C16.probe_complete_backed",
        "Swat4.C16.runChoices_ok_eq_run",
        "Swat4.C16.refresh_revive_backed",
        "Swat4.C16.renew_remove_backed",
        "Swat4.C16.keyed_preserved",
        "Swat4.C16.backedB_correct",
        "Swat4.C16.C16_holder_counterexample",
        "Swat4.C16.C16_holder_completes",
    ],
    "shards": (1, 16),
    "nontrivial": _nontrivial,
    "rule": "nine scenarios (first report, re-report, REST submission of an unknown / known server, prober pop with retry / success / final "
            "failure, refresh, failed details probe) on the real use cases x position (after c repository calls) x storage command k of the next "
            "call x {client death, storage fault} x {before, after the command took effect} — exhaustive in the thorough tier —, each followed by "
            "lease expiry and quiescence; the same followed by a later report / prober run / keepalive of another component; and a prober "
            "resolving a fresh probe between another client's enqueue and mark; compared with the call-granularity model (USys) through the "
            "harness' effective events; oracle: Backed on the final keyspace (every port_retry / details_retry mark has a queued probe of "
            "that goal), failures classified by signature (holder-loss, consumed-before-mark: known findings; anything else: violation)",
    "assumptions": [
        "a client death or storage fault inside a repository call either precedes the call's single commit (no effect) or follows it (effect, reply lost) — C09/C10; the harness derives which from the trace (an executed MULTI/EXEC)",
        "faults are not injected on UNWATCH (a failed UNWATCH on a connection that stays in use is not a realistic storage fault)",
        "the prober runner is modelled as: PopMany, then one probeserver execution per popped probe, sequentially (worker concurrency is C12/C13's concern)",
    ],
    "trusted_base": COMMON_TRUSTED,
    "manifest": {
        "text": "Lean theorems: the enqueue precedes the mark in all three mark-setting paths (discover_order, submission_order — the repaired order —, "
                "retry_order), enqueueing preserves Backed, reports/keepalives add no mark, only an outcome of a probe of that goal clears a mark, marked "
                "servers are skipped by refresh/revival/re-submission. The per-crash-point statement is decided by the correspondence run: every crash "
                "and fault placement at every storage command of every mark-setting or mark-consuming use case on the real code, with the Backed oracle "
                "on the final keyspace. Two genuine violations are recorded as known findings with signatures (holder-loss: the destructive pop; "
                "consumed-before-mark: enqueue and mark are not atomic); any other orphaned mark is a violation.",
        "level_note": "Partial as a proof: the invariant theorem over all crash/fault placements (Backed preserved by every use case prefix) is not yet a Lean "
                      "theorem for the composed programs; what is proved is the ordering discipline and the status algebra it rests on. Trusted: Lean kernel; "
                      "the USys model validated by the differential run; the scheduler hook's crash/fault injection; known_findings.json signatures computed by "
                      "the Lean driver from the implementation's call order and results.",
        "technique": "Lean 4 proof of the ordering discipline + exhaustive crash/fault placement on the real code against the model and the Backed oracle",
        "design_ref": "DESIGN.md §5 C16",
    },
}
