from props import COMMON_TRUSTED


def _nontrivial(t):
    # a crash / fault is injected inside a repository call, or a prober runs between another client's calls
    return len(t) >= 5 and any(x in t[4] for x in ("xb", "xa", "yb", "ya", "r1"))


CFG = {
    "module": "Swat4.Properties.C16",
    "theorems": [
        "Swat4.C16.facts_config_wiring",
        "Swat4.C16.backed_enqueue",
        "Swat4.C16.reported_adds_no_mark",
        "Swat4.C16.outcomes_clear_mark",
        "Swat4.C16.usecases_filter_sets",
        "Swat4.C16.marked_are_skipped",
        "Swat4.C16.addServer_marked_noop",
        "Swat4.C16.runChoices_steps",
        "Swat4.C16.report_backed",
        "Swat4.C16.addServer_backed",
        "Swat4.C16.probe_backed",
        "Swat4.C16.probeRetry_backed",
        "Swat4.C16.probe_complete_backed",
        "Swat4.C16.runChoices_ok_eq_run",
        "Swat4.C16.refresh_revive_backed",
        "Swat4.C16.renew_remove_backed",
        "Swat4.C16.keyed_preserved",
        "Swat4.C16.backedB_correct",
        "Swat4.C16.C16_holder_counterexample",
        "Swat4.C16.C16_holder_completes",
        "Swat4.C16.C16_interleaved",
        "Swat4.C16.address_hypotheses_needed",
        "Swat4.C16.stale_readd_unbacked",
        "Swat4.C16.backedStrict_backed",
        "Swat4.C16.expiring_backing_orphaned",
        "Swat4.C16.report_backed_strict",
        "Swat4.C16.addServer_backed_strict",
        "Swat4.C16.probe_backed_strict",
        "Swat4.C16.probe_complete_backed_strict",
        "Swat4.C16.probeRetry_backed_strict",
        "Swat4.C16.refresh_revive_backed_strict",
        "Swat4.C16.renew_remove_backed_strict",
        "Swat4.C16.C16_interleaved_strict",
        "Swat4.C16.mark_preserved_report",
        "Swat4.C16.mark_preserved_renew",
        "Swat4.C16.mark_preserved_remove",
        "Swat4.C16.mark_preserved_discover",
        "Swat4.C16.mark_preserved_refresh",
        "Swat4.C16.mark_preserved_revive",
        "Swat4.C16.mark_preserved_clean",
        "Swat4.C16.mark_preserved_probeRetry",
        "Swat4.C16.pop_strict_held",
        "Swat4.C16.pop_complete_backed",
        "Swat4.C16.runner_complete_backed",
        # progress surrogate: every chain of retries for one mark ends (prober batches alone, explicit scheduling hypotheses)
        "Swat4.C16.probe_progress",
        "Swat4.C16.Progress.batch_pot",
        "Swat4.C16.Progress.probe_step_progress",
        "Swat4.C16.Progress.popMany_fit",
        "Swat4.C16.facts_item_id_uses",
    ],
    # proved in the Lean files (and built with the module) but NOT audited as property theorems: each is a read-back of a
    # definition, glue between two names, true by type, or a restatement of an audited theorem
    "supporting": [
        {"name": "Swat4.C16.runner_is_model", "why": "`rfl`: the program the driver runs for a pop client is `UC.proberRun` by definition of `USpec.prog`; the content is runner_complete_backed / pop_complete_backed"},
        {"name": "Swat4.C16.discover_order", "why": "shape lemma, definitional (`UC.maybeDiscoverPort` unfolded: enqueue before mark); the property statements are report_backed(_strict)"},
        {"name": "Swat4.C16.submission_order", "why": "shape lemma, definitional (`UC.discoverServer` unfolded); the property statements are addServer_backed(_strict)"},
        {"name": "Swat4.C16.retry_order", "why": "shape lemma, definitional (`UC.probeRetry` unfolded under retries < max); the property statements are probeRetry_backed(_strict)"},
    ],
    "shards": (1, 16),
    "nontrivial": _nontrivial,
    "rule": "nine scenarios (first report, re-report, REST submission of an unknown / known server, prober pop with retry / success / final "
            "failure, refresh, failed details probe) on the real use cases x position (after c repository calls) x storage command k of the next "
            "call x {client death, storage fault} x {before, after the command took effect} — exhaustive in the thorough tier —, each followed by "
            "lease expiry and quiescence; the same followed by a later report / prober run / keepalive of another component; and a prober "
            "resolving a fresh probe between another client's enqueue and mark; compared with the call-granularity model (USys) through the "
            "harness' effective events; oracle: BackedStrict on the final keyspace (every port_retry / details_retry mark has a queued NON-EXPIRING probe of "
            "that goal), failures classified by signature PER ORPHAN, tied to its own address and goal (holder-loss, consumed-before-mark: known findings; "
            "any other orphan, or any orphan of a history the model does not reproduce: violation)",
    "assumptions": [
        "a client death or storage fault inside a repository call either precedes the call's single commit (no effect) or follows it (effect, reply lost) — C09/C10; the harness derives which from the trace (an executed MULTI/EXEC)",
        "faults are not injected on UNWATCH (a failed UNWATCH on a connection that stays in use is not a realistic storage fault)",
        "the prober runner is modelled as: PopMany, then one probeserver execution per popped probe, sequentially (worker concurrency is C12/C13's concern)",
    ],
    "trusted_base": COMMON_TRUSTED + [
        "driver-implemented semantics in lean/Swat4/Drv/C16.lean (not Model/ or Spec/ definitions): the text oracle `orphans` (svStatuses / queued: a "
        "port_retry or details_retry bit of an SV dump line without a NON-EXPIRING PI line — expiry column z — of that address and goal), cross-checked on every case "
        "against the proved `Strict.backedStrictB` on the parsed dump (`strictB`; trusted there: parseDump and RStore.abs), and the attribution of an orphan to a known "
        "finding: `history` (the model USys.stepT replaying the implementation's effective events, recording per event who acted and which queue items "
        "vanished / appeared), `heldAndLost` (a pop client took a probe of exactly the orphan's address and goal and ended crashed / with a PopMany error / "
        "with an error outcome at that probe's position of the batch) and `consumedBeforeMark` (a probe of exactly the orphan's address and goal was "
        "enqueued by one client, that very item popped by another, a prober, before the first client's update committed the mark; also required of the "
        "implementation's own call completion order). The attribution is used only when model and implementation agree on calls, results and dump; every "
        "other orphan (other server, other goal, unreproduced history) is reported as orphan-mark = violation",
    ],
    "manifest": {
        "text": "Lean theorems over the use-case programs (Prog) and a crash/fault-aware run (Prog.runChoices: every call succeeds, fails without "
                "effect or fails after taking effect; the run stops where the choice list ends = the client died at that call boundary): "
                "report_backed, addServer_backed (the repaired order), refresh_revive_backed, renew_remove_backed — from any Backed, Keyed store these "
                "use cases leave every retry mark backed at EVERY crash point under EVERY fault placement; probe_backed / probeRetry_backed — a prober "
                "holding probe (a,g) never unbacks any OTHER mark, whatever the outcome and wherever it stops or fails; probe_complete_backed — run to "
                "completion without faults it restores full Backed (success / final failure clear the mark, retry re-queues first); "
                "C16_holder_counterexample — the known finding as a theorem: the holder stopped before/after its lookup or clock read, or its lookup / "
                "re-enqueue failed without effect => the mark has no probe; C16_interleaved — in any system (USys) of non-popping clients (reporter, "
                "REST submission, refresher, reviver, cleaners, listing) with valid addresses, under any interleaving of calls, deaths, faults and "
                "clock ticks, Backed is invariant and the queue only grows. Plus the ordering discipline and status algebra (enqueue precedes mark in "
                "all three mark-setting paths, reports/keepalives add no mark, only an outcome of a probe of that goal clears a mark; marked_are_skipped — stated on the filter sets the use cases issue "
                "(usecases_filter_sets): a details_retry row fails refresh's filter, a port_retry row fails revival's for every scope window, addserver's and "
                "reportserver's discovery branches return without a repository call for a marked record; addServer_marked_noop — re-submission of a marked server "
                "changes nothing at any crash/fault point; the shape lemmas discover_order / submission_order / retry_order are definitional and no longer audited). The correspondence run validates the model on the real code: every crash and fault placement at every storage command "
                "of every mark-setting or mark-consuming use case; the oracle on the final keyspace is BackedStrict, evaluated twice and required to agree: "
                "Strict.backedStrictB (proved correct: Strict.backedStrictB_iff) on the dump parsed back into a store (Drv/StoreRun.parseDump, RStore.abs), and the driver's "
                "text function `orphans` (Drv/C16.lean: a port_retry / details_retry bit of an SV line without a PI line of that address and goal whose expiry column is z), "
                "which names the orphans for the per-orphan classification; a hung or panicked case carries sig=not-terminated / sig=panic and is never excused by a known finding. "
                "BackedStrict (the backing probe must have no expiry: refresh/revival probes expire and PopMany drops them silently — expiring_backing_orphaned): "
                "every *_backed theorem (probeRetry_backed_strict included) and C16_interleaved re-proved as *_backed_strict / C16_interleaved_strict (mark-setting paths enqueue with no expiry); "
                "probe_progress — the progress surrogate: under explicit scheduling hypotheses (Progress.FairRun: prober batches alone, each popping everything ready) every chain of retries "
                "for one mark ends — after at most the mark's potential many batches the mark is resolved (cleared by success / final failure) — so a backed mark does not stay pending forever; "
                "C16_interleaved now covers the two-step cleaner (Client.cleanServers2); mark_preserved_* — report, keepalive, removal, REST submission, refresh, "
                "revival, both cleaners and the prober's retry never clear a retry bit of a row that stays, at every crash/fault point (only HandleSuccess/HandleFailure do); "
                "pop_strict_held — after PopMany from a BackedStrict store every mark is backed by a queued non-expiring probe or by a probe the call returned; "
                "pop_complete_backed — a fault-free prober batch (UC.proberRunWith of Model/UseCases/ProberRun.lean: PopMany n, then probeserver for every popped probe to completion, any order, any outcomes) "
                "ends BackedStrict again; runner_is_model [supporting, `rfl`, not audited] — the program the driver runs for a pop client IS the Model's UC.proberRun (definitional; the driver only renders its report), "
                "runner_complete_backed — hence pop_complete_backed holds of the driver's pop client itself (UC.sortBatch is a reordering). "
                "stale_readd_unbacked: a further race in the model (no crash, no fault; needs a popper and a removal between a reporter's lookup and "
                "its Add, which stores the stale marked copy) — outside the harness' scenarios, reported. "
                "Two genuine violations are recorded as known findings with signatures (holder-loss: the destructive pop; consumed-before-mark: enqueue "
                "and mark are not atomic and a popper ran in between); any other orphaned mark is a violation.",
        "level_note": "Proved for all inputs at the level of the call-granularity model: per-program crash/fault invariance (single client, clock fixed during "
                      "the run) and the interleaved invariant for systems WITHOUT a popper. Not a Lean theorem: the interleaved invariant with live holders "
                      "(poppers) in the system — DESIGN's backed_step with the 'or a live client holds (a,g)' disjunct; there the consumed-before-mark "
                      "finding is a genuine counterexample to the unconditional statement, and the per-program theorems (probe_backed, "
                      "probe_complete_backed) state the holder's obligation instead. The interleaved theorem assumes valid addresses (ports 1..65535): "
                      "the model's Addr.key is injective only there. Trusted: Lean kernel; the USys/Prog model validated by the differential run; the "
                      "scheduler hook's crash/fault injection; known_findings.json signatures computed by the Lean driver from the implementation's call "
                      "order and results.",
        "technique": "Lean 4 invariant proofs over use-case programs (ghost-knowledge walk of the program tree, every crash/fault prefix; interleaved system without poppers) + exhaustive crash/fault placement on the real code against the model and the Backed oracle",
        "design_ref": "DESIGN.md §5 C16",
    },
}
