import Swat4.Base.Info
import Swat4.Gen.Facts
/-!
# Specification of the filter language (GameSpy server-browser filters)

Written from the property text, not from `filter.go`:

> clauses `field op value` joined by `" and "`, op one of `= != < >`, value an integer, a quoted string
> or another field, compared by type (booleans as 0/1; strings support only `=` and `!=`; a type
> mismatch or a field the server does not have never matches).

* `Clause`, `sat`  — what a clause *means* on a server record, by denotation of the two operands;
* `render`         — the concrete grammar, which defines "a filter string of the GameSpy grammar";
* `WfClause`       — the side conditions under which `render` is unambiguous, explicit and decidable;
* `selected`       — the listing predicate: status, liveness, every clause.
-/
namespace Swat4.FilterSpec
open Swat4

/-- right-hand side of a clause -/
inductive CVal where
  | int (n : Int)
  | str (s : Bytes)
  | fld (g : Bytes)
  deriving DecidableEq, Repr, Inhabited

structure Clause where
  field : Bytes
  op : Op
  value : CVal
  deriving DecidableEq, Repr, Inhabited

/-! ## meaning -/

/-- the integer a field value denotes: ints themselves, booleans as 0/1, strings none -/
def asInt : Value → Option Int
  | .int n => some n
  | .bool true => some 1
  | .bool false => some 0
  | .str _ => none

/-- the string a field value denotes -/
def asStr : Value → Option Bytes
  | .str s => some s
  | _ => none

/-- what the right-hand side denotes on a record: an integer or a string.  A referenced field that is
missing denotes nothing; a referenced *boolean* field denotes nothing either (it is not coerced on the right) -/
inductive Operand where
  | int (n : Int)
  | str (s : Bytes)
  deriving DecidableEq, Repr

def operand (i : Info) : CVal → Option Operand
  | .int n => some (.int n)
  | .str s => some (.str s)
  | .fld g =>
    match i.lookup g with
    | some (.int n) => some (.int n)
    | some (.str s) => some (.str s)
    | _ => none

def intRel : Op → Int → Int → Bool
  | .eq, a, b => decide (a = b)
  | .ne, a, b => decide (a ≠ b)
  | .lt, a, b => decide (a < b)
  | .gt, a, b => decide (b < a)

/-- strings support only `=` and `!=` -/
def strRel : Op → Bytes → Bytes → Bool
  | .eq, a, b => decide (a = b)
  | .ne, a, b => decide (a ≠ b)
  | _, _, _ => false

/-- a record satisfies a clause iff the left field exists, both sides denote values of the same sort
and the relation holds; everything else (missing field, type mismatch, unsupported operator) is `false` -/
def sat (i : Info) (c : Clause) : Bool :=
  match i.lookup c.field, operand i c.value with
  | some v, some (.int n) =>
    match asInt v with
    | some a => intRel c.op a n
    | none => false
  | some v, some (.str s) =>
    match asStr v with
    | some a => strRel c.op a s
    | none => false
  | _, _ => false

/-! ## grammar -/

def renderOp : Op → Bytes
  | .eq => [0x3d]
  | .ne => [0x21, 0x3d]
  | .lt => [0x3c]
  | .gt => [0x3e]

/-- decimal digits of a natural number, most significant first (`0` is `"0"`) -/
def natDigits (n : Nat) : Bytes :=
  if n < 10 then [UInt8.ofNat (48 + n)] else natDigits (n / 10) ++ [UInt8.ofNat (48 + n % 10)]
decreasing_by omega

/-- canonical decimal rendering: `-` for negatives, no `+`, no leading zeros -/
def renderInt (n : Int) : Bytes :=
  if n < 0 then 0x2d :: natDigits n.natAbs else natDigits n.toNat

def renderVal : CVal → Bytes
  | .int n => renderInt n
  | .str s => [0x27] ++ s ++ [0x27]
  | .fld g => g

def renderClause (c : Clause) : Bytes := c.field ++ renderOp c.op ++ renderVal c.value

/-- clauses joined by `" and "` -/
def render : List Clause → Bytes
  | [] => []
  | [c] => renderClause c
  | c :: c' :: q => renderClause c ++ andSep ++ render (c' :: q)

/-- no occurrence of `" and "` starts inside `r`, even when `r` is followed by `" and "`
(so `r` neither contains `" and "` nor ends in `" and"`) -/
def sepFree : Bytes → Bool
  | [] => true
  | b :: r => !(andSep.isPrefixOf (b :: r ++ andSep)) && sepFree r

/-- side conditions under which a clause renders unambiguously: the field is a query field; an integer
fits Go's `int`; a quoted string is not empty (`''` is not a string literal of this grammar); a field
reference names a query field; and the rendered clause cannot be mistaken for two clauses -/
def WfClause (c : Clause) : Prop :=
  c.field ∈ Facts.queryFields ∧
  (match c.value with
    | .int n => -(2 : Int) ^ 63 ≤ n ∧ n < (2 : Int) ^ 63
    | .str s => s ≠ []
    | .fld g => g ∈ Facts.queryFields) ∧
  sepFree (renderClause c) = true

instance (c : Clause) : Decidable (WfClause c) := by
  unfold WfClause
  cases c.value <;> exact inferInstance

/-! ## the accepted language

`render`/`WfClause` describe the *canonical* spelling of a query.  The relation below describes every
spelling the master accepts — "an accepted filter string means what it looks like": it is a sequence of
clause texts joined by `" and "` (one more `" and "` may follow the last), none of which contains
`" and "`; a clause text is a query field, one of the four operator spellings and a value text; a value
text is a decimal literal (optional `+`/`-`, one or more digits, leading zeros allowed, within int64),
a non-empty string between single quotes (any bytes, quotes included), or a query-field name. -/

def isDec (b : UInt8) : Bool := decide (0x30 ≤ b ∧ b ≤ 0x39)

/-- the number a string of decimal digits denotes -/
def decVal (ds : Bytes) : Nat := ds.foldl (fun a d => a * 10 + (d.toNat - 48)) 0

/-- `t` is a decimal literal of the integer `n` -/
def IntLit (t : Bytes) (n : Int) : Prop :=
  ∃ sign ds : Bytes, t = sign ++ ds ∧ (sign = [] ∨ sign = [0x2b] ∨ sign = [0x2d]) ∧ ds ≠ [] ∧
    (∀ d ∈ ds, isDec d = true) ∧
    n = (if sign = [0x2d] then -(decVal ds : Int) else (decVal ds : Int)) ∧
    -(2 : Int) ^ 63 ≤ n ∧ n < (2 : Int) ^ 63

/-- `t` is a spelling of the value `v` -/
def ValText (t : Bytes) : CVal → Prop
  | .int n => IntLit t n
  | .str s => t = [0x27] ++ s ++ [0x27] ∧ s ≠ []
  | .fld g => t = g ∧ g ∈ Facts.queryFields

/-- `r` is a spelling of the clause `c` -/
def ClauseText (r : Bytes) (c : Clause) : Prop :=
  c.field ∈ Facts.queryFields ∧ ∃ t, r = c.field ++ renderOp c.op ++ t ∧ ValText t c.value

/-- `" and "` does not occur in `r` -/
def NoSep (r : Bytes) : Prop := ¬ ∃ p q : Bytes, r = p ++ andSep ++ q

/-- texts and clauses correspond one to one, in order -/
def ClausesText : List Bytes → List Clause → Prop
  | [], [] => True
  | r :: rs, c :: q => NoSep r ∧ ClauseText r c ∧ ClausesText rs q
  | _, _ => False

/-- texts joined by `" and "` -/
def joinAnd : List Bytes → Bytes
  | [] => []
  | [r] => r
  | r :: r' :: rs => r ++ andSep ++ joinAnd (r' :: rs)

/-- `s` is a spelling of the non-empty clause list `q` -/
def QueryText (s : Bytes) (q : List Clause) : Prop :=
  q ≠ [] ∧ ∃ rs, ClausesText rs q ∧ (s = joinAnd rs ∨ s = joinAnd rs ++ andSep)

/-! ## the listing predicate -/

/-- a stored server as the listing sees it -/
structure Server where
  status : Nat
  refreshedAt : FTime
  info : Info

/-- "carries the status the frontend requires, was last refreshed no earlier than now minus the
configured liveness, and satisfies every clause" -/
def selected (now liveness : Int) (required : Nat) (q : List Clause) (s : Server) : Bool :=
  decide (s.status &&& required = required) &&
  (match s.refreshedAt with
    | .zero => false
    | .at t => decide (t ≥ now - liveness)) &&
  q.all (sat s.info)

/-! ## the REST flags -/

/-- the six query parameters of `GET /api/servers` after binding -/
structure Flags where
  gameVariant : Bytes
  gameVer : Bytes
  gameType : Bytes
  noPassworded : Bool
  noFull : Bool
  noEmpty : Bool
  deriving DecidableEq, Repr

def fGamevariant : Bytes := [0x67, 0x61, 0x6d, 0x65, 0x76, 0x61, 0x72, 0x69, 0x61, 0x6e, 0x74]
def fGamever : Bytes := [0x67, 0x61, 0x6d, 0x65, 0x76, 0x65, 0x72]
def fGametype : Bytes := [0x67, 0x61, 0x6d, 0x65, 0x74, 0x79, 0x70, 0x65]
def fPassword : Bytes := [0x70, 0x61, 0x73, 0x73, 0x77, 0x6f, 0x72, 0x64]
def fNumplayers : Bytes := [0x6e, 0x75, 0x6d, 0x70, 0x6c, 0x61, 0x79, 0x65, 0x72, 0x73]
def fMaxplayers : Bytes := [0x6d, 0x61, 0x78, 0x70, 0x6c, 0x61, 0x79, 0x65, 0x72, 0x73]

/-- what the flags ask for: equality on the three string parameters that are present (non-empty),
"hide passworded" = `password != 1`, "hide full" = `numplayers != maxplayers`, "hide empty" = `numplayers > 0` -/
def flagClauses (f : Flags) : List Clause :=
  (if f.gameVariant ≠ [] then [⟨fGamevariant, .eq, .str f.gameVariant⟩] else []) ++
  (if f.gameVer ≠ [] then [⟨fGamever, .eq, .str f.gameVer⟩] else []) ++
  (if f.gameType ≠ [] then [⟨fGametype, .eq, .str f.gameType⟩] else []) ++
  (if f.noPassworded then [⟨fPassword, .ne, .int 1⟩] else []) ++
  (if f.noFull then [⟨fNumplayers, .ne, .fld fMaxplayers⟩] else []) ++
  (if f.noEmpty then [⟨fNumplayers, .gt, .int 0⟩] else [])

end Swat4.FilterSpec
