import Swat4.Model.Entities
/-!
# The probe-outcome table, written from the property text (C13)

`specBit` is the declarative, per-bit specification of what a probe outcome does to a status word.  It is independent of the
model's `UC.successStatus / retryStatus / failureStatus` (`Model/UseCases/Discovery.lean`): `Swat4.C13.outcome_table` proves
the two equal on all 512 × 2 × 3 cases, and the C13 driver (`Drv/C13.lean`, op `table`) uses `specWord` — this file — as its
ORACLE on the implementation's output while the model side of the verdict comes from the `UC.*Status` functions.
Core Lean only (the driver is a `lean_exe`).
-/
namespace Swat4.C13
open Swat4

inductive Outcome where
  | success | retry | failure
  deriving DecidableEq, Repr

/-- declarative per-bit specification, written from the property text.  Bit indices:
0 new, 1 master, 2 info, 3 details, 4 details_retry, 5 no_details, 6 port, 7 port_retry, 8 no_port.
`new` ("no status yet") is cleared by every recorded outcome. -/
def specBit (g : Goal) (o : Outcome) (i : Nat) (old : Bool) : Bool :=
  match g, o, i with
  | _, _, 0 => false
  -- success: info and details (and port) set; failure and retry marks of the goal cleared
  | .details, .success, 2 => true
  | .details, .success, 3 => true
  | .details, .success, 4 => false
  | .details, .success, 5 => false
  | .port, .success, 2 => true
  | .port, .success, 3 => true
  | .port, .success, 4 => false
  | .port, .success, 5 => false
  | .port, .success, 6 => true
  | .port, .success, 7 => false
  | .port, .success, 8 => false
  -- a failure with retries left only adds the retry mark
  | .details, .retry, 4 => true
  | .port, .retry, 7 => true
  -- the final failure: no details (dropping info/details/port and the mark) or no port
  | .details, .failure, 2 => false
  | .details, .failure, 3 => false
  | .details, .failure, 4 => false
  | .details, .failure, 5 => true
  | .details, .failure, 6 => false
  | .port, .failure, 7 => false
  | .port, .failure, 8 => true
  | _, _, _ => old

/-- the specified word: bit `i` of the result is `specBit g o i (bit i of w)`, for the nine status bits -/
def specWord (g : Goal) (o : Outcome) (w : Nat) : Nat :=
  (List.range 9).foldl (fun acc i => if specBit g o i (w.testBit i) then acc + 2 ^ i else acc) 0

end Swat4.C13
