import Swat4.Model.Filter
import Swat4.Spec.FilterSpec
/-!
# Bridge between the filter model's types and the specification's types

The model's `Filter` (what `filter.Parse` produces) and the specification's `Clause` carry the same
data; `toFilter`/`ofFilter` are the two directions.  Used by the theorems of C03 and by the driver.
-/
namespace Swat4.FilterSpec
open Swat4 Swat4.Filter

def toFVal : CVal → FVal
  | .int n => .int n
  | .str s => .str s
  | .fld g => .fld g

def ofFVal : FVal → CVal
  | .int n => .int n
  | .str s => .str s
  | .fld g => .fld g

def toFilter (c : Clause) : Filter := ⟨c.field, c.op, toFVal c.value⟩
def ofFilter (f : Filter) : Clause := ⟨f.field, f.op, ofFVal f.value⟩

/-- the part of a stored record the listing predicate looks at -/
def toServer (r : Record) : Server := ⟨r.status, r.refreshedAt, r.info⟩

def toForm (f : Flags) : Form := ⟨f.gameVariant, f.gameVer, f.gameType, f.noPassworded, f.noFull, f.noEmpty⟩

end Swat4.FilterSpec
