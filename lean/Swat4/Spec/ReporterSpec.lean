import Swat4.Model.Heartbeat
/-!
# Reporter protocol: reference encoder, well-formedness, abstract step (C04/C06)

Written from the property text (properties.jsonl C04) and the GameSpy heartbeat framing, not
from the handler code: a message is a *logical* value (`Msg`), `encode` builds the datagram that
carries it, `absStep` says in one piece what the registry, instance table and probe queue look
like afterwards and which reply (if any) is sent.

Shared with the model on purpose (they are L0 vocabulary, not handler logic): the generated
whitelist `Heartbeat.isReportable`, `toValidUTF8`, `atoi`, the schema-driven reading of the info
values `Heartbeat.infoOf` (ints parsed, bools from `0/1/true/false`, validator rules), `hexLower`.
-/
namespace Swat4.ReporterSpec
open Swat4 Swat4.Heartbeat Std

/-- a heartbeat as a logical value: instance id, name/value pairs in wire order, and whatever follows
the pair list -/
structure Hb where
  id : Bytes
  kvs : List (Bytes × Bytes)
  trailer : Bytes
  deriving DecidableEq, Repr

inductive Msg where
  | heartbeat (d : Hb)
  | keepalive (id : Bytes)
  | challenge (id rest : Bytes)
  | available (rest : Bytes)
  deriving DecidableEq, Repr

/-- `name 00 value 00` for every pair -/
def encodePairs : List (Bytes × Bytes) → Bytes
  | [] => []
  | (k, v) :: rest => k ++ 0 :: (v ++ 0 :: encodePairs rest)

/-- the datagram carrying a heartbeat: `03`, id, pairs, trailer -/
def encodeHeartbeat (d : Hb) : Bytes := 0x03 :: (d.id ++ (encodePairs d.kvs ++ d.trailer))

def encode : Msg → Bytes
  | .heartbeat d => encodeHeartbeat d
  | .keepalive id => 0x08 :: id
  | .challenge id rest => 0x01 :: (id ++ rest)
  | .available rest => 0x09 :: rest

def nulFree (b : Bytes) : Bool := b.all (· ≠ 0)

/-- well-formed pair: non-empty NUL-free name and value; the value of an unknown name is not itself
a reportable name (the scanner does not consume the value of an unknown name and would read it as
a name — a quirk the model reproduces and the theorems exclude) -/
def wfPair (kv : Bytes × Bytes) : Bool :=
  !kv.1.isEmpty && nulFree kv.1 && !kv.2.isEmpty && nulFree kv.2 && (isReportable kv.1 || !isReportable kv.2)

/-- `WfHeartbeat`: 4-byte id, well-formed pairs, and the pair list ends at the end of the datagram or
at an empty name (a NUL) -/
def wfHeartbeat (d : Hb) : Bool :=
  d.id.length == 4 && d.kvs.all wfPair && (match d.trailer with | [] => true | c :: _ => c == 0)

abbrev WfHeartbeat (d : Hb) : Prop := wfHeartbeat d = true

def wfMsg : Msg → Bool
  | .heartbeat d => wfHeartbeat d
  | .keepalive id => id.length == 4
  | .challenge id _ => id.length == 4
  | .available _ => true

/-- the reported field map: reportable names only, values with every maximal run of invalid UTF-8
replaced by one `?`, a later duplicate replaces an earlier one -/
def fieldsOf (kvs : List (Bytes × Bytes)) : FieldMap :=
  kvs.foldl (fun m kv => if isReportable kv.1 then m.set kv.1 (toValidUTF8 kv.2) else m) []

/-- the 28-byte heartbeat reply of the property text -/
def replyBytes (id : Bytes) (srcIp srcPort : Nat) : Bytes :=
  [0xFE, 0xFD, 0x01] ++ id ++ Facts.reporterResponseChallenge ++
    hexLower ([0, UInt8.ofNat (srcIp / 16777216 % 256), UInt8.ofNat (srcIp / 65536 % 256), UInt8.ofNat (srcIp / 256 % 256),
      UInt8.ofNat (srcIp % 256), UInt8.ofNat (srcPort % 65536 / 256), UInt8.ofNat (srcPort % 256)]) ++ [0]

/-- a server as first reported: provisional query port = reported `localport`, status `new`, nothing known -/
def freshServer (a : Addr) (queryPort : Int) : Server :=
  { addr := a, queryPort, status := Status.new, info := zeroInfo, details := ⟨zeroInfo, [], []⟩, refreshedAt := none, version := 0 }

/-- a report applied to a record: info replaced, refreshed now, `master|info` set and `new` cleared;
when neither `port` nor `port_retry` was set a port probe is queued and `port_retry` set (a second write:
the version advances once per write) -/
def reportedServer (base : Server) (info : Fields) (now : Int) : Server × Bool :=
  let pending := Status.hasNone base.status (Status.port ||| Status.portRetry)
  let st1 := Status.update base.status (Status.master ||| Status.info)
  if pending then
    ({ base with info := info, refreshedAt := some now, status := Status.update st1 Status.portRetry, version := base.version + 1 + 1 }, true)
  else
    ({ base with info := info, refreshedAt := some now, status := st1, version := base.version + 1 }, false)

/-- the abstract step for one message from `srcIp:srcPort` at clock `now`: new state and the reply -/
def absStep (cfg : Cfg) (st : AbsState) (srcIp srcPort : Nat) (m : Msg) (now : Int) : AbsState × Option Bytes :=
  match m with
  | .available _ => (st, some Facts.reporterResponseIsAvailable)
  | .challenge id _ => (st, some ([0xFE, 0xFD, 0x0A] ++ id))
  | .keepalive id =>
    -- refresh the server the instance is bound to, if the instance belongs to the sender's IP
    match st.instances[idNat id]? with
    | none => (st, none)
    | some (a, _) =>
      if a.ip ≠ srcIp then (st, none)
      else
        match st.servers[a.key]? with
        | none => (st, none)
        | some r =>
          let svr := { r.svr with refreshedAt := some now, version := r.svr.version + 1 }
          ({ st with servers := st.servers.insert a.key ⟨svr, now⟩ }, none)
  | .heartbeat d =>
    let f := fieldsOf d.kvs
    match (f.get? kHostport).bind atoi, (f.get? kLocalport).bind atoi with
    | some hostport, some localport =>
      if hostport < 1 ∨ hostport > 65535 ∨ !ipAccepted srcIp then (st, none)
      else
        let a : Addr := ⟨srcIp, hostport⟩
        if f.get? kStatechanged = some [0x32] then
          -- removal by the owner: server and the presented instance go, no reply
          match st.servers[a.key]?, st.instances[idNat d.id]? with
          | some _, some (ia, _) =>
            if ia.ip ≠ srcIp then (st, none)
            else ({ st with servers := st.servers.erase a.key, instances := st.instances.erase (idNat d.id) }, none)
          | _, _ => (st, none)
        else
          match infoOf f with
          | none => (st, none)
          | some info =>
            let base? : Option Server :=
              match st.servers[a.key]? with
              | some r => some r.svr
              | none => if localport < 1 ∨ localport > 65535 then none else some (freshServer a localport)
            match base? with
            | none => (st, none)
            | some base =>
              let (svr, pending) := reportedServer base info now
              let queue := if pending then st.queue ++ [⟨st.nextId, ⟨svr.addr, svr.addr.port, .port, 0, cfg.maxRetries⟩, now, none⟩] else st.queue
              let nextId := if pending then st.nextId + 1 else st.nextId
              ({ servers := st.servers.insert a.key ⟨svr, now⟩, instances := st.instances.insert (idNat d.id) (a, now), queue := queue, nextId := nextId },
                some (replyBytes d.id srcIp srcPort))
    | _, _ => (st, none)

/-! ## reference decoder (used by the drivers' oracles; its result is re-encoded and compared, so it is not trusted) -/

/-- split `name 00 value 00 …` greedily into pairs; stops at the end or at an empty name -/
def splitPairs : Nat → Bytes → Option (List (Bytes × Bytes) × Bytes)
  | 0, b => some ([], b)
  | fuel + 1, b =>
    match b with
    | [] => some ([], [])
    | c :: _ =>
      if c = 0 then some ([], b)
      else if !b.contains 0 then none
      else
        let k := cstrHead b
        let r := cstrTail b
        if !r.contains 0 then none
        else
          match splitPairs fuel (cstrTail r) with
          | none => none
          | some (kvs, t) => some ((k, cstrHead r) :: kvs, t)

/-- the well-formed message a datagram carries, if any: `encode m = payload ∧ wfMsg m` is checked here -/
def decode? (payload : Bytes) : Option Msg :=
  match payload with
  | [] => none
  | t :: body =>
    let cand : Option Msg :=
      if t = 0x03 then
        if body.length < 4 then none
        else (splitPairs body.length (body.drop 4)).map fun (kvs, tr) => .heartbeat ⟨body.take 4, kvs, tr⟩
      else if t = 0x08 then some (.keepalive body)
      else if t = 0x01 then (if body.length < 4 then none else some (.challenge (body.take 4) (body.drop 4)))
      else if t = 0x09 then some (.available body)
      else none
    match cand with
    | some m => if encode m = payload ∧ wfMsg m then some m else none
    | none => none

end Swat4.ReporterSpec
