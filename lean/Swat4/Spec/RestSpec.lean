/-!
# Reference definitions for C17, written independently of the model

* the address classes the property excludes, as numeric ranges from the RFCs
  (RFC 1918: 10/8, 172.16/12, 192.168/16; RFC 1122: 127/8, 0.0.0.0; RFC 3927: 169.254/16;
  RFC 5771: 224/4; RFC 919: 255.255.255.255);
* the status table of the property statement;
* `Inert`: a tokenizer accepting exactly the markup `hostname_html` may contain;
* `NoCodes`: no SWAT style code (no match of `Clean`'s expression) anywhere in the text;
* "200 with the stored data": for every member of the JSON bodies, which stored field it reports
  (`serverWants`, `playerWants`, `objectiveWants`), over records given as field values by position.

Nothing here refers to `Swat4.Model.*`.
-/
namespace Swat4.RestSpec

/-! ## addresses -/

/-- an IPv4 address as four numbers `0..255` -/
structure Quad where
  a : Nat
  b : Nat
  c : Nat
  d : Nat
  deriving DecidableEq, Repr

/-- 127.0.0.0/8 -/
def loopback (q : Quad) : Bool := q.a == 127
/-- 10.0.0.0/8, 172.16.0.0/12 (172.16.0.0 – 172.31.255.255), 192.168.0.0/16 -/
def rfc1918 (q : Quad) : Bool :=
  q.a == 10 || (q.a == 172 && 16 ≤ q.b && q.b ≤ 31) || (q.a == 192 && q.b == 168)
/-- 169.254.0.0/16 -/
def linkLocal (q : Quad) : Bool := q.a == 169 && q.b == 254
/-- 224.0.0.0/4 (224.0.0.0 – 239.255.255.255) -/
def multicast (q : Quad) : Bool := 224 ≤ q.a && q.a ≤ 239
/-- 0.0.0.0 -/
def unspecified (q : Quad) : Bool := q.a == 0 && q.b == 0 && q.c == 0 && q.d == 0
/-- 255.255.255.255 -/
def broadcast (q : Quad) : Bool := q.a == 255 && q.b == 255 && q.c == 255 && q.d == 255

/-- none of the classes the property excludes -/
def routable (q : Quad) : Bool :=
  !loopback q && !rfc1918 q && !linkLocal q && !multicast q && !unspecified q && !broadcast q

def validPort (p : Int) : Bool := 1 ≤ p && p ≤ 65535
/-- ports accepted for a submission -/
def validSubmitPort (p : Int) : Bool := 1025 ≤ p && p ≤ 65535

/-! ## address strings (used by the oracle to decide which row of the table applies) -/

def isDigitChar (c : Char) : Bool := '0' ≤ c && c ≤ '9'
def decimal (ds : List Char) : Nat := ds.foldl (fun acc d => acc * 10 + (d.toNat - 48)) 0

/-- split at every `sep` -/
def splitOn (sep : Char) : List Char → List (List Char)
  | [] => [[]]
  | c :: t =>
    match splitOn sep t with
    | [] => [[]]
    | h :: r => if c = sep then [] :: h :: r else (c :: h) :: r

/-- one octet of a dotted quad: 1–3 digits, no leading zero unless it is `0`, at most 255 -/
def octet (ds : List Char) : Option Nat :=
  if ds.isEmpty || ds.length > 3 || !ds.all isDigitChar || (ds.length > 1 && ds.head? == some '0') || decimal ds > 255
  then none else some (decimal ds)

/-- a dotted quad `a.b.c.d` -/
def parseQuad (s : List Char) : Option Quad :=
  match (splitOn '.' s).map octet with
  | [some a, some b, some c, some d] => some ⟨a, b, c, d⟩
  | _ => none

/-- a decimal port number; a leading `+` is tolerated (the implementation's `Atoi` accepts it) -/
def parsePort (s : List Char) : Option Nat :=
  let ds := if s.head? == some '+' then s.drop 1 else s
  if ds.isEmpty || !ds.all isDigitChar then none else some (decimal ds)

/-- `a.b.c.d:port` (split at the first `:`) -/
def parseAddress (s : List Char) : Option (Quad × Nat) :=
  match parseQuad (s.takeWhile (· != ':')), s.dropWhile (· != ':') with
  | some q, ':' :: p => (parsePort p).map fun n => (q, n)
  | _, _ => none

/-! ## the status table of the statement -/

/-- what the registry knows about the addressed server -/
structure Known where
  known : Bool
  hasDetails : Bool
  /-- a port or details probe is outstanding (`port_retry` or `details_retry`) -/
  discoveryPending : Bool
  noPort : Bool
  deriving DecidableEq, Repr

/-- `POST /api/servers`: 400 for anything that is not a routable unicast address with a port in
1025–65535; 200 with the stored data; 202 discovery pending (or just started); 410 no queryable port -/
def addTable (valid : Bool) (k : Known) : Nat :=
  if !valid then 400
  else if !k.known then 202
  else if k.hasDetails then 200
  else if k.discoveryPending then 202
  else if k.noPort then 410
  else 202

/-- `GET /api/servers/:address`: 400 invalid, 404 unknown, 204 known without details, 200 -/
def viewTable (valid : Bool) (k : Known) : Nat :=
  if !valid then 400
  else if !k.known then 404
  else if !k.hasDetails then 204
  else 200

def addStatuses : List Nat := [400, 202, 410, 200]
def viewStatuses : List Nat := [400, 404, 204, 200]

/-! ## inert markup -/

def hexDigit (c : Char) : Bool :=
  ('0' ≤ c && c ≤ '9') || ('a' ≤ c && c ≤ 'f') || ('A' ≤ c && c ≤ 'F')

/-- the five entities `html.EscapeString` produces -/
def entities : List (List Char) :=
  [['&', 'l', 't', ';'], ['&', 'g', 't', ';'], ['&', 'a', 'm', 'p', ';'], ['&', '#', '3', '9', ';'],
   ['&', '#', '3', '4', ';']]

/-- `<span style="color:#` -/
def openHead : List Char :=
  ['<', 's', 'p', 'a', 'n', ' ', 's', 't', 'y', 'l', 'e', '=', '"', 'c', 'o', 'l', 'o', 'r', ':', '#']
/-- `;">` -/
def openTail : List Char := [';', '"', '>']
/-- `</span>` -/
def closeTag : List Char := ['<', '/', 's', 'p', 'a', 'n', '>']

/-- remove `p` from the front of `xs` -/
def strip (p xs : List Char) : Option (List Char) :=
  if p.isPrefixOf xs then some (xs.drop p.length) else none

/-- remove one token from the front: an entity, `<span style="color:#HHHHHH;">`, `</span>`, or one
character other than `<`, `>`, `&`, `"`, `'` -/
def token (xs : List Char) : Option (List Char) :=
  match xs with
  | [] => none
  | c :: t =>
    if c = '&' then entities.findSome? (fun e => strip e xs)
    else if c = '<' then
      match strip closeTag xs with
      | some r => some r
      | none =>
        match strip openHead xs with
        | some r => if (r.take 6).length = 6 ∧ (r.take 6).all hexDigit then strip openTail (r.drop 6) else none
        | none => none
    else if c = '>' ∨ c = '"' ∨ c = '\'' then none
    else some t

def inertFuel : Nat → List Char → Bool
  | _, [] => true
  | 0, _ :: _ => false
  | f + 1, xs =>
    match token xs with
    | some r => inertFuel f r
    | none => false

/-- the text is a sequence of tokens (every token is at least one character, so `length` steps
suffice).  Balance of spans is deliberately not required. -/
def Inert (xs : List Char) : Bool := inertFuel xs.length xs

/-! ## no style codes -/

/-- `\w` under `(?i)`: ASCII letters, digits, `_`, and the two code points Go's simple case
folding maps to an ASCII letter (U+017F, U+212A) -/
def wordChar (c : Char) : Bool :=
  ('0' ≤ c && c ≤ '9') || ('A' ≤ c && c ≤ 'Z') || ('a' ≤ c && c ≤ 'z') || c == '_' ||
    c == '\u017f' || c == '\u212a'

def styleLetter (c : Char) : Bool := ['c', 'C', 'u', 'U', 'b', 'B'].contains c

/-- the text after `[`: `x]`, `\x]`, `/x]` with `x` one of `c u b` (either case) -/
def simpleCodeBody : List Char → Bool
  | x :: ']' :: _ => styleLetter x
  | _ => false

/-- a code starts at the head of the text: `[c]`, `[\c]`, `[/u]`, … or `[c` + a non-word
character + any text without brackets + `]` -/
def codeAt : List Char → Bool
  | '[' :: rest =>
    simpleCodeBody rest ||
    (match rest with
     | s :: rest' => (s == '\\' || s == '/') && simpleCodeBody rest'
     | [] => false) ||
    (match rest with
     | c :: x :: t =>
       (c == 'c' || c == 'C') && !wordChar x &&
         (match t.dropWhile (fun y => y != '[' && y != ']') with
          | ']' :: _ => true
          | _ => false)
     | _ => false)
  | _ => false

/-- no code starts anywhere -/
def NoCodes : List Char → Bool
  | [] => true
  | c :: t => !codeAt (c :: t) && NoCodes t

/-! ## "200 with the stored data"

A stored record is taken as the case line gives it: the address and, for `details.Info`, every
`details.Player` and every `details.Objective`, the field values by position in the Go struct.  The
tables below say, for every member of `model.Server`, `model.ServerPlayer`, `model.ServerObjective`
in the order of the JSON document, which stored field it must report, by the field's Go name. -/

/-- one stored field value -/
inductive Field where
  | str (s : List Char)
  | int (n : Int)
  | bool (b : Bool)
  deriving DecidableEq, Repr

/-- field kinds on a case line: 0 int, 1 bool, 2 string (as `Facts.infoFieldKinds`) -/
def infoFieldNames : List String :=
  ["Hostname", "HostPort", "GameVariant", "GameVersion", "GameType", "NumPlayers", "MaxPlayers", "MapName", "Password",
   "StatsEnabled", "Round", "NumRounds", "TimeLeft", "TimeSpecial", "SwatScore", "SuspectsScore", "SwatWon", "SuspectsWon",
   "BombsDefused", "BombsTotal", "TocReports", "WeaponsSecured", "Version"]
def infoFieldKinds : List Nat := [2, 0, 2, 2, 2, 0, 0, 2, 1, 1, 0, 0, 0, 0, 0, 0, 0, 0, 0, 0, 2, 2, 2]

def playerFieldNames : List String :=
  ["Name", "Score", "Ping", "Team", "VIP", "CoopStatus", "Kills", "TeamKills", "Deaths", "Arrests", "Arrested", "VIPEscapes",
   "VIPEscapes2", "VIPArrests", "VIPRescues", "VIPKillsValid", "VIPKillsInvalid", "BombsDefused", "BombsDetonated",
   "CaseEscapes", "CaseKills", "CaseSecured"]
def playerFieldKinds : List Nat := [2, 0, 0, 0, 1, 0, 0, 0, 0, 0, 0, 0, 0, 0, 0, 0, 0, 0, 1, 0, 0, 1]

def objectiveFieldNames : List String := ["Name", "Status"]
def objectiveFieldKinds : List Nat := [2, 0]

/-- a stored struct value: `(Go field name, value)` in declaration order -/
abbrev Entity := List (String × Field)

def Entity.get (e : Entity) (name : String) : Option Field := (e.find? (·.1 == name)).map (·.2)

/-- the stored record of one server -/
structure Rec where
  ip : Quad
  port : Int
  info : Entity
  players : List Entity
  objectives : List Entity
  deriving Repr

/-- a scalar of the JSON document: a string (decoded), a number (its literal), a boolean, `null` -/
inductive Atom where
  | str (s : List Char)
  | num (lit : List Char)
  | bool (b : Bool)
  | null
  deriving DecidableEq, Repr

/-- `lit` is the plain decimal numeral of `n`: an optional `-`, digits, no leading zero, no `-0` -/
def isDecimalOf (lit : List Char) (n : Int) : Bool :=
  let neg := lit.head? == some '-'
  let ds := if neg then lit.drop 1 else lit
  !ds.isEmpty && ds.all isDigitChar && (ds.length == 1 || ds.head? != some '0') &&
    (if neg then decimal ds != 0 && n == -((decimal ds : Nat) : Int) else n == ((decimal ds : Nat) : Int))

/-- `a.b.c.d` -/
def isDottedOf (s : List Char) (q : Quad) : Bool :=
  match splitOn '.' s with
  | [a, b, c, d] => isDecimalOf a q.a && isDecimalOf b q.b && isDecimalOf c q.c && isDecimalOf d q.d
  | _ => false

/-- `a.b.c.d:port` (split at the last… there is only one `:`) -/
def isAddressOf (s : List Char) (q : Quad) (port : Int) : Bool :=
  match s.dropWhile (· != ':') with
  | ':' :: p => isDottedOf (s.takeWhile (· != ':')) q && isDecimalOf p port
  | _ => false

/-! ### slugs -/

def isAsciiAlnum (c : Char) : Bool := ('0' ≤ c && c ≤ '9') || ('A' ≤ c && c ≤ 'Z') || ('a' ≤ c && c ≤ 'z')
def asciiLower (c : Char) : Char := if 'A' ≤ c && c ≤ 'Z' then Char.ofNat (c.toNat + 32) else c

def noDoubleDash : List Char → Bool
  | '-' :: '-' :: _ => false
  | _ :: t => noDoubleDash t
  | [] => true

/-- the shape of a slug: only `a-z 0-9 - _`, neither end is `-` or `_`, no `--` (the empty slug is allowed:
a name without any letter or digit has none) -/
def SlugShape (v : List Char) : Bool :=
  v.all (fun c => ('a' ≤ c && c ≤ 'z') || ('0' ≤ c && c ≤ '9') || c == '-' || c == '_') &&
    (match v.head? with | some c => c != '-' && c != '_' | none => true) &&
    (match v.getLast? with | some c => c != '-' && c != '_' | none => true) &&
    noDoubleDash v

/-- `v` is a slug of `src`: it has the shape of a slug and, when `src` is plain ASCII without `&` and
`@` (which are spelled out), the letters and digits of `v` are exactly those of `src`, lower-cased, in
order -/
def SlugOf (src v : List Char) : Bool :=
  SlugShape v &&
    (if src.all (fun c => c.toNat < 128 && c != '&' && c != '@') then
      v.filter isAsciiAlnum == (src.filter isAsciiAlnum).map asciiLower
    else true)

/-! ### the enumerations (`details/player.go`, `details/objective.go`): names of the defined values;
any other value is reported as its decimal numeral -/

def teamNames : List (Int × String) := [(0, "swat"), (1, "suspects"), (2, "swat")]
def coopStatusNames : List (Int × String) :=
  [(0, "unknown"), (1, "Ready"), (2, "Healthy"), (3, "Injured"), (4, "Incapacitated")]
def objectiveStatusNames : List (Int × String) := [(0, "In Progress"), (1, "Completed"), (2, "Failed")]

def isEnumName (table : List (Int × String)) (v : Int) (s : List Char) : Bool :=
  match table.find? (·.1 == v) with
  | some (_, name) => s == name.toList
  | none => isDecimalOf s v

/-- the slug of an enumeration name: the name lower-cased with `-` for the space; of a numeral: its digits -/
def isEnumSlug (table : List (Int × String)) (v : Int) (s : List Char) : Bool :=
  match table.find? (·.1 == v) with
  | some (_, name) => s == name.toList.map (fun c => if c == ' ' then '-' else asciiLower c)
  | none => isDecimalOf s (if v < 0 then -v else v)

/-! ### the member tables -/

/-- what a member must be, in terms of the stored record -/
inductive Want where
  | address | ip | port                      -- of the record's address
  | same (goField : String)                  -- the stored field, unchanged (string, int or bool alike)
  | flag (goField : String)                  -- a stored bool as the number 0 / 1
  | plainOf (goField : String)               -- the stored string without style codes
  | htmlOf (goField : String)                -- the stored string as inert markup
  | slugOf (goField : String)                -- a slug of the stored string
  | enumName (table : List (Int × String)) (goField : String)
  | enumSlug (table : List (Int × String)) (goField : String)
  deriving Repr

/-- `model.Server` ← `server.Server.Addr` / `.Info` -/
def serverWants : List (String × Want) :=
  [("address", .address), ("ip", .ip), ("port", .port),
   ("hostname", .same "Hostname"), ("hostname_plain", .plainOf "Hostname"), ("hostname_html", .htmlOf "Hostname"),
   ("passworded", .same "Password"),
   ("gamename", .same "GameVariant"), ("gamever", .same "GameVersion"),
   ("gametype", .same "GameType"), ("gametype_slug", .slugOf "GameType"),
   ("mapname", .same "MapName"), ("mapname_slug", .slugOf "MapName"),
   ("player_num", .same "NumPlayers"), ("player_max", .same "MaxPlayers"),
   ("round_num", .same "Round"), ("round_max", .same "NumRounds"),
   ("time_round", .same "TimeLeft"), ("time_special", .same "TimeSpecial"),
   ("score_swat", .same "SwatScore"), ("score_sus", .same "SuspectsScore"),
   ("vict_swat", .same "SwatWon"), ("vict_sus", .same "SuspectsWon"),
   ("bombs_defused", .same "BombsDefused"), ("bombs_total", .same "BombsTotal"),
   ("coop_reports", .same "TocReports"), ("coop_weapons", .same "WeaponsSecured")]

/-- `model.ServerPlayer` ← `details.Player` -/
def playerWants : List (String × Want) :=
  [("name", .same "Name"), ("ping", .same "Ping"), ("score", .same "Score"),
   ("team", .enumName teamNames "Team"), ("vip", .same "VIP"),
   ("coop_status", .enumName coopStatusNames "CoopStatus"), ("coop_status_slug", .enumSlug coopStatusNames "CoopStatus"),
   ("kills", .same "Kills"), ("teamkills", .same "TeamKills"), ("deaths", .same "Deaths"),
   ("arrests", .same "Arrests"), ("arrested", .same "Arrested"),
   ("vip_escapes", .same "VIPEscapes"), ("vip_captures", .same "VIPArrests"), ("vip_rescues", .same "VIPRescues"),
   ("vip_kills_valid", .same "VIPKillsValid"), ("vip_kills_invalid", .same "VIPKillsInvalid"),
   ("rd_bombs_defused", .same "BombsDefused"), ("rd_crybaby", .flag "BombsDetonated"),
   ("sg_escapes", .same "CaseEscapes"), ("sg_kills", .same "CaseKills"), ("sg_crybaby", .flag "CaseSecured")]

/-- `model.ServerObjective` ← `details.Objective` -/
def objectiveWants : List (String × Want) :=
  [("name", .same "Name"), ("status", .enumName objectiveStatusNames "Status"),
   ("status_slug", .enumSlug objectiveStatusNames "Status")]

/-- the members of `model.ServerDetail` -/
def detailMembers : List String := ["info", "players", "objectives"]

/-- a text both derived hostname members must leave alone: only ASCII letters and digits, and single
spaces between them (no bracket, no markup character, no white space at the ends) -/
def plainText (src : List Char) : Bool :=
  src.all (fun c => isAsciiAlnum c || c == ' ') && src.head? != some ' ' && src.getLast? != some ' '

/-- does the atom `a` of the document satisfy `w` for the record at `(ip, port)` with the struct value `e` -/
def Want.holds (ip : Quad) (port : Int) (e : Entity) (w : Want) (a : Atom) : Bool :=
  match w, a with
  | .address, .str s => isAddressOf s ip port
  | .ip, .str s => isDottedOf s ip
  | .port, .num lit => isDecimalOf lit port
  | .same f, .str s => e.get f == some (.str s)
  | .same f, .num lit => (match e.get f with | some (.int n) => isDecimalOf lit n | _ => false)
  | .same f, .bool b => e.get f == some (.bool b)
  | .flag f, .num lit => (match e.get f with | some (.bool b) => lit == (if b then ['1'] else ['0']) | _ => false)
  | .plainOf f, .str s => (match e.get f with | some (.str src) => NoCodes s && (!plainText src || s == src) | _ => false)
  | .htmlOf f, .str s => (match e.get f with | some (.str src) => Inert s && (!plainText src || s == src) | _ => false)
  | .slugOf f, .str s => (match e.get f with | some (.str src) => SlugOf src s | _ => false)
  | .enumName t f, .str s => (match e.get f with | some (.int v) => isEnumName t v s | _ => false)
  | .enumSlug t f, .str s => (match e.get f with | some (.int v) => isEnumSlug t v s | _ => false)
  | _, _ => false

/-! ### the listing (`GET /api/servers`) -/

/-- the three flags: the spellings that mean true / false; an empty or absent value is false; anything
else is a bad request -/
def flagTrue : List String := ["1", "t", "T", "TRUE", "true", "True"]
def flagFalse : List String := ["0", "f", "F", "FALSE", "false", "False", ""]

/-- is a record with this status word, refreshed `age` seconds before the request (`none`: never),
listed: it has the `info` status (4) and was refreshed within the liveness window -/
def listedLive (status : Nat) (age : Option Int) (livenessSecs : Int) : Bool :=
  status / 4 % 2 == 1 && (match age with | some a => a ≤ livenessSecs | none => false)

/-- does the record's `details.Info` pass the filters of the query -/
def listedMatches (info : Entity) (gameVariant gameVer gameType : Option (List Char)) (noPassworded noFull noEmpty : Bool) : Bool :=
  (match gameVariant with | some v => v.isEmpty || info.get "GameVariant" == some (.str v) | none => true) &&
  (match gameVer with | some v => v.isEmpty || info.get "GameVersion" == some (.str v) | none => true) &&
  (match gameType with | some v => v.isEmpty || info.get "GameType" == some (.str v) | none => true) &&
  (!noPassworded || info.get "Password" == some (.bool false)) &&
  (!noFull || info.get "NumPlayers" != info.get "MaxPlayers") &&
  (!noEmpty || (match info.get "NumPlayers" with | some (.int n) => n > 0 | _ => false))

end Swat4.RestSpec
