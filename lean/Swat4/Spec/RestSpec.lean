/-!
# Reference definitions for C17, written independently of the model

* the address classes the property excludes, as numeric ranges from the RFCs
  (RFC 1918: 10/8, 172.16/12, 192.168/16; RFC 1122: 127/8, 0.0.0.0; RFC 3927: 169.254/16;
  RFC 5771: 224/4; RFC 919: 255.255.255.255);
* the status table of the property statement;
* `Inert`: a tokenizer accepting exactly the markup `hostname_html` may contain;
* `NoCodes`: no SWAT style code (no match of `Clean`'s expression) anywhere in the text.

Nothing here refers to `Swat4.Model.*`.
-/
namespace Swat4.RestSpec

/-! ## addresses -/

/-- an IPv4 address as four numbers `0..255` -/
structure Quad where
  a : Nat
  b : Nat
  c : Nat
  d : Nat
  deriving DecidableEq, Repr

/-- 127.0.0.0/8 -/
def loopback (q : Quad) : Bool := q.a == 127
/-- 10.0.0.0/8, 172.16.0.0/12 (172.16.0.0 – 172.31.255.255), 192.168.0.0/16 -/
def rfc1918 (q : Quad) : Bool :=
  q.a == 10 || (q.a == 172 && 16 ≤ q.b && q.b ≤ 31) || (q.a == 192 && q.b == 168)
/-- 169.254.0.0/16 -/
def linkLocal (q : Quad) : Bool := q.a == 169 && q.b == 254
/-- 224.0.0.0/4 (224.0.0.0 – 239.255.255.255) -/
def multicast (q : Quad) : Bool := 224 ≤ q.a && q.a ≤ 239
/-- 0.0.0.0 -/
def unspecified (q : Quad) : Bool := q.a == 0 && q.b == 0 && q.c == 0 && q.d == 0
/-- 255.255.255.255 -/
def broadcast (q : Quad) : Bool := q.a == 255 && q.b == 255 && q.c == 255 && q.d == 255

/-- none of the classes the property excludes -/
def routable (q : Quad) : Bool :=
  !loopback q && !rfc1918 q && !linkLocal q && !multicast q && !unspecified q && !broadcast q

def validPort (p : Int) : Bool := 1 ≤ p && p ≤ 65535
/-- ports accepted for a submission -/
def validSubmitPort (p : Int) : Bool := 1025 ≤ p && p ≤ 65535

/-! ## address strings (used by the oracle to decide which row of the table applies) -/

def isDigitChar (c : Char) : Bool := '0' ≤ c && c ≤ '9'
def decimal (ds : List Char) : Nat := ds.foldl (fun acc d => acc * 10 + (d.toNat - 48)) 0

/-- split at every `sep` -/
def splitOn (sep : Char) : List Char → List (List Char)
  | [] => [[]]
  | c :: t =>
    match splitOn sep t with
    | [] => [[]]
    | h :: r => if c = sep then [] :: h :: r else (c :: h) :: r

/-- one octet of a dotted quad: 1–3 digits, no leading zero unless it is `0`, at most 255 -/
def octet (ds : List Char) : Option Nat :=
  if ds.isEmpty || ds.length > 3 || !ds.all isDigitChar || (ds.length > 1 && ds.head? == some '0') || decimal ds > 255
  then none else some (decimal ds)

/-- a dotted quad `a.b.c.d` -/
def parseQuad (s : List Char) : Option Quad :=
  match (splitOn '.' s).map octet with
  | [some a, some b, some c, some d] => some ⟨a, b, c, d⟩
  | _ => none

/-- a decimal port number; a leading `+` is tolerated (the implementation's `Atoi` accepts it) -/
def parsePort (s : List Char) : Option Nat :=
  let ds := if s.head? == some '+' then s.drop 1 else s
  if ds.isEmpty || !ds.all isDigitChar then none else some (decimal ds)

/-- `a.b.c.d:port` (split at the first `:`) -/
def parseAddress (s : List Char) : Option (Quad × Nat) :=
  match parseQuad (s.takeWhile (· != ':')), s.dropWhile (· != ':') with
  | some q, ':' :: p => (parsePort p).map fun n => (q, n)
  | _, _ => none

/-! ## the status table of the statement -/

/-- what the registry knows about the addressed server -/
structure Known where
  known : Bool
  hasDetails : Bool
  /-- a port or details probe is outstanding (`port_retry` or `details_retry`) -/
  discoveryPending : Bool
  noPort : Bool
  deriving DecidableEq, Repr

/-- `POST /api/servers`: 400 for anything that is not a routable unicast address with a port in
1025–65535; 200 with the stored data; 202 discovery pending (or just started); 410 no queryable port -/
def addTable (valid : Bool) (k : Known) : Nat :=
  if !valid then 400
  else if !k.known then 202
  else if k.hasDetails then 200
  else if k.discoveryPending then 202
  else if k.noPort then 410
  else 202

/-- `GET /api/servers/:address`: 400 invalid, 404 unknown, 204 known without details, 200 -/
def viewTable (valid : Bool) (k : Known) : Nat :=
  if !valid then 400
  else if !k.known then 404
  else if !k.hasDetails then 204
  else 200

def addStatuses : List Nat := [400, 202, 410, 200]
def viewStatuses : List Nat := [400, 404, 204, 200]

/-! ## inert markup -/

def hexDigit (c : Char) : Bool :=
  ('0' ≤ c && c ≤ '9') || ('a' ≤ c && c ≤ 'f') || ('A' ≤ c && c ≤ 'F')

/-- the five entities `html.EscapeString` produces -/
def entities : List (List Char) :=
  [['&', 'l', 't', ';'], ['&', 'g', 't', ';'], ['&', 'a', 'm', 'p', ';'], ['&', '#', '3', '9', ';'],
   ['&', '#', '3', '4', ';']]

/-- `<span style="color:#` -/
def openHead : List Char :=
  ['<', 's', 'p', 'a', 'n', ' ', 's', 't', 'y', 'l', 'e', '=', '"', 'c', 'o', 'l', 'o', 'r', ':', '#']
/-- `;">` -/
def openTail : List Char := [';', '"', '>']
/-- `</span>` -/
def closeTag : List Char := ['<', '/', 's', 'p', 'a', 'n', '>']

/-- remove `p` from the front of `xs` -/
def strip (p xs : List Char) : Option (List Char) :=
  if p.isPrefixOf xs then some (xs.drop p.length) else none

/-- remove one token from the front: an entity, `<span style="color:#HHHHHH;">`, `</span>`, or one
character other than `<`, `>`, `&`, `"`, `'` -/
def token (xs : List Char) : Option (List Char) :=
  match xs with
  | [] => none
  | c :: t =>
    if c = '&' then entities.findSome? (fun e => strip e xs)
    else if c = '<' then
      match strip closeTag xs with
      | some r => some r
      | none =>
        match strip openHead xs with
        | some r => if (r.take 6).length = 6 ∧ (r.take 6).all hexDigit then strip openTail (r.drop 6) else none
        | none => none
    else if c = '>' ∨ c = '"' ∨ c = '\'' then none
    else some t

def inertFuel : Nat → List Char → Bool
  | _, [] => true
  | 0, _ :: _ => false
  | f + 1, xs =>
    match token xs with
    | some r => inertFuel f r
    | none => false

/-- the text is a sequence of tokens (every token is at least one character, so `length` steps
suffice).  Balance of spans is deliberately not required. -/
def Inert (xs : List Char) : Bool := inertFuel xs.length xs

/-! ## no style codes -/

/-- `\w` under `(?i)`: ASCII letters, digits, `_`, and the two code points Go's simple case
folding maps to an ASCII letter (U+017F, U+212A) -/
def wordChar (c : Char) : Bool :=
  ('0' ≤ c && c ≤ '9') || ('A' ≤ c && c ≤ 'Z') || ('a' ≤ c && c ≤ 'z') || c == '_' ||
    c == '\u017f' || c == '\u212a'

def styleLetter (c : Char) : Bool := ['c', 'C', 'u', 'U', 'b', 'B'].contains c

/-- the text after `[`: `x]`, `\x]`, `/x]` with `x` one of `c u b` (either case) -/
def simpleCodeBody : List Char → Bool
  | x :: ']' :: _ => styleLetter x
  | _ => false

/-- a code starts at the head of the text: `[c]`, `[\c]`, `[/u]`, … or `[c` + a non-word
character + any text without brackets + `]` -/
def codeAt : List Char → Bool
  | '[' :: rest =>
    simpleCodeBody rest ||
    (match rest with
     | s :: rest' => (s == '\\' || s == '/') && simpleCodeBody rest'
     | [] => false) ||
    (match rest with
     | c :: x :: t =>
       (c == 'c' || c == 'C') && !wordChar x &&
         (match t.dropWhile (fun y => y != '[' && y != ']') with
          | ']' :: _ => true
          | _ => false)
     | _ => false)
  | _ => false

/-- no code starts anywhere -/
def NoCodes : List Char → Bool
  | [] => true
  | c :: t => !codeAt (c :: t) && NoCodes t

end Swat4.RestSpec
