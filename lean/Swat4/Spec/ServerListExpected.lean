import Swat4.Spec.ServerList
import Swat4.Model.Browsing
/-!
# C01: the list a reply must decode to

Stated directly on the stored record (shares only the *types* `Val`, `Info`, `Schema`, `Server`,
`Client` with the model): the value of a declared field is the rendering of the first schema
field of that name — integers in decimal, booleans `0`/`1`, strings as stored — empty when the
record has no such field, and NUL bytes (which the format cannot carry) dropped.
-/
namespace Swat4.SBList
open Swat4 Swat4.Browsing

def renderVal : Val → Bytes
  | .int i => decimal i
  | .bool true => [0x31]
  | .bool false => [0x30]
  | .str s => s

/-- the stored value of parameter `field`; empty for a field the record lacks -/
def paramValue : Schema → Info → Bytes → Bytes
  | (name, _) :: sch, v :: vs, field => if name = field then renderVal v else paramValue sch vs field
  | _, _, _ => []

def dropNul (v : Bytes) : Bytes := v.filter (· ≠ 0)

def expectedEntry (schema : Schema) (fields : List Bytes) (s : Server) : Entry :=
  { ip := [s.ip.a, s.ip.b, s.ip.c, s.ip.d], port := (s.queryPort % 65536).toNat, values := fields.map fun f => dropNul (paramValue schema s.info f) }

/-- the content C01 promises for requester `client`, declared fields `fields` and selection `selected` -/
def expectedList (schema : Schema) (client : Client) (fields : List Bytes) (selected : List Server) : ServerList :=
  { clientIp := [client.ip.a, client.ip.b, client.ip.c, client.ip.d], clientPort := client.port % 65536, fields := fields, entries := selected.map (expectedEntry schema fields), trailing := [] }

/-- the known fields of a request, in request order (`isQ` = the whitelist) -/
def knownFields (isQ : Bytes → Bool) (r : ListRequest) : List Bytes := r.rawFields.filter isQ

/-- a record whose values have the types the schema declares (what Go's typing guarantees) -/
def WellTyped : Schema → Info → Prop
  | [], [] => True
  | (_, k) :: sch, v :: vs =>
    (match k, v with
      | 0, .int _ => True
      | 1, .bool _ => True
      | 2, .str _ => True
      | _, _ => False) ∧ WellTyped sch vs
  | _, _ => False

def wellTypedB : Schema → Info → Bool
  | [], [] => true
  | (_, k) :: sch, v :: vs =>
    (match k, v with
      | 0, .int _ => true
      | 1, .bool _ => true
      | 2, .str _ => true
      | _, _ => false) && wellTypedB sch vs
  | _, _ => false

end Swat4.SBList
