import Swat4.Model.Entities
/-!
# What an accepted `details.Details` satisfies — written independently of the model

Field names are the Go struct field names (hand-written lists below; `C07.details_facts_ok` ties
them to the generated schemas).  `accepted` is executable: the C07 driver evaluates it on the
details value the implementation returned.
-/
namespace Swat4.DetailsSpec
open Swat4

/-! ## the ratio fields (`TocReports`, `WeaponsSecured`) -/

def isDigit (c : UInt8) : Bool := 48 ≤ c.toNat && c.toNat ≤ 57

/-- decimal value of a digit string -/
def decVal (ds : Bytes) : Nat := ds.foldl (fun a c => a * 10 + (c.toNat - 48)) 0

/-- a token `strconv.Atoi` reads as a non-negative `int` (64 bit): digits, at least one, value
below 2^63, optionally preceded by `+`, or by `-` when the value is zero (`-0` is 0) -/
def NumTok (t : Bytes) : Prop :=
  ∃ sign ds : Bytes, t = sign ++ ds ∧ ds ≠ [] ∧ (∀ c ∈ ds, isDigit c = true) ∧ decVal ds < 2 ^ 63 ∧
    (sign = [] ∨ sign = [0x2B] ∨ (sign = [0x2D] ∧ decVal ds = 0))

/-- **the ratio format**: empty, or `number '/' number` — exactly one `/`, since a number holds none -/
def RatioSpec (s : Bytes) : Prop :=
  s = [] ∨ ∃ l r : Bytes, s = l ++ 0x2F :: r ∧ NumTok l ∧ NumTok r

/-- executable twin of `NumTok` -/
def numTok (t : Bytes) : Bool :=
  let neg := t.head? = some 0x2D
  let ds := if t.head? = some 0x2B ∨ t.head? = some 0x2D then t.drop 1 else t
  !ds.isEmpty && ds.all isDigit && decVal ds < 2 ^ 63 && (!neg || decVal ds = 0)

/-- executable twin of `RatioSpec`: some `/` has a number on either side -/
def ratioSpec (s : Bytes) : Bool :=
  s.isEmpty || (List.range s.length).any fun i =>
    s[i]? = some 0x2F && numTok (s.take i) && numTok (s.drop (i + 1))

/-! ## struct values by field name -/

def infoNames : List String := ["Hostname", "HostPort", "GameVariant", "GameVersion", "GameType", "NumPlayers",
  "MaxPlayers", "MapName", "Password", "StatsEnabled", "Round", "NumRounds", "TimeLeft", "TimeSpecial", "SwatScore",
  "SuspectsScore", "SwatWon", "SuspectsWon", "BombsDefused", "BombsTotal", "TocReports", "WeaponsSecured", "Version"]

def playerNames : List String := ["Name", "Score", "Ping", "Team", "VIP", "CoopStatus", "Kills", "TeamKills", "Deaths",
  "Arrests", "Arrested", "VIPEscapes", "VIPEscapes2", "VIPArrests", "VIPRescues", "VIPKillsValid", "VIPKillsInvalid",
  "BombsDefused", "BombsDetonated", "CaseEscapes", "CaseKills", "CaseSecured"]

def objectiveNames : List String := ["Name", "Status"]

/-- kinds by position (0 int, 1 bool, 2 string): how the driver reads a rendered struct back -/
def infoKinds : List Nat := [2, 0, 2, 2, 2, 0, 0, 2, 1, 1, 0, 0, 0, 0, 0, 0, 0, 0, 0, 0, 2, 2, 2]
def playerKinds : List Nat := [2, 0, 0, 0, 1, 0, 0, 0, 0, 0, 0, 0, 0, 0, 0, 0, 0, 0, 1, 0, 0, 1]
def objectiveKinds : List Nat := [2, 0]

/-- the value of the named field of a struct given as its ordered value list -/
def field (names : List String) (f : Fields) (name : String) : Option Val := (names.zip f).lookup name

/-! ## the constraints -/

def infoRequiredStrings : List String := ["Hostname", "GameVariant", "GameVersion", "GameType", "MapName"]

def infoNonNegative : List String := ["NumPlayers", "MaxPlayers", "Round", "NumRounds", "TimeSpecial", "SwatWon",
  "SuspectsWon", "BombsDefused", "BombsTotal"]

def infoRatios : List String := ["TocReports", "WeaponsSecured"]

def playerNonNegative : List String := ["Kills", "TeamKills", "Deaths", "Arrests", "Arrested", "VIPEscapes",
  "VIPEscapes2", "VIPArrests", "VIPRescues", "VIPKillsValid", "VIPKillsInvalid", "BombsDefused", "CaseEscapes", "CaseKills"]

def nonEmptyStr : Option Val → Bool
  | some (.str s) => !s.isEmpty
  | _ => false

def intIn (lo hi : Int) : Option Val → Bool
  | some (.int n) => lo ≤ n && n ≤ hi
  | _ => false

def intAtLeast (lo : Int) : Option Val → Bool
  | some (.int n) => lo ≤ n
  | _ => false

def ratioStr : Option Val → Bool
  | some (.str s) => ratioSpec s
  | _ => false

def infoAccepted (i : Fields) : Bool :=
  infoRequiredStrings.all (fun n => nonEmptyStr (field infoNames i n)) &&
  intAtLeast 1 (field infoNames i "HostPort") &&
  infoNonNegative.all (fun n => intAtLeast 0 (field infoNames i n)) &&
  infoRatios.all (fun n => ratioStr (field infoNames i n))

def playerAccepted (p : Fields) : Bool :=
  nonEmptyStr (field playerNames p "Name") &&
  intIn 0 2 (field playerNames p "Team") &&
  intIn 0 4 (field playerNames p "CoopStatus") &&
  playerNonNegative.all (fun n => intAtLeast 0 (field playerNames p n))

def objectiveAccepted (o : Fields) : Bool :=
  nonEmptyStr (field objectiveNames o "Name") &&
  intIn 0 2 (field objectiveNames o "Status")

/-- **every validated constraint of a details value the prober may return**: host port positive,
the five required strings non-empty, the `gte=0` counters non-negative, both ratio fields in the
ratio format; every player named, team in 0..2, co-op status in 0..4, counters non-negative; every
objective named, status in 0..2 -/
def accepted (d : Details) : Bool :=
  infoAccepted d.info && d.players.all playerAccepted && d.objectives.all objectiveAccepted

end Swat4.DetailsSpec
