import Swat4.Base.Bytes
/-!
# Reference: the GameSpy SDK's server-list framing, and well-formed list requests

`sdkDecode` is written to the framing rules of the GameSpy server-browsing SDK
(`sb_serverlist.c`: the states `pi_fixedheader`, `pi_keylist`, `pi_uniquevaluelist`,
`pi_servers` of `ProcessMainListData`, and `ParseServer` in `sb_server.c`), *not* by inverting
this repository's `packServers`:

* fixed header: the requester's public IPv4 (4 bytes) and port (2 bytes, big endian);
* key list: one byte `n`, then `n` × (key-type byte, NUL-terminated key name);
  key types: `0` string, `1` byte, `2` short;
* unique ("popular") value list: one byte `m`, then `m` NUL-terminated strings;
* servers: a flags byte and a 4-byte IPv4; the address `255.255.255.255` ends the list;
  otherwise, in this order, the optional parts selected by the flags —
  `0x10` non-standard port (2 bytes, else the game's default port), `0x02` private IP (4),
  `0x20` non-standard private port (2), `0x08` ICMP IP (4), `0x40` one value per declared key
  (string keys: an index byte — `0xFF` means an inline NUL-terminated string follows, any other
  value indexes the popular-value list; byte keys: 1 byte; short keys: 2 bytes),
  `0x80` full rules (`key\0value\0` pairs up to an empty key).

The SDK sources are not available offline; this is a transcription from knowledge of them
and is the definition of "a decoder written to the GameSpy SDK framing rules" used by C01.

`encodeReq` builds the list request a stock client sends; `WfReq` says which requests are
well-formed.  Core Lean only.
-/
namespace Swat4.SBList
open Swat4

structure Entry where
  ip : Bytes
  port : Nat
  values : List Bytes
  deriving DecidableEq, Repr

structure ServerList where
  clientIp : Bytes
  clientPort : Nat
  /-- declared key names, in order -/
  fields : List Bytes
  entries : List Entry
  /-- whatever follows the end-of-list marker -/
  trailing : Bytes
  deriving DecidableEq, Repr

/-- a NUL-terminated string: the bytes before the first NUL, and what follows it -/
def cstring : Bytes → Option (Bytes × Bytes)
  | [] => none
  | b :: bs =>
    if b = 0 then some ([], bs)
    else match cstring bs with
      | some (s, rest) => some (b :: s, rest)
      | none => none

/-- exactly `n` bytes -/
def takeN (n : Nat) (b : Bytes) : Option (Bytes × Bytes) :=
  if b.length < n then none else some (b.take n, b.drop n)

/-- big-endian unsigned value of a byte string -/
def beNat (b : Bytes) : Nat := b.foldl (fun acc x => acc * 256 + x.toNat) 0

/-- `n` × (key type, key name) -/
def keyList : Nat → Bytes → Option (List (UInt8 × Bytes) × Bytes)
  | 0, b => some ([], b)
  | _ + 1, [] => none
  | n + 1, ty :: b =>
    match cstring b with
    | none => none
    | some (name, b) =>
      match keyList n b with
      | none => none
      | some (ks, b) => some ((ty, name) :: ks, b)

/-- `m` NUL-terminated strings -/
def stringList : Nat → Bytes → Option (List Bytes × Bytes)
  | 0, b => some ([], b)
  | m + 1, b =>
    match cstring b with
    | none => none
    | some (s, b) =>
      match stringList m b with
      | none => none
      | some (ss, b) => some (s :: ss, b)

/-- one key value of a server entry -/
def keyValue (popular : List Bytes) (ty : UInt8) (b : Bytes) : Option (Bytes × Bytes) :=
  if ty = 0 then
    match b with
    | [] => none
    | idx :: rest =>
      if idx = 0xFF then cstring rest
      else match popular[idx.toNat]? with
        | some v => some (v, rest)
        | none => none
  else if ty = 1 then takeN 1 b
  else if ty = 2 then takeN 2 b
  else none

def keyValues (popular : List Bytes) : List (UInt8 × Bytes) → Bytes → Option (List Bytes × Bytes)
  | [], b => some ([], b)
  | (ty, _) :: ks, b =>
    match keyValue popular ty b with
    | none => none
    | some (v, b) =>
      match keyValues popular ks b with
      | none => none
      | some (vs, b) => some (v :: vs, b)

/-- full rules: `key\0value\0` pairs up to an empty key (skipped; fuel = bytes left) -/
def skipRules : Nat → Bytes → Option Bytes
  | 0, _ => none
  | fuel + 1, b =>
    match cstring b with
    | none => none
    | some (k, b) =>
      if k = [] then some b
      else match cstring b with
        | none => none
        | some (_, b) => skipRules fuel b

/-- skip `n` bytes when `flag` is set -/
def skipIf (flag : Bool) (n : Nat) (b : Bytes) : Option Bytes :=
  if flag then (takeN n b).map (·.2) else some b

def lastServerMarker : Bytes := [0xFF, 0xFF, 0xFF, 0xFF]

/-- the server entries up to the end-of-list marker.  Every entry takes at least five bytes,
so fuel = number of bytes left always suffices (`none` if it ever ran out). -/
def entries (keys : List (UInt8 × Bytes)) (popular : List Bytes) (defaultPort : Nat) :
    Nat → Bytes → Option (List Entry × Bytes)
  | 0, _ => none
  | _ + 1, [] => none
  | fuel + 1, flags :: b =>
    match takeN 4 b with
    | none => none
    | some (ip, b) =>
      if ip = lastServerMarker then some ([], b) else
      match (if flags &&& 0x10 ≠ 0 then (takeN 2 b).map (fun pr => (beNat pr.1, pr.2)) else some (defaultPort, b)) with
      | none => none
      | some (port, b) =>
        match skipIf (flags &&& 0x02 ≠ 0) 4 b with
        | none => none
        | some b =>
          match skipIf (flags &&& 0x20 ≠ 0) 2 b with
          | none => none
          | some b =>
            match skipIf (flags &&& 0x08 ≠ 0) 4 b with
            | none => none
            | some b =>
              match (if flags &&& 0x40 ≠ 0 then keyValues popular keys b else some ([], b)) with
              | none => none
              | some (values, b) =>
                match (if flags &&& 0x80 ≠ 0 then skipRules b.length b else some b) with
                | none => none
                | some b =>
                  match entries keys popular defaultPort fuel b with
                  | none => none
                  | some (es, rest) => some ({ ip, port, values } :: es, rest)

/-- the whole (decrypted) list reply.  `defaultPort` is the game's default query port, used for
entries without the non-standard-port flag. -/
def sdkDecode (data : Bytes) (defaultPort : Nat := 0) : Option ServerList :=
  match takeN 4 data with
  | none => none
  | some (clientIp, b) =>
    match takeN 2 b with
    | none => none
    | some (portBytes, b) =>
      match b with
      | [] => none
      | n :: b =>
        match keyList n.toNat b with
        | none => none
        | some (keys, b) =>
          match b with
          | [] => none
          | m :: b =>
            match stringList m.toNat b with
            | none => none
            | some (popular, b) =>
              match entries keys popular defaultPort b.length b with
              | none => none
              | some (es, trailing) =>
                some { clientIp, clientPort := beNat portBytes, fields := keys.map (·.2), entries := es, trailing }

/-! ## well-formed list requests -/

/-- what a client puts into a list request -/
structure ListRequest where
  /-- request type, protocol version, encoding version, game version (7 bytes the master skips) -/
  header : Bytes
  /-- "from" game name and the queried game name -/
  gameName : Bytes
  queryGame : Bytes
  /-- the 8-byte client challenge (the cipher's per-request key material) -/
  challenge : Vector UInt8 8
  filter : Bytes
  rawFields : List Bytes
  /-- the 32-bit options word: 0 = plain list (the game), 1 = list with fields (gslist) -/
  withFields : Bool

/-- names joined by `\` -/
def joinFields : List Bytes → Bytes
  | [] => []
  | [f] => f
  | f :: g :: rest => f ++ 0x5c :: joinFields (g :: rest)

/-- everything after the two length bytes -/
def reqBody (r : ListRequest) : Bytes :=
  r.header ++ (r.gameName ++ 0 :: (r.queryGame ++ 0 :: (r.challenge.toList ++ (r.filter ++ 0 ::
    (0x5c :: (joinFields r.rawFields ++ 0 :: [0, 0, 0, if r.withFields then 1 else 0]))))))

/-- the request on the wire: 16-bit big-endian total length, then the body -/
def encodeReq (r : ListRequest) : Bytes :=
  let n := (reqBody r).length + 2
  UInt8.ofNat (n / 256) :: UInt8.ofNat (n % 256) :: reqBody r

def NulFree (b : Bytes) : Prop := ∀ x ∈ b, x ≠ 0

instance (b : Bytes) : Decidable (NulFree b) := by unfold NulFree; exact inferInstance

/-- well-formed: 7 header bytes, C strings without NUL, field names without NUL or backslash,
and a total length that fits the 16-bit prefix -/
structure WfReq (r : ListRequest) : Prop where
  header : r.header.length = 7
  gameName : NulFree r.gameName
  queryGame : NulFree r.queryGame
  filter : NulFree r.filter
  fields : ∀ f ∈ r.rawFields, ∀ x ∈ f, x ≠ 0 ∧ x ≠ 0x5c
  length : (reqBody r).length + 2 < 65536

end Swat4.SBList
