import Swat4.Base.Bytes
/-!
# Reference: the stock GameSpy SDK server-browser decryption

Transcribed from the SDK's algorithm (`sb_serverlist.c`: `pi_cryptheader`, `InitCryptKey`;
`sb_crypt.c`: `GOACryptInit`, `keyrand`, `GOADecrypt`), *not* from this repository's
`crypt.go`.  It differs in shape from the Go code where the SDK does: the shuffle mask is a
running value halved at powers of two, `keyrand` is a do-while with a retry limiter, the key
size and `strlen(secret)` are parameters, the header offset and key length are read from the
packet, and index arithmetic that the C code does in `int`/`unsigned` is done in `Nat`.
`unsigned char` is `UInt8`.
-/
namespace Swat4.GOA

abbrev Cards := Vector UInt8 256

structure State where
  cards : Cards
  rotor : UInt8
  ratchet : UInt8
  avalanche : UInt8
  lastPlain : UInt8
  lastCipher : UInt8

@[inline] def at' (v : Cards) (i : UInt8) : UInt8 := v[i.toNat]'(UInt8.toNat_lt i)
@[inline] def put (v : Cards) (i x : UInt8) : Cards := v.set i.toNat x (UInt8.toNat_lt i)

/-- one pass of `keyrand`'s do-while body; `tries` is `retry_limiter` after `++` -/
def keyrandIter (cards : Cards) (key : List UInt8) (keysize limit mask tries : Nat) (rsum : UInt8) (keypos : Nat) :
    Nat × UInt8 × Nat :=
  let rsum1 := at' cards rsum + key.getD keypos 0
  let wrap : Bool := keypos + 1 ≥ keysize
  let keypos' := if wrap then 0 else keypos + 1
  let rsum' := if wrap then rsum1 + UInt8.ofNat keysize else rsum1
  let u := mask &&& rsum'.toNat
  (if tries > 11 then u % limit else u, rsum', keypos')

/-- `keyrand`: `do { … } while (u > limit)`.  The C loop exits by the 12th pass; fuel 12,
`none` = would not have exited. -/
def keyrandLoop (cards : Cards) (key : List UInt8) (keysize : Nat) (limit : Nat) (mask : Nat) :
    Nat → Nat → UInt8 → Nat → Option (Nat × UInt8 × Nat)
  | 0, _, _, _ => none
  | fuel + 1, tries, rsum, keypos =>
    let r := keyrandIter cards key keysize limit mask (tries + 1) rsum keypos
    if r.1 > limit then keyrandLoop cards key keysize limit mask fuel (tries + 1) r.2.1 r.2.2 else some r

def keyrand (cards : Cards) (key : List UInt8) (keysize limit mask : Nat) (rsum : UInt8) (keypos : Nat) :
    Option (Nat × UInt8 × Nat) :=
  if limit = 0 then some (0, rsum, keypos) else keyrandLoop cards key keysize limit mask 12 0 rsum keypos

def identity : Cards := Vector.ofFn fun (i : Fin 256) => UInt8.ofNat i.val

/-- `for (i=255;i>=0;i--) { toswap = keyrand(…, i, mask, …); swap(cards[i], cards[toswap]); if ((i & (i-1)) == 0) mask >>= 1; }` -/
def initLoop (key : List UInt8) (keysize : Nat) : Nat → Cards → Nat → UInt8 → Nat → Option (Cards × UInt8)
  | 0, cards, _, rsum, _ => some (cards, rsum)
  | n + 1, cards, mask, rsum, keypos =>
    -- i = n
    match keyrand cards key keysize n mask rsum keypos with
    | none => none
    | some (toswap, rsum, keypos) =>
      let i := UInt8.ofNat n
      let t := UInt8.ofNat toswap
      let swaptemp := at' cards i
      let cards := put cards i (at' cards t)
      let cards := put cards t swaptemp
      let mask := if n &&& (n - 1) = 0 then mask >>> 1 else mask
      initLoop key keysize n cards mask rsum keypos

def cryptInit (key : List UInt8) (keysize : Nat) : Option State :=
  match initLoop key keysize 256 identity 255 0 0 with
  | none => none
  | some (cards, rsum) =>
    some { cards, rotor := at' cards 1, ratchet := at' cards 3, avalanche := at' cards 5,
           lastPlain := at' cards 7, lastCipher := at' cards rsum }

/-- `GOADecryptByte` -/
def decryptByte (s : State) (b : UInt8) : State × UInt8 :=
  let ratchet := s.ratchet + at' s.cards s.rotor
  let rotor := s.rotor + 1
  let swaptemp := at' s.cards s.lastCipher
  let cards := put s.cards s.lastCipher (at' s.cards ratchet)
  let cards := put cards ratchet (at' cards s.lastPlain)
  let cards := put cards s.lastPlain (at' cards rotor)
  let cards := put cards rotor swaptemp
  let avalanche := s.avalanche + at' cards swaptemp
  let lastPlain := b ^^^ at' cards (at' cards avalanche + at' cards rotor) ^^^
      at' cards (at' cards (at' cards s.lastPlain + at' cards s.lastCipher + at' cards ratchet))
  ({ cards, rotor, ratchet, avalanche, lastPlain, lastCipher := b }, lastPlain)

def decryptAll (s : State) : List UInt8 → List UInt8
  | [] => []
  | b :: bs => let (s', o) := decryptByte s b; o :: decryptAll s' bs

/-- C `strlen` -/
def strlen (s : List UInt8) : Nat := (s.takeWhile (· ≠ 0)).length

/-- one pass of `InitCryptKey`'s loop:
`mychallenge[(i * seckey[i % seckeylen]) % 8] ^= (mychallenge[i % 8] ^ key[i]) & 0xFF`,
`i` and the product in `int`; secrets are 7-bit so `char` is non-negative. -/
def mixKeyStep (secret : List UInt8) (hdrKey : List UInt8) (ch : List UInt8) (i : Nat) : List UInt8 :=
  let idx := (i * (secret.getD (i % strlen secret) 0).toNat) % 8
  ch.set idx (ch.getD idx 0 ^^^ ((ch.getD (i % 8) 0 ^^^ hdrKey.getD i 0) &&& 0xFF))

def mixKey (secret : List UInt8) (hdrKey : List UInt8) (chal : List UInt8) : List UInt8 :=
  (List.range hdrKey.length).foldl (mixKeyStep secret hdrKey) chal

/-- the `pi_cryptheader` state of `ProcessIncomingData`, followed by `GOADecrypt` of the rest.
`secret` is a C string (no NUL inside), `chal` the 8-byte client challenge. -/
def refDecrypt (secret chal data : List UInt8) : Option (List UInt8) :=
  match data with
  | [] => none
  | b0 :: _ =>
    let keyoffset := (b0 ^^^ 0xEC).toNat + 2
    if data.length < keyoffset then none else
    let keylen := (data.getD (keyoffset - 1) 0 ^^^ 0xEA).toNat
    if data.length < keyoffset + keylen then none else
    let hdrKey := (data.drop keyoffset).take keylen
    let key := mixKey secret hdrKey chal
    match cryptInit key 8 with
    | none => none
    | some st => some (decryptAll st (data.drop (keyoffset + keylen)))

end Swat4.GOA
