import Swat4.Model.Entities
/-!
# Abstract store: registry as a versioned map, instance table, probe queue

This is the *specification level* of the three repositories
(`internal/core/repositories`): what a call returns and how it changes the abstract state,
when it runs atomically.  `Properties/C11` proves that the Redis-level model
(`Model/Store.lean`) refines it; `Properties/C09` proves that the lock/WATCH protocol makes
every committed call atomic.  Use cases (`Model/UseCases.lean`) are programs over these calls.
-/
namespace Swat4
open Std

/-- a registry row: the record and its last-write time (`servers:updated` score) -/
structure SRow where
  svr : Server
  updatedAt : Int
  deriving DecidableEq, Repr, Inhabited

/-- a queued probe: `id` stands for the fresh UUID, `ready` the queue score, `expires` the stored deadline -/
structure QItem where
  id : Nat
  probe : Probe
  ready : Int
  expires : GoTime
  deriving DecidableEq, Repr, Inhabited

/-- `isItemExpired` -/
def QItem.expired (q : QItem) (now : Int) : Bool :=
  match q.expires with | none => false | some e => e < now

structure AbsState where
  servers : ExtTreeMap Nat SRow := ∅
  instances : ExtTreeMap Nat (Addr × Int) := ∅      -- id ↦ (address, updatedAt)
  queue : List QItem := []                          -- insertion order; ids are fresh
  nextId : Nat := 0

/-- conflict callback: `none` = refuse (`return false`), `some r` = accept with the possibly modified record -/
abbrev Resolver := Server → Option Server

inductive RErr where
  | serverNotFound | serverExists | instanceNotFound | queueEmpty
  | storage            -- injected storage fault
  deriving DecidableEq, Repr, Inhabited

namespace AbsState

def getRow (s : AbsState) (a : Addr) : Option SRow := s.servers[a.key]?

/-- `Repository.Get` -/
def get (s : AbsState) (a : Addr) : Except RErr Server :=
  match s.getRow a with
  | some r => .ok r.svr
  | none => .error .serverNotFound

/-- `save`: version + 1, record stored under its address, update time = now -/
def save (s : AbsState) (now : Int) (svr : Server) : AbsState × Server :=
  let svr' := { svr with version := svr.version + 1 }
  ({ s with servers := s.servers.insert svr'.addr.key ⟨svr', now⟩ }, svr')

/-- `Repository.Add` run atomically -/
def add (s : AbsState) (now : Int) (svr : Server) (res : Resolver) : AbsState × Except RErr Server :=
  match s.getRow svr.addr with
  | none => let (s', r) := s.save now svr; (s', .ok r)
  | some ex =>
    match res ex.svr with
    | none => (s, .error .serverExists)
    | some resolved => let (s', r) := s.save now resolved; (s', .ok r)

/-- `Repository.Update` run atomically -/
def update (s : AbsState) (now : Int) (svr : Server) (res : Resolver) : AbsState × Except RErr Server :=
  match s.getRow svr.addr with
  | none => (s, .error .serverNotFound)
  | some ex =>
    if ex.svr.version > svr.version then
      match res ex.svr with
      | none => (s, .ok ex.svr)
      | some resolved => let (s', r) := s.save now resolved; (s', .ok r)
    else let (s', r) := s.save now svr; (s', .ok r)

/-- `Repository.Remove` run atomically (`true` = call returned nil) -/
def remove (s : AbsState) (svr : Server) (res : Resolver) : AbsState × Except RErr Unit :=
  match s.getRow svr.addr with
  | none => (s, .ok ())
  | some ex =>
    if ex.svr.version > svr.version then
      match res ex.svr with
      | none => (s, .ok ())
      | some resolved => ({ s with servers := s.servers.erase resolved.addr.key }, .ok ())
    else ({ s with servers := s.servers.erase svr.addr.key }, .ok ())

end AbsState

/-- `filterset.ServerFilterSet` -/
structure FilterSet where
  withStatus : Status := 0#9
  noStatus : Status := 0#9
  updatedBefore : GoTime := none
  updatedAfter : GoTime := none
  activeBefore : GoTime := none
  activeAfter : GoTime := none
  deriving DecidableEq, Repr, Inhabited

/-- the predicate a filtered query selects by: all `withStatus` bits, none of `noStatus`,
refresh time in `[activeAfter, activeBefore)`, update time in `[updatedAfter, updatedBefore)`;
an absent bound does not constrain; a record never refreshed satisfies no active bound -/
def FilterSet.pred (fs : FilterSet) (r : SRow) : Bool :=
  Status.has r.svr.status fs.withStatus &&
  !(Status.hasAny r.svr.status fs.noStatus) &&
  (match fs.activeBefore with
   | none => true
   | some b => match r.svr.refreshedAt with | none => false | some t => t < b) &&
  (match fs.activeAfter with
   | none => true
   | some a => match r.svr.refreshedAt with | none => false | some t => a ≤ t) &&
  (match fs.updatedBefore with | none => true | some b => r.updatedAt < b) &&
  (match fs.updatedAfter with | none => true | some a => a ≤ r.updatedAt)

namespace AbsState

/-- `Repository.Filter` (result order is unspecified in the implementation; here: key order) -/
def filter (s : AbsState) (fs : FilterSet) : List Server :=
  (s.servers.toList.filter fun kv => fs.pred kv.2).map fun kv => kv.2.svr

def count (s : AbsState) : Nat := s.servers.size

def countByStatus (s : AbsState) (bit : Status) : Nat :=
  (s.servers.toList.filter fun kv => Status.has kv.2.svr.status bit).length

/-! ### instances -/

def insAdd (s : AbsState) (now : Int) (i : Instance) : AbsState :=
  { s with instances := s.instances.insert i.id (i.addr, now) }

def insGet (s : AbsState) (id : Nat) : Except RErr Instance :=
  match s.instances[id]? with
  | some (a, _) => .ok ⟨id, a⟩
  | none => .error .instanceNotFound

def insRemove (s : AbsState) (id : Nat) : AbsState :=
  { s with instances := s.instances.erase id }

/-- `Repository.Clear`: removes instances with update time ≤ bound (inclusive, as coded); no bound = all -/
def insClear (s : AbsState) (before : GoTime) : AbsState × Nat :=
  let doomed := s.instances.toList.filter fun kv => match before with | none => true | some b => kv.2.2 ≤ b
  ({ s with instances := doomed.foldl (fun m kv => m.erase kv.1) s.instances }, doomed.length)

def insCount (s : AbsState) : Nat := s.instances.size

/-! ### probe queue -/

/-- `enqueue`: dropped when both bounds are explicit and `after ≥ before`; ready = `after` or now -/
def enqueue (s : AbsState) (now : Int) (p : Probe) (after before : GoTime) : AbsState :=
  let drop := match after, before with
    | some a, some b => decide (a ≥ b)
    | _, _ => false
  if drop then s
  else
    let ready := match after with | some a => a | none => now
    { s with queue := s.queue ++ [⟨s.nextId, p, ready, before⟩], nextId := s.nextId + 1 }

def qCount (s : AbsState) : Nat := s.queue.length

/-- ready items in delivery order: by (ready time, insertion id) -/
def readySorted (q : List QItem) (now : Int) : List QItem :=
  (q.filter fun x => x.ready ≤ now).foldr (fun x acc =>
    let (lo, rest) := acc.span fun y => y.ready < x.ready ∨ (y.ready = x.ready ∧ y.id < x.id)
    lo ++ x :: rest) []

/-- `PopMany(n)` run atomically at clock `now`: rounds of "take the first `want` ready items, drop the
expired ones (counted)" until the batch is full or a round finds nothing ready -/
def popManyLoop (now : Int) (n : Nat) : Nat → List QItem → List Probe → Nat → List QItem × List Probe × Nat
  | 0, q, got, exp => (q, got, exp)
  | fuel + 1, q, got, exp =>
    if got.length ≥ n then (q, got, exp)
    else
      let batch := (readySorted q now).take (n - got.length)
      if batch.isEmpty then (q, got, exp)
      else
        let q' := q.filter fun x => !(batch.any fun b => b.id == x.id)
        let fresh := batch.filter fun x => !x.expired now
        popManyLoop now n fuel q' (got ++ fresh.map (·.probe)) (exp + (batch.length - fresh.length))

def popMany (s : AbsState) (now : Int) (n : Int) : AbsState × List Probe × Nat :=
  if n ≤ 0 then (s, [], 0)
  else
    let (q, got, exp) := popManyLoop now n.toNat (s.queue.length + 1) s.queue [] 0
    ({ s with queue := q }, got, exp)

end AbsState
end Swat4
