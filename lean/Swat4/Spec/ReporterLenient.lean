import Swat4.Spec.ReporterSpec
/-!
# Reporter protocol: the documented leniencies of the heartbeat / keepalive parsers (C06)

`ReporterSpec.decode?` is the STRICT reading of the wire format: a keepalive is exactly `08` + 4 id bytes, a
heartbeat body is a list of `name 00 value 00` pairs (every string terminated, every name — known or not —
followed by a non-empty value) ended by the end of the datagram or an empty name.

The real parsers (`keepalive.Handler`, `heartbeat.parseHeartbeatParams`) accept more.  This file says, in terms
of the BYTES only (no handler code, no scanner: just concatenation of strings), exactly what more:

* `Quirk.keepaliveTrailer` — bytes after the 4 id bytes of a keepalive are ignored;
* `Quirk.unterminated`     — the NUL after the LAST string of a heartbeat body may be missing;
* `Quirk.oddSkip`          — a string that is not a reportable name is skipped ALONE (its "value" is read as
                             the next name), so unknown strings need not come in name/value pairs.

`C06.mutation_implies_decodable`: a datagram that changes the state is accepted by `decode?` as a heartbeat or
keepalive, or exhibits one of these three quirks.  Each quirk is witnessed on the model (`C06`, by `decide`) and
was confirmed on the real dispatcher through the harness.
-/
namespace Swat4.ReporterSpec
open Swat4 Swat4.Heartbeat

/-- one string of a leniently read heartbeat body -/
inductive Item where
  /-- a reportable name followed by its value -/
  | pair (k v : Bytes)
  /-- a string that is not a reportable name: ignored, and NO value is consumed with it -/
  | skip (t : Bytes)
  deriving DecidableEq, Repr

/-- `pair`: reportable (hence non-empty, NUL-free) name, non-empty NUL-free value;
`skip`: non-empty NUL-free string that is not a reportable name -/
def wfItem : Item → Bool
  | .pair k v => isReportable k && !k.isEmpty && nulFree k && !v.isEmpty && nulFree v
  | .skip t => !isReportable t && !t.isEmpty && nulFree t

/-- the bytes of an item list: every string followed by one NUL -/
def encItems : List Item → Bytes
  | [] => []
  | .pair k v :: rest => k ++ 0 :: (v ++ 0 :: encItems rest)
  | .skip t :: rest => t ++ 0 :: encItems rest

/-- what follows the strings: nothing, or an empty name (a NUL) and then anything -/
def trailerOk (t : Bytes) : Bool :=
  match t with
  | [] => true
  | c :: _ => c == 0

/-- the reported field map of an item list: the pairs, in order, a later duplicate replacing an earlier one -/
def fieldsOfItems (items : List Item) (m : FieldMap) : FieldMap :=
  items.foldl (fun m it => match it with | .pair k v => m.set k (toValidUTF8 v) | .skip _ => m) m

/-- the name/value pairs of an item list -/
def pairsOf : List Item → List (Bytes × Bytes)
  | [] => []
  | .pair k v :: rest => (k, v) :: pairsOf rest
  | .skip _ :: rest => pairsOf rest

/-- reading an item list STRICTLY, as name/value pairs: skipped strings must come two by two
(`none` = they do not: the strict decoder misaligns) -/
def pairUp : List Item → Option (List (Bytes × Bytes))
  | [] => some []
  | .pair k v :: rest => (pairUp rest).map ((k, v) :: ·)
  | .skip t1 :: .skip t2 :: rest => (pairUp rest).map ((t1, t2) :: ·)
  | .skip _ :: _ => none

/-- the three documented leniencies -/
inductive Quirk (b : Bytes) : Prop where
  /-- a keepalive with bytes after the instance id -/
  | keepaliveTrailer (id extra : Bytes) (hid : id.length = 4) (hex : extra ≠ []) (hb : b = 0x08 :: (id ++ extra))
  /-- a heartbeat whose last string lacks its NUL terminator -/
  | unterminated (id : Bytes) (items : List Item) (hid : id.length = 4) (hwf : items.all wfItem = true)
      (hb : b ++ [0] = 0x03 :: (id ++ encItems items))
  /-- a heartbeat in which skipped (unknown) strings do not pair up -/
  | oddSkip (id : Bytes) (items : List Item) (trailer : Bytes) (hid : id.length = 4) (hwf : items.all wfItem = true)
      (htr : trailerOk trailer = true) (hodd : pairUp items = none)
      (hb : b = 0x03 :: (id ++ (encItems items ++ trailer)))

def Msg.isHeartbeat : Msg → Bool
  | .heartbeat _ => true
  | _ => false

def Msg.isKeepalive : Msg → Bool
  | .keepalive _ => true
  | _ => false

end Swat4.ReporterSpec
