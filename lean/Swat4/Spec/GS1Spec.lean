import Swat4.Model.GS1
/-!
# GS1 status responses: abstract content, the wire encoders of the three server dialects, and
the response a correct decoder must produce

Written from the wire formats (vanilla SWAT4 / AdminMod / GS1 mod), independently of the decoder
model; shares with `Model/GS1.lean` only the data types (`Response`, `Ver`), the byte constants,
the latin-1 conversion and the association-list map (`insertKV`).  `encodeWire` (over any wire
order `WireOf` of a well-formed status; `encodeStatus` = the servers' own order) *defines* what a
well-formed response stream is (C08 quantifies over its outputs); `toResponse` defines "decoded
faithfully": in particular the players, who carry explicit indexes (gaps, any listing order, their
pairs anywhere in the stream), come out in ascending order of index (`sortById`).
-/
namespace Swat4.GS1Spec
open Swat4 Swat4.GS1

/-- abstract server status: server fields, the players — each with its explicit index (the `N` of
`key_N` on the wire; indexes need not be contiguous nor listed in ascending order) and its key/value
list —, objectives as (name, status) -/
structure Status where
  fields : List (Bytes × Bytes)
  players : List (Nat × List (Bytes × Bytes))
  objectives : List (Bytes × Bytes)
  deriving DecidableEq, Repr

/-- one `\name\value` pair of a status on the wire -/
inductive Item where
  /-- server field `\k\v` -/
  | field (k v : Bytes)
  /-- key `k` of the player with index `id`: `\k_id\v` -/
  | player (id : Nat) (k v : Bytes)
  /-- objective: `\obj_name\status` -/
  | objective (name status : Bytes)
  deriving DecidableEq, Repr

/-- the dialects seen in the wild (and in the repository's captured fixtures) -/
inductive Dialect where
  /-- stock server: one datagram ending `\final\\queryid\1.1` -/
  | vanilla
  /-- stock-like server with a non-numeric query id: `…\queryid\gs1\final\` -/
  | vanillaq
  /-- GS1 mod: `…\queryid\k` (one-based), `\final\` on the last fragment -/
  | gs1
  /-- AdminMod: `\statusresponse\k` (zero-based) …, `\queryid\AMv1\final\` on the last fragment, `\eof\` -/
  | am
  /-- AdminMod with `\queryid\AMv1` on every fragment -/
  | amq
  /-- AdminMod without any `queryid` -/
  | amn
  deriving DecidableEq, Repr

def Dialect.ver : Dialect → Ver
  | .vanilla => .vanilla
  | .vanillaq => .vanilla
  | .gs1 => .gs1
  | .am => .am
  | .amq => .am
  | .amn => .am

/-- the dialects that cut a status into numbered fragments -/
def Dialect.fragmenting : Dialect → Bool
  | .gs1 => true
  | .am => true
  | .amq => true
  | .amn => true
  | _ => false

/-- ASCII decimal digits of a natural number, most significant first (fuel = the number itself is ample) -/
def decimalAux : Nat → Nat → Bytes → Bytes
  | 0, _, acc => acc
  | fuel + 1, n, acc =>
    let acc' := UInt8.ofNat (48 + n % 10) :: acc
    if n / 10 = 0 then acc' else decimalAux fuel (n / 10) acc'

def decimal (n : Nat) : Bytes := decimalAux (n + 1) n []

/-- `"final"` -/
def kFinal : Bytes := [0x66, 0x69, 0x6e, 0x61, 0x6c]
/-- `"1.1"` -/
def v11 : Bytes := [0x31, 0x2e, 0x31]
/-- `"gs1"` -/
def vGs1 : Bytes := [0x67, 0x73, 0x31]
/-- `"AMv1"` -/
def vAMv1 : Bytes := [0x41, 0x4d, 0x76, 0x31]
/-- `"obj"` -/
def kObjBare : Bytes := [0x6f, 0x62, 0x6a]

/-- wire name of key `k` of player `i`: `k_i` -/
def playerKey (k : Bytes) (i : Nat) : Bytes := k ++ usc :: decimal i

/-- the name of a pair on the wire -/
def Item.name : Item → Bytes
  | .field k _ => k
  | .player id k _ => playerKey k id
  | .objective n _ => kObj ++ n

def Item.value : Item → Bytes
  | .field _ v => v
  | .player _ _ v => v
  | .objective _ v => v

/-- the pairs of a status in the order the game servers send them: server fields, the players one
after another in the listed order, the objectives -/
def items (s : Status) : List Item :=
  (s.fields.map fun kv => Item.field kv.1 kv.2) ++
    (s.players.flatMap fun p => p.2.map fun kv => Item.player p.1 kv.1 kv.2) ++
    (s.objectives.map fun kv => Item.objective kv.1 kv.2)

/-- the field sequence `n₁,v₁,n₂,v₂,…` of a sequence of pairs -/
def flatItems (w : List Item) : List Bytes := w.flatMap fun it => [it.name, it.value]

/-- the field sequence of a status in the servers' own order -/
def flat (s : Status) : List Bytes := flatItems (items s)

/-! ### wire orders

The decoder classifies every pair by its name alone, so a status may be sent with its pairs in any
interleaving: `WireOf s w` says that the pair sequence `w` carries exactly the content of `s` — its
server fields and its objectives in their order, and for every player index exactly that player's
pairs in their order — with the pairs of different players, the server fields and the objectives
interleaved in any way whatsoever (players in any order of index, a player's pairs scattered over
the stream). -/

/-- the server fields among the pairs, in wire order -/
def fieldsOf (w : List Item) : List (Bytes × Bytes) :=
  w.filterMap fun
    | .field k v => some (k, v)
    | _ => none

/-- the objectives among the pairs, in wire order -/
def objectivesOf (w : List Item) : List (Bytes × Bytes) :=
  w.filterMap fun
    | .objective n v => some (n, v)
    | _ => none

/-- the pairs of player `id`, in wire order -/
def pairsOf (id : Nat) (w : List Item) : List (Bytes × Bytes) :=
  w.filterMap fun
    | .player i k v => if i = id then some (k, v) else none
    | _ => none

/-- the key/value list of the player with index `id` (the first one listed; `[]` when there is none) -/
def pairsFor : List (Nat × List (Bytes × Bytes)) → Nat → List (Bytes × Bytes)
  | [], _ => []
  | p :: t, id => if p.1 = id then p.2 else pairsFor t id

/-- `w` is a wire order of status `s` -/
structure WireOf (s : Status) (w : List Item) : Prop where
  fields : fieldsOf w = s.fields
  objectives : objectivesOf w = s.objectives
  players : ∀ id, pairsOf id w = pairsFor s.players id

/-- the player indexes that occur among the pairs -/
def idsOf (w : List Item) : List Nat :=
  w.filterMap fun
    | .player i _ _ => some i
    | _ => none

/-- executable form of `WireOf` (used by the driver; `wireOfB_iff` in `Lemmas/GS1Players.lean`): the
quantifier ranges over the indexes that occur -/
def wireOfB (s : Status) (w : List Item) : Bool :=
  fieldsOf w == s.fields && objectivesOf w == s.objectives &&
    ((s.players.map (·.1)) ++ idsOf w).all fun id => pairsOf id w == pairsFor s.players id

/-- `\f₁\f₂…` -/
def body (fs : List Bytes) : Bytes := fs.flatMap fun f => bsl :: f

/-- cut the field sequence before the given (strictly increasing) positions -/
def chunksFrom (fl : List Bytes) (prev : Nat) : List Nat → List (List Bytes)
  | [] => [fl]
  | c :: cs => fl.take (c - prev) :: chunksFrom (fl.drop (c - prev)) c cs

def chunks (fl : List Bytes) (cuts : List Nat) : List (List Bytes) := chunksFrom fl 0 cuts

def qidAMv1 : Bytes := bsl :: kQueryid ++ bsl :: vAMv1

/-- fragment `i` (zero-based) of `n` in a fragmenting dialect -/
def fragment (d : Dialect) (n i : Nat) (ch : List Bytes) : Bytes :=
  let last := i + 1 = n
  match d with
  | .gs1 => body ch ++ bsl :: kQueryid ++ bsl :: decimal (i + 1) ++ (if last then FINAL else [])
  | .am => pfxAM ++ decimal i ++ body ch ++ (if last then qidAMv1 ++ FINAL else []) ++ EOF
  | .amq => pfxAM ++ decimal i ++ body ch ++ qidAMv1 ++ (if last then FINAL else []) ++ EOF
  | .amn => pfxAM ++ decimal i ++ body ch ++ (if last then FINAL else []) ++ EOF
  | _ => []

def fragmentsFrom (d : Dialect) (n : Nat) : Nat → List (List Bytes) → List Bytes
  | _, [] => []
  | i, ch :: rest => fragment d n i ch :: fragmentsFrom d n (i + 1) rest

/-- the datagrams a server of dialect `d` sends for the field sequence `fl`, cut before the field positions `cuts` -/
def encodeFlat (d : Dialect) (fl : List Bytes) (cuts : List Nat) : List Bytes :=
  match d with
  | .vanilla => [body fl ++ FINAL ++ sfxVanilla]
  | .vanillaq => [body fl ++ bsl :: kQueryid ++ bsl :: vGs1 ++ FINAL]
  | _ =>
    let chs := chunks fl cuts
    fragmentsFrom d chs.length 0 chs

/-- the datagrams a server of dialect `d` sends for the pair sequence `w` -/
def encodeWire (d : Dialect) (w : List Item) (cuts : List Nat) : List Bytes := encodeFlat d (flatItems w) cuts

/-- the datagrams a server of dialect `d` sends for status `s` in the servers' own order -/
def encodeStatus (d : Dialect) (s : Status) (cuts : List Nat) : List Bytes := encodeWire d (items s) cuts

/-- fields the dialect's own framing adds to the field map (AppendixC: vanilla keeps `final` and
`queryid`; AdminMod's final fragment keeps `queryid`) -/
def framingFields : Dialect → List (Bytes × Bytes)
  | .vanilla => [(kFinal, []), (kQueryid, v11)]
  | .am => [(kQueryid, vAMv1)]
  | .amq => [(kQueryid, vAMv1)]
  | _ => []

/-- a Go map built from a key/value list: later duplicates win; values latin-1 → UTF-8 -/
def mkMap (kvs : List (Bytes × Bytes)) : List (Bytes × Bytes) :=
  kvs.foldl (fun m kv => insertKV kv.1 (latin1 kv.2) m) []

/-- insertion into a list ascending by index -/
def insertById {α : Type} (p : Nat × α) : List (Nat × α) → List (Nat × α)
  | [] => [p]
  | q :: t => if p.1 ≤ q.1 then p :: q :: t else q :: insertById p t

/-- the players in ascending order of index (insertion sort; characterised by `sortById_perm` and
`sortById_sorted` in `Lemmas/GS1Players.lean`) -/
def sortById {α : Type} (l : List (Nat × α)) : List (Nat × α) := l.foldr insertById []

/-- **the faithful decoding** of status `s` sent in dialect `d`: server fields (plus the dialect's
framing fields), the players in ascending order of index — whatever the order in which they are
listed or sent, gaps in the indexes closed up — each with its keys, objectives in order (raw bytes),
text latin-1 → UTF-8, dialect tag -/
def toResponse (d : Dialect) (s : Status) : Response :=
  { fields := mkMap (s.fields ++ framingFields d), players := (sortById s.players).map fun p => mkMap p.2,
    objectives := s.objectives, version := d.ver }

abbrev noBsl (b : Bytes) : Prop := bsl ∉ b
abbrev noUsc (b : Bytes) : Prop := usc ∉ b

/-- well-formed status: what the game servers produce -/
structure WfStatus (s : Status) : Prop where
  /-- no backslash in any name, key or value -/
  fields_bsl : ∀ kv ∈ s.fields, noBsl kv.1 ∧ noBsl kv.2
  players_bsl : ∀ p ∈ s.players, ∀ kv ∈ p.2, noBsl kv.1 ∧ noBsl kv.2
  objectives_bsl : ∀ kv ∈ s.objectives, noBsl kv.1 ∧ noBsl kv.2
  /-- server field names: non-empty, no underscore, none of the framing words -/
  field_names : ∀ kv ∈ s.fields, kv.1 ≠ [] ∧ noUsc kv.1 ∧ kv.1 ≠ kQueryid ∧ kv.1 ≠ kFinal ∧ kv.1 ≠ kStatusresponse
  /-- player keys: no underscore, not the word `obj`; every player has at least one key -/
  player_keys : ∀ p ∈ s.players, p.2 ≠ [] ∧ ∀ kv ∈ p.2, noUsc kv.1 ∧ kv.1 ≠ kObjBare
  /-- player indexes: pairwise different (gaps and any listing order allowed), within Go's `int` -/
  player_ids : (s.players.map (·.1)).Nodup
  player_ids_int : ∀ p ∈ s.players, p.1 < 9223372036854775808
  /-- objective names are non-empty -/
  objective_names : ∀ kv ∈ s.objectives, kv.1 ≠ []
  /-- no value is the word `queryid` (an AdminMod fragment cut between a name and its value would
  lose it) or `statusresponse` (a fragment starting with it would be taken for AdminMod) -/
  values : ∀ v ∈ (s.fields.map (·.2)) ++ (s.players.flatMap fun p => p.2.map (·.2)) ++ s.objectives.map (·.2),
    v ≠ kQueryid ∧ v ≠ kStatusresponse

/-- cuts on a field sequence of length `len` as the generators draw them: strictly increasing,
inside the sequence (between any two fields, also between a name and its value, as in the
captured AdminMod responses).  The C08 theorems do not need it: `chunks` is total, and they hold
for every cut list (out-of-range or repeated cuts only produce empty chunks). -/
def WfCuts (len : Nat) (cuts : List Nat) : Prop :=
  cuts.Pairwise (· < ·) ∧ (∀ c ∈ cuts, 0 < c ∧ c < len)

end Swat4.GS1Spec
