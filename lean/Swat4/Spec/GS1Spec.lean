import Swat4.Model.GS1
/-!
# GS1 status responses: abstract content, the wire encoders of the three server dialects, and
the response a correct decoder must produce

Written from the wire formats (vanilla SWAT4 / AdminMod / GS1 mod), independently of the decoder
model; shares with `Model/GS1.lean` only the data types (`Response`, `Ver`), the byte constants,
the latin-1 conversion and the association-list map (`insertKV`).  `encodeStatus` *defines*
what a well-formed response stream is (C08 quantifies over its outputs); `toResponse` defines
"decoded faithfully".
-/
namespace Swat4.GS1Spec
open Swat4 Swat4.GS1

/-- abstract server status: server fields, per-player key/value lists (player `i` is the `i`-th
element), objectives as (name, status) -/
structure Status where
  fields : List (Bytes × Bytes)
  players : List (List (Bytes × Bytes))
  objectives : List (Bytes × Bytes)
  deriving DecidableEq, Repr

/-- the dialects seen in the wild (and in the repository's captured fixtures) -/
inductive Dialect where
  /-- stock server: one datagram ending `\final\\queryid\1.1` -/
  | vanilla
  /-- stock-like server with a non-numeric query id: `…\queryid\gs1\final\` -/
  | vanillaq
  /-- GS1 mod: `…\queryid\k` (one-based), `\final\` on the last fragment -/
  | gs1
  /-- AdminMod: `\statusresponse\k` (zero-based) …, `\queryid\AMv1\final\` on the last fragment, `\eof\` -/
  | am
  /-- AdminMod with `\queryid\AMv1` on every fragment -/
  | amq
  /-- AdminMod without any `queryid` -/
  | amn
  deriving DecidableEq, Repr

def Dialect.ver : Dialect → Ver
  | .vanilla => .vanilla
  | .vanillaq => .vanilla
  | .gs1 => .gs1
  | .am => .am
  | .amq => .am
  | .amn => .am

/-- the dialects that cut a status into numbered fragments -/
def Dialect.fragmenting : Dialect → Bool
  | .gs1 => true
  | .am => true
  | .amq => true
  | .amn => true
  | _ => false

/-- ASCII decimal digits of a natural number, most significant first (fuel = the number itself is ample) -/
def decimalAux : Nat → Nat → Bytes → Bytes
  | 0, _, acc => acc
  | fuel + 1, n, acc =>
    let acc' := UInt8.ofNat (48 + n % 10) :: acc
    if n / 10 = 0 then acc' else decimalAux fuel (n / 10) acc'

def decimal (n : Nat) : Bytes := decimalAux (n + 1) n []

/-- `"final"` -/
def kFinal : Bytes := [0x66, 0x69, 0x6e, 0x61, 0x6c]
/-- `"1.1"` -/
def v11 : Bytes := [0x31, 0x2e, 0x31]
/-- `"gs1"` -/
def vGs1 : Bytes := [0x67, 0x73, 0x31]
/-- `"AMv1"` -/
def vAMv1 : Bytes := [0x41, 0x4d, 0x76, 0x31]
/-- `"obj"` -/
def kObjBare : Bytes := [0x6f, 0x62, 0x6a]

/-- wire name of key `k` of player `i`: `k_i` -/
def playerKey (k : Bytes) (i : Nat) : Bytes := k ++ usc :: decimal i

def playerFlat (i : Nat) (kvs : List (Bytes × Bytes)) : List Bytes :=
  kvs.flatMap fun kv => [playerKey kv.1 i, kv.2]

def playersFlat : Nat → List (List (Bytes × Bytes)) → List Bytes
  | _, [] => []
  | i, p :: ps => playerFlat i p ++ playersFlat (i + 1) ps

/-- the field sequence `n₁,v₁,n₂,v₂,…`: server fields, the players one after another, the objectives -/
def flat (s : Status) : List Bytes :=
  (s.fields.flatMap fun kv => [kv.1, kv.2]) ++ playersFlat 0 s.players ++
    (s.objectives.flatMap fun kv => [kObj ++ kv.1, kv.2])

/-- `\f₁\f₂…` -/
def body (fs : List Bytes) : Bytes := fs.flatMap fun f => bsl :: f

/-- cut the field sequence before the given (strictly increasing) positions -/
def chunksFrom (fl : List Bytes) (prev : Nat) : List Nat → List (List Bytes)
  | [] => [fl]
  | c :: cs => fl.take (c - prev) :: chunksFrom (fl.drop (c - prev)) c cs

def chunks (fl : List Bytes) (cuts : List Nat) : List (List Bytes) := chunksFrom fl 0 cuts

def qidAMv1 : Bytes := bsl :: kQueryid ++ bsl :: vAMv1

/-- fragment `i` (zero-based) of `n` in a fragmenting dialect -/
def fragment (d : Dialect) (n i : Nat) (ch : List Bytes) : Bytes :=
  let last := i + 1 = n
  match d with
  | .gs1 => body ch ++ bsl :: kQueryid ++ bsl :: decimal (i + 1) ++ (if last then FINAL else [])
  | .am => pfxAM ++ decimal i ++ body ch ++ (if last then qidAMv1 ++ FINAL else []) ++ EOF
  | .amq => pfxAM ++ decimal i ++ body ch ++ qidAMv1 ++ (if last then FINAL else []) ++ EOF
  | .amn => pfxAM ++ decimal i ++ body ch ++ (if last then FINAL else []) ++ EOF
  | _ => []

def fragmentsFrom (d : Dialect) (n : Nat) : Nat → List (List Bytes) → List Bytes
  | _, [] => []
  | i, ch :: rest => fragment d n i ch :: fragmentsFrom d n (i + 1) rest

/-- the datagrams a server of dialect `d` sends for status `s`, cut before the field positions `cuts` -/
def encodeStatus (d : Dialect) (s : Status) (cuts : List Nat) : List Bytes :=
  match d with
  | .vanilla => [body (flat s) ++ FINAL ++ sfxVanilla]
  | .vanillaq => [body (flat s) ++ bsl :: kQueryid ++ bsl :: vGs1 ++ FINAL]
  | _ =>
    let chs := chunks (flat s) cuts
    fragmentsFrom d chs.length 0 chs

/-- fields the dialect's own framing adds to the field map (AppendixC: vanilla keeps `final` and
`queryid`; AdminMod's final fragment keeps `queryid`) -/
def framingFields : Dialect → List (Bytes × Bytes)
  | .vanilla => [(kFinal, []), (kQueryid, v11)]
  | .am => [(kQueryid, vAMv1)]
  | .amq => [(kQueryid, vAMv1)]
  | _ => []

/-- a Go map built from a key/value list: later duplicates win; values latin-1 → UTF-8 -/
def mkMap (kvs : List (Bytes × Bytes)) : List (Bytes × Bytes) :=
  kvs.foldl (fun m kv => insertKV kv.1 (latin1 kv.2) m) []

/-- **the faithful decoding** of status `s` sent in dialect `d`: server fields (plus the dialect's
framing fields), players by ascending index with their keys, objectives in order (raw bytes),
text latin-1 → UTF-8, dialect tag -/
def toResponse (d : Dialect) (s : Status) : Response :=
  { fields := mkMap (s.fields ++ framingFields d), players := s.players.map mkMap, objectives := s.objectives, version := d.ver }

abbrev noBsl (b : Bytes) : Prop := bsl ∉ b
abbrev noUsc (b : Bytes) : Prop := usc ∉ b

/-- well-formed status: what the game servers produce -/
structure WfStatus (s : Status) : Prop where
  /-- no backslash in any name, key or value -/
  fields_bsl : ∀ kv ∈ s.fields, noBsl kv.1 ∧ noBsl kv.2
  players_bsl : ∀ p ∈ s.players, ∀ kv ∈ p, noBsl kv.1 ∧ noBsl kv.2
  objectives_bsl : ∀ kv ∈ s.objectives, noBsl kv.1 ∧ noBsl kv.2
  /-- server field names: non-empty, no underscore, none of the framing words -/
  field_names : ∀ kv ∈ s.fields, kv.1 ≠ [] ∧ noUsc kv.1 ∧ kv.1 ≠ kQueryid ∧ kv.1 ≠ kFinal ∧ kv.1 ≠ kStatusresponse
  /-- player keys: no underscore, not the word `obj`; every player has at least one key -/
  player_keys : ∀ p ∈ s.players, p ≠ [] ∧ ∀ kv ∈ p, noUsc kv.1 ∧ kv.1 ≠ kObjBare
  /-- objective names are non-empty -/
  objective_names : ∀ kv ∈ s.objectives, kv.1 ≠ []
  /-- no value is the word `queryid` (an AdminMod fragment cut between a name and its value would
  lose it) or `statusresponse` (a fragment starting with it would be taken for AdminMod) -/
  values : ∀ v ∈ (s.fields.map (·.2)) ++ (s.players.flatMap fun p => p.map (·.2)) ++ s.objectives.map (·.2),
    v ≠ kQueryid ∧ v ≠ kStatusresponse

/-- cuts on a field sequence of length `len` as the generators draw them: strictly increasing,
inside the sequence (between any two fields, also between a name and its value, as in the
captured AdminMod responses).  The C08 theorems do not need it: `chunks` is total, and they hold
for every cut list (out-of-range or repeated cuts only produce empty chunks). -/
def WfCuts (len : Nat) (cuts : List Nat) : Prop :=
  cuts.Pairwise (· < ·) ∧ (∀ c ∈ cuts, 0 < c ∧ c < len)

end Swat4.GS1Spec
