import Swat4.Base.Bytes
/-!
# Data shared by the filter model and the filter specification

`details.Info` is a Go struct whose fields the code only ever reaches through reflection by
*param name* (`params.GetParamName`); a record is therefore modelled as the ordered list of
`(param name, value)` of its exported, non-ignored fields (the schema is `Facts.infoSchema`).
Go's `int` is 64 bit; values are unbounded `Int` here and the range is a hypothesis where it matters.
-/
namespace Swat4

/-- the value of one `details.Info` field: Go kinds `int`, `bool`, `string` -/
inductive Value where
  | int (n : Int)
  | bool (b : Bool)
  | str (s : Bytes)
  deriving DecidableEq, Repr, Inhabited

/-- a `details.Info` record: `(param name, value)` in declaration order -/
abbrev Info := List (Bytes × Value)

/-- `filter.Operator`: `EQ`, `NE`, `LT`, `GT` -/
inductive Op where
  | eq | ne | lt | gt
  deriving DecidableEq, Repr, Inhabited

/-- `time.Time`: the zero value (`IsZero`) or an instant in Unix nanoseconds -/
inductive FTime where
  | zero
  | at (ns : Int)
  deriving DecidableEq, Repr, Inhabited

/-- the byte string `" and "` that joins the clauses of a filter -/
def andSep : Bytes := [0x20, 0x61, 0x6e, 0x64, 0x20]

/-- Go's `int` range (64 bit) -/
def inInt64 (n : Int) : Bool := decide (-(2 : Int) ^ 63 ≤ n) && decide (n < (2 : Int) ^ 63)

end Swat4
