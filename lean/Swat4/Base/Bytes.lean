/-!
# Bytes

Go `[]byte` / `string` values are modelled as `List UInt8`.  This file holds the
executable helpers shared by every model file and the hex codec of the driver's line
protocol.  Core Lean only (the driver links as a `lean_exe`).
-/
namespace Swat4

abbrev Bytes := List UInt8

namespace Bytes

def hexDigit (n : Nat) : Char :=
  if n < 10 then Char.ofNat (48 + n) else Char.ofNat (87 + n)

/-- lower-case hex, two digits per byte (Go `hex.EncodeToString`) -/
def toHex (b : Bytes) : String :=
  String.ofList (b.flatMap fun x => [hexDigit (x.toNat / 16), hexDigit (x.toNat % 16)])

def hexVal (c : Char) : Option Nat :=
  if '0' ≤ c ∧ c ≤ '9' then some (c.toNat - 48)
  else if 'a' ≤ c ∧ c ≤ 'f' then some (c.toNat - 87)
  else if 'A' ≤ c ∧ c ≤ 'F' then some (c.toNat - 55)
  else none

def ofHexChars : List Char → Option Bytes
  | [] => some []
  | [_] => none
  | a :: b :: rest => do
    let x ← hexVal a
    let y ← hexVal b
    let r ← ofHexChars rest
    pure (UInt8.ofNat (x * 16 + y) :: r)

/-- `-` stands for the empty byte string in the line protocol -/
def ofHex (s : String) : Option Bytes :=
  if s = "-" then some [] else ofHexChars s.toList

def toHexTok (b : Bytes) : String := if b.isEmpty then "-" else toHex b

def ofString (s : String) : Bytes := s.toUTF8.toList
def ofAscii (s : String) : Bytes := s.toList.map fun c => UInt8.ofNat c.toNat

end Bytes
end Swat4
