import Swat4.Lemmas.FactsExtra15
import Swat4.Gen.Facts
import Swat4.Model.UseCases.Discovery
import Swat4.Lemmas.Prog
import Swat4.Lemmas.OnePerServer
/-!
# C15 — Refresh and revival enqueue exactly the right probes

`UC.refresh` / `UC.revive` model `refreshservers.Execute` / `reviveservers.Execute` as invoked by the
refresher / reviver components (`deadline = now + interval`, scope window `[now − scope, now − interval)`,
countdown window `[now, now + countdown)`).  The random draw of each server is the parameter `draws`.
-/
namespace Swat4.C15
open Swat4 Swat4.UC Std

/-- what a queued probe looks like from outside: payload, ready time, expiry -/
def view (q : QItem) : Probe × Int × GoTime := (q.probe, q.ready, q.expires)

/-- an `AddBetween` that is not dropped appends exactly one item -/
theorem enqueue_view (s : AbsState) (now : Int) (p : Probe) (after before : GoTime)
    (h : ∀ a b, after = some a → before = some b → a < b) :
    (s.enqueue now p after before).queue.map view =
      s.queue.map view ++ [(p, (match after with | some a => a | none => now), before)] ∧
    (s.enqueue now p after before).servers = s.servers ∧ (s.enqueue now p after before).instances = s.instances := by
  cases after with
  | none => cases before <;> simp [AbsState.enqueue, view]
  | some a =>
    cases before with
    | none => simp [AbsState.enqueue, view]
    | some b =>
      have hlt := h a b rfl rfl
      have : ¬ b ≤ a := by omega
      simp [AbsState.enqueue, view, this]

/-- an `AddBetween` with both bounds set and ready ≥ expiry changes nothing -/
theorem enqueue_dropped (s : AbsState) (now : Int) (p : Probe) (a b : Int) (h : a ≥ b) :
    s.enqueue now p (some a) (some b) = s := by
  unfold AbsState.enqueue
  simp [h]

/-- running `enqueueAll` over a list of servers whose probes are all accepted: the queue grows by exactly
one probe per server, in order, nothing else changes, and the count is the number of servers -/
theorem enqueueAll_run (mk : Server → Probe × GoTime × GoTime) (now : Int)
    (hok : ∀ sv a b, (mk sv).2.1 = some a → (mk sv).2.2 = some b → a < b) :
    ∀ (svrs : List Server) (s : AbsState) (n : Nat),
      ((enqueueAll mk svrs n).run s now).2 = n + svrs.length ∧
      ((enqueueAll mk svrs n).run s now).1.queue.map view =
        s.queue.map view ++ svrs.map (fun sv => ((mk sv).1, (match (mk sv).2.1 with | some a => a | none => now), (mk sv).2.2)) ∧
      ((enqueueAll mk svrs n).run s now).1.servers = s.servers := by
  intro svrs
  induction svrs with
  | nil => intro s n; simp [enqueueAll, Prog.run, pure]
  | cons sv rest ih =>
    intro s n
    have he := enqueue_view s now (mk sv).1 (mk sv).2.1 (mk sv).2.2 (hok sv)
    simp only [enqueueAll, Prog.run, Call.exec]
    have := ih (s.enqueue now (mk sv).1 (mk sv).2.1 (mk sv).2.2) (n + 1)
    refine ⟨?_, ?_, ?_⟩
    · rw [this.1]; simp; omega
    · rw [this.2.1, he.1]; simp
    · rw [this.2.2, he.2.1]

/-- **refresh**: one details probe per server whose port is known and which is not awaiting a details retry:
addressed to the stored query port, ready now, expiring at the next cycle, with the configured budget;
the reported count is their number; the registry is untouched. -/
theorem refresh_exact (s : AbsState) (now interval retries : Int) :
    let sel := s.filter { withStatus := Status.port, noStatus := Status.detailsRetry }
    let r := (refresh retries (now + interval)).run s now
    r.2 = .ok sel.length ∧
    r.1.queue.map view = s.queue.map view ++
      sel.map (fun sv => ((⟨sv.addr, sv.queryPort, .details, 0, retries⟩ : Probe), now, some (now + interval))) ∧
    r.1.servers = s.servers := by
  intro sel r
  have h := enqueueAll_run (fun sv => ((⟨sv.addr, sv.queryPort, .details, 0, retries⟩ : Probe), (none : GoTime), some (now + interval))) now
    (by intro sv a b ha; cases ha) sel s 0
  simp only [r, refresh, Prog.run_call, Call.exec, Prog.run_bind, Prog.run_pure]
  refine ⟨?_, ?_, ?_⟩
  · rw [h.1]; simp
  · exact h.2.1
  · exact h.2.2

/-- `selectCountdown` with a draw in `[0, spread)` lands in `[now, now + countdown)`; with countdown 0 it is `now` -/
theorem countdown_range (now cd d : Int) (hd : 0 ≤ d) (hlt : 0 < cd → d < cd) :
    now ≤ selectCountdown now (now + cd) d ∧ (0 < cd → selectCountdown now (now + cd) d < now + cd) ∧
    (cd ≤ 0 → selectCountdown now (now + cd) d = now) := by
  unfold selectCountdown
  by_cases h : now + cd ≤ now
  · rw [if_pos h]; exact ⟨by omega, fun hc => by omega, fun _ => rfl⟩
  · rw [if_neg h]; exact ⟨by omega, fun hc => by have := hlt hc; omega, fun hc => by omega⟩

/-- **revive** (countdown ≤ interval): one port probe per server last refreshed within `[now − scope, now − interval)`
whose port is neither known nor being discovered: addressed to the game port, ready at its drawn time within
`[now, now + countdown)`, expiring at the next cycle; the reported count equals the number enqueued. -/
theorem revive_exact (s : AbsState) (now interval scope countdown retries : Int) (draws : Nat → Int)
    (hi : 0 < interval) (hc : countdown ≤ interval)
    (hd : ∀ k, 0 ≤ draws k ∧ (0 < countdown → draws k < countdown)) :
    let sel := s.filter { activeAfter := some (now - scope), activeBefore := some (now - interval), noStatus := Status.port ||| Status.portRetry }
    let r := (revive retries (now - scope) (now - interval) now (now + countdown) (now + interval) draws).run s now
    r.2 = .ok sel.length ∧
    r.1.queue.map view = s.queue.map view ++
      sel.map (fun sv => ((⟨sv.addr, sv.addr.port, .port, 0, retries⟩ : Probe),
        selectCountdown now (now + countdown) (draws sv.addr.key), some (now + interval))) ∧
    r.1.servers = s.servers := by
  intro sel r
  have h := enqueueAll_run (fun sv => ((⟨sv.addr, sv.addr.port, .port, 0, retries⟩ : Probe),
      some (selectCountdown now (now + countdown) (draws sv.addr.key)), some (now + interval))) now
    (by
      intro sv a b ha hb
      simp only [Option.some.injEq] at ha hb
      subst ha hb
      have := countdown_range now countdown (draws sv.addr.key) (hd _).1 (hd _).2
      by_cases hcp : 0 < countdown
      · have := this.2.1 hcp; omega
      · have := this.2.2 (by omega); omega) sel s 0
  simp only [r, revive, Prog.run_call, Call.exec, Prog.run_bind, Prog.run_pure]
  refine ⟨?_, ?_, ?_⟩
  · rw [h.1]; simp
  · exact h.2.1
  · exact h.2.2

/-! ## countdown longer than the interval: some probes are dropped, the count is not -/

/-- is the probe made for `sv` accepted by `AddBetween` (explicit ready time before explicit expiry, or a bound absent)? -/
def kept (mk : Server → Probe × GoTime × GoTime) (sv : Server) : Bool :=
  match (mk sv).2.1, (mk sv).2.2 with
  | some a, some b => decide (a < b)
  | _, _ => true

/-- `enqueueAll` over any list, dropped probes included: the queue grows by exactly one probe per server whose probe is
accepted, in order; a dropped probe is not an error (`enqueue` returns nil), so the count is the number of servers -/
theorem enqueueAll_run_general (mk : Server → Probe × GoTime × GoTime) (now : Int) :
    ∀ (svrs : List Server) (s : AbsState) (n : Nat),
      ((enqueueAll mk svrs n).run s now).2 = n + svrs.length ∧
      ((enqueueAll mk svrs n).run s now).1.queue.map view =
        s.queue.map view ++ (svrs.filter (kept mk)).map
          (fun sv => ((mk sv).1, (match (mk sv).2.1 with | some a => a | none => now), (mk sv).2.2)) ∧
      ((enqueueAll mk svrs n).run s now).1.servers = s.servers := by
  intro svrs
  induction svrs with
  | nil => intro s n; simp [enqueueAll, pure]
  | cons sv rest ih =>
    intro s n
    simp only [enqueueAll, Prog.run, Call.exec]
    have := ih (s.enqueue now (mk sv).1 (mk sv).2.1 (mk sv).2.2) (n + 1)
    by_cases hk : kept mk sv = true
    · have he := enqueue_view s now (mk sv).1 (mk sv).2.1 (mk sv).2.2 (by
        intro a b ha hb
        unfold kept at hk
        rw [ha, hb] at hk
        simpa using hk)
      refine ⟨?_, ?_, ?_⟩
      · rw [this.1]; simp; omega
      · rw [this.2.1, he.1, List.filter_cons_of_pos hk]; simp
      · rw [this.2.2, he.2.1]
    · have hd : s.enqueue now (mk sv).1 (mk sv).2.1 (mk sv).2.2 = s := by
        unfold kept at hk
        cases ha : (mk sv).2.1 with
        | none => rw [ha] at hk; simp at hk
        | some a =>
          cases hb : (mk sv).2.2 with
          | none => rw [ha, hb] at hk; simp at hk
          | some b =>
            rw [ha, hb] at hk
            exact enqueue_dropped s now (mk sv).1 a b (by simpa using hk)
      rw [hd] at this ⊢
      refine ⟨?_, ?_, ?_⟩
      · rw [this.1]; simp; omega
      · rw [this.2.1, List.filter_cons_of_neg hk]
      · exact this.2.2

/-- **revive, any countdown — in particular countdown > interval** (no hypothesis on interval, scope, countdown or the
draws): `reviveservers.Execute` makes one port probe per selected server, ready at its drawn time, expiring at the next
cycle; `AddBetween` silently drops those whose drawn ready time is not before the deadline (`probes.go:51-54` returns nil),
so the queue grows by exactly the selected servers whose drawn ready time is before `now + interval`, in order, while the
reported count is the number *selected* (`reviveservers.go:88-101`: `probeCount++` after every nil return); the
registry is untouched.  For countdown ≤ interval nothing is dropped: `revive_exact`. -/
theorem revive_overlong (s : AbsState) (now interval scope countdown retries : Int) (draws : Nat → Int) :
    let sel := s.filter { activeAfter := some (now - scope), activeBefore := some (now - interval), noStatus := Status.port ||| Status.portRetry }
    let r := (revive retries (now - scope) (now - interval) now (now + countdown) (now + interval) draws).run s now
    r.2 = .ok sel.length ∧
    r.1.queue.map view = s.queue.map view ++
      (sel.filter fun sv => decide (selectCountdown now (now + countdown) (draws sv.addr.key) < now + interval)).map
        (fun sv => ((⟨sv.addr, sv.addr.port, .port, 0, retries⟩ : Probe),
          selectCountdown now (now + countdown) (draws sv.addr.key), some (now + interval))) ∧
    r.1.servers = s.servers := by
  intro sel r
  have h := enqueueAll_run_general (fun sv => ((⟨sv.addr, sv.addr.port, .port, 0, retries⟩ : Probe),
      some (selectCountdown now (now + countdown) (draws sv.addr.key)), some (now + interval))) now sel s 0
  simp only [r, revive, Prog.run_call, Call.exec, Prog.run_bind, Prog.run_pure]
  refine ⟨?_, ?_, ?_⟩
  · rw [h.1]; simp
  · exact h.2.1
  · exact h.2.2

/-- the number of probes a revival enqueues when the countdown may exceed the interval: the selected servers whose draw
lands before the deadline — at most, and in general fewer than, the reported count -/
theorem revive_overlong_count (s : AbsState) (now interval scope countdown retries : Int) (draws : Nat → Int) :
    let sel := s.filter { activeAfter := some (now - scope), activeBefore := some (now - interval), noStatus := Status.port ||| Status.portRetry }
    let r := (revive retries (now - scope) (now - interval) now (now + countdown) (now + interval) draws).run s now
    r.1.queue.length = s.queue.length +
      (sel.filter fun sv => decide (selectCountdown now (now + countdown) (draws sv.addr.key) < now + interval)).length ∧
    r.1.queue.length ≤ s.queue.length + sel.length := by
  intro sel r
  have h := (revive_overlong s now interval scope countdown retries draws).2.1
  have hl := congrArg List.length h
  simp only [List.length_map, List.length_append] at hl
  exact ⟨hl, by rw [hl]; exact Nat.add_le_add_left (List.length_filter_le _ _) _⟩

/-- a registry with one server refreshed at 0, port unknown -/
def overlongState : AbsState :=
  { servers := (∅ : ExtTreeMap Nat SRow).insert 65541 ⟨{ addr := ⟨1, 5⟩, queryPort := 6, status := Status.master, info := [], details := ⟨[], [], []⟩, refreshedAt := some 0, version := 1 }, 0⟩ }

/-- **count ≠ enqueued for countdown > interval** (non-vacuity of `revive_overlong`, and why the property restricts the
count claim to countdown ≤ interval): clock 100, interval 10, scope 200, countdown 50; the one selected server draws 30,
its ready time 130 is not before the deadline 110: the probe is dropped, the queue stays empty, the reported count is 1.
With a draw of 5 (ready 105 < 110) the probe is queued. -/
example :
    ((revive 3 (100 - 200) (100 - 10) 100 (100 + 50) (100 + 10) fun _ => 30).run overlongState 100).2 = .ok 1 ∧
    ((revive 3 (100 - 200) (100 - 10) 100 (100 + 50) (100 + 10) fun _ => 30).run overlongState 100).1.queue = [] ∧
    (((revive 3 (100 - 200) (100 - 10) 100 (100 + 50) (100 + 10) fun _ => 5).run overlongState 100).1.queue.map view) =
      [(⟨⟨1, 5⟩, 5, .port, 0, 3⟩, 105, some 110)] :=
  ⟨by rfl, by decide, by decide⟩

/-- non-vacuity of `revive_exact`: its hypotheses hold for interval 10, countdown 5, draws 2 on the same registry -/
example := revive_exact overlongState 100 10 200 5 3 (fun _ => 2) (by decide) (by decide) (fun _ => ⟨by decide, fun _ => by decide⟩)

/-- every enqueued revival probe is ready within `[now, now + countdown)` (at `now` when the countdown is 0) -/
theorem revive_ready_window (now countdown : Int) (d : Int) (hd : 0 ≤ d ∧ (0 < countdown → d < countdown)) :
    now ≤ selectCountdown now (now + countdown) d ∧
    (0 < countdown → selectCountdown now (now + countdown) d < now + countdown) ∧
    (countdown ≤ 0 → selectCountdown now (now + countdown) d = now) :=
  countdown_range now countdown d hd.1 hd.2

/-- membership in a filtered selection is the predicate on a stored row -/
theorem mem_filter (s : AbsState) (fs : FilterSet) (sv : Server) :
    sv ∈ s.filter fs ↔ ∃ kv ∈ s.servers.toList, fs.pred kv.2 = true ∧ kv.2.svr = sv := by
  unfold AbsState.filter
  simp only [List.mem_map, List.mem_filter]
  constructor
  · rintro ⟨kv, ⟨hm, hp⟩, rfl⟩; exact ⟨kv, hm, hp, rfl⟩
  · rintro ⟨kv, hm, hp, rfl⟩; exact ⟨kv, ⟨hm, hp⟩, rfl⟩

/-- a scope not larger than the interval leaves an empty window: nothing is revived -/
theorem revive_empty_window (s : AbsState) (now interval scope : Int) (noSt : Status) (h : scope ≤ interval) :
    s.filter { activeAfter := some (now - scope), activeBefore := some (now - interval), noStatus := noSt } = [] := by
  unfold AbsState.filter
  rw [List.map_eq_nil_iff, List.filter_eq_nil_iff]
  intro kv _
  simp only [FilterSet.pred]
  cases hr : kv.2.svr.refreshedAt with
  | none => simp
  | some t =>
    simp only [Bool.and_eq_true, decide_eq_true_eq, Bool.not_eq_true']
    intro hh
    omega

/-- what "selected for refresh" means on a record: port known, not awaiting a details retry -/
theorem refresh_pred (r : SRow) :
    ({ withStatus := Status.port, noStatus := Status.detailsRetry } : FilterSet).pred r =
      (Status.has r.svr.status Status.port && !Status.hasAny r.svr.status Status.detailsRetry) := by
  simp [FilterSet.pred]

/-- what "selected for revival" means on a record -/
theorem revive_pred (r : SRow) (lo hi : Int) :
    ({ activeAfter := some lo, activeBefore := some hi, noStatus := Status.port ||| Status.portRetry } : FilterSet).pred r =
      (!Status.hasAny r.svr.status (Status.port ||| Status.portRetry) &&
        match r.svr.refreshedAt with | none => false | some t => decide (lo ≤ t) && decide (t < hi)) := by
  simp only [FilterSet.pred]
  cases r.svr.refreshedAt with
  | none => simp [Status.has]
  | some t =>
    have : Status.has r.svr.status 0#9 = true := by simp [Status.has]
    simp only [this, Bool.true_and, Bool.and_true]
    cases Status.hasAny r.svr.status (Status.port ||| Status.portRetry) <;> simp [Bool.and_comm]

/-- non-vacuity: a registry with one server whose port is known yields one refresh probe -/
example : (({ servers := (∅ : ExtTreeMap Nat SRow).insert 5 ⟨{ addr := ⟨0, 5⟩, queryPort := 6, status := Status.port, info := [], details := ⟨[], [], []⟩, refreshedAt := none, version := 1 }, 0⟩ } : AbsState).filter
    { withStatus := Status.port, noStatus := Status.detailsRetry }).length = 1 := by
  decide

/-- **Configuration wiring (regenerated fact).**  How configuration reaches the discovery settings: retry budgets (command line → settings → use-case options) and the refresher / reviver configuration: every field of every
configuration literal in `cmd/swat4master` that concerns this property, with the source text of the value it is given
(`verifharness facts`, go/ast, on every run).  A command-line value wired to another field, a unit conversion or a
`max`/`min` slipped into one of these literals changes the generated list and breaks this theorem; the harness itself
drives these components through their real fx modules (DESIGN 10.8), this pins what the modules are given. -/
def configRows : List (String × String × String × String × String) :=
    [("components/refresher/refresher.go", "*command.Run", "Config", "RefreshInterval", "globals.DiscoveryRefreshInterval"),
     ("components/reviver/reviver.go", "*command.Run", "Config", "RevivalInterval", "globals.DiscoveryRevivalInterval"),
     ("components/reviver/reviver.go", "*command.Run", "Config", "RevivalCountdown", "globals.DiscoveryRevivalCountdown"),
     ("components/reviver/reviver.go", "*command.Run", "Config", "RevivalScope", "globals.DiscoveryRevivalScope"),
     ("container/container.go", "NewUseCaseConfigs", "addserver.UseCaseOptions", "MaxProbeRetries", "settings.DiscoveryRevivalRetries"),
     ("container/container.go", "NewUseCaseConfigs", "reportserver.UseCaseOptions", "MaxProbeRetries", "settings.DiscoveryRevivalRetries"),
     ("container/container.go", "NewUseCaseConfigs", "refreshservers.UseCaseOptions", "MaxProbeRetries", "settings.DiscoveryRefreshRetries"),
     ("container/container.go", "NewUseCaseConfigs", "reviveservers.UseCaseOptions", "MaxProbeRetries", "settings.DiscoveryRevivalRetries"),
     ("main.go", "main", "settings.Settings", "DiscoveryRevivalRetries", "cli.Globals.DiscoveryRevivalRetries"),
     ("main.go", "main", "settings.Settings", "DiscoveryRefreshRetries", "cli.Globals.DiscoveryRefreshRetries")]

theorem facts_config_wiring :
    (Facts.configWiring.filter fun r => configRows.contains r) = configRows ∧
    (Facts.configWiring.filter fun r => configRows.any fun c => c.1 == r.1 && c.2.1 == r.2.1 && c.2.2.1 == r.2.2.1 && c.2.2.2.1 == r.2.2.2.1) = configRows := by
  decide

end Swat4.C15

/-! # Additions (review round 2): "exactly one probe per selected server", per address

`refresh_exact` / `revive_exact` give the appended queue items as `sel.map …`; "exactly one per server" was implicit in
the `map`.  Under `Keyed` (every registry row is stored under the key of its own address — the C09/C10 invariant `keyed`,
so no address occurs in two rows) the statements below count, for **every** address `a`, the probes a cycle appended for
`a`: exactly 1 if a selected server has that address, 0 otherwise ("… and nothing else"). -/
namespace Swat4.C15
open Swat4 Swat4.UC Std

/-- the items a cycle appended to the queue: what stands after the old items -/
def added (s r : AbsState) : List QItem := r.queue.drop s.queue.length

theorem added_view {s r : AbsState} {L : List (Probe × Int × GoTime)} (h : r.queue.map view = s.queue.map view ++ L) :
    (added s r).map view = L := by
  unfold added
  rw [List.map_drop, h]
  have : s.queue.length = (s.queue.map view).length := by rw [List.length_map]
  rw [this, List.drop_left]

/-- counting the appended probes addressed to `a`, given the appended views as a `map` over the selection -/
theorem added_count {s r : AbsState} {sel : List Server} {f : Server → Probe × Int × GoTime}
    (hf : ∀ sv, (f sv).1.addr = sv.addr) (h : r.queue.map view = s.queue.map view ++ sel.map f)
    (hnd : (sel.map (·.addr)).Nodup) (a : Addr) :
    ((added s r).filter fun q => decide (q.probe.addr = a)).length = if a ∈ sel.map (·.addr) then 1 else 0 := by
  have h1 : ((added s r).filter fun q => decide (q.probe.addr = a)).length =
      (((added s r).map view).filter fun v => decide (v.1.addr = a)).length := by
    rw [List.filter_map, List.length_map]; rfl
  rw [h1, added_view h, List.filter_map, List.length_map]
  have h2 : ((fun v : Probe × Int × GoTime => decide (v.1.addr = a)) ∘ f) = fun sv => decide (sv.addr = a) := by
    funext sv; simp only [Function.comp, hf]
  rw [h2]
  exact filter_length_of_nodup (·.addr) sel hnd a

/-- **`refresh_one_per_server`** (clause "a refresh cycle enqueues exactly one details probe … for every server whose query
port is known and that is not already awaiting a details retry, and nothing else"): under `Keyed`, for every address `a`
the number of probes the cycle appended that are addressed to `a` is exactly 1 if a selected server has address `a` and
0 otherwise; and the appended items are as many as the selected servers. -/
theorem refresh_one_per_server (s : AbsState) (hk : Keyed s) (now interval retries : Int) (a : Addr) :
    let sel := s.filter { withStatus := Status.port, noStatus := Status.detailsRetry }
    let r := (refresh retries (now + interval)).run s now
    ((added s r.1).filter fun q => decide (q.probe.addr = a)).length = (if a ∈ sel.map (·.addr) then 1 else 0) ∧
    (added s r.1).length = sel.length := by
  intro sel r
  have h := (refresh_exact s now interval retries).2.1
  refine ⟨added_count (fun _ => rfl) h (filter_addr_nodup hk _) a, ?_⟩
  have := congrArg List.length (added_view h)
  simpa using this

/-- **`revive_one_per_server`** (clause "a revival cycle enqueues exactly one port probe for every server last refreshed
within [now-scope, now-interval) whose port is neither known nor being discovered", countdown ≤ interval as in
`revive_exact`): under `Keyed`, for every address `a` exactly 1 appended probe is addressed to `a` if a selected server
has that address, 0 otherwise; the appended items are as many as the selected servers. -/
theorem revive_one_per_server (s : AbsState) (hk : Keyed s) (now interval scope countdown retries : Int) (draws : Nat → Int)
    (hi : 0 < interval) (hc : countdown ≤ interval)
    (hd : ∀ k, 0 ≤ draws k ∧ (0 < countdown → draws k < countdown)) (a : Addr) :
    let sel := s.filter { activeAfter := some (now - scope), activeBefore := some (now - interval), noStatus := Status.port ||| Status.portRetry }
    let r := (revive retries (now - scope) (now - interval) now (now + countdown) (now + interval) draws).run s now
    ((added s r.1).filter fun q => decide (q.probe.addr = a)).length = (if a ∈ sel.map (·.addr) then 1 else 0) ∧
    (added s r.1).length = sel.length := by
  intro sel r
  have h := (revive_exact s now interval scope countdown retries draws hi hc hd).2.1
  refine ⟨added_count (fun _ => rfl) h (filter_addr_nodup hk _) a, ?_⟩
  have := congrArg List.length (added_view h)
  simpa using this

/-- … and for any countdown (probes whose draw lands at or after the deadline are dropped, `revive_overlong`): at most
one appended probe per address, and none for an address that is not selected -/
theorem revive_at_most_one_per_server (s : AbsState) (hk : Keyed s) (now interval scope countdown retries : Int)
    (draws : Nat → Int) (a : Addr) :
    let sel := s.filter { activeAfter := some (now - scope), activeBefore := some (now - interval), noStatus := Status.port ||| Status.portRetry }
    let r := (revive retries (now - scope) (now - interval) now (now + countdown) (now + interval) draws).run s now
    ((added s r.1).filter fun q => decide (q.probe.addr = a)).length ≤ 1 ∧
    (a ∉ sel.map (·.addr) → ((added s r.1).filter fun q => decide (q.probe.addr = a)).length = 0) := by
  intro sel r
  have h := (revive_overlong s now interval scope countdown retries draws).2.1
  have hsub : ((sel.filter fun sv => decide (selectCountdown now (now + countdown) (draws sv.addr.key) < now + interval)).map
      (·.addr)).Sublist (sel.map (·.addr)) := (List.filter_sublist).map _
  have hc := added_count (fun _ => rfl) h (hsub.nodup (filter_addr_nodup hk _)) a
  rw [hc]
  refine ⟨by split <;> omega, fun hn => ?_⟩
  rw [if_neg (fun hm => hn (hsub.subset hm))]

/-- the one-row registry of the examples is `Keyed` -/
theorem overlongState_keyed : Keyed overlongState := by
  intro k row h
  simp only [overlongState] at h
  rw [ExtTreeMap.getElem?_insert] at h
  split at h
  · rename_i hk
    simp only [Option.some.injEq] at h
    subst h
    simpa [compare_eq_iff_eq, Addr.key] using hk
  · simp at h

/-- non-vacuity: on that registry a revival (interval 10, countdown 5) appends exactly one probe for address `1:5` and
none for `2:5` -/
example :
    let r := (revive 3 (100 - 200) (100 - 10) 100 (100 + 5) (100 + 10) fun _ => 2).run overlongState 100
    ((added overlongState r.1).filter fun q => decide (q.probe.addr = ⟨1, 5⟩)).length = 1 ∧
    ((added overlongState r.1).filter fun q => decide (q.probe.addr = ⟨2, 5⟩)).length = 0 := by
  intro r
  have h1 := (revive_one_per_server overlongState overlongState_keyed 100 10 200 5 3 (fun _ => 2) (by decide) (by decide)
    (fun _ => ⟨by decide, fun _ => by decide⟩) ⟨1, 5⟩).1
  have h2 := (revive_one_per_server overlongState overlongState_keyed 100 10 200 5 3 (fun _ => 2) (by decide) (by decide)
    (fun _ => ⟨by decide, fun _ => by decide⟩) ⟨2, 5⟩).1
  exact ⟨h1.trans (by decide), h2.trans (by decide)⟩

/-- a registry with one server whose query port is known -/
def refreshState : AbsState :=
  { servers := (∅ : ExtTreeMap Nat SRow).insert 5 ⟨{ addr := ⟨0, 5⟩, queryPort := 6, status := Status.port, info := [], details := ⟨[], [], []⟩, refreshedAt := none, version := 1 }, 0⟩ }

theorem refreshState_keyed : Keyed refreshState := by
  intro k row h
  simp only [refreshState] at h
  rw [ExtTreeMap.getElem?_insert] at h
  split at h
  · rename_i hk
    simp only [Option.some.injEq] at h
    subst h
    simpa [compare_eq_iff_eq, Addr.key] using hk
  · simp at h

/-- non-vacuity of `refresh_one_per_server`: one details probe for `0:5`, none for `0:6` -/
example :
    let r := (refresh 4 (100 + 10)).run refreshState 100
    ((added refreshState r.1).filter fun q => decide (q.probe.addr = ⟨0, 5⟩)).length = 1 ∧
    ((added refreshState r.1).filter fun q => decide (q.probe.addr = ⟨0, 6⟩)).length = 0 := by
  intro r
  exact ⟨(refresh_one_per_server refreshState refreshState_keyed 100 10 4 ⟨0, 5⟩).1.trans (by decide),
    (refresh_one_per_server refreshState refreshState_keyed 100 10 4 ⟨0, 6⟩).1.trans (by decide)⟩

end Swat4.C15
