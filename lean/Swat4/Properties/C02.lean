import Swat4.Lemmas.Crypt
import Swat4.Lemmas.CryptChecked
import Swat4.Gen.Facts
import Swat4.Lemmas.RecoverRnd
/-!
# C02 — Encrypted replies are decryptable by the stock GameSpy client cipher

Property theorems only.  `Crypt.*` is the model of `pkg/gamespy/crypt`; `GOA.refDecrypt`
is the SDK-side reference written independently of it.
-/
namespace Swat4.C02
open Swat4 Swat4.Crypt

/-- the fuelled model of `Encrypt` never runs out of fuel: `Encrypt` is total -/
theorem encrypt_total (secret : Secret) (chal : Challenge) (rnd : Rnd) (p : Bytes) :
    (encrypt? secret chal rnd p).isSome := by
  unfold encrypt?
  have := newCipherState?_isSome (cryptKey secret chal rnd)
  cases h : newCipherState? (cryptKey secret chal rnd) with
  | none => rw [h] at this; cases this
  | some st => rfl

/-- the ciphertext is always plaintext length plus 23 bytes -/
theorem encrypt_length (secret : Secret) (chal : Challenge) (rnd : Rnd) (p out : Bytes)
    (h : encrypt? secret chal rnd p = some out) : out.length = p.length + 23 := by
  unfold encrypt? at h
  cases hs : newCipherState? (cryptKey secret chal rnd) with
  | none => rw [hs] at h; cases h
  | some st =>
    rw [hs] at h
    cases h
    rw [List.length_append, Crypt.encrypt_length]; show 23 + p.length = _; omega

/-- every cipher state decrypts its own output (the stream part of the round trip) -/
theorem dec_enc_stream (s : CipherState) (p : Bytes) : s.decrypt (s.encrypt p) = p :=
  Crypt.dec_enc_stream s p

/-- the converse: every byte string is the ciphertext of its own decryption (the stream cipher is onto) -/
theorem enc_dec_stream (s : CipherState) (c : Bytes) : s.encrypt (s.decrypt c) = c :=
  Crypt.enc_dec_stream s c

/-- `Encrypt` never maps two different listings to the same reply: for one secret, challenge and header draws, equal
outputs mean equal plaintexts (so a client can never be shown a listing other than the one packed) -/
theorem encrypt_injective (secret : Secret) (chal : Challenge) (rnd : Rnd) (p q out : Bytes)
    (hp : encrypt? secret chal rnd p = some out) (hq : encrypt? secret chal rnd q = some out) : p = q := by
  unfold encrypt? at hp hq
  cases hs : newCipherState? (cryptKey secret chal rnd) with
  | none => rw [hs] at hp; cases hp
  | some st =>
    rw [hs] at hp hq
    cases hp
    have h := Option.some.inj hq
    exact (Crypt.encrypt_stream_injective st p q (List.append_cancel_left h).symm)

/-- the first 23 bytes of every reply are the header alone: they depend on the secret, the challenge and the draws, never
on the plaintext (`Encrypt` prepends the header it derived the key from, state.go/crypt.go) -/
theorem reply_header (secret : Secret) (chal : Challenge) (rnd : Rnd) (p out : Bytes)
    (h : encrypt? secret chal rnd p = some out) : out.take 23 = header secret chal rnd := by
  unfold encrypt? at h
  cases hs : newCipherState? (cryptKey secret chal rnd) with
  | none => rw [hs] at h; cases h
  | some st =>
    rw [hs] at h
    cases h
    exact List.take_left' (l₁ := header secret chal rnd) rfl

/-- two plaintexts of any lengths get the same 23 leading bytes under the same secret, challenge and draws -/
theorem reply_header_plain_independent (secret : Secret) (chal : Challenge) (rnd : Rnd) (p q outp outq : Bytes)
    (hp : encrypt? secret chal rnd p = some outp) (hq : encrypt? secret chal rnd q = some outq) :
    outp.take 23 = outq.take 23 := by
  rw [reply_header secret chal rnd p outp hp, reply_header secret chal rnd q outq hq]

/-- non-vacuity of `encrypt_injective`: its hypotheses are met (p = q = "A" under the game key) -/
example : ∃ out, encrypt? gameSecret (Vector.replicate 8 1) (Vector.replicate 23 0) [0x41] = some out :=
  Option.isSome_iff_exists.mp (encrypt_total _ _ _ _)

/-- SDK key mixing over the header that `Encrypt` emitted yields the key `Encrypt` used -/
theorem key_agree (secret : Secret) (hs : ∀ b ∈ secret.toList, b ≠ 0) (chal : Challenge) (rnd : Rnd) :
    GOA.mixKey secret.toList ((header secret chal rnd).drop 9) chal.toList =
      (cryptKey secret chal rnd).toList :=
  mixKey_agree secret hs _ (by show 14 ≤ 256; omega) chal

/-- the SDK key schedule (`GOACryptInit`, running mask) equals the Go one (`newCipherState`, per-limit mask) -/
theorem schedule_agree (key : Key) : GOA.cryptInit key.toList 8 = (newCipherState? key).map toRef :=
  cryptInit_agree key

/-- **C02.** For every 6-byte NUL-free secret, 8-byte challenge, 23 random draws and plaintext of
any length, the stock SDK decoder applied to `Encrypt`'s output returns exactly the plaintext. -/
theorem C02_main (secret : Secret) (hs : ∀ b ∈ secret.toList, b ≠ 0) (chal : Challenge) (rnd : Rnd)
    (p out : Bytes) (h : encrypt? secret chal rnd p = some out) :
    GOA.refDecrypt secret.toList chal.toList out = some p := by
  unfold encrypt? at h
  cases hst : newCipherState? (cryptKey secret chal rnd) with
  | none => rw [hst] at h; cases h
  | some st =>
    rw [hst] at h
    cases h
    have hhdr : header secret chal rnd ++ st.encrypt p =
        (0xeb : UInt8) :: ((header secret chal rnd).drop 1 ++ st.encrypt p) := rfl
    unfold GOA.refDecrypt
    rw [hhdr]
    simp only
    rw [← hhdr]
    have hoff : ((0xeb : UInt8) ^^^ 0xEC).toNat + 2 = 9 := by decide
    have hlen : (header secret chal rnd).length = 23 := rfl
    rw [hoff]
    have h8 : (header secret chal rnd ++ st.encrypt p).getD (9 - 1) 0 = 14 ^^^ 0xea := rfl
    rw [h8]
    have hkl : ((14 : UInt8) ^^^ 0xea ^^^ 0xEA).toNat = 14 := by decide
    rw [hkl]
    have hl1 : ¬ (header secret chal rnd ++ st.encrypt p).length < 9 := by
      rw [List.length_append, hlen]; omega
    have hl2 : ¬ (header secret chal rnd ++ st.encrypt p).length < 9 + 14 := by
      rw [List.length_append, hlen]; omega
    simp only [hl1, hl2, if_false]
    have hkey : ((header secret chal rnd ++ st.encrypt p).drop 9).take 14 = (header secret chal rnd).drop 9 := by
      rw [List.drop_append_of_le_length (by omega), List.take_append_of_le_length (by rw [List.length_drop, hlen]; omega)]
      exact List.take_of_length_le (by rw [List.length_drop, hlen]; omega)
    have hrest : (header secret chal rnd ++ st.encrypt p).drop (9 + 14) = st.encrypt p := by
      have : 9 + 14 = (header secret chal rnd).length := by rw [hlen]
      rw [this, List.drop_left]
    rw [hkey, key_agree secret hs chal rnd, schedule_agree, hst]
    simp only [Option.map_some]
    rw [hrest, decryptAll_agree, Crypt.dec_enc_stream]

/-- the constants the model is written against are the ones in the source (regenerated `Gen/Facts.lean`):
6-byte secret, 14-byte server challenge, 8-byte client challenge = crypt key, 23-byte header;
the SWAT4 secret is six NUL-free 7-bit bytes (so it is a C string of length 6 with non-negative `char`s) -/
theorem facts_ok : Facts.GMSL = 6 ∧ Facts.SCHL = 14 ∧ Facts.CCHL = 8 ∧ Facts.CRTL = 8 ∧ Facts.HDRL = 23 ∧
    Facts.gameEncKey.length = 6 ∧ (∀ b ∈ Facts.gameEncKey, b ≠ 0 ∧ b < 128) := by decide

/-- the secret the browser handler uses, as read from the source -/
def gameSecret : Secret := ⟨Facts.gameEncKey.toArray, by decide⟩

/-- **C02 for the deployed key**: replies encrypted under the source's `GameEncKey` decode with the SDK algorithm -/
theorem C02_swat4 (chal : Challenge) (rnd : Rnd) (p out : Bytes)
    (h : encrypt? gameSecret chal rnd p = some out) :
    GOA.refDecrypt Facts.gameEncKey chal.toList out = some p :=
  C02_main gameSecret (by decide) chal rnd p out h

/-- **C02, audited headline (7-bit secrets).**  The GameSpy SDK holds the secret in `char` (signed on the
platforms the game shipped on), and the reference `GOA` does its arithmetic on unsigned bytes; the two are
known to coincide only when every secret byte is below 128 (a non-negative `char`), which is also what a
printable game secret is.  So the claim "the stock client decodes the reply" is made for secrets whose six
bytes are non-zero and below 128; `C02_main` above is the same statement for all NUL-free 8-bit secrets,
where `GOA` is the model's own reading of the algorithm rather than the SDK's. -/
theorem C02_main_ascii (secret : Secret) (hs : ∀ b ∈ secret.toList, b ≠ 0 ∧ b < 128) (chal : Challenge) (rnd : Rnd)
    (p out : Bytes) (h : encrypt? secret chal rnd p = some out) :
    GOA.refDecrypt secret.toList chal.toList out = some p :=
  C02_main secret (fun b hb => (hs b hb).1) chal rnd p out h

/-- **No index panic in the key schedule (C02 "decryptable" presupposes a reply; C06 "never panics").**
`cryptKey[keypos]` in `shuffle` (state.go) is the cipher's only data-dependent index into the 8-byte key;
the model reads it as `kget k i = k[i.toNat % 8]`.  With the index *checked* instead (`kgetC`: `none`
outside `0..7`, propagated through `shuffleIterC` … `newCipherStateC?` like the Go panic would be), the key
schedule is the model's on every key and succeeds: `keypos < 8` at every read, so the `% 8` never changes
the index and `newCipherState` cannot panic there.  The per-step facts: the first read is at `keypos = 0`;
from an in-range `keypos` one pass of the loop body, a whole `shuffle`, and the checked read agree with the
model and leave `keypos` in range. -/
theorem keypos_in_range (key : Key) :
    newCipherStateC? key = newCipherState? key ∧ (newCipherStateC? key).isSome ∧
    (∀ (i : UInt8), i.toNat < 8 → kgetC key i = some (kget key i)) ∧
    (∀ (i : UInt8), 8 ≤ i.toNat → kgetC key i = none) ∧
    (∀ cards limit mask tries rsum (kp : UInt8), kp.toNat < 8 →
      shuffleIterC cards key limit mask tries rsum kp = some (shuffleIter cards key limit mask tries rsum kp) ∧
      (shuffleIter cards key limit mask tries rsum kp).2.2.toNat < 8) ∧
    (∀ cards limit rsum (kp : UInt8) r, kp.toNat < 8 → shuffle cards key limit rsum kp = some r →
      shuffleC cards key limit rsum kp = some r ∧ r.2.2.toNat < 8) := by
  refine ⟨newCipherStateC?_eq key, ?_, kgetC_of_lt key, kgetC_of_ge key, ?_, ?_⟩
  · rw [newCipherStateC?_eq]; exact newCipherState?_isSome key
  · intro cards limit mask tries rsum kp hk
    exact ⟨shuffleIterC_eq _ _ _ _ _ _ _ hk, iter_keypos_lt _ _ _ _ _ _ _ hk⟩
  · intro cards limit rsum kp r hk h
    exact ⟨by rw [shuffleC_eq _ _ _ _ _ hk]; exact h, shuffle_keypos_lt _ _ _ _ _ hk r h⟩

/-- so `Encrypt` with the checked key schedule is `Encrypt`: it returns the same bytes on every input -/
theorem encrypt_checked (secret : Secret) (chal : Challenge) (rnd : Rnd) (p : Bytes) :
    (match newCipherStateC? (cryptKey secret chal rnd) with
     | none => none
     | some st => some (header secret chal rnd ++ st.encrypt p)) = encrypt? secret chal rnd p := by
  unfold encrypt?
  rw [newCipherStateC?_eq]
  cases newCipherState? (cryptKey secret chal rnd) <;> rfl

/-- the checked read does fail out of range (the agreement above is not vacuous), on a concrete key -/
example : kgetC ⟨#[1, 2, 3, 4, 5, 6, 7, 8], rfl⟩ 8 = none ∧ kgetC ⟨#[1, 2, 3, 4, 5, 6, 7, 8], rfl⟩ 7 = some 8 ∧
    kget ⟨#[1, 2, 3, 4, 5, 6, 7, 8], rfl⟩ 8 = 1 := by decide

/-- the SWAT4 secret satisfies the hypothesis of `C02_main_ascii` -/
example : ∀ b ∈ gameSecret.toList, b ≠ 0 ∧ b < 128 := by decide

end Swat4.C02

/-- non-vacuity: the SWAT4 secret `tG3j8c` satisfies the hypothesis of `C02_main` -/
example : ∀ b ∈ (⟨#[0x74, 0x47, 0x33, 0x6a, 0x38, 0x63], rfl⟩ : Swat4.Crypt.Secret).toList, b ≠ 0 := by decide

/-! # Additions (review round 3): the driver's reconstruction of the random draws

The C02 (and C01) driver cannot observe the 23 `RandInt` draws of the real `crypt.Encrypt`; it recovers them from the reply
(`Drv.C02.recoverRnd`, defined only in the driver) and runs the model with the recovered vector.  The theorems say that this
loses nothing.  Proofs in `Lemmas/RecoverRnd.lean`. -/
namespace Swat4.C02
open Swat4 Swat4.Crypt

/-- **the reconstruction is justified.**  If `out` is the output of `Encrypt` for the (unknown) draws `rnd`, then the vector
the driver reconstructs from `out` has the right length, equals `recovered secret chal rnd` — which is `rnd` at each of the
19 positions that reach the output (`recoverRnd_agrees`) — and the model run with it returns exactly `out`. -/
theorem recoverRnd_encrypt (secret : Secret) (chal : Challenge) (rnd : Rnd) (plain out : Bytes)
    (h : encrypt? secret chal rnd plain = some out) :
    Drv.toVec? 23 (Drv.C02.recoverRnd secret.toList chal.toList out) = some (recovered secret chal rnd) ∧
    encrypt? secret chal (recovered secret chal rnd) plain = some out :=
  Crypt.recoverRnd_encrypt secret chal rnd plain out h

/-- the reconstructed vector is the real one wherever `Encrypt` does not overwrite the header (positions 0, 1, 2, 8 are
overwritten; the draws there never reach the output) -/
theorem recoverRnd_agrees (secret : Secret) (chal : Challenge) (rnd : Rnd) (i : Nat) (h : i < 23)
    (h0 : i ≠ 0) (h1 : i ≠ 1) (h2 : i ≠ 2) (h8 : i ≠ 8) : (recovered secret chal rnd)[i] = rnd[i] :=
  Crypt.recovered_agrees secret chal rnd i h h0 h1 h2 h8

/-- … as the driver's `enc` arm uses it: secret and challenge as byte strings passing the length checks -/
theorem recoverRnd_encrypt_bytes (s c : Bytes) (sv : Secret) (cv : Challenge) (rv : Rnd) (plain out : Bytes)
    (hs : Drv.toVec? 6 s = some sv) (hc : Drv.toVec? 8 c = some cv) (h : encrypt? sv cv rv plain = some out) :
    ∃ rv' : Rnd, Drv.toVec? 23 (Drv.C02.recoverRnd s c out) = some rv' ∧ encrypt? sv cv rv' plain = some out ∧
      ∀ (i : Nat) (hi : i < 23), i ≠ 0 → i ≠ 1 → i ≠ 2 → i ≠ 8 → rv'[i] = rv[i] :=
  Crypt.recoverRnd_encrypt_bytes s c sv cv rv plain out hs hc h

/-- **`recoverRnd (encrypt? … rnd …) = rnd`** for well-formed draws: right length (by type) and the canonical values at the
four positions the output does not depend on -/
theorem recoverRnd_encrypt_exact (secret : Secret) (chal : Challenge) (rnd : Rnd) (plain out : Bytes)
    (h0 : rnd[0] = (0xeb : UInt8) ^^^ secret[0] ^^^ chal[0]) (h1 : rnd[1] = (0x00 : UInt8) ^^^ secret[1] ^^^ chal[1])
    (h2 : rnd[2] = (0x00 : UInt8) ^^^ secret[2] ^^^ chal[2])
    (h8 : rnd[8] = ((14 : UInt8) ^^^ (0xea : UInt8)) ^^^ secret[2] ^^^ chal[0])
    (h : encrypt? secret chal rnd plain = some out) :
    Drv.toVec? 23 (Drv.C02.recoverRnd secret.toList chal.toList out) = some rnd :=
  Crypt.recoverRnd_encrypt_exact secret chal rnd plain out h0 h1 h2 h8 h

/-- the unrestricted equation is **false**, and harmlessly so: the draw at position 0 (likewise 1, 2, 8) does not reach the
output, so it cannot be recovered — and need not be -/
theorem recoverRnd_dead_position (secret : Secret) (chal : Challenge) (rnd : Rnd) (x : UInt8) (plain : Bytes) :
    encrypt? secret chal (rnd.set 0 x) plain = encrypt? secret chal rnd plain :=
  Crypt.recoverRnd_not_injective secret chal rnd x plain

/-- non-vacuity: for the SWAT4 secret, a concrete challenge and all-zero draws the model produces a reply (the hypothesis
of `recoverRnd_encrypt` holds), the reconstruction differs from the real draws at position 0 only in the dead positions,
and the model run with it gives the same reply -/
example :
    let cv : Challenge := ⟨#[1, 2, 3, 4, 5, 6, 7, 8], rfl⟩
    let rv : Rnd := Vector.replicate 23 0
    (encrypt? gameSecret cv rv [0x41]).isSome = true ∧ recovered gameSecret cv rv ≠ rv ∧
    encrypt? gameSecret cv (recovered gameSecret cv rv) [0x41] = encrypt? gameSecret cv rv [0x41] := by
  refine ⟨encrypt_total _ _ _ _, by decide, Crypt.encrypt?_recovered _ _ _ _⟩

/-- … and draws satisfying the four hypotheses of `recoverRnd_encrypt_exact` exist: `recovered … rnd` itself -/
example (secret : Secret) (chal : Challenge) (rnd : Rnd) :
    let r := recovered secret chal rnd
    r[0] = (0xeb : UInt8) ^^^ secret[0] ^^^ chal[0] ∧ r[1] = (0x00 : UInt8) ^^^ secret[1] ^^^ chal[1] ∧
    r[2] = (0x00 : UInt8) ^^^ secret[2] ^^^ chal[2] ∧ r[8] = ((14 : UInt8) ^^^ (0xea : UInt8)) ^^^ secret[2] ^^^ chal[0] :=
  ⟨rfl, rfl, rfl, rfl⟩

end Swat4.C02
